// belongs in the module root directory (package mux_test); does not need -race

package mux_test

import (
	"io"
	"maps"
	"net/http"
	"net/http/httptest"
	"slices"
	"testing"

	"github.com/issue9/mux/v9"
	"github.com/issue9/mux/v9/header"
	"github.com/issue9/mux/v9/types"
)

func huntRouter() *mux.Router[http.Handler] {
	call := func(w http.ResponseWriter, r *http.Request, _ types.Route, h http.Handler) { h.ServeHTTP(w, r) }
	b405 := func(n types.Node) http.Handler {
		return http.HandlerFunc(func(w http.ResponseWriter, _ *http.Request) {
			w.Header().Set(header.Allow, n.AllowHeader())
			w.WriteHeader(http.StatusMethodNotAllowed)
		})
	}
	bOpt := func(n types.Node) http.Handler {
		return http.HandlerFunc(func(w http.ResponseWriter, _ *http.Request) {
			w.Header().Set(header.Allow, n.AllowHeader())
		})
	}
	return mux.NewRouter[http.Handler]("hunt", call, http.NotFoundHandler(), b405, bOpt)
}

func huntBody(s string) http.Handler {
	return http.HandlerFunc(func(w http.ResponseWriter, _ *http.Request) { _, _ = io.WriteString(w, s) })
}

func huntGet(h http.Handler, path string) string {
	w := httptest.NewRecorder()
	h.ServeHTTP(w, httptest.NewRequest(http.MethodGet, path, nil))
	return w.Body.String()
}

// The same program is run twice: once through the Prefix facade, once through
// its translation into plain Router calls (Prefix.Clean == Router.Remove of every
// route whose pattern starts with the prefix). Both must dispatch identically.
func TestHunt1(t *testing.T) {
	const prefix = "/{year:\\d+}/{id}"
	const other = "/{tag:\\w+}/{id}.html"

	// facade
	f := huntRouter()
	p := f.Prefix(prefix)
	p.Get(".html", huntBody("year"))
	f.Get(other, huntBody("tag"))
	p.Clean()
	p.Get(".html", huntBody("year"))

	// translation: Prefix.Clean removes exactly the routes whose pattern starts with the prefix
	r := huntRouter()
	r.Get(prefix+".html", huntBody("year"))
	r.Get(other, huntBody("tag"))
	r.Remove(prefix + ".html")
	r.Get(prefix+".html", huntBody("year"))

	// the table that is left, built from scratch
	s := huntRouter()
	s.Get(other, huntBody("tag"))
	s.Get(prefix+".html", huntBody("year"))

	eq := func(a, b []string) bool { return slices.Equal(a, b) }
	if fr, rr, sr := f.Routes(), r.Routes(), s.Routes(); !maps.EqualFunc(fr, rr, eq) || !maps.EqualFunc(fr, sr, eq) {
		t.Fatalf("Routes differ: facade=%v router=%v scratch=%v", fr, rr, sr)
	}

	for _, path := range []string{"/2024/7.html", "/go/7.html"} {
		got, want, want2 := huntGet(f, path), huntGet(r, path), huntGet(s, path)
		if want != want2 {
			t.Fatalf("GET %s: the two plain Router programs disagree: %q / %q", path, want, want2)
		}
		if got != want {
			t.Errorf("GET %s: facade program answered %q, plain Router program answered %q", path, got, want)
		}
	}
}
