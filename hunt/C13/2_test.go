// belongs in the module root directory /tmp/wt/C13 (package mux_test); does not need -race

package mux_test

import (
	"net/http"
	"net/http/httptest"
	"testing"

	"github.com/issue9/mux/v9"
	"github.com/issue9/mux/v9/types"
)

func hunt2Call(w http.ResponseWriter, r *http.Request, ctx types.Route, h http.Handler) {
	h.ServeHTTP(w, r)
}

func hunt2Builder(types.Node) http.Handler {
	return http.HandlerFunc(func(w http.ResponseWriter, _ *http.Request) { w.WriteHeader(http.StatusMethodNotAllowed) })
}

type hunt2RouteHandler struct {
	tag string
}

func (h hunt2RouteHandler) ServeHTTP(w http.ResponseWriter, r *http.Request) {
	w.Write([]byte(h.tag + ":" + r.URL.Path))
}

// One router mounted in two groups: the second Add overwrites the matcher the
// first group dispatches with.
func TestHunt2(t *testing.T) {
	g1 := mux.NewGroup[http.Handler](hunt2Call, http.NotFoundHandler(), hunt2Builder, hunt2Builder)
	g2 := mux.NewGroup[http.Handler](hunt2Call, http.NotFoundHandler(), hunt2Builder, hunt2Builder)

	api := mux.NewRouter[http.Handler]("api", hunt2Call, http.NotFoundHandler(), hunt2Builder, hunt2Builder)
	api.Get("/x", hunt2RouteHandler{tag: "api"})
	other := mux.NewRouter[http.Handler]("other", hunt2Call, http.NotFoundHandler(), hunt2Builder, hunt2Builder)
	other.Get("/x", hunt2RouteHandler{tag: "other"})

	g1.Add(mux.NewHosts(false, "a.example.com"), api)
	g1.Add(nil, other)

	get := func(g http.Handler, url string) string {
		w := httptest.NewRecorder()
		g.ServeHTTP(w, httptest.NewRequest(http.MethodGet, url, nil))
		return w.Body.String()
	}

	if got := get(g1, "http://b.example.com/x"); got != "other:/x" {
		t.Fatalf("before: %q", got)
	}

	g2.Add(nil, api) // a history on ANOTHER group

	// g1's list is still [(Hosts a.example.com, api), (nil, other)]
	if got := get(g1, "http://b.example.com/x"); got != "other:/x" {
		t.Errorf("g1 must still reject host b for router api and fall through to other; got %q", got)
	}
}
