// belongs in the module root directory /tmp/wt/C13 (package mux_test); run with -race (it usually fails without it too: nil pointer panic in dispatch)

package mux_test

import (
	"net/http"
	"net/http/httptest"
	"testing"

	"github.com/issue9/mux/v9"
	"github.com/issue9/mux/v9/types"
)

func hunt3Call(w http.ResponseWriter, r *http.Request, ctx types.Route, h http.Handler) {
	h.ServeHTTP(w, r)
}

func hunt3Builder(types.Node) http.Handler {
	return http.HandlerFunc(func(w http.ResponseWriter, _ *http.Request) { w.WriteHeader(http.StatusMethodNotAllowed) })
}

type hunt3RouteHandler struct {
	tag string
}

func (h hunt3RouteHandler) ServeHTTP(w http.ResponseWriter, r *http.Request) {
	w.Write([]byte(h.tag + ":" + r.URL.Path))
}

// needs -race. Group built WithLock(true): routers are added and removed at
// run time while requests are being dispatched.
func TestHunt3(t *testing.T) {
	g := mux.NewGroup[http.Handler](hunt3Call, http.NotFoundHandler(), hunt3Builder, hunt3Builder, mux.WithLock(true))
	g.New("a", mux.NewHosts(true, "a.example.com")).Get("/x", hunt3RouteHandler{tag: "a"})
	g.New("b", mux.NewHosts(true, "b.example.com")).Get("/x", hunt3RouteHandler{tag: "b"})

	done := make(chan struct{})
	go func() {
		defer close(done)
		for i := 0; i < 2000; i++ {
			g.New("tmp", mux.NewHosts(true, "tmp.example.com"))
			g.Remove("tmp")
			g.Remove("a")
			g.New("a", mux.NewHosts(true, "a.example.com")).Get("/x", hunt3RouteHandler{tag: "a"})
		}
	}()

	// router b is never touched: every request for it has to be served by it
	for i := 0; i < 2000; i++ {
		func() {
			defer func() {
				if msg := recover(); msg != nil {
					t.Errorf("dispatch panicked: %v", msg)
				}
			}()
			w := httptest.NewRecorder()
			g.ServeHTTP(w, httptest.NewRequest(http.MethodGet, "http://b.example.com/x", nil))
			if w.Body.String() != "b:/x" {
				t.Errorf("request for b served as %d %q", w.Code, w.Body.String())
			}

			// no router ever accepts host c: the group's not-found handler has to run
			w = httptest.NewRecorder()
			g.ServeHTTP(w, httptest.NewRequest(http.MethodGet, "http://c.example.com/x", nil))
			if w.Code != http.StatusNotFound {
				t.Errorf("request for c served as %d %q", w.Code, w.Body.String())
			}
		}()
		if t.Failed() {
			break
		}
	}
	<-done
}
