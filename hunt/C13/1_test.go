// belongs in the module root directory /tmp/wt/C13 (package mux_test); does not need -race

package mux_test

import (
	"net/http"
	"net/http/httptest"
	"testing"

	"github.com/issue9/mux/v9"
	"github.com/issue9/mux/v9/types"
)

func hunt1Builder(types.Node) http.Handler {
	return http.HandlerFunc(func(w http.ResponseWriter, _ *http.Request) { w.WriteHeader(http.StatusMethodNotAllowed) })
}

type hunt1RouteHandler struct {
	tag string
}

func (h hunt1RouteHandler) ServeHTTP(w http.ResponseWriter, r *http.Request) {
	w.Write([]byte(h.tag + ":" + r.URL.Path))
}

// An And combination nested in an Or rejects after its first member (a path
// version) already rewrote the path and captured a parameter. The Or goes on to
// its next member, which now sees the rewritten request instead of the request
// as originally received.
func TestHunt1(t *testing.T) {
	var seenParams map[string]string
	call := func(w http.ResponseWriter, r *http.Request, ctx types.Route, h http.Handler) {
		seenParams = map[string]string{}
		ctx.Params().Range(func(k, v string) { seenParams[k] = v })
		h.ServeHTTP(w, r)
	}

	t.Run("false rejection", func(t *testing.T) {
		g := mux.NewGroup[http.Handler](call, http.NotFoundHandler(), hunt1Builder, hunt1Builder)

		// v1 on a.example.com, or v1 anywhere.
		m := mux.OrMatcher(
			mux.AndMatcher(mux.NewPathVersion("", "v1"), mux.NewHosts(false, "a.example.com")),
			mux.NewPathVersion("", "v1"),
		)
		r1 := g.New("r1", m)
		r1.Get("/x", hunt1RouteHandler{tag: "r1"})

		// control: the second member on its own accepts this very request
		alone := mux.NewGroup[http.Handler](call, http.NotFoundHandler(), hunt1Builder, hunt1Builder)
		alone.New("r1", mux.NewPathVersion("", "v1")).Get("/x", hunt1RouteHandler{tag: "r1"})
		w := httptest.NewRecorder()
		alone.ServeHTTP(w, httptest.NewRequest(http.MethodGet, "http://b.example.com/v1/x", nil))
		if w.Code != 200 || w.Body.String() != "r1:/x" {
			t.Fatalf("control failed: %d %q", w.Code, w.Body.String())
		}

		w = httptest.NewRecorder()
		g.ServeHTTP(w, httptest.NewRequest(http.MethodGet, "http://b.example.com/v1/x", nil))
		if w.Code != 200 || w.Body.String() != "r1:/x" {
			t.Errorf("Or(And(v1,host a), v1) must accept /v1/x on host b through its second member; got %d %q", w.Code, w.Body.String())
		}
	})

	t.Run("trace of a rejected member", func(t *testing.T) {
		g := mux.NewGroup[http.Handler](call, http.NotFoundHandler(), hunt1Builder, hunt1Builder)

		// (v1 with Accept version=2) or (host b.example.com)
		m := mux.OrMatcher(
			mux.AndMatcher(mux.NewPathVersion("ver", "v1"), mux.NewHeaderVersion("hv", "", func(error) {}, "2")),
			mux.NewHosts(false, "b.example.com"),
		)
		r1 := g.New("r1", m)
		r1.Get("/x", hunt1RouteHandler{tag: "r1-x"})
		r1.Get("/v1/x", hunt1RouteHandler{tag: "r1-v1x"})

		// The And rejects (no Accept header); Hosts accepts and rewrites nothing,
		// so the router must serve /v1/x with no parameters.
		w := httptest.NewRecorder()
		g.ServeHTTP(w, httptest.NewRequest(http.MethodGet, "http://b.example.com/v1/x", nil))
		if w.Body.String() != "r1-v1x:/v1/x" {
			t.Errorf("want the route /v1/x to serve, got %d %q", w.Code, w.Body.String())
		}
		if len(seenParams) != 0 {
			t.Errorf("want no parameters, got %v", seenParams)
		}
	})
}
