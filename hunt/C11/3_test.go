// package directory: /tmp/wt/C11 (module root, package mux_test); -race not needed. BORDERLINE, see 3.md
package mux_test

import (
	"bufio"
	"fmt"
	"net"
	"net/http"
	"net/http/httptest"
	"testing"

	"github.com/issue9/mux/v9"
	"github.com/issue9/mux/v9/types"
)

// A preflight whose Access-Control-Request-Method line is present but empty is
// classified as an ordinary OPTIONS request: neither the method check nor the
// Access-Control-Request-Headers check runs, Allow-Origin and
// Allow-Credentials are sent. Goes over a real connection to show net/http
// delivers such a request unchanged.
func TestHunt3(t *testing.T) {
	const origin = "https://a.example"
	call := func(w http.ResponseWriter, r *http.Request, _ types.Route, h http.Handler) { h.ServeHTTP(w, r) }
	status := func(code int) types.BuildNodeHandler[http.Handler] {
		return func(n types.Node) http.Handler {
			return http.HandlerFunc(func(w http.ResponseWriter, _ *http.Request) {
				w.Header().Set("Allow", n.AllowHeader())
				w.WriteHeader(code)
			})
		}
	}
	ok := http.HandlerFunc(func(w http.ResponseWriter, _ *http.Request) { w.WriteHeader(http.StatusOK) })

	r := mux.NewRouter("hunt3", call, http.NotFoundHandler(), status(405), status(200),
		mux.WithCORS([]string{origin}, []string{"X-Key"}, nil, 0, true))
	r.Get("/items", ok)

	srv := httptest.NewServer(r)
	defer srv.Close()

	do := func(acrm string) http.Header {
		c, err := net.Dial("tcp", srv.Listener.Addr().String())
		if err != nil {
			t.Fatal(err)
		}
		defer c.Close()
		fmt.Fprintf(c, "OPTIONS /items HTTP/1.1\r\nHost: a.example\r\nOrigin: %s\r\n"+
			"Access-Control-Request-Method:%s\r\nAccess-Control-Request-Headers: X-Evil\r\nConnection: close\r\n\r\n", origin, acrm)
		resp, err := http.ReadResponse(bufio.NewReader(c), nil)
		if err != nil {
			t.Fatal(err)
		}
		resp.Body.Close()
		return resp.Header
	}

	// control: with a served method the disallowed header is refused
	if v := do(" GET").Get("Access-Control-Allow-Origin"); v != "" {
		t.Fatalf("control: preflight asking for X-Evil carries Access-Control-Allow-Origin %q", v)
	}

	// the empty method is served by no route, X-Evil is not allowed
	h := do("")
	if v := h.Get("Access-Control-Allow-Origin"); v != "" {
		t.Errorf("preflight with an empty Access-Control-Request-Method asking for X-Evil carries Access-Control-Allow-Origin %q, credentials %q",
			v, h.Get("Access-Control-Allow-Credentials"))
	}
}
