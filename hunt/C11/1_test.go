// package directory: /tmp/wt/C11 (module root, package mux_test); -race not needed
package mux_test

import (
	"bufio"
	"fmt"
	"net"
	"net/http"
	"net/http/httptest"
	"net/url"
	"testing"

	"github.com/issue9/mux/v9"
	"github.com/issue9/mux/v9/types"
)

func huntCall(w http.ResponseWriter, r *http.Request, _ types.Route, h http.Handler) {
	h.ServeHTTP(w, r)
}

func huntOptions(n types.Node) http.Handler {
	return http.HandlerFunc(func(w http.ResponseWriter, _ *http.Request) {
		w.Header().Set("Allow", n.AllowHeader())
		w.WriteHeader(http.StatusOK)
	})
}

func huntNotAllowed(n types.Node) http.Handler {
	return http.HandlerFunc(func(w http.ResponseWriter, _ *http.Request) {
		w.Header().Set("Allow", n.AllowHeader())
		w.WriteHeader(http.StatusMethodNotAllowed)
	})
}

// A preflight whose request-target has the empty path (absolute-form
// "OPTIONS http://host HTTP/1.1", which net/http delivers with URL.Path == "")
// is answered by the tree's root node. That node serves OPTIONS only
// (DELETE on the same target is a 405), but its Methods() is the union of the
// methods of every route in the router, so the preflight for DELETE is granted.
func TestHunt1(t *testing.T) {
	const origin = "https://a.example"
	ok := http.HandlerFunc(func(w http.ResponseWriter, _ *http.Request) { w.WriteHeader(http.StatusOK) })

	r := mux.NewRouter("hunt1", huntCall, http.NotFoundHandler(), huntNotAllowed, huntOptions,
		mux.WithCORS([]string{origin}, []string{"X-Key"}, nil, 0, true))
	r.Delete("/admin/users/{id}", ok)

	newReq := func(method string) *http.Request {
		req := httptest.NewRequest(method, "http://a.example/", nil)
		req.URL = &url.URL{Scheme: "http", Host: "a.example", Path: ""}
		req.Header.Set("Origin", origin)
		return req
	}

	// the route addressed by the empty path does not serve DELETE
	w := httptest.NewRecorder()
	r.ServeHTTP(w, newReq(http.MethodDelete))
	if w.Code != http.StatusMethodNotAllowed {
		t.Fatalf("DELETE on the empty path: want 405, got %d", w.Code)
	}
	if v := w.Header().Get("Access-Control-Allow-Origin"); v != "" {
		t.Fatalf("405 carries Access-Control-Allow-Origin %q", v)
	}

	// ... so a preflight for DELETE on it must not be granted
	w = httptest.NewRecorder()
	req := newReq(http.MethodOptions)
	req.Header.Set("Access-Control-Request-Method", http.MethodDelete)
	r.ServeHTTP(w, req)
	if v := w.Header().Get("Access-Control-Allow-Origin"); v != "" {
		t.Errorf("preflight for DELETE on a target that answers DELETE with 405 carries Access-Control-Allow-Origin %q (credentials %q, allow-methods %q)",
			v, w.Header().Get("Access-Control-Allow-Credentials"), w.Header().Get("Access-Control-Allow-Methods"))
	}

	// the same over a real connection: absolute-form request-target without a path
	srv := httptest.NewServer(r)
	defer srv.Close()
	c, err := net.Dial("tcp", srv.Listener.Addr().String())
	if err != nil {
		t.Fatal(err)
	}
	defer c.Close()
	fmt.Fprintf(c, "OPTIONS http://a.example HTTP/1.1\r\nHost: a.example\r\nOrigin: %s\r\n"+
		"Access-Control-Request-Method: DELETE\r\nConnection: close\r\n\r\n", origin)
	resp, err := http.ReadResponse(bufio.NewReader(c), nil)
	if err != nil {
		t.Fatal(err)
	}
	resp.Body.Close()
	if v := resp.Header.Get("Access-Control-Allow-Origin"); v != "" {
		t.Errorf("on the wire: same preflight carries Access-Control-Allow-Origin %q", v)
	}
}
