// package directory: /tmp/wt/C11 (module root, package mux_test); -race not needed. BORDERLINE, see 2.md
package mux_test

import (
	"net/http"
	"net/http/httptest"
	"net/url"
	"testing"

	"github.com/issue9/mux/v9"
	"github.com/issue9/mux/v9/types"
)

// "OPTIONS *" carrying Access-Control-Request-Method / -Headers is exempted
// from both preflight checks and still gets Allow-Origin + Allow-Credentials,
// although "*" answers DELETE with 405 and X-Evil is not an allowed header.
func TestHunt2(t *testing.T) {
	const origin = "https://a.example"
	call := func(w http.ResponseWriter, r *http.Request, _ types.Route, h http.Handler) { h.ServeHTTP(w, r) }
	status := func(code int) types.BuildNodeHandler[http.Handler] {
		return func(n types.Node) http.Handler {
			return http.HandlerFunc(func(w http.ResponseWriter, _ *http.Request) {
				w.Header().Set("Allow", n.AllowHeader())
				w.WriteHeader(code)
			})
		}
	}
	ok := http.HandlerFunc(func(w http.ResponseWriter, _ *http.Request) { w.WriteHeader(http.StatusOK) })

	r := mux.NewRouter("hunt2", call, http.NotFoundHandler(), status(405), status(200),
		mux.WithCORS([]string{origin}, []string{"X-Key"}, nil, 0, true))
	r.Get("/public", ok)

	newReq := func(method string) *http.Request {
		req := httptest.NewRequest(method, "http://a.example/", nil)
		req.URL = &url.URL{Path: "*"}
		req.RequestURI = "*"
		req.Header.Set("Origin", origin)
		return req
	}

	w := httptest.NewRecorder()
	r.ServeHTTP(w, newReq(http.MethodDelete))
	if w.Code != http.StatusMethodNotAllowed {
		t.Fatalf("DELETE *: want 405, got %d", w.Code)
	}

	w = httptest.NewRecorder()
	req := newReq(http.MethodOptions)
	req.Header.Set("Access-Control-Request-Method", http.MethodDelete) // served nowhere in this router
	req.Header.Set("Access-Control-Request-Headers", "X-Evil")         // not in the allowed list
	r.ServeHTTP(w, req)
	if v := w.Header().Get("Access-Control-Allow-Origin"); v != "" {
		t.Errorf("OPTIONS * asking for DELETE + X-Evil carries Access-Control-Allow-Origin %q, credentials %q",
			v, w.Header().Get("Access-Control-Allow-Credentials"))
	}
}
