// package directory: . (package mux_test, /tmp/wt/C18/zz_hunt_test.go); needs -race
package mux_test

import (
	"net/http"
	"net/http/httptest"
	"sync"
	"testing"

	"github.com/issue9/mux/v9"
	"github.com/issue9/mux/v9/examples/std"
	"github.com/issue9/mux/v9/types"
)

// WithLock(true) + WithTrace: Router.Use replaces tree.trace without the lock while
// Tree.Handler reads tree.trace before taking the read lock. No route is registered, so
// no node handler map is involved: the only shared words are tree.trace / tree.notFound.
func TestHunt1(t *testing.T) {
	trace := http.HandlerFunc(func(w http.ResponseWriter, r *http.Request) { mux.Trace(w, r, false) })
	r := std.NewRouter("def", mux.WithLock(true), mux.WithTrace[http.Handler](trace))

	m := types.MiddlewareFunc[http.Handler](func(next http.Handler, method, pattern, router string) http.Handler {
		return http.HandlerFunc(func(w http.ResponseWriter, r *http.Request) { next.ServeHTTP(w, r) })
	})

	var wg sync.WaitGroup
	wg.Add(2)
	go func() {
		defer wg.Done()
		for i := 0; i < 50; i++ {
			r.Use(m)
		}
	}()
	go func() {
		defer wg.Done()
		for i := 0; i < 50; i++ {
			w := httptest.NewRecorder()
			r.ServeHTTP(w, httptest.NewRequest(http.MethodTrace, "/not-registered", nil))
			if w.Code != http.StatusOK {
				t.Errorf("TRACE => %d", w.Code)
			}
		}
	}()
	wg.Wait()
}
