// Package directory: repository root (package mux_test). No -race needed.
package mux_test

import (
	"net/http"
	"net/http/httptest"
	"testing"

	"github.com/issue9/mux/v9"
	"github.com/issue9/mux/v9/types"
)

func hunt1Router() *mux.Router[string] {
	return mux.NewRouter[string]("hunt1",
		func(w http.ResponseWriter, r *http.Request, rt types.Route, h string) { w.Header().Set("X-H", h) },
		"404",
		func(types.Node) string { return "405" },
		func(types.Node) string { return "OPTIONS" })
}

func hunt1Serve(r *mux.Router[string], method, path string) string {
	w := httptest.NewRecorder()
	req := httptest.NewRequest(method, "http://localhost/", nil)
	req.URL.Path = path
	r.ServeHTTP(w, req)
	return w.Header().Get("X-H")
}

// A live literal route (or a route that ends where a sibling goes on with a trailing parameter)
// must keep serving its own path; literal > named. The library hands the request to the
// trailing parameter with an empty value instead, and answers 405 for methods only the
// literal route has.
func TestHunt1(t *testing.T) {
	for _, tc := range [][3]string{
		// literal pattern, pattern with one more trailing parameter, request path
		{"/s/", "/s/{id}", "/s/"},
		{"/ab", "/ab{x}", "/ab"},
		{"s", "s{id}", "s"},
		{"/u/{id}/", "/u/{id}/{sub}", "/u/QZ/"},
		{"/n/{n:\\d+}.", "/n/{n:\\d+}.{-z}", "/n/77."},
	} {
		lit, par, path := tc[0], tc[1], tc[2]
		for _, literalFirst := range []bool{true, false} {
			r := hunt1Router()
			if literalFirst {
				r.Handle(lit, "literal", nil, http.MethodGet)
				if got := hunt1Serve(r, "GET", path); got != "literal" { // holds
					t.Fatalf("%q alone: GET %s served by %q", lit, path, got)
				}
				r.Handle(par, "param", nil, http.MethodGet)
			} else {
				r.Handle(par, "param", nil, http.MethodGet)
				r.Handle(lit, "literal", nil, http.MethodGet)
			}

			if got := hunt1Serve(r, "GET", path); got != "literal" {
				t.Errorf("literalFirst=%v live %q and %q: GET %s served by %q, want the route %q",
					literalFirst, lit, par, path, got, lit)
			}

			r.Handle(lit, "literal-post", nil, http.MethodPost) // POST exists only on the literal route
			if got := hunt1Serve(r, "POST", path); got != "literal-post" {
				t.Errorf("literalFirst=%v live %q [GET POST] and %q [GET]: POST %s answered %q, want literal-post",
					literalFirst, lit, par, path, got)
			}

			r.Remove(par) // after removing the parameter route everything is fine again
			if got := hunt1Serve(r, "GET", path); got != "literal" {
				t.Errorf("after Remove(%q): GET %s served by %q", par, path, got)
			}
		}
	}
}
