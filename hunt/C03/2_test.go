// Package directory: repository root (package mux_test). No -race needed.
package mux_test

import (
	"net/http"
	"net/http/httptest"
	"testing"

	"github.com/issue9/mux/v9"
	"github.com/issue9/mux/v9/types"
)

func hunt2Router() *mux.Router[string] {
	return mux.NewRouter[string]("hunt2",
		func(w http.ResponseWriter, r *http.Request, rt types.Route, h string) { w.Header().Set("X-H", h) },
		"404",
		func(types.Node) string { return "405" },
		func(types.Node) string { return "OPTIONS" },
		mux.WithDigitInterceptor("digit"))
}

func hunt2Serve(r *mux.Router[string], method, path string) string {
	w := httptest.NewRecorder()
	req := httptest.NewRequest(method, "http://localhost/", nil)
	req.URL.Path = path
	r.ServeHTTP(w, req)
	return w.Header().Get("X-H")
}

// Two live patterns whose first parameter differs only in its name are kept as two sibling
// sub-trees ({x}/a/ and {z}/a/) that match exactly the same text. Which one is entered is
// decided by registration order, so the kind priority of the tails (literal > interceptor >
// regexp > named) is ignored: the route registered second is unreachable, and the answer
// depends on the history (remove + re-register the first one and the winner flips).
func TestHunt2(t *testing.T) {
	for _, tc := range [][2]string{
		// tail of the second pattern, request path (built from the second pattern with simple values)
		{"lit", "/QZ/a/lit"},
		{"{n:digit}", "/QZ/a/77"},
		{"{n:\\d+}", "/QZ/a/77"},
	} {
		better := "/{z}/a/" + tc[0]
		path := tc[1]

		r := hunt2Router()
		r.Handle("/{x}/a/{y}", "named", nil, http.MethodGet)
		r.Handle(better, "better", nil, http.MethodGet) // accepted, listed by Routes()
		if _, found := r.Routes()[better]; !found {
			t.Fatalf("%q not listed", better)
		}
		got1 := hunt2Serve(r, "GET", path)
		if got1 != "better" {
			t.Errorf("live /{x}/a/{y} and %s: GET %s served by %q, want %q (its tail is of a higher kind than {y})",
				better, path, got1, "better")
		}

		// same live set, other history: the answer differs
		r.Remove("/{x}/a/{y}")
		r.Handle("/{x}/a/{y}", "named", nil, http.MethodGet)
		if got2 := hunt2Serve(r, "GET", path); got2 != got1 {
			t.Errorf("same live routes, GET %s: %q before and %q after removing and re-registering /{x}/a/{y}", path, got1, got2)
		}
	}
}
