// Package directory: repository root (package mux_test). No -race needed.
package mux_test

import (
	"net/http"
	"net/http/httptest"
	"slices"
	"testing"

	"github.com/issue9/mux/v9"
	"github.com/issue9/mux/v9/types"
)

// The literal pattern "*" (a route not starting with '/') is accepted by Handle and listed by
// Routes() with its methods, but it is never served: Tree.Handler sends every request whose
// path is "*" to the root node, whatever the method.
func TestHunt3(t *testing.T) {
	r := mux.NewRouter[string]("hunt3",
		func(w http.ResponseWriter, r *http.Request, rt types.Route, h string) { w.Header().Set("X-H", h) },
		"404",
		func(types.Node) string { return "405" },
		func(types.Node) string { return "OPTIONS" })

	serve := func(method, path string) string {
		w := httptest.NewRecorder()
		req := httptest.NewRequest(method, "http://localhost/", nil)
		req.URL.Path = path
		r.ServeHTTP(w, req)
		return w.Header().Get("X-H")
	}

	r.Handle("*", "star", nil, http.MethodGet, http.MethodPost)
	r.Handle("*a", "star-a", nil, http.MethodGet)

	if ms := r.Routes()["*"]; !slices.Contains(ms, http.MethodGet) || !slices.Contains(ms, http.MethodPost) {
		t.Fatalf("Routes()[*] = %v", ms)
	}
	if got := serve("GET", "*a"); got != "star-a" { // holds
		t.Errorf("GET *a served by %q", got)
	}
	for _, m := range []string{"GET", "HEAD", "POST"} {
		if got := serve(m, "*"); got != "star" {
			t.Errorf("live route * %v: %s * answered %q, want the registered handler", r.Routes()["*"], m, got)
		}
	}
}
