// Belongs in the module root (package mux_test), e.g. as zz_hunt1_test.go. Does not need -race.
package mux_test

import (
	"net/http"
	"runtime"
	"testing"

	"github.com/issue9/mux/v9"
	"github.com/issue9/mux/v9/types"
)

func hunt1Router() *mux.Router[http.Handler] {
	call := func(w http.ResponseWriter, r *http.Request, _ types.Route, h http.Handler) { h.ServeHTTP(w, r) }
	b := func(types.Node) http.Handler { return http.NotFoundHandler() }
	return mux.NewRouter[http.Handler]("hunt1", call, http.NotFoundHandler(), b, b)
}

// returns the value Handle panicked with, nil if it registered the pattern
func hunt1Handle(r *mux.Router[http.Handler], p string) (v any) {
	defer func() { v = recover() }()
	r.Handle(p, http.NotFoundHandler(), nil, http.MethodGet)
	return nil
}

// Handle(second) after Handle(first) must either register the pattern or
// panic with an error value; it dies with "slice bounds out of range".
func TestHunt1(t *testing.T) {
	for _, pair := range [][2]string{
		{"/{a::{d}", "/{a:{c}"},        // regexp params named a; rules ":{d" and "{c"
		{"/{id:x:y{2}}", "/{id:x{3}}"}, // rules "x:y{2" / "x{3", literal suffix "}"
		{"/{-a:{b}", "/{-a{:x}"},       // unnamed ('-') regexp params
	} {
		for _, p := range pair {
			if err := mux.CheckSyntax(p); err != nil {
				t.Fatalf("CheckSyntax(%q)=%v", p, err)
			}
		}

		r := hunt1Router()
		if v := hunt1Handle(r, pair[0]); v != nil {
			t.Fatalf("Handle(%q) panicked: %v", pair[0], v)
		}

		v := hunt1Handle(r, pair[1])
		if re, ok := v.(runtime.Error); ok {
			t.Errorf("Handle(%q) after Handle(%q): runtime fault instead of an error value: %v", pair[1], pair[0], re)
		} else if _, isErr := v.(error); v != nil && !isErr {
			t.Errorf("Handle(%q) panicked with a non-error value %v", pair[1], v)
		}
	}
}
