// Belongs in the module root (package mux_test), e.g. as zz_hunt3_test.go.
// Run with -race (deterministic report). Without -race the run is flaky: about one
// run in three the process dies with "fatal error: concurrent map read and map write".
package mux_test

import (
	"fmt"
	"net/http"
	"net/http/httptest"
	"testing"

	"github.com/issue9/mux/v9"
	"github.com/issue9/mux/v9/types"
)

type hunt3MW struct{}

func (hunt3MW) Middleware(next http.Handler, _, _, _ string) http.Handler { return next }

// A router built WithLock(true) serves requests while another goroutine calls Router.Use.
func TestHunt3(t *testing.T) {
	call := func(w http.ResponseWriter, r *http.Request, _ types.Route, h http.Handler) { h.ServeHTTP(w, r) }
	b := func(types.Node) http.Handler { return http.NotFoundHandler() }
	r := mux.NewRouter[http.Handler]("hunt3", call, http.NotFoundHandler(), b, b, mux.WithLock(true))
	for i := 0; i < 20; i++ {
		r.Get(fmt.Sprintf("/p%d/{id}", i), http.NotFoundHandler())
	}

	done := make(chan struct{})
	go func() {
		defer close(done)
		for i := 0; i < 2000; i++ {
			r.Use(hunt3MW{})
		}
	}()

	for i := 0; ; i++ {
		select {
		case <-done:
			return
		default:
		}
		w := httptest.NewRecorder()
		req := httptest.NewRequest(http.MethodGet, fmt.Sprintf("/p%d/5", i%20), nil)
		r.ServeHTTP(w, req)
	}
}
