// Belongs in the module root (package mux_test), e.g. as zz_hunt2_test.go. Does not need -race.
package mux_test

import (
	"net/http"
	"testing"

	"github.com/issue9/mux/v9"
	"github.com/issue9/mux/v9/types"
)

func hunt2Router() *mux.Router[http.Handler] {
	call := func(w http.ResponseWriter, r *http.Request, _ types.Route, h http.Handler) { h.ServeHTTP(w, r) }
	b := func(types.Node) http.Handler { return http.NotFoundHandler() }
	return mux.NewRouter[http.Handler]("hunt2", call, http.NotFoundHandler(), b, b)
}

func hunt2Handle(r *mux.Router[http.Handler], p string) (v any) {
	defer func() { v = recover() }()
	r.Handle(p, http.NotFoundHandler(), nil, http.MethodGet)
	return nil
}

// No interceptors anywhere. CheckSyntax accepts every pattern below and no two
// of them are ambiguous or duplicates, yet Handle rejects the last one of each
// history with a *syntax* error ("无效的语法：{}..."), and in history (a) the
// rejected call also deletes the previously registered route.
func TestHunt2(t *testing.T) {
	for _, p := range []string{"/{a{}/q", "/{a{x}/p", "/{a", "/{ab", "/{a{}"} {
		if err := mux.CheckSyntax(p); err != nil {
			t.Fatalf("CheckSyntax(%q)=%v", p, err)
		}
	}

	// (a) splitNode: the existing node "{a{}/q" is cut at 2 into "{a" + "{}/q"
	r := hunt2Router()
	first, second := "/{a{}/q", "/{a{x}/p" // named params "a{" and "a{x"
	if v := hunt2Handle(r, first); v != nil {
		t.Fatalf("Handle(%q): %v", first, v)
	}
	if v := hunt2Handle(r, second); v != nil {
		t.Errorf("(a) CheckSyntax(%q)==nil but Handle panicked: %v", second, v)
	}
	if _, ok := r.Routes()[first]; !ok {
		t.Errorf("(a) route %q vanished after Handle(%q): routes=%v", first, second, r.Routes())
	}

	// (b) checkAmbiguous: strips the string node "{a" and parses the rest "{}"
	r = hunt2Router()
	for _, p := range []string{"/{a", "/{ab"} {
		if v := hunt2Handle(r, p); v != nil {
			t.Fatalf("Handle(%q): %v", p, v)
		}
	}
	if v := hunt2Handle(r, "/{a{}"); v != nil { // named param "a{"
		t.Errorf("(b) CheckSyntax(%q)==nil but Handle panicked: %v", "/{a{}", v)
	}
}
