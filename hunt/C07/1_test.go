// package directory: . (module root, package mux_test); does not need -race (a -race variant is TestHunt1Race in the same file)

package mux_test

import (
	"net/http"
	"net/http/httptest"
	"slices"
	"sync"
	"testing"

	"github.com/issue9/mux/v9"
	"github.com/issue9/mux/v9/header"
	"github.com/issue9/mux/v9/types"
)

func hunt1Router(name string, o ...mux.Option) *mux.Router[http.Handler] {
	call := func(w http.ResponseWriter, r *http.Request, _ types.Route, h http.Handler) { h.ServeHTTP(w, r) }
	b := func(status int) types.BuildNodeHandler[http.Handler] {
		return func(n types.Node) http.Handler {
			return http.HandlerFunc(func(w http.ResponseWriter, _ *http.Request) {
				w.Header().Set(header.Allow, n.AllowHeader())
				w.WriteHeader(status)
			})
		}
	}
	return mux.NewRouter[http.Handler](name, call, http.NotFoundHandler(), b(405), b(200), o...)
}

// The caller of a.Routes() owns the returned map; trimming OPTIONS/HEAD out of it for display
// must not change what an unrelated router b reports or how it answers a CORS preflight.
func TestHunt1(t *testing.T) {
	h := http.HandlerFunc(func(http.ResponseWriter, *http.Request) {})

	preflight := func(r *mux.Router[http.Handler]) string {
		w := httptest.NewRecorder()
		req := httptest.NewRequest(http.MethodOptions, "/items", nil)
		req.Header.Set(header.Origin, "https://example.com")
		req.Header.Set(header.AccessControlRequestMethod, http.MethodGet)
		r.ServeHTTP(w, req)
		return w.Header().Get(header.AccessControlAllowOrigin)
	}

	// reference: a router observed before anybody did anything to any other router
	ref := hunt1Router("ref", mux.WithAllowedCORS(3600))
	ref.Get("/items", h).Post("/items", h)
	wantRoutes := slices.Clone(ref.Routes()["/items"])
	wantOrigin := preflight(ref)
	if wantOrigin != "*" {
		t.Fatalf("reference preflight not accepted: %q", wantOrigin)
	}

	// an unrelated router a; its owner post-processes the list it got back
	a := hunt1Router("a")
	a.Get("/items", h).Post("/items", h)
	ra := a.Routes()
	full := ra["/items"]
	t.Cleanup(func() { copy(full, wantRoutes) }) // undo the process-wide damage for other tests
	ra["/items"] = slices.DeleteFunc(ra["/items"], func(m string) bool {
		return m == http.MethodGet || m == http.MethodOptions || m == http.MethodHead
	})

	// a fresh router b, built exactly like ref
	b := hunt1Router("b", mux.WithAllowedCORS(3600))
	b.Get("/items", h).Post("/items", h)
	if got := b.Routes()["/items"]; !slices.Equal(got, wantRoutes) {
		t.Errorf("b.Routes()[/items] = %q, want %q (changed by editing the result of a.Routes())", got, wantRoutes)
	}
	if got := preflight(b); got != wantOrigin {
		t.Errorf("preflight on b: Access-Control-Allow-Origin = %q, want %q", got, wantOrigin)
	}
}

// needs -race: two routers used from two goroutines; each goroutine touches only its own router
// and the values that router returned.
func TestHunt1Race(t *testing.T) {
	h := http.HandlerFunc(func(http.ResponseWriter, *http.Request) {})
	a := hunt1Router("a")
	a.Get("/items", h).Post("/items", h)
	b := hunt1Router("b")
	b.Get("/items", h).Post("/items", h)

	var wg sync.WaitGroup
	wg.Add(2)
	go func() {
		defer wg.Done()
		for i := 0; i < 1000; i++ {
			slices.Sort(a.Routes()["/items"]) // already sorted: writes the same values back
			slices.Reverse(a.Routes()["/items"])
			slices.Reverse(a.Routes()["/items"])
		}
	}()
	go func() {
		defer wg.Done()
		for i := 0; i < 1000; i++ {
			_ = slices.Contains(b.Routes()["/items"], http.MethodPost)
		}
	}()
	wg.Wait()
}
