// package directory: . (module root, package mux_test); does not need -race

package mux_test

import (
	"net/http"
	"net/http/httptest"
	"testing"

	"github.com/issue9/mux/v9"
	"github.com/issue9/mux/v9/types"
)

// Two groups mount the same (finished, never modified again) router under different conditions.
// What g1 answers must not depend on g2.Add having been called.
func TestHunt2(t *testing.T) {
	call := func(w http.ResponseWriter, r *http.Request, _ types.Route, h http.Handler) { h.ServeHTTP(w, r) }
	b := func(status int) types.BuildNodeHandler[http.Handler] {
		return func(types.Node) http.Handler {
			return http.HandlerFunc(func(w http.ResponseWriter, _ *http.Request) { w.WriteHeader(status) })
		}
	}
	newGroup := func() *mux.Group[http.Handler] {
		return mux.NewGroup[http.Handler](call, http.NotFoundHandler(), b(405), b(200))
	}
	get := func(g *mux.Group[http.Handler], host string) int {
		w := httptest.NewRecorder()
		req := httptest.NewRequest(http.MethodGet, "http://"+host+"/ping", nil)
		g.ServeHTTP(w, req)
		return w.Code
	}

	api := mux.NewRouter[http.Handler]("api", call, http.NotFoundHandler(), b(405), b(200))
	api.Get("/ping", http.HandlerFunc(func(w http.ResponseWriter, _ *http.Request) { w.WriteHeader(http.StatusAccepted) }))

	g1 := newGroup()
	g1.Add(mux.NewHosts(false, "public.example.com"), api)
	before1, before2 := get(g1, "public.example.com"), get(g1, "intranet.local")
	if before1 != http.StatusAccepted || before2 != http.StatusNotFound {
		t.Fatalf("unexpected baseline %d %d", before1, before2)
	}

	g2 := newGroup() // a different Group instance; g1 is not touched from here on
	g2.Add(mux.NewHosts(false, "intranet.local"), api)

	if got := get(g1, "public.example.com"); got != before1 {
		t.Errorf("g1 public.example.com: %d, was %d before g2.Add", got, before1)
	}
	if got := get(g1, "intranet.local"); got != before2 {
		t.Errorf("g1 intranet.local: %d, was %d before g2.Add", got, before2)
	}
}
