// package directory: . (module root, package mux_test); TestHunt3 does not need -race, TestHunt3Race does

package mux_test

import (
	"net/http"
	"net/http/httptest"
	"sync"
	"testing"

	"github.com/issue9/mux/v9"
	"github.com/issue9/mux/v9/header"
	"github.com/issue9/mux/v9/types"
)

// One list of supported versions, used for a path matcher and a header matcher
// (the natural OrMatcher(path, header) set-up). The header matcher must answer the same
// whether or not a path matcher was built from the list before it.
func TestHunt3(t *testing.T) {
	accepts := func(m mux.Matcher) bool {
		req := httptest.NewRequest(http.MethodGet, "/ping", nil)
		req.Header.Set(header.Accept, "application/json; version=v1")
		ctx := types.NewContext()
		defer ctx.Destroy()
		return m.Match(req, ctx)
	}

	ref := []string{"v1", "v2"}
	want := accepts(mux.NewHeaderVersion("ver", "", nil, ref...)) // observed with no other matcher around
	if !want {
		t.Fatal("baseline: header matcher does not accept version=v1")
	}

	versions := []string{"v1", "v2"}
	_ = mux.NewPathVersion("ver", versions...) // another, unrelated matcher instance
	if got := accepts(mux.NewHeaderVersion("ver", "", nil, versions...)); got != want {
		t.Errorf("header matcher built after a path matcher: accepts=%v, want %v; list is now %q", got, want, versions)
	}
}

// needs -race: two groups are built at the same time in two goroutines from the same (read-only, as far
// as the caller is concerned) configuration value.
func TestHunt3Race(t *testing.T) {
	call := func(w http.ResponseWriter, r *http.Request, _ types.Route, h http.Handler) { h.ServeHTTP(w, r) }
	b := func(types.Node) http.Handler { return http.NotFoundHandler() }
	supported := []string{"v1", "v2"}

	var wg sync.WaitGroup
	for i := 0; i < 2; i++ {
		wg.Add(1)
		go func() {
			defer wg.Done()
			g := mux.NewGroup[http.Handler](call, http.NotFoundHandler(), b, b)
			g.New("api", mux.NewPathVersion("ver", supported...))
		}()
	}
	wg.Wait()
}
