// Package directory: repository root (package mux_test). Does not need -race.
package mux_test

import (
	"net/http"
	"net/http/httptest"
	"net/url"
	"slices"
	"strings"
	"testing"

	"github.com/issue9/mux/v9"
	"github.com/issue9/mux/v9/types"
)

// "*" is accepted as a pattern (CheckSyntax("*") == nil, Handle succeeds) and shows up in
// Routes() with its own methods, but requests for the path "*" never reach it: they are
// answered by the built-in root node, whose Allow / Methods() is the router-wide union.
func TestHunt2(t *testing.T) {
	if err := mux.CheckSyntax("*"); err != nil {
		t.Skip("pattern * is rejected, nothing to check")
	}

	var last types.Node
	call := func(w http.ResponseWriter, r *http.Request, ps types.Route, h http.Handler) {
		last = ps.Node()
		h.ServeHTTP(w, r)
	}
	b := func(status int) types.BuildNodeHandler[http.Handler] {
		return func(n types.Node) http.Handler {
			return http.HandlerFunc(func(w http.ResponseWriter, r *http.Request) {
				w.Header().Set("Allow", n.AllowHeader())
				w.WriteHeader(status)
			})
		}
	}
	r := mux.NewRouter("def", call, http.NotFoundHandler(), b(405), b(200))
	h := http.HandlerFunc(func(w http.ResponseWriter, r *http.Request) {})
	r.Get("*", h)
	r.Post("/x", h)

	do := func(method string) *httptest.ResponseRecorder {
		w := httptest.NewRecorder()
		req := httptest.NewRequest(method, "http://x/", nil)
		req.URL = &url.URL{Path: "*"}
		r.ServeHTTP(w, req)
		return w
	}

	routes := strings.Join(r.Routes()["*"], ", ") // GET, HEAD, OPTIONS

	w := do(http.MethodOptions)
	if got := w.Header().Get("Allow"); got != routes {
		t.Errorf("pattern *: Allow of OPTIONS = %q, Routes() = %q", got, routes)
	}
	if got := strings.Join(last.Methods(), ", "); got != routes {
		t.Errorf("pattern *: Node().Methods() = %q, Routes() = %q", got, routes)
	}
	if slices.Contains(last.Methods(), http.MethodPost) {
		t.Errorf("pattern *: Methods() = %q names POST, which was never registered for it", last.Methods())
	}

	// GET is registered for the pattern and listed in every Allow header, yet it answers 405.
	if w = do(http.MethodGet); w.Code != http.StatusOK {
		t.Errorf("GET * = %d (Allow: %q), the method is registered for the pattern", w.Code, w.Header().Get("Allow"))
	}
}
