// Package directory: repository root (package mux_test). Does not need -race.
package mux_test

import (
	"net/http"
	"net/http/httptest"
	"slices"
	"testing"

	"github.com/issue9/mux/v9"
	"github.com/issue9/mux/v9/types"
)

// A Handle call that fails half-way (a middleware refuses one of the methods by panicking,
// the same way Handle itself reports every other error) leaves the handlers of the methods
// processed so far installed, but neither the node's method set nor OPTIONS/405 nor the
// router-wide counters are updated.
func TestHunt3(t *testing.T) {
	call := func(w http.ResponseWriter, r *http.Request, ps types.Route, h http.Handler) { h.ServeHTTP(w, r) }
	b := func(status int) types.BuildNodeHandler[http.Handler] {
		return func(n types.Node) http.Handler {
			return http.HandlerFunc(func(w http.ResponseWriter, r *http.Request) {
				w.Header().Set("Allow", n.AllowHeader())
				w.WriteHeader(status)
			})
		}
	}
	r := mux.NewRouter("def", call, http.NotFoundHandler(), b(405), b(200), mux.WithStatusRecovery(500))
	h := http.HandlerFunc(func(w http.ResponseWriter, r *http.Request) {})

	noPost := types.MiddlewareFunc[http.Handler](func(next http.Handler, method, pattern, router string) http.Handler {
		if method == http.MethodPost {
			panic("POST is not allowed on " + pattern)
		}
		return next
	})

	func() {
		defer func() {
			if recover() == nil {
				t.Fatal("Handle should have panicked")
			}
		}()
		r.Handle("/a", h, []types.Middleware[http.Handler]{noPost}, http.MethodGet, http.MethodPost)
	}()

	do := func(method, path string) *httptest.ResponseRecorder {
		w := httptest.NewRecorder()
		r.ServeHTTP(w, httptest.NewRequest(method, path, nil))
		return w
	}

	get := do(http.MethodGet, "/a").Code
	routes, listed := r.Routes()["/a"]
	opt := do(http.MethodOptions, "/a")
	star := do(http.MethodOptions, "*").Header().Get("Allow")
	t.Logf("GET /a = %d; Routes()[/a] = %q (listed %v); OPTIONS /a = %d Allow %q; OPTIONS * Allow %q",
		get, routes, listed, opt.Code, opt.Header().Get("Allow"), star)

	if get == http.StatusNotFound { // the registration was rolled back completely: fine
		if listed {
			t.Errorf("Routes() lists /a = %q although it answers 404", routes)
		}
		return
	}

	// otherwise the pattern is live with GET and everything has to say so
	want := []string{"GET", "HEAD", "OPTIONS"}
	if !slices.Equal(routes, want) {
		t.Errorf("GET /a answers %d but Routes()[/a] = %q, want %q", get, routes, want)
	}
	if opt.Code != http.StatusOK || opt.Header().Get("Allow") != "GET, HEAD, OPTIONS" {
		t.Errorf("GET /a answers %d but OPTIONS /a = %d with Allow %q", get, opt.Code, opt.Header().Get("Allow"))
	}
	if star != "GET, OPTIONS" && star != "GET, HEAD, OPTIONS" {
		t.Errorf("GET /a answers %d but OPTIONS * says %q", get, star)
	}
}
