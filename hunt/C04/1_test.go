// Package directory: repository root (package mux_test). Does not need -race.
package mux_test

import (
	"net/http"
	"net/http/httptest"
	"slices"
	"testing"

	"github.com/issue9/mux/v9"
	"github.com/issue9/mux/v9/types"
)

// The slices handed out by Routes() and Node().Methods() are the entries of a
// process-wide cache: a caller that edits the slice it received changes what every
// other pattern with the same method set (in every router) reports from then on.
func TestHunt1(t *testing.T) {
	var last types.Node
	call := func(w http.ResponseWriter, r *http.Request, ps types.Route, h http.Handler) {
		last = ps.Node()
		h.ServeHTTP(w, r)
	}
	b := func(status int) types.BuildNodeHandler[http.Handler] {
		return func(n types.Node) http.Handler {
			return http.HandlerFunc(func(w http.ResponseWriter, r *http.Request) {
				w.Header().Set("Allow", n.AllowHeader())
				w.WriteHeader(status)
			})
		}
	}
	r := mux.NewRouter("def", call, http.NotFoundHandler(), b(405), b(200))
	h := http.HandlerFunc(func(w http.ResponseWriter, r *http.Request) {})
	r.Handle("/a", h, nil, http.MethodConnect, http.MethodPatch)
	r.Handle("/b", h, nil, http.MethodConnect, http.MethodPatch)

	// The caller owns the map Routes() built for it: drop OPTIONS from one entry for display.
	routes := r.Routes()
	orig, saved := routes["/a"], slices.Clone(routes["/a"])
	defer copy(orig, saved) // undo the damage for other tests of this process
	routes["/a"] = slices.DeleteFunc(routes["/a"], func(m string) bool { return m == http.MethodOptions })

	want := []string{"CONNECT", "OPTIONS", "PATCH"}
	if got := r.Routes()["/b"]; !slices.Equal(got, want) {
		t.Errorf("Routes()[/b] = %q, want %q", got, want)
	}

	w := httptest.NewRecorder()
	r.ServeHTTP(w, httptest.NewRequest(http.MethodOptions, "/b", nil))
	allow := w.Header().Get("Allow")
	if allow != "CONNECT, OPTIONS, PATCH" {
		t.Errorf("Allow of /b = %q", allow)
	}
	if got := last.Methods(); !slices.Equal(got, want) {
		t.Errorf("Node().Methods() of /b = %q, want %q (its Allow header says %q)", got, want, allow)
	}

	// another router of the same process is affected as well
	r2 := mux.NewRouter("r2", call, http.NotFoundHandler(), b(405), b(200))
	r2.Handle("/c", h, nil, http.MethodPatch, http.MethodConnect)
	if got := r2.Routes()["/c"]; !slices.Equal(got, want) {
		t.Errorf("other router: Routes()[/c] = %q, want %q", got, want)
	}
}
