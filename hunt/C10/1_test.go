// Package directory: repository root (package mux_test). Does not need -race.
package mux_test

import (
	"net/http"
	"net/http/httptest"
	"testing"

	"github.com/issue9/assert/v4"

	"github.com/issue9/mux/v9"
	"github.com/issue9/mux/v9/types"
)

// Non-strict Router.URL parses the pattern with an empty interceptor table instead of the
// router's own one, so an interceptor parameter is compiled as a regexp named group.
// A live, well-formed route of this router then cannot be built in non-strict mode
// although every parameter is supplied (strict mode builds it fine).
func TestHunt1(t *testing.T) {
	a := assert.New(t, false)

	var pattern string
	var params map[string]string
	call := func(w http.ResponseWriter, r *http.Request, ctx types.Route, h http.Handler) {
		if ctx.Node() != nil {
			pattern = ctx.Node().Pattern()
			params = map[string]string{}
			ctx.Params().Range(func(k, v string) { params[k] = v })
		}
		h.ServeHTTP(w, r)
	}
	b := func(types.Node) http.Handler { return http.NotFoundHandler() }
	ok := http.HandlerFunc(func(w http.ResponseWriter, r *http.Request) { w.WriteHeader(http.StatusOK) })

	r := mux.NewRouter[http.Handler]("hunt1", call, http.NotFoundHandler(), b, b,
		mux.WithDigitInterceptor("digit"), mux.WithAnyInterceptor("*"))
	r.Get("/users/{user-id:digit}", ok) // name is not a valid Go capture group name
	r.Get("/files/{path:*}", ok)        // rule is not a valid regexp

	for _, path := range []string{"/users/5", "/files/a/b.txt"} {
		pattern, params = "", nil
		w := httptest.NewRecorder()
		r.ServeHTTP(w, httptest.NewRequest(http.MethodGet, path, nil))
		a.Equal(w.Code, http.StatusOK).NotEmpty(pattern).Length(params, 1)

		u, err := r.URL(true, pattern, params) // strict: works
		a.NotError(err).Equal(u, path)

		u, err = r.URL(false, pattern, params) // non-strict: must work as well
		a.NotError(err, "non-strict URL(%q, %v) failed: %v", pattern, params, err).Equal(u, path)
	}
}
