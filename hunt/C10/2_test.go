// Package directory: repository root (package mux_test). Does not need -race.
package mux_test

import (
	"net/http"
	"net/http/httptest"
	"testing"

	"github.com/issue9/assert/v4"

	"github.com/issue9/mux/v9"
	"github.com/issue9/mux/v9/types"
)

// Registering a second route whose regexp differs inside a {n} quantifier splits the tree
// node of the first route in the middle of its parameter token: the first route stays
// listed in Routes(), but strict URL building for it (same pattern, same valid params)
// now fails, while non-strict building still succeeds.
func TestHunt2(t *testing.T) {
	a := assert.New(t, false)

	call := func(w http.ResponseWriter, r *http.Request, ctx types.Route, h http.Handler) { h.ServeHTTP(w, r) }
	b := func(types.Node) http.Handler { return http.NotFoundHandler() }
	ok := http.HandlerFunc(func(w http.ResponseWriter, r *http.Request) { w.WriteHeader(http.StatusOK) })
	r := mux.NewRouter[http.Handler]("hunt2", call, http.NotFoundHandler(), b, b)

	const p = "/{id:\\d{2}}/x"
	a.NotError(mux.CheckSyntax(p))
	// The library parses p as the token {id:\d{2} followed by the literal "}/x";
	// the value "7{2" satisfies the rule `\d{2` under Go's regexp (an unterminated {2 is literal).
	ps := map[string]string{"id": "7{2"}

	r.Get(p, ok)
	u, err := r.URL(true, p, ps)
	a.NotError(err).Equal(u, "/7{2}/x")
	w := httptest.NewRecorder()
	r.ServeHTTP(w, httptest.NewRequest(http.MethodGet, "/7{2}/x", nil))
	a.Equal(w.Code, http.StatusOK)

	r.Get("/{id:\\d{3}}/x", ok) // an unrelated second route
	_, live := r.Routes()[p]
	a.True(live) // p is still a live route

	u, err = r.URL(false, p, ps)
	a.NotError(err).Equal(u, "/7{2}/x")
	u, err = r.URL(true, p, ps)
	a.NotError(err, "strict URL of a live route with valid params failed: %v", err).Equal(u, "/7{2}/x")
}
