// package directory: repository root (package mux_test); does not need -race
package mux_test

import (
	"net/http"
	"net/http/httptest"
	"net/url"
	"regexp"
	"testing"

	"github.com/issue9/mux/v9"
	"github.com/issue9/mux/v9/types"
)

// A rule that itself contains braces (a counted repetition) is cut at the first '}':
// {id:\d{2}} is read as rule `\d{2` + literal suffix `}`. The pattern is accepted without
// an error, and the reported value does not satisfy the parameter's regexp.
func TestHunt3(t *testing.T) {
	const rule = `\d{2}`
	const pattern = "/{id:" + rule + "}"

	var gotPattern string
	var params map[string]string
	call := func(w http.ResponseWriter, r *http.Request, route types.Route, h http.Handler) {
		params = map[string]string{}
		route.Params().Range(func(k, v string) { params[k] = v })
		gotPattern = ""
		if n := route.Node(); n != nil {
			gotPattern = n.Pattern()
		}
		h.ServeHTTP(w, r)
	}
	status := func(code int) http.Handler {
		return http.HandlerFunc(func(w http.ResponseWriter, _ *http.Request) { w.WriteHeader(code) })
	}
	r := mux.NewRouter[http.Handler]("hunt3", call, status(404),
		func(types.Node) http.Handler { return status(405) },
		func(types.Node) http.Handler { return status(200) })

	func() {
		defer func() {
			if recover() != nil {
				t.Skip("pattern rejected: nothing to check") // an acceptable repair
			}
		}()
		r.Get(pattern, status(201))
	}()

	full := regexp.MustCompile(`^(?:` + rule + `)$`)
	for _, path := range []string{"/5{2}", "/12"} {
		w := httptest.NewRecorder()
		req := httptest.NewRequest(http.MethodGet, "/", nil)
		req.URL = &url.URL{Path: path}
		r.ServeHTTP(w, req)
		if w.Code != 201 {
			continue // a 404 is not a soundness violation
		}
		if v := params["id"]; !full.MatchString(v) || "/"+v != path {
			t.Errorf("path %q handed to route %q with id=%q: the value does not satisfy %s / path != pattern with id substituted",
				path, gotPattern, v, rule)
		}
	}
}
