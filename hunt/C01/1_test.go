// package directory: repository root (package mux_test); does not need -race
package mux_test

import (
	"net/http"
	"net/http/httptest"
	"net/url"
	"testing"

	"github.com/issue9/mux/v9"
	"github.com/issue9/mux/v9/types"
)

// The literal text after a regexp parameter is matched by the compiled regexp, and Go's
// regexp engine decodes every invalid UTF-8 byte of the input as U+FFFD. A pattern whose
// literal suffix contains U+FFFD (bytes EF BF BD) therefore accepts a request path that
// has an arbitrary invalid byte (0xFF, 0x80, ...) at that position.
func TestHunt1(t *testing.T) {
	var pattern string
	var params map[string]string
	call := func(w http.ResponseWriter, r *http.Request, route types.Route, h http.Handler) {
		params = map[string]string{}
		route.Params().Range(func(k, v string) { params[k] = v })
		pattern = ""
		if n := route.Node(); n != nil {
			pattern = n.Pattern()
		}
		h.ServeHTTP(w, r)
	}
	status := func(code int) http.Handler {
		return http.HandlerFunc(func(w http.ResponseWriter, _ *http.Request) { w.WriteHeader(code) })
	}
	r := mux.NewRouter[http.Handler]("hunt1", call, status(404),
		func(types.Node) http.Handler { return status(405) },
		func(types.Node) http.Handler { return status(200) })

	r.Get("/{id:\\d+}/\uFFFD", status(201))

	serve := func(path string) int {
		w := httptest.NewRecorder()
		req := httptest.NewRequest(http.MethodGet, "/", nil)
		req.URL = &url.URL{Path: path} // what net/http produces for /1/%FF
		r.ServeHTTP(w, req)
		return w.Code
	}

	if c := serve("/1/\uFFFD"); c != 201 {
		t.Fatalf("sanity: the exact path must be served, got %d", c)
	}
	for _, path := range []string{"/1/\xff", "/1/\x80", "/1/\xef\xbf"} {
		if c := serve(path); c != 404 {
			t.Errorf("path %q was handed to route %q with params %v (status %d), but its literal text is not byte for byte that of the pattern",
				path, pattern, params, c)
		}
	}
}
