// package directory: repository root (package mux_test); does not need -race
package mux_test

import (
	"net/http"
	"net/http/httptest"
	"testing"

	"github.com/issue9/mux/v9"
	"github.com/issue9/mux/v9/types"
)

// AndMatcher does not undo what its first members did when a later member refuses the
// request: the path prefix stripped by NewPathVersion and the parameter it captured stay
// behind. Inside an OrMatcher the next alternative (and then the router) works on the
// truncated path and reports the abandoned alternative's parameter.
func TestHunt2(t *testing.T) {
	var gotPattern, gotTag string
	var gotParams map[string]string

	call := func(w http.ResponseWriter, r *http.Request, route types.Route, h http.Handler) {
		gotParams = map[string]string{}
		route.Params().Range(func(k, v string) { gotParams[k] = v })
		gotPattern = ""
		if n := route.Node(); n != nil {
			gotPattern = n.Pattern()
		}
		h.ServeHTTP(w, r)
	}
	tag := func(s string) http.Handler {
		return http.HandlerFunc(func(http.ResponseWriter, *http.Request) { gotTag = s })
	}
	g := mux.NewGroup[http.Handler](call, tag("404"),
		func(types.Node) http.Handler { return tag("405") },
		func(types.Node) http.Handler { return tag("options") })

	// "(v1 in the path AND version=2 in the Accept header) OR any request"
	always := mux.MatcherFunc(func(*http.Request, *types.Context) bool { return true })
	m := mux.OrMatcher(
		mux.AndMatcher(mux.NewPathVersion("ver", "v1"), mux.NewHeaderVersion("", "", nil, "2")),
		always,
	)
	r := g.New("main", m)
	r.Get("/users", tag("/users"))
	r.Get("/v1/users", tag("/v1/users"))

	req := httptest.NewRequest(http.MethodGet, "/v1/users", nil) // no Accept header: the And alternative fails
	g.ServeHTTP(httptest.NewRecorder(), req)

	// Only `always` accepted the request; it strips nothing and captures nothing.
	if gotPattern != "/v1/users" || gotTag != "/v1/users" {
		t.Errorf("request /v1/users was handed to route %q (handler %q): the request path does not equal the reported pattern", gotPattern, gotTag)
	}
	if len(gotParams) != 0 {
		t.Errorf("parameters left over from the abandoned AndMatcher alternative: %v", gotParams)
	}
}
