// Belongs in the module root directory (package mux_test); does not need -race.

package mux_test

import (
	"errors"
	"net/http"
	"net/http/httptest"
	"testing"

	"github.com/issue9/mux/v9"
	"github.com/issue9/mux/v9/types"
)

func huntCall(w http.ResponseWriter, r *http.Request, _ types.Route, h http.Handler) {
	h.ServeHTTP(w, r)
}

func huntBuilder(types.Node) http.Handler {
	return http.HandlerFunc(func(w http.ResponseWriter, _ *http.Request) { w.WriteHeader(http.StatusMethodNotAllowed) })
}

// serve calls h.ServeHTTP and reports the panic value that escaped, if any.
func huntServe(h http.Handler, method, url string) (w *httptest.ResponseRecorder, escaped any) {
	w = httptest.NewRecorder()
	r := httptest.NewRequest(method, url, nil)
	defer func() { escaped = recover() }()
	h.ServeHTTP(w, r)
	return w, nil
}

// A Group configured with WithRecovery serves a request through a router that was
// attached with Group.Add (built by NewRouter without its own recovery option).
// The handler's panic escapes Group.ServeHTTP and the group's recovery function never sees it.
func TestHunt1(t *testing.T) {
	val := errors.New("boom")
	var got []any
	g := mux.NewGroup[http.Handler](huntCall, http.NotFoundHandler(), huntBuilder, huntBuilder,
		mux.WithRecovery(func(w http.ResponseWriter, v any) {
			got = append(got, v)
			w.WriteHeader(http.StatusInternalServerError)
		}))

	r := mux.NewRouter[http.Handler]("added", huntCall, http.NotFoundHandler(), huntBuilder, huntBuilder)
	r.Get("/panic", http.HandlerFunc(func(http.ResponseWriter, *http.Request) { panic(val) }))
	r.Get("/ok", http.HandlerFunc(func(w http.ResponseWriter, _ *http.Request) { w.WriteHeader(http.StatusAccepted) }))
	g.Add(nil, r)

	// sanity: group not-found is contained, so the group's option is live
	g2 := mux.NewGroup[http.Handler](huntCall, http.HandlerFunc(func(http.ResponseWriter, *http.Request) { panic(val) }), huntBuilder, huntBuilder,
		mux.WithRecovery(func(http.ResponseWriter, any) {}))
	if _, esc := huntServe(g2, http.MethodGet, "/x"); esc != nil {
		t.Fatalf("sanity: group not-found panic escaped: %v", esc)
	}

	_, esc := huntServe(g, http.MethodGet, "/panic")
	if esc != nil {
		t.Errorf("panic escaped Group.ServeHTTP although the group has a recovery option: %v", esc)
	}
	if len(got) != 1 || got[0] != any(val) {
		t.Errorf("group recovery function should have received %v exactly once, got %v", val, got)
	}

	w, esc := huntServe(g, http.MethodGet, "/ok")
	if esc != nil || w.Code != http.StatusAccepted {
		t.Errorf("later request not served normally: code=%d escaped=%v", w.Code, esc)
	}
}

