// Belongs in the module root directory (package mux_test); does not need -race.

package mux_test

import (
	"errors"
	"net/http"
	"net/http/httptest"
	"testing"

	"github.com/issue9/mux/v9"
	"github.com/issue9/mux/v9/types"
)

func hunt2Call(w http.ResponseWriter, r *http.Request, _ types.Route, h http.Handler) {
	h.ServeHTTP(w, r)
}

func hunt2Builder(types.Node) http.Handler {
	return http.HandlerFunc(func(w http.ResponseWriter, _ *http.Request) { w.WriteHeader(http.StatusMethodNotAllowed) })
}

// serve calls h.ServeHTTP and reports the panic value that escaped, if any.
func hunt2Serve(h http.Handler, method, url string) (w *httptest.ResponseRecorder, escaped any) {
	w = httptest.NewRecorder()
	r := httptest.NewRequest(method, url, nil)
	defer func() { escaped = recover() }()
	h.ServeHTTP(w, r)
	return w, nil
}

// A Group configured with WithRecovery: the user-supplied Matcher of a router created by
// Group.New panics while the group serves a request. The panic escapes Group.ServeHTTP.
func TestHunt2(t *testing.T) {
	val := errors.New("matcher boom")
	var got []any
	g := mux.NewGroup[http.Handler](hunt2Call, http.NotFoundHandler(), hunt2Builder, hunt2Builder,
		mux.WithRecovery(func(w http.ResponseWriter, v any) {
			got = append(got, v)
			w.WriteHeader(http.StatusInternalServerError)
		}))

	m := mux.MatcherFunc(func(r *http.Request, _ *types.Context) bool {
		if r.Header.Get("X-Panic") != "" {
			panic(val)
		}
		return true
	})
	r := g.New("r1", m)
	r.Get("/ok", http.HandlerFunc(func(w http.ResponseWriter, _ *http.Request) { w.WriteHeader(http.StatusAccepted) }))

	w := httptest.NewRecorder()
	req := httptest.NewRequest(http.MethodGet, "/ok", nil)
	req.Header.Set("X-Panic", "1")
	var esc any
	func() {
		defer func() { esc = recover() }()
		g.ServeHTTP(w, req)
	}()
	if esc != nil {
		t.Errorf("panic escaped Group.ServeHTTP although recovery is configured: %v", esc)
	}
	if len(got) != 1 || got[0] != any(val) {
		t.Errorf("recovery function should have received %v exactly once, got %v", val, got)
	}

	w2, esc2 := hunt2Serve(g, http.MethodGet, "/ok")
	if esc2 != nil || w2.Code != http.StatusAccepted {
		t.Errorf("later request not served normally: code=%d escaped=%v", w2.Code, esc2)
	}
}
