// Package directory: repository root (/tmp/wt/C06/zz_hunt1_test.go), package mux_test. Does NOT need -race (deterministic).
package mux_test

import (
	"net/http"
	"net/http/httptest"
	"sync"
	"testing"
	"time"

	"github.com/issue9/mux/v9"
	"github.com/issue9/mux/v9/examples/std"
)

// gateWriter pauses the request the first time the router (or the library's
// own 405/OPTIONS handler) asks for the header map, i.e. after the route
// lookup has finished and before node.AllowHeader()/node.Methods() is read.
type gateWriter struct {
	*httptest.ResponseRecorder
	once    sync.Once
	entered chan struct{}
	resume  chan struct{}
}

func (g *gateWriter) Header() http.Header {
	g.once.Do(func() {
		close(g.entered)
		<-g.resume
	})
	return g.ResponseRecorder.Header()
}

// serve starts method path on r, lets write run while the request is in
// flight (between lookup and handler execution) and returns the response.
func hunt1Serve(t *testing.T, r *std.Router, method, path string, write func()) *httptest.ResponseRecorder {
	t.Helper()
	g := &gateWriter{ResponseRecorder: httptest.NewRecorder(), entered: make(chan struct{}), resume: make(chan struct{})}
	done := make(chan struct{})
	go func() {
		defer close(done)
		r.ServeHTTP(g, httptest.NewRequest(method, path, nil))
	}()
	select {
	case <-g.entered:
	case <-time.After(5 * time.Second):
		t.Fatal("request never reached the handler")
	}
	write() // a writer goroutine's whole Remove/Handle happens here
	close(g.resume)
	<-done
	return g.ResponseRecorder
}

func TestHunt1(t *testing.T) {
	ok := http.HandlerFunc(func(w http.ResponseWriter, r *http.Request) { w.WriteHeader(http.StatusOK) })

	// A: POST on a GET-only route while the route is removed.
	// Sequentially possible: 405 with Allow "GET, HEAD, OPTIONS" (before) or 404 (after).
	t.Run("405-during-remove", func(t *testing.T) {
		r := std.NewRouter("def", mux.WithLock(true))
		r.Get("/toggled", ok)
		w := hunt1Serve(t, r, http.MethodPost, "/toggled", func() { r.Remove("/toggled") })
		allow := w.Header().Get("Allow")
		if !(w.Code == 404 || (w.Code == 405 && allow == "GET, HEAD, OPTIONS")) {
			t.Errorf("got %d with Allow=%q; no sequential instant produces this", w.Code, allow)
		}
	})

	// B: OPTIONS on a route while it is removed and re-registered (new node).
	// Sequentially possible: 200 with Allow "GET, HEAD, OPTIONS" or 404.
	t.Run("options-during-remove-readd", func(t *testing.T) {
		r := std.NewRouter("def", mux.WithLock(true))
		r.Get("/toggled", ok)
		w := hunt1Serve(t, r, http.MethodOptions, "/toggled", func() {
			r.Remove("/toggled")
			r.Get("/toggled", ok)
		})
		allow := w.Header().Get("Allow")
		if !(w.Code == 404 || (w.Code == 200 && allow == "GET, HEAD, OPTIONS")) {
			t.Errorf("got %d with Allow=%q; no sequential instant produces this", w.Code, allow)
		}
	})

	// C: GET on a POST-only route while GET is being registered.
	// Sequentially possible: 405 with Allow "OPTIONS, POST" (before) or 200 from the GET handler (after).
	t.Run("405-during-add", func(t *testing.T) {
		r := std.NewRouter("def", mux.WithLock(true))
		r.Post("/toggled", ok)
		w := hunt1Serve(t, r, http.MethodGet, "/toggled", func() { r.Get("/toggled", ok) })
		allow := w.Header().Get("Allow")
		if !(w.Code == 200 || (w.Code == 405 && allow == "OPTIONS, POST")) {
			t.Errorf("GET got %d with Allow=%q (405 whose Allow lists GET); no sequential instant produces this", w.Code, allow)
		}
	})
}
