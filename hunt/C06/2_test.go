// Package directory: repository root (/tmp/wt/C06/zz_hunt2_test.go), package mux_test. Stress test; does not need -race (passes/fails the same with it).
package mux_test

import (
	"net/http"
	"net/http/httptest"
	"strings"
	"sync"
	"sync/atomic"
	"testing"
	"time"

	"github.com/issue9/mux/v9"
	"github.com/issue9/mux/v9/examples/std"
)

// One writer toggles POST on /r (GET stays registered all the time); readers
// send the CORS preflight "OPTIONS /r, Access-Control-Request-Method: POST".
//
// Sequentially there are exactly two possible answers:
//   - POST registered:     Access-Control-Allow-Methods: "GET, HEAD, OPTIONS, POST" (+ Allow-Origin ...)
//   - POST not registered: no Access-Control-* header at all (preflight refused)
//
// so an approved preflight whose Access-Control-Allow-Methods does not contain
// the requested method can never be produced by a sequential router.
func TestHunt2(t *testing.T) {
	ok := http.HandlerFunc(func(w http.ResponseWriter, r *http.Request) { w.WriteHeader(http.StatusOK) })
	r := std.NewRouter("def", mux.WithLock(true), mux.WithAllowedCORS(3600))
	r.Get("/r", ok).Post("/r", ok)

	stop := make(chan struct{})
	var wg sync.WaitGroup
	var bad atomic.Value

	wg.Add(1)
	go func() { // writer
		defer wg.Done()
		for {
			select {
			case <-stop:
				return
			default:
			}
			r.Remove("/r", http.MethodPost)
			r.Post("/r", ok)
		}
	}()

	for i := 0; i < 8; i++ { // readers
		wg.Add(1)
		go func() {
			defer wg.Done()
			for {
				select {
				case <-stop:
					return
				default:
				}
				req := httptest.NewRequest(http.MethodOptions, "/r", nil)
				req.Header.Set("Origin", "https://example.com")
				req.Header.Set("Access-Control-Request-Method", http.MethodPost)
				w := httptest.NewRecorder()
				r.ServeHTTP(w, req)

				acam, has := w.Header()["Access-Control-Allow-Methods"]
				if has && !strings.Contains(acam[0], http.MethodPost) {
					bad.CompareAndSwap(nil, "preflight for POST approved (Allow-Origin="+w.Header().Get("Access-Control-Allow-Origin")+
						") with Access-Control-Allow-Methods="+acam[0])
					return
				}
			}
		}()
	}

	deadline := time.After(10 * time.Second)
	tick := time.NewTicker(10 * time.Millisecond)
	defer tick.Stop()
LOOP:
	for {
		select {
		case <-deadline:
			break LOOP
		case <-tick.C:
			if bad.Load() != nil {
				break LOOP
			}
		}
	}
	close(stop)
	wg.Wait()

	if v := bad.Load(); v != nil {
		t.Errorf("%s; sequentially the header is either absent or contains POST", v)
	}
}
