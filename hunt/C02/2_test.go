// Belongs in the module root directory (package mux_test, e.g. /tmp/wt/C02/zz_hunt2_test.go). Does not need -race.
package mux_test

import (
	"fmt"
	"net/http"
	"net/http/httptest"
	"sort"
	"strings"
	"testing"

	"github.com/issue9/mux/v9"
	"github.com/issue9/mux/v9/types"
)

type hunt2H struct{ pat string }

// hunt2Router registers every pattern for GET; the answer body is "<pattern>|k=v,k=v".
func hunt2Router(opts []mux.Option, patterns ...string) *mux.Router[*hunt2H] {
	call := func(w http.ResponseWriter, r *http.Request, ps types.Route, h *hunt2H) {
		if h == nil {
			w.WriteHeader(http.StatusNotFound)
			return
		}
		if h.pat == "" {
			w.WriteHeader(http.StatusMethodNotAllowed)
			return
		}
		var kv []string
		ps.Params().Range(func(k, v string) { kv = append(kv, k+"="+v) })
		sort.Strings(kv)
		fmt.Fprintf(w, "%s|%s", h.pat, strings.Join(kv, ","))
	}
	r := mux.NewRouter[*hunt2H]("hunt", call, nil,
		func(types.Node) *hunt2H { return &hunt2H{} },
		func(types.Node) *hunt2H { return &hunt2H{} }, opts...)
	for _, p := range patterns {
		r.Get(p, &hunt2H{p})
	}
	return r
}

func hunt2Get(r http.Handler, path string) string {
	w := httptest.NewRecorder()
	req := httptest.NewRequest(http.MethodGet, "http://x/", nil)
	req.URL.Path = path
	r.ServeHTTP(w, req)
	if w.Code != http.StatusOK {
		return fmt.Sprint(w.Code)
	}
	return w.Body.String()
}

func hunt2Check(t *testing.T, r http.Handler, path, want string) {
	t.Helper()
	if got := hunt2Get(r, path); got != want {
		t.Errorf("GET %q: got %q, want %q", path, got, want)
	}
}

// A regexp parameter that ends the pattern takes the whole rest whenever its rule accepts
// the whole rest. The library takes the regexp engine's preferred prefix instead and then
// fails because text is left over.
func TestHunt2(t *testing.T) {
	r := hunt2Router(nil, "/docs/{lang:zh|zh-CN}", "/v/{lang:zh|zh-CN}/index", "/n/{id:\\d+?}")

	hunt2Check(t, r, "/docs/zh", "/docs/{lang:zh|zh-CN}|lang=zh")             // sanity: passes
	hunt2Check(t, r, "/v/zh-CN/index", "/v/{lang:zh|zh-CN}/index|lang=zh-CN") // same rule, not at the end: passes
	hunt2Check(t, r, "/docs/zh-CN", "/docs/{lang:zh|zh-CN}|lang=zh-CN")       // fails: 404
	hunt2Check(t, r, "/n/123", "/n/{id:\\d+?}|id=123")                        // fails: 404

}
