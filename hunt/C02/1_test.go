// Belongs in the module root directory (package mux_test, e.g. /tmp/wt/C02/zz_hunt1_test.go). Does not need -race.
package mux_test

import (
	"fmt"
	"net/http"
	"net/http/httptest"
	"sort"
	"strings"
	"testing"

	"github.com/issue9/mux/v9"
	"github.com/issue9/mux/v9/types"
)

type hunt1H struct{ pat string }

// hunt1Router registers every pattern for GET; the answer body is "<pattern>|k=v,k=v".
func hunt1Router(opts []mux.Option, patterns ...string) *mux.Router[*hunt1H] {
	call := func(w http.ResponseWriter, r *http.Request, ps types.Route, h *hunt1H) {
		if h == nil {
			w.WriteHeader(http.StatusNotFound)
			return
		}
		if h.pat == "" {
			w.WriteHeader(http.StatusMethodNotAllowed)
			return
		}
		var kv []string
		ps.Params().Range(func(k, v string) { kv = append(kv, k+"="+v) })
		sort.Strings(kv)
		fmt.Fprintf(w, "%s|%s", h.pat, strings.Join(kv, ","))
	}
	r := mux.NewRouter[*hunt1H]("hunt", call, nil,
		func(types.Node) *hunt1H { return &hunt1H{} },
		func(types.Node) *hunt1H { return &hunt1H{} }, opts...)
	for _, p := range patterns {
		r.Get(p, &hunt1H{p})
	}
	return r
}

func hunt1Get(r http.Handler, path string) string {
	w := httptest.NewRecorder()
	req := httptest.NewRequest(http.MethodGet, "http://x/", nil)
	req.URL.Path = path
	r.ServeHTTP(w, req)
	if w.Code != http.StatusOK {
		return fmt.Sprint(w.Code)
	}
	return w.Body.String()
}

func hunt1Check(t *testing.T, r http.Handler, path, want string) {
	t.Helper()
	if got := hunt1Get(r, path); got != want {
		t.Errorf("GET %q: got %q, want %q", path, got, want)
	}
}

// An interceptor parameter must take the shortest text that its matcher accepts and
// after which its literal suffix occurs. Occurrences of the suffix that overlap a
// rejected occurrence are never looked at.
func TestHunt1(t *testing.T) {
	opts := []mux.Option{mux.WithAnyInterceptor("any"), mux.WithDigitInterceptor("digit")}

	// "---x" = "-" + "--" + "x": a="-" is the shortest non-empty text followed by "--".
	r := hunt1Router(opts, "/{a:any}--{b}")
	hunt1Check(t, r, "/---x", "/{a:any}--{b}|a=-,b=x")
	hunt1Check(t, r, "/q--x", "/{a:any}--{b}|a=q,b=x") // sanity: passes

	// "111" = "1" + "11": the interceptor route accepts and outranks the named one.
	r = hunt1Router(opts, "/{y:digit}11", "/{x}")
	hunt1Check(t, r, "/111", "/{y:digit}11|y=1")

	// "----": the shortest accepted capture is "-" (suffix at offset 1), the rest "-" matches
	// nothing, and a capture is never widened: 404. The library skips offset 1 and captures "--".
	r = hunt1Router(opts, "/{a:any}--")
	hunt1Check(t, r, "/----", "404")
}
