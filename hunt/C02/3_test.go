// Belongs in the module root directory (package mux_test, e.g. /tmp/wt/C02/zz_hunt3_test.go). Does not need -race.
package mux_test

import (
	"fmt"
	"net/http"
	"net/http/httptest"
	"sort"
	"strings"
	"testing"

	"github.com/issue9/mux/v9"
	"github.com/issue9/mux/v9/types"
)

type hunt3H struct{ pat string }

// hunt3Router registers every pattern for GET; the answer body is "<pattern>|k=v,k=v".
func hunt3Router(opts []mux.Option, patterns ...string) *mux.Router[*hunt3H] {
	call := func(w http.ResponseWriter, r *http.Request, ps types.Route, h *hunt3H) {
		if h == nil {
			w.WriteHeader(http.StatusNotFound)
			return
		}
		if h.pat == "" {
			w.WriteHeader(http.StatusMethodNotAllowed)
			return
		}
		var kv []string
		ps.Params().Range(func(k, v string) { kv = append(kv, k+"="+v) })
		sort.Strings(kv)
		fmt.Fprintf(w, "%s|%s", h.pat, strings.Join(kv, ","))
	}
	r := mux.NewRouter[*hunt3H]("hunt", call, nil,
		func(types.Node) *hunt3H { return &hunt3H{} },
		func(types.Node) *hunt3H { return &hunt3H{} }, opts...)
	for _, p := range patterns {
		r.Get(p, &hunt3H{p})
	}
	return r
}

func hunt3Get(r http.Handler, path string) string {
	w := httptest.NewRecorder()
	req := httptest.NewRequest(http.MethodGet, "http://x/", nil)
	req.URL.Path = path
	r.ServeHTTP(w, req)
	if w.Code != http.StatusOK {
		return fmt.Sprint(w.Code)
	}
	return w.Body.String()
}

func hunt3Check(t *testing.T, r http.Handler, path, want string) {
	t.Helper()
	if got := hunt3Get(r, path); got != want {
		t.Errorf("GET %q: got %q, want %q", path, got, want)
	}
}

// BORDERLINE (needs a '}' inside literal text, which CheckSyntax accepts).
// Two literal siblings that share their first byte defeat the first-byte index that is
// built once a node has >= 5 children: a registered static route answers 404.
func TestHunt3(t *testing.T) {
	for _, p := range []string{"/p/a}1", "/p/a}2"} {
		if err := mux.CheckSyntax(p); err != nil {
			t.Fatalf("%s is not well-formed: %v", p, err)
		}
	}

	// four children under "/p/": no index, both routes are found
	r := hunt3Router(nil, "/p/b", "/p/c", "/p/a}1", "/p/a}2")
	hunt3Check(t, r, "/p/a}1", "/p/a}1|")
	hunt3Check(t, r, "/p/a}2", "/p/a}2|")

	// five children under "/p/": index in use
	r = hunt3Router(nil, "/p/b", "/p/c", "/p/d", "/p/a}1", "/p/a}2")
	hunt3Check(t, r, "/p/a}2", "/p/a}2|")
	hunt3Check(t, r, "/p/a}1", "/p/a}1|") // fails: 404
}
