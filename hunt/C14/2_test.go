// Belongs in the root package directory of the library (package mux_test); does not need -race.
package mux_test

import (
	"net/http"
	"testing"

	"github.com/issue9/mux/v9"
	"github.com/issue9/mux/v9/types"
)

func hunt2Match(h *mux.Hosts, host string) (bool, string) {
	ctx := types.NewContext()
	ok := h.Match(&http.Request{Host: host}, ctx)
	return ok, ctx.MustString("sub", "<unset>")
}

// Registering (and even deleting again) the unrelated wildcard domain {sub}.cn
// makes {sub}.com stop accepting shop.china.com.
func TestHunt2(t *testing.T) {
	h := mux.NewHosts(false, "{sub}.com")
	if ok, sub := hunt2Match(h, "shop.china.com"); !ok || sub != "shop.china" {
		t.Fatalf("only {sub}.com registered: got %v sub=%s", ok, sub) // passes: true, shop.china
	}

	h.Add("{sub}.cn")
	if ok, sub := hunt2Match(h, "shop.china.com"); !ok || sub != "shop.china" {
		t.Errorf("after Add({sub}.cn): shop.china.com must still resolve to {sub}.com with sub=shop.china, got %v sub=%s", ok, sub)
	}

	h.Delete("{sub}.cn") // the registered set is {sub}.com alone again
	if ok, sub := hunt2Match(h, "shop.china.com"); !ok || sub != "shop.china" {
		t.Errorf("after Delete({sub}.cn): shop.china.com must resolve to {sub}.com with sub=shop.china, got %v sub=%s", ok, sub)
	}
}
