// Belongs in the root package directory of the library (package mux_test); NEEDS -race.
package mux_test

import (
	"fmt"
	"sync"
	"testing"

	"github.com/issue9/mux/v9"
)

// NewHosts(true) asks for a locked matcher, yet RegisterInterceptor writes the
// interceptor map without any lock while Add reads it under the tree lock.
func TestHunt3(t *testing.T) {
	h := mux.NewHosts(true)
	var wg sync.WaitGroup
	wg.Add(2)
	go func() {
		defer wg.Done()
		for i := 0; i < 200; i++ {
			h.RegisterInterceptor(func(s string) bool { return s != "" }, fmt.Sprintf("any%d", i))
		}
	}()
	go func() {
		defer wg.Done()
		for i := 0; i < 200; i++ {
			h.Add(fmt.Sprintf("{sub:x%d}.d%d.example.com", i, i))
		}
	}()
	wg.Wait()
}
