// Belongs in the root package directory of the library (package mux_test); does not need -race.
package mux_test

import (
	"net/http"
	"testing"

	"github.com/issue9/mux/v9"
	"github.com/issue9/mux/v9/types"
)

func hunt1Match(h *mux.Hosts, host string) (bool, map[string]string) {
	ctx := types.NewContext()
	ok := h.Match(&http.Request{Host: host}, ctx)
	ps := map[string]string{}
	ctx.Range(func(k, v string) { ps[k] = v })
	return ok, ps
}

// Hosts.Add lower-cases the whole pattern, not only the domain name:
// the regexp \D+ becomes \d+, the interceptor rule "Answer" becomes the regexp "answer".
func TestHunt1(t *testing.T) {
	h := mux.NewHosts(false)

	h.Add(`{sub:\D+}.example.com`) // sub = one or more non-digits
	if ok, ps := hunt1Match(h, "abc.example.com"); !ok || ps["sub"] != "abc" {
		t.Errorf(`{sub:\D+}.example.com must accept abc.example.com with sub=abc, got %v %v`, ok, ps)
	}
	if ok, ps := hunt1Match(h, "123.example.com"); ok {
		t.Errorf(`{sub:\D+}.example.com must reject 123.example.com, got %v %v`, ok, ps)
	}

	h.RegisterInterceptor(func(s string) bool { return s == "42" }, "Answer")
	h.Add("{id:Answer}.example.org") // registered after the interceptor, so the interceptor applies
	if ok, ps := hunt1Match(h, "42.example.org"); !ok || ps["id"] != "42" {
		t.Errorf(`{id:Answer}.example.org must accept 42.example.org with id=42, got %v %v`, ok, ps)
	}
	if ok, ps := hunt1Match(h, "answer.example.org"); ok {
		t.Errorf(`{id:Answer}.example.org must reject answer.example.org, got %v %v`, ok, ps)
	}
}
