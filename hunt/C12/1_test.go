// belongs in the module root directory (package mux_test); does not need -race

package mux_test

import (
	"net/http"
	"net/http/httptest"
	"testing"

	"github.com/issue9/mux/v9"
	"github.com/issue9/mux/v9/types"
)

// A preflight whose Access-Control-Request-Headers names only allowed headers
// must be granted, whatever the (legal) spelling of the list: RFC 9110 5.6.1.2
// obliges a recipient to ignore empty list elements, and a header sent on
// several lines is one list.
func TestHunt1(t *testing.T) {
	call := func(w http.ResponseWriter, r *http.Request, _ types.Route, h http.Handler) { h.ServeHTTP(w, r) }
	opt := func(n types.Node) http.Handler {
		return http.HandlerFunc(func(w http.ResponseWriter, _ *http.Request) { w.Header().Set("Allow", n.AllowHeader()) })
	}
	mna := func(n types.Node) http.Handler {
		return http.HandlerFunc(func(w http.ResponseWriter, _ *http.Request) { w.WriteHeader(http.StatusMethodNotAllowed) })
	}

	r := mux.NewRouter("def", call, http.NotFoundHandler(), mna, opt,
		mux.WithCORS([]string{"https://example.com"}, []string{"X-A", "X-B"}, []string{"X-E"}, 50, true))
	r.Get("/path", http.HandlerFunc(func(w http.ResponseWriter, _ *http.Request) { w.WriteHeader(http.StatusOK) }))

	cases := []struct {
		name  string
		lines []string // the Access-Control-Request-Headers lines of the request
	}{
		{"baseline: one line", []string{"x-a, X-B"}},
		{"baseline: two lines", []string{"x-a", "x-b"}},
		{"trailing comma", []string{"x-a,"}},
		{"empty element inside the list", []string{"x-a, ,x-b"}},
		{"leading comma", []string{",x-a"}},
		{"empty first line, then a list", []string{"", "x-a"}},
		{"a list, then an empty line", []string{"x-a", ""}},
	}

	for _, c := range cases {
		req := httptest.NewRequest(http.MethodOptions, "/path", nil)
		req.Header.Set("Origin", "https://example.com")
		req.Header.Set("Access-Control-Request-Method", "GET")
		for _, l := range c.lines {
			req.Header.Add("Access-Control-Request-Headers", l)
		}

		w := httptest.NewRecorder()
		r.ServeHTTP(w, req)
		h := w.Header()

		if got := h.Get("Access-Control-Allow-Origin"); got != "https://example.com" {
			t.Errorf("%s (%q): Access-Control-Allow-Origin = %q, want the allowed origin", c.name, c.lines, got)
		}
		if got := h.Get("Access-Control-Allow-Credentials"); got != "true" {
			t.Errorf("%s (%q): Access-Control-Allow-Credentials = %q, want true", c.name, c.lines, got)
		}
		if got := h.Get("Access-Control-Allow-Headers"); got != "X-A,X-B" {
			t.Errorf("%s (%q): Access-Control-Allow-Headers = %q, want X-A,X-B", c.name, c.lines, got)
		}
		if got := h.Get("Access-Control-Max-Age"); got != "50" {
			t.Errorf("%s (%q): Access-Control-Max-Age = %q, want 50", c.name, c.lines, got)
		}
	}
}
