// Package directory: repository root (package mux_test). Does not need -race.
package mux_test

import (
	"fmt"
	"net/http"
	"net/http/httptest"
	"reflect"
	"testing"

	"github.com/issue9/mux/v9"
	"github.com/issue9/mux/v9/header"
	"github.com/issue9/mux/v9/types"
)

func hunt2Router() *mux.Router[http.Handler] {
	call := func(w http.ResponseWriter, r *http.Request, _ types.Route, h http.Handler) { h.ServeHTTP(w, r) }
	b := func(status int) types.BuildNodeHandler[http.Handler] {
		return func(n types.Node) http.Handler {
			return http.HandlerFunc(func(w http.ResponseWriter, _ *http.Request) {
				w.Header().Set(header.Allow, n.AllowHeader())
				w.WriteHeader(status)
			})
		}
	}
	return mux.NewRouter[http.Handler]("def", call, http.NotFoundHandler(), b(405), b(200))
}

func hunt2Handle(r *mux.Router[http.Handler], pattern string, methods ...string) (err error) {
	defer func() {
		if e := recover(); e != nil {
			err = fmt.Errorf("%v", e)
		}
	}()
	r.Handle(pattern, http.HandlerFunc(func(w http.ResponseWriter, _ *http.Request) { w.WriteHeader(201) }), nil, methods...)
	return nil
}

func hunt2Do(r http.Handler, method, path string) (int, string) {
	req := httptest.NewRequest(method, "http://localhost/", nil)
	req.URL.Path = path
	w := httptest.NewRecorder()
	r.ServeHTTP(w, req)
	return w.Code, w.Header().Get(header.Allow)
}

// A rejected Handle must change nothing. Here the rejected call deletes a live route.
func TestHunt2(t *testing.T) {
	const p1, p2 = `/{id:\d{}}a`, `/{id:\d{}}b`
	for _, p := range []string{p1, p2} { // both are well-formed as far as the library is concerned
		if err := mux.CheckSyntax(p); err != nil {
			t.Fatalf("%s: %v", p, err)
		}
		if err := hunt2Handle(hunt2Router(), p, http.MethodGet); err != nil {
			t.Fatalf("%s is not accepted on its own: %v", p, err)
		}
	}

	r := hunt2Router()
	if err := hunt2Handle(r, "/other", http.MethodPost); err != nil {
		t.Fatal(err)
	}
	if err := hunt2Handle(r, p1, http.MethodGet); err != nil {
		t.Fatal(err)
	}

	routes := r.Routes()
	code, _ := hunt2Do(r, http.MethodGet, "/5{}a")
	if code != 201 {
		t.Fatalf("setup: GET /5{}a = %d", code)
	}
	_, allow := hunt2Do(r, http.MethodOptions, "*")

	err := hunt2Handle(r, p2, http.MethodGet)
	if err == nil {
		t.Skip("second registration accepted; nothing to check")
	}
	t.Logf("Handle(%s) rejected: %v", p2, err)

	if got := r.Routes(); !reflect.DeepEqual(got, routes) {
		t.Errorf("rejected Handle changed Routes():\n before %v\n after  %v", routes, got)
	}
	if code, _ := hunt2Do(r, http.MethodGet, "/5{}a"); code != 201 {
		t.Errorf("rejected Handle changed dispatch: GET /5{}a was 201, now %d", code)
	}
	if _, a := hunt2Do(r, http.MethodOptions, "*"); a != allow {
		t.Errorf("rejected Handle changed OPTIONS * Allow: %q -> %q", allow, a)
	}
}
