// Package directory: repository root (package mux_test). Does not need -race.
package mux_test

import (
	"fmt"
	"net/http"
	"strings"
	"testing"

	"github.com/issue9/mux/v9"
	"github.com/issue9/mux/v9/header"
	"github.com/issue9/mux/v9/types"
)

func hunt1Router() *mux.Router[http.Handler] {
	call := func(w http.ResponseWriter, r *http.Request, _ types.Route, h http.Handler) { h.ServeHTTP(w, r) }
	b := func(status int) types.BuildNodeHandler[http.Handler] {
		return func(n types.Node) http.Handler {
			return http.HandlerFunc(func(w http.ResponseWriter, _ *http.Request) {
				w.Header().Set(header.Allow, n.AllowHeader())
				w.WriteHeader(status)
			})
		}
	}
	return mux.NewRouter[http.Handler]("def", call, http.NotFoundHandler(), b(405), b(200))
}

func hunt1Handle(r *mux.Router[http.Handler], pattern string, methods ...string) (err error) {
	defer func() {
		if e := recover(); e != nil {
			err = fmt.Errorf("%v", e)
		}
	}()
	r.Handle(pattern, http.HandlerFunc(func(w http.ResponseWriter, _ *http.Request) { w.WriteHeader(201) }), nil, methods...)
	return nil
}

// "{name:}" (empty rule) is documented syntax ("rule ... 一般为正则或是空").
func TestHunt1(t *testing.T) {
	// Clause: a pattern identical up to parameter names to the only other route is always rejected.
	t.Run("only-other-route", func(t *testing.T) {
		r := hunt1Router()
		if err := hunt1Handle(r, "/x/{id:}/a", http.MethodGet); err != nil {
			t.Fatal(err)
		}
		// control: the same pair written without the colon is rejected
		r0 := hunt1Router()
		_ = hunt1Handle(r0, "/x/{id}/a", http.MethodGet)
		if err := hunt1Handle(r0, "/x/{key}/a", http.MethodGet); err == nil {
			t.Fatal("control failed: /x/{key}/a accepted next to /x/{id}/a")
		}

		if err := hunt1Handle(r, "/x/{key:}/a", http.MethodGet); err == nil {
			t.Errorf("/x/{key:}/a differs from the only route /x/{id:}/a in the parameter name only, but was accepted; Routes()=%v", r.Routes())
		}
	})

	// Clause: a pattern not identical up to parameter names to any live route is never rejected as ambiguous.
	t.Run("false-ambiguity", func(t *testing.T) {
		r := hunt1Router()
		for _, p := range []string{"/x/{id:}//b", "/x/{id:}/c"} {
			if err := hunt1Handle(r, p, http.MethodGet); err != nil {
				t.Fatal(err)
			}
		}
		err := hunt1Handle(r, "/x/{key:}/b", http.MethodGet)
		if err != nil && strings.Contains(err.Error(), "歧义") {
			t.Errorf("/x/{key:}/b is not identical up to names to /x/{id:}//b or /x/{id:}/c but was rejected as ambiguous: %v", err)
		}
	})
}
