// Package directory: repository root (package mux_test). Does not need -race.
package mux_test

import (
	"fmt"
	"net/http"
	"strings"
	"testing"

	"github.com/issue9/mux/v9"
	"github.com/issue9/mux/v9/header"
	"github.com/issue9/mux/v9/types"
)

func hunt3Router() *mux.Router[http.Handler] {
	call := func(w http.ResponseWriter, r *http.Request, _ types.Route, h http.Handler) { h.ServeHTTP(w, r) }
	b := func(status int) types.BuildNodeHandler[http.Handler] {
		return func(n types.Node) http.Handler {
			return http.HandlerFunc(func(w http.ResponseWriter, _ *http.Request) {
				w.Header().Set(header.Allow, n.AllowHeader())
				w.WriteHeader(status)
			})
		}
	}
	return mux.NewRouter[http.Handler]("def", call, http.NotFoundHandler(), b(405), b(200))
}

func hunt3Handle(r *mux.Router[http.Handler], pattern string, status int, methods ...string) (err error) {
	defer func() {
		if e := recover(); e != nil {
			err = fmt.Errorf("%v", e)
		}
	}()
	r.Handle(pattern, http.HandlerFunc(func(w http.ResponseWriter, _ *http.Request) { w.WriteHeader(status) }), nil, methods...)
	return nil
}

// Regexp rules with a {n} quantifier are accepted by CheckSyntax and by Handle.
func TestHunt3(t *testing.T) {
	// Clause: a duplicate pattern+method is always rejected.
	t.Run("duplicate-accepted", func(t *testing.T) {
		r := hunt3Router()
		if err := hunt3Handle(r, `/{id:\d+}/x`, 201, http.MethodGet); err != nil {
			t.Fatal(err)
		}
		if err := hunt3Handle(r, `/{id:\d{3}}`, 202, http.MethodPatch); err != nil {
			t.Fatal(err)
		}
		if err := hunt3Handle(r, `/{id:\d{3}}`, 203, http.MethodPost); err != nil {
			t.Fatal(err)
		}
		if err := hunt3Handle(r, `/{id:\d{3}}`, 204, http.MethodPost); err == nil {
			t.Errorf(`second Handle("/{id:\d{3}}", POST) was accepted; Routes()=%v`, r.Routes())
		}
	})

	// Clause: a pattern not identical up to parameter names to any live route is never rejected as ambiguous.
	t.Run("false-ambiguity", func(t *testing.T) {
		r := hunt3Router()
		for _, p := range []string{`/{id:\d{2}}`, `/{id:\d{3}}`} {
			if err := hunt3Handle(r, p, 201, http.MethodGet); err != nil {
				t.Fatal(err)
			}
		}
		if err := hunt3Handle(hunt3Router(), `/{id:\d{4}}`, 201, http.MethodGet); err != nil {
			t.Fatalf("control: not accepted on an empty router: %v", err)
		}
		err := hunt3Handle(r, `/{id:\d{4}}`, 201, http.MethodGet)
		if err != nil && strings.Contains(err.Error(), "歧义") {
			t.Errorf(`/{id:\d{4}} rejected as ambiguous although no live route is identical to it up to names: %v`, err)
		}
	})
}
