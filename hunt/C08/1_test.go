// Belongs in the module root directory (/tmp/wt/C08, package mux_test); does not need -race.
package mux_test

import (
	"net/http"
	"net/http/httptest"
	"testing"

	"github.com/issue9/assert/v4"

	"github.com/issue9/mux/v9"
	"github.com/issue9/mux/v9/types"
)

func hunt1Router(o ...mux.Option) *mux.Router[http.Handler] {
	call := func(w http.ResponseWriter, r *http.Request, _ types.Route, h http.Handler) { h.ServeHTTP(w, r) }
	node := func(status int) types.BuildNodeHandler[http.Handler] {
		return func(n types.Node) http.Handler {
			return http.HandlerFunc(func(w http.ResponseWriter, r *http.Request) {
				w.Header().Set("Allow", n.AllowHeader())
				w.WriteHeader(status)
			})
		}
	}
	return mux.NewRouter("hunt", call, http.NotFoundHandler(), node(405), node(200), o...)
}

// in-process request through httptest.ResponseRecorder
func hunt1Rec(h http.Handler, method, path string) *http.Response {
	w := httptest.NewRecorder()
	h.ServeHTTP(w, httptest.NewRequest(method, path, nil))
	return w.Result()
}

// request through a real net/http server
func hunt1Srv(a *assert.Assertion, srv *httptest.Server, method, path string) *http.Response {
	req, err := http.NewRequest(method, srv.URL+path, nil)
	a.NotError(err)
	resp, err := srv.Client().Do(req)
	a.NotError(err).NotNil(resp)
	resp.Body.Close()
	return resp
}

// The simplest write pattern: one Write, no WriteHeader, no header mutation.
// GET gets a sniffed Content-Type (set by net/http on the first Write that
// reaches the underlying writer); HEAD never lets a Write reach it.
func TestHunt1(t *testing.T) {
	a := assert.New(t, false)
	r := hunt1Router()
	body := "<html><body>hello</body></html>"
	r.Get("/page", http.HandlerFunc(func(w http.ResponseWriter, _ *http.Request) {
		w.Write([]byte(body))
	}))

	get := hunt1Rec(r, http.MethodGet, "/page")
	head := hunt1Rec(r, http.MethodHead, "/page")
	a.Equal(head.StatusCode, get.StatusCode)
	a.Equal(head.Header.Get("Content-Length"), "31")
	a.Equal(head.Header.Get("Content-Type"), get.Header.Get("Content-Type"),
		"recorder: HEAD Content-Type %q, GET Content-Type %q", head.Header.Get("Content-Type"), get.Header.Get("Content-Type"))

	srv := httptest.NewServer(r)
	defer srv.Close()
	g := hunt1Srv(a, srv, http.MethodGet, "/page")
	h := hunt1Srv(a, srv, http.MethodHead, "/page")
	a.Equal(h.StatusCode, g.StatusCode)
	a.Equal(h.Header.Get("Content-Length"), "31")
	a.Equal(h.Header.Get("Content-Type"), g.Header.Get("Content-Type"),
		"server: HEAD Content-Type %q, GET Content-Type %q", h.Header.Get("Content-Type"), g.Header.Get("Content-Type"))
}
