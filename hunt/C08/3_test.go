// Belongs in the module root directory (/tmp/wt/C08, package mux_test); does not need -race.
package mux_test

import (
	"net/http"
	"net/http/httptest"
	"testing"

	"github.com/issue9/assert/v4"

	"github.com/issue9/mux/v9"
	"github.com/issue9/mux/v9/types"
)

func hunt3Router(o ...mux.Option) *mux.Router[http.Handler] {
	call := func(w http.ResponseWriter, r *http.Request, _ types.Route, h http.Handler) { h.ServeHTTP(w, r) }
	node := func(status int) types.BuildNodeHandler[http.Handler] {
		return func(n types.Node) http.Handler {
			return http.HandlerFunc(func(w http.ResponseWriter, r *http.Request) {
				w.Header().Set("Allow", n.AllowHeader())
				w.WriteHeader(status)
			})
		}
	}
	return mux.NewRouter("hunt", call, http.NotFoundHandler(), node(405), node(200), o...)
}

// in-process request through httptest.ResponseRecorder
func hunt3Rec(h http.Handler, method, path string) *http.Response {
	w := httptest.NewRecorder()
	h.ServeHTTP(w, httptest.NewRequest(method, path, nil))
	return w.Result()
}

// request through a real net/http server
func hunt3Srv(a *assert.Assertion, srv *httptest.Server, method, path string) *http.Response {
	req, err := http.NewRequest(method, srv.URL+path, nil)
	a.NotError(err)
	resp, err := srv.Client().Do(req)
	a.NotError(err).NotNil(resp)
	resp.Body.Close()
	return resp
}

// A streaming GET handler using the usual "is the writer a Flusher" idiom.
// The writer handed to it for HEAD hides every optional interface of the
// underlying writer (Flusher, Unwrap, ...), so the handler takes another branch.
func TestHunt3(t *testing.T) {
	a := assert.New(t, false)
	r := hunt3Router()
	r.Get("/stream", http.HandlerFunc(func(w http.ResponseWriter, _ *http.Request) {
		f, ok := w.(http.Flusher)
		if !ok {
			http.Error(w, "streaming unsupported", http.StatusInternalServerError)
			return
		}
		w.Header().Set("Content-Type", "text/event-stream")
		for i := 0; i < 3; i++ {
			w.Write([]byte("data: x\n\n"))
			f.Flush()
		}
	}))

	get := hunt3Rec(r, http.MethodGet, "/stream")
	head := hunt3Rec(r, http.MethodHead, "/stream")
	a.Equal(head.StatusCode, get.StatusCode, "recorder: HEAD status %d, GET status %d", head.StatusCode, get.StatusCode)
	a.Equal(head.Header.Get("Content-Type"), get.Header.Get("Content-Type"))

	srv := httptest.NewServer(r)
	defer srv.Close()
	g := hunt3Srv(a, srv, http.MethodGet, "/stream")
	h := hunt3Srv(a, srv, http.MethodHead, "/stream")
	a.Equal(h.StatusCode, g.StatusCode, "server: HEAD status %d, GET status %d", h.StatusCode, g.StatusCode)
	a.Equal(h.Header.Get("Content-Type"), g.Header.Get("Content-Type"))
}
