// Belongs in the module root directory (/tmp/wt/C08, package mux_test); does not need -race.
package mux_test

import (
	"net/http"
	"net/http/httptest"
	"testing"

	"github.com/issue9/assert/v4"

	"github.com/issue9/mux/v9"
	"github.com/issue9/mux/v9/types"
)

func hunt2Router(o ...mux.Option) *mux.Router[http.Handler] {
	call := func(w http.ResponseWriter, r *http.Request, _ types.Route, h http.Handler) { h.ServeHTTP(w, r) }
	node := func(status int) types.BuildNodeHandler[http.Handler] {
		return func(n types.Node) http.Handler {
			return http.HandlerFunc(func(w http.ResponseWriter, r *http.Request) {
				w.Header().Set("Allow", n.AllowHeader())
				w.WriteHeader(status)
			})
		}
	}
	return mux.NewRouter("hunt", call, http.NotFoundHandler(), node(405), node(200), o...)
}

// in-process request through httptest.ResponseRecorder
func hunt2Rec(h http.Handler, method, path string) *http.Response {
	w := httptest.NewRecorder()
	h.ServeHTTP(w, httptest.NewRequest(method, path, nil))
	return w.Result()
}

// request through a real net/http server
func hunt2Srv(a *assert.Assertion, srv *httptest.Server, method, path string) *http.Response {
	req, err := http.NewRequest(method, srv.URL+path, nil)
	a.NotError(err)
	resp, err := srv.Client().Do(req)
	a.NotError(err).NotNil(resp)
	resp.Body.Close()
	return resp
}

// Write first, then mutate the header / call WriteHeader / panic into the
// recovery function. For GET the first Write commits status 200 and the header
// as it was at that moment; for HEAD nothing is ever committed, so the late
// status and the late header lines win.
func TestHunt2(t *testing.T) {
	a := assert.New(t, false)
	r := hunt2Router(mux.WithStatusRecovery(500))
	r.Get("/late", http.HandlerFunc(func(w http.ResponseWriter, _ *http.Request) {
		w.Header().Set("X-Early", "1")
		w.Write([]byte("abc"))
		w.Header().Set("X-Late", "1") // too late for GET: header already sent
		w.Write([]byte("def"))
		w.WriteHeader(http.StatusAccepted) // superfluous for GET: status stays 200
	}))
	r.Get("/panic", http.HandlerFunc(func(w http.ResponseWriter, _ *http.Request) {
		w.Write([]byte("abc"))
		panic("boom") // recovery calls http.Error(w, .., 500): too late for GET
	}))

	srv := httptest.NewServer(r)
	defer srv.Close()

	for _, p := range []string{"/late", "/panic"} {
		get := hunt2Rec(r, http.MethodGet, p)
		head := hunt2Rec(r, http.MethodHead, p)
		a.Equal(head.StatusCode, get.StatusCode, "recorder %s: HEAD status %d, GET status %d", p, head.StatusCode, get.StatusCode)
		a.Equal(head.Header.Get("X-Late"), get.Header.Get("X-Late"), "recorder %s: HEAD X-Late %q, GET X-Late %q", p, head.Header.Get("X-Late"), get.Header.Get("X-Late"))
		a.Equal(head.Header.Get("X-Early"), get.Header.Get("X-Early"))

		g := hunt2Srv(a, srv, http.MethodGet, p)
		h := hunt2Srv(a, srv, http.MethodHead, p)
		a.Equal(h.StatusCode, g.StatusCode, "server %s: HEAD status %d, GET status %d", p, h.StatusCode, g.StatusCode)
		a.Equal(h.Header.Get("X-Late"), g.Header.Get("X-Late"), "server %s: HEAD X-Late %q, GET X-Late %q", p, h.Header.Get("X-Late"), g.Header.Get("X-Late"))
		a.Equal(h.Header.Get("X-Early"), g.Header.Get("X-Early"))
	}
}
