// belongs in the module root directory (package mux_test); does not need -race
package mux_test

import (
	"net/http"
	"net/http/httptest"
	"testing"

	"github.com/issue9/mux/v9"
	"github.com/issue9/mux/v9/types"
)

// A parameter captured by the Hosts matcher is silently removed from Params
// when the path tree backtracks over a '-' (name ignored) segment of the same name.
func TestHunt1(t *testing.T) {
	var got map[string]string
	var count int
	call := func(w http.ResponseWriter, r *http.Request, ctx types.Route, h http.Handler) {
		got = map[string]string{}
		ctx.Params().Range(func(k, v string) { got[k] = v })
		count = ctx.Params().Count()
		h.ServeHTTP(w, r)
	}
	ok := http.HandlerFunc(func(w http.ResponseWriter, r *http.Request) { w.WriteHeader(200) })
	b := func(types.Node) http.Handler { return http.NotFoundHandler() }

	g := mux.NewGroup[http.Handler](call, http.NotFoundHandler(), b, b)
	r := g.New("r", mux.NewHosts(false, "{id}.example.com"))
	r.Get("/{-id:\\d+}/x/1", ok) // '-' means: do not touch the params for this segment
	r.Get("/{-id:\\d+}/x/2", ok)
	r.Get("/{name}/x/3", ok)

	// control: no backtracking, host parameter is visible
	w := httptest.NewRecorder()
	g.ServeHTTP(w, httptest.NewRequest(http.MethodGet, "http://7.example.com/abc/x/3", nil))
	if w.Code != 200 || got["id"] != "7" || got["name"] != "abc" || count != 2 {
		t.Fatalf("control failed: %d %v", w.Code, got)
	}

	// the regexp segment matches "5/x/", its children do not match "3", the tree backtracks
	w = httptest.NewRecorder()
	g.ServeHTTP(w, httptest.NewRequest(http.MethodGet, "http://7.example.com/5/x/3", nil))
	if w.Code != 200 {
		t.Fatalf("status %d", w.Code)
	}
	if got["id"] != "7" || got["name"] != "5" || count != 2 {
		t.Fatalf("captured id=7 (host) and name=5 (path); Params reports %v (count %d)", got, count)
	}
}
