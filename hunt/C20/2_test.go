// belongs in the module root directory (package mux_test); does not need -race
package mux_test

import (
	"net/http"
	"net/http/httptest"
	"testing"

	"github.com/issue9/mux/v9"
	"github.com/issue9/mux/v9/types"
)

// A parameter stored under the empty key (legal for Set, as on a map) is removed
// when the path tree backtracks over a plain string node.
func TestHunt2(t *testing.T) {
	var got map[string]string
	call := func(w http.ResponseWriter, r *http.Request, ctx types.Route, h http.Handler) {
		got = map[string]string{}
		ctx.Params().Range(func(k, v string) { got[k] = v })
		h.ServeHTTP(w, r)
	}
	ok := http.HandlerFunc(func(w http.ResponseWriter, r *http.Request) { w.WriteHeader(200) })
	b := func(types.Node) http.Handler { return http.NotFoundHandler() }

	g := mux.NewGroup[http.Handler](call, http.NotFoundHandler(), b, b)
	r := g.New("r", mux.MatcherFunc(func(_ *http.Request, ctx *types.Context) bool {
		ctx.Set("", "v")
		ctx.Set("k", "v")
		return true
	}))
	r.Get("/abc/1", ok)
	r.Get("/abc/2", ok)
	r.Get("/{name}/3", ok)

	w := httptest.NewRecorder()
	g.ServeHTTP(w, httptest.NewRequest(http.MethodGet, "/xyz/3", nil))
	if v, found := got[""]; w.Code != 200 || !found || v != "v" || len(got) != 3 {
		t.Fatalf("control failed: %d %v", w.Code, got)
	}

	w = httptest.NewRecorder()
	g.ServeHTTP(w, httptest.NewRequest(http.MethodGet, "/abc/3", nil)) // "abc/" matches, "1"/"2" do not: backtrack
	if w.Code != 200 {
		t.Fatalf("status %d", w.Code)
	}
	if v, found := got[""]; !found || v != "v" || got["k"] != "v" || got["name"] != "abc" || len(got) != 3 {
		t.Fatalf(`set ""=v, k=v and captured name=abc; Params reports %q`, got)
	}
}
