// belongs in the root package directory of the module (package mux_test); no -race needed

package mux_test

import (
	"net/http"
	"net/http/httptest"
	"testing"

	"github.com/issue9/mux/v9"
	"github.com/issue9/mux/v9/types"
)

// TestHunt2: a configured Accept parameter name that is not all lower case can never be found,
// because mime.ParseMediaType lower-cases the parameter names it returns.
func TestHunt2(t *testing.T) {
	hv := mux.NewHeaderVersion("ver", "Version", func(error) {}, "1.0")
	for _, accept := range []string{
		"application/json; Version=1.0",
		"application/json; version=1.0",
		"application/json; VERSION=1.0",
	} {
		r := httptest.NewRequest(http.MethodGet, "/x", nil)
		r.Header.Set("Accept", accept)
		ctx := types.NewContext()
		if !hv.Match(r, ctx) {
			t.Errorf("key Version, versions {1.0}: Accept %q rejected", accept)
		} else if got := ctx.MustString("ver", "-"); got != "1.0" {
			t.Errorf("recorded %q", got)
		}
	}
}

