// belongs in the root package directory of the module (package mux_test); no -race needed

package mux_test

import (
	"net/http"
	"net/http/httptest"
	"testing"

	"github.com/issue9/mux/v9"
	"github.com/issue9/mux/v9/types"
)

// TestHunt3: a missing parameter is treated as a parameter whose value is "".
func TestHunt3(t *testing.T) {
	hv := mux.NewHeaderVersion("ver", "", func(error) {}, "", "1.0")

	// sanity: an explicit empty value is this version
	r := httptest.NewRequest(http.MethodGet, "/x", nil)
	r.Header.Set("Accept", `application/json; version=""`)
	if !hv.Match(r, types.NewContext()) {
		t.Fatalf("explicit empty version rejected")
	}

	for _, accept := range []string{"application/json", "text/html; charset=utf-8", "*/*"} {
		r = httptest.NewRequest(http.MethodGet, "/x", nil)
		r.Header.Set("Accept", accept)
		ctx := types.NewContext()
		if hv.Match(r, ctx) {
			t.Errorf("Accept %q has no version parameter but is accepted; params recorded: %d", accept, ctx.Count())
		}
	}
}
