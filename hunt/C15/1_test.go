// belongs in the root package directory of the module (package mux_test); no -race needed

package mux_test

import (
	"net/http"
	"net/http/httptest"
	"testing"

	"github.com/issue9/mux/v9"
	"github.com/issue9/mux/v9/types"
)

// TestHunt1: NewPathVersion writes the normalised names back into the caller's slice
// and keeps that slice, so the version list of a matcher is not the list it was given.
func TestHunt1(t *testing.T) {
	// (a) one list of versions served both by path and by header
	versions := []string{"v1", "v2"}
	_ = mux.NewPathVersion("ver", versions...)
	hv := mux.NewHeaderVersion("ver", "", func(error) {}, versions...)

	r := httptest.NewRequest(http.MethodGet, "/x", nil)
	r.Header.Set("Accept", "application/json; version=v2")
	ctx := types.NewContext()
	if !hv.Match(r, ctx) {
		t.Errorf("header matcher built from {v1,v2} rejects version=v2 (caller's list is now %q)", versions)
	} else if got := ctx.MustString("ver", "-"); got != "v2" {
		t.Errorf("recorded %q, want v2", got)
	}

	r = httptest.NewRequest(http.MethodGet, "/x", nil)
	r.Header.Set("Accept", `application/json; version="/v2/"`)
	if hv.Match(r, types.NewContext()) {
		t.Errorf("header matcher built from {v1,v2} accepts version=/v2/")
	}

	// (b) the caller reuses its buffer after the constructor has returned
	buf := []string{"v1"}
	pv1 := mux.NewPathVersion("ver", buf...)
	buf[0] = "v2"
	_ = mux.NewPathVersion("ver", buf...)

	r = httptest.NewRequest(http.MethodGet, "/v1/x", nil)
	ctx = types.NewContext()
	if !pv1.Match(r, ctx) {
		t.Errorf("path matcher built for v1 rejects /v1/x")
	} else if r.URL.Path != "/x" || ctx.MustString("ver", "-") != "/v1" {
		t.Errorf("path=%q ver=%q", r.URL.Path, ctx.MustString("ver", "-"))
	}
	r = httptest.NewRequest(http.MethodGet, "/v2/x", nil)
	if pv1.Match(r, types.NewContext()) {
		t.Errorf("path matcher built for v1 accepts /v2/x (path now %q)", r.URL.Path)
	}
}

