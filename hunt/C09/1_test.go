// Package directory: repository root (package mux_test). Does not need -race
// (with -race the same history additionally reports a data race inside Router.Use).
package mux_test

import (
	"net/http"
	"net/http/httptest"
	"slices"
	"sync"
	"testing"
	"time"

	"github.com/issue9/mux/v9"
	"github.com/issue9/mux/v9/types"
)

// A router built WithLock(true) is the configuration the library offers for
// changing the router from several goroutines. Goroutine A registers GET /a,
// goroutine B calls Router.Use(u). The test forces the interleaving
//
//	A: Handle reads r.ms (no u yet)          router.go:127
//	B: Use appends u, walks the tree         router.go:116-117 (takes no lock)
//	A: tree.Add stores the handlers of /a    built from the stale copy of r.ms
//
// by letting B run while A is inside the factory of /a's own middleware
// (i.e. while A holds the tree's write lock). A correct Use would wait for
// the lock and then wrap /a; the factory therefore only waits a bounded time.
func TestHunt1(t *testing.T) {
	call := func(w http.ResponseWriter, r *http.Request, _ types.Route, h http.Handler) { h.ServeHTTP(w, r) }
	status := func(code int) http.Handler {
		return http.HandlerFunc(func(w http.ResponseWriter, _ *http.Request) { w.WriteHeader(code) })
	}
	build := func(code int) types.BuildNodeHandler[http.Handler] {
		return func(types.Node) http.Handler { return status(code) }
	}
	r := mux.NewRouter[http.Handler]("rt", call, status(404), build(405), build(204), mux.WithLock(true))

	var ran []string
	mw := func(id string, hook func()) types.Middleware[http.Handler] {
		return types.MiddlewareFunc[http.Handler](func(next http.Handler, _, _, _ string) http.Handler {
			if hook != nil {
				hook()
			}
			return http.HandlerFunc(func(w http.ResponseWriter, req *http.Request) {
				ran = append(ran, id)
				next.ServeHTTP(w, req)
			})
		})
	}

	started := make(chan struct{})
	useDone := make(chan struct{})
	var once sync.Once
	hook := func() {
		once.Do(func() {
			close(started) // A is now inside tree.Add, r.ms has already been read
			select {
			case <-useDone: // buggy library: Use does not wait for the lock
			case <-time.After(500 * time.Millisecond): // correct library: Use blocks until Add is done
			}
		})
	}

	var wg sync.WaitGroup
	wg.Add(1)
	go func() { // goroutine B
		defer wg.Done()
		<-started
		r.Use(mw("u", nil))
		close(useDone)
	}()

	r.Get("/a", status(200), mw("m", hook)) // goroutine A
	wg.Wait()

	// Both calls have returned. Whatever their order, u is a Use middleware and
	// must wrap every handler of /a, outside of the route's own middleware m.
	for _, method := range []string{"GET", "HEAD", "OPTIONS", "POST"} {
		ran = nil
		w := httptest.NewRecorder()
		r.ServeHTTP(w, httptest.NewRequest(method, "/a", nil))
		if want := []string{"u", "m"}; !slices.Equal(ran, want) {
			t.Errorf("%s /a: middlewares run %v, want %v", method, ran, want)
		}
	}

	// 404 was wrapped, so Use did take effect - only /a was left out.
	ran = nil
	r.ServeHTTP(httptest.NewRecorder(), httptest.NewRequest("GET", "/none", nil))
	if want := []string{"u"}; !slices.Equal(ran, want) {
		t.Errorf("404: middlewares run %v, want %v", ran, want)
	}
}
