// Package directory: repository root (package mux_test). Does not need -race.
package mux_test

import (
	"net/http"
	"net/http/httptest"
	"slices"
	"testing"

	"github.com/issue9/mux/v9"
	"github.com/issue9/mux/v9/types"
)

// History: Group.Use(a); r := Group.New("r1"); r.Get("/x"); Group.Remove("r1");
// Group.Use(b); Group.Add(nil, r)   (Group add / remove / add again).
//
// r belongs to the group, whose Use middlewares are a and b, each given to
// Group.Use exactly once. Every handler of r must therefore run b, a (most
// recent outermost) and each factory must have been invoked once per handler.
// Group.Add blindly replays the whole of g.ms, so a is applied a second time.
func TestHunt2(t *testing.T) {
	call := func(w http.ResponseWriter, r *http.Request, _ types.Route, h http.Handler) { h.ServeHTTP(w, r) }
	status := func(code int) http.Handler {
		return http.HandlerFunc(func(w http.ResponseWriter, _ *http.Request) { w.WriteHeader(code) })
	}
	build := func(code int) types.BuildNodeHandler[http.Handler] {
		return func(types.Node) http.Handler { return status(code) }
	}
	g := mux.NewGroup[http.Handler](call, status(404), build(405), build(204))

	var ran []string
	calls := map[string]int{}
	mw := func(id string) types.Middleware[http.Handler] {
		return types.MiddlewareFunc[http.Handler](func(next http.Handler, method, pattern, router string) http.Handler {
			calls[id+" "+method+" "+pattern+" "+router]++
			return http.HandlerFunc(func(w http.ResponseWriter, req *http.Request) {
				ran = append(ran, id)
				next.ServeHTTP(w, req)
			})
		})
	}

	g.Use(mw("a"))
	r := g.New("r1", nil)
	r.Get("/x", status(200))
	g.Remove("r1")
	g.Use(mw("b"))
	g.Add(nil, r)

	for _, tc := range []struct{ method, path string }{
		{"GET", "/x"}, {"HEAD", "/x"}, {"OPTIONS", "/x"}, {"POST", "/x"}, {"GET", "/none"}, {"OPTIONS", "*"},
	} {
		ran = nil
		req := httptest.NewRequest(tc.method, "/x", nil)
		req.URL.Path = tc.path
		g.ServeHTTP(httptest.NewRecorder(), req)
		if want := []string{"b", "a"}; !slices.Equal(ran, want) {
			t.Errorf("%s %s: middlewares run %v, want %v", tc.method, tc.path, ran, want)
		}
	}

	// key: id, method, pattern, router. ("", "") is shared by two handlers: 404 and the 405 of "*".
	for k, want := range map[string]int{"a GET /x r1": 1, "a HEAD /x r1": 1, "a OPTIONS /x r1": 1, "a  /x r1": 1, "a   r1": 2, "a OPTIONS  r1": 1} {
		if calls[k] != want {
			t.Errorf("factory a invoked %d times with (id method pattern router) = %q, want %d", calls[k], k, want)
		}
	}
}
