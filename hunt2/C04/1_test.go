// Belongs in the module root directory /tmp/wt/C04 (package mux_test); does not need -race.
package mux_test

import (
	"net/http"
	"net/http/httptest"
	"slices"
	"testing"

	"github.com/issue9/mux/v9"
	"github.com/issue9/mux/v9/types"
)

// A well-formed pattern loses part of its method set after a pattern with a
// "}}" (a literal '}' right after a parameter) was registered next to it.
func TestHunt1(t *testing.T) {
	call := func(w http.ResponseWriter, r *http.Request, ps types.Route, h http.Handler) {
		if n := ps.Node(); n != nil {
			w.Header().Set("X-Pattern", n.Pattern())
			w.Header()["X-Methods"] = n.Methods()
		}
		h.ServeHTTP(w, r)
	}
	b405 := func(n types.Node) http.Handler {
		return http.HandlerFunc(func(w http.ResponseWriter, r *http.Request) {
			w.Header().Set("Allow", n.AllowHeader())
			w.WriteHeader(http.StatusMethodNotAllowed)
		})
	}
	bOpt := func(n types.Node) http.Handler {
		return http.HandlerFunc(func(w http.ResponseWriter, r *http.Request) { w.Header().Set("Allow", n.AllowHeader()) })
	}
	h := http.HandlerFunc(func(w http.ResponseWriter, r *http.Request) {})

	const victim = "/a/{id}-{n}"
	r := mux.NewRouter[http.Handler]("def", call, http.NotFoundHandler(), b405, bOpt)
	r.Handle(victim, h, nil, http.MethodPost)
	r.Handle("/a/{id}}x", h, nil, http.MethodGet) // accepted: CheckSyntax reports no error
	if err := mux.CheckSyntax("/a/{id}}x"); err != nil {
		t.Fatal(err)
	}
	r.Handle(victim, h, nil, http.MethodPut) // accepted as well

	want := []string{"OPTIONS", "POST", "PUT"}
	if got := r.Routes()[victim]; !slices.Equal(got, want) {
		t.Errorf("Routes()[%q] = %v, want %v", victim, got, want)
	}

	do := func(method string) *httptest.ResponseRecorder {
		w := httptest.NewRecorder()
		r.ServeHTTP(w, httptest.NewRequest(method, "/a/1-2", nil))
		return w
	}

	w := do(http.MethodOptions)
	if p := w.Header().Get("X-Pattern"); p != victim {
		t.Fatalf("OPTIONS /a/1-2 routed to %q", p)
	}
	if got := w.Header().Get("Allow"); got != "OPTIONS, POST, PUT" {
		t.Errorf("OPTIONS /a/1-2: Allow = %q, want %q", got, "OPTIONS, POST, PUT")
	}
	if got := w.Header()["X-Methods"]; !slices.Equal(got, want) {
		t.Errorf("OPTIONS /a/1-2: Node().Methods() = %v, want %v", got, want)
	}

	w = do(http.MethodDelete)
	if got := w.Header().Get("Allow"); w.Code != 405 || got != "OPTIONS, POST, PUT" {
		t.Errorf("DELETE /a/1-2: status %d Allow = %q, want 405 %q", w.Code, got, "OPTIONS, POST, PUT")
	}
	for _, m := range []string{http.MethodPost, http.MethodPut} {
		if w := do(m); w.Code != 200 {
			t.Errorf("%s /a/1-2: status %d (Allow %q), the method is registered", m, w.Code, w.Header().Get("Allow"))
		}
	}

	// removal of all methods: the pattern must be gone everywhere
	r.Remove(victim)
	if got, found := r.Routes()[victim]; found {
		t.Errorf("after Remove(%q): Routes() still lists it with %v", victim, got)
	}
	if w := do(http.MethodOptions); w.Code != 404 {
		t.Errorf("after Remove(%q): OPTIONS /a/1-2 = %d Allow %q, want 404", victim, w.Code, w.Header().Get("Allow"))
	}
	w = httptest.NewRecorder()
	req := httptest.NewRequest(http.MethodOptions, "/", nil)
	req.URL.Path = "*"
	r.ServeHTTP(w, req)
	if got := w.Header().Get("Allow"); got != "GET, OPTIONS" && got != "GET, HEAD, OPTIONS" {
		t.Errorf("after Remove(%q): OPTIONS * Allow = %q, want GET, OPTIONS", victim, got)
	}
}
