// Belongs in the root package directory of the library (package mux_test); does not need -race.
package mux_test

import (
	"net/http"
	"sort"
	"strings"
	"testing"

	"github.com/issue9/mux/v9"
	"github.com/issue9/mux/v9/types"
)

func huntResolve3(h *mux.Hosts, host string) (bool, string) {
	ctx := types.NewContext()
	defer ctx.Destroy()
	ok := h.Match(&http.Request{Host: host}, ctx)
	var kv []string
	ctx.Range(func(k, v string) { kv = append(kv, k+"="+v) })
	sort.Strings(kv)
	return ok, strings.Join(kv, ",")
}

// Host "*" is an ordinary Host string: with the catch-all domain {host} registered it must be
// accepted with host=*, like "**" or "a" are.
func TestHunt3(t *testing.T) {
	h := mux.NewHosts(false, "{host}")
	if ok, ps := huntResolve3(h, "**"); !ok || ps != "host=**" {
		t.Fatalf("sanity: ** got %v [%s]", ok, ps)
	}
	for _, host := range []string{"*", "*:443"} {
		if ok, ps := huntResolve3(h, host); !ok || ps != "host=*" {
			t.Errorf("Host %q: got %v [%s], want true [host=*]", host, ok, ps)
		}
	}
}
