// Belongs in the root package directory of the library (package mux_test); does not need -race.
package mux_test

import (
	"net/http"
	"sort"
	"strings"
	"testing"

	"github.com/issue9/mux/v9"
	"github.com/issue9/mux/v9/types"
)

func huntResolve1(h *mux.Hosts, host string) (bool, string) {
	ctx := types.NewContext()
	defer ctx.Destroy()
	ok := h.Match(&http.Request{Host: host}, ctx)
	var kv []string
	ctx.Range(func(k, v string) { kv = append(kv, k+"="+v) })
	sort.Strings(kv)
	return ok, strings.Join(kv, ",")
}

func huntDigit(s string) bool {
	for _, c := range s {
		if c < '0' || c > '9' {
			return false
		}
	}
	return len(s) > 0
}

// A domain added AFTER RegisterInterceptor must have its rule interpreted as the interceptor
// (NOTE on RegisterInterceptor), also when an older domain, added BEFORE the registration,
// starts with the same text.
func TestHunt1(t *testing.T) {
	h := mux.NewHosts(false)
	h.Add("{id:digit}.{region}.example.com") // no interceptor "digit" yet: the rule is the regexp "digit"
	h.RegisterInterceptor(huntDigit, "digit")
	h.Add("{id:digit}.{zone}.example.org") // added after the registration: "digit" is the interceptor

	// reference: the same domain, added after the same registration, on its own
	ref := mux.NewHosts(false)
	ref.RegisterInterceptor(huntDigit, "digit")
	ref.Add("{id:digit}.{zone}.example.org")

	for _, host := range []string{"42.eu.example.org", "digit.eu.example.org"} {
		ok, ps := huntResolve1(h, host)
		rok, rps := huntResolve1(ref, host)
		if ok != rok || ps != rps {
			t.Errorf("%s: got %v [%s], the domain on its own gives %v [%s]", host, ok, ps, rok, rps)
		}
	}

	// Deleting the old domain does not help: the registered set is now exactly that of ref.
	h.Delete("{id:digit}.{region}.example.com")
	if ok, ps := huntResolve1(h, "42.eu.example.org"); !ok || ps != "id=42,zone=eu" {
		t.Errorf("after Delete of the old domain: 42.eu.example.org got %v [%s], want true [id=42,zone=eu]", ok, ps)
	}
}

