// Belongs in the root package directory of the library (package mux_test); does not need -race.
package mux_test

import (
	"net/http"
	"sort"
	"strings"
	"testing"

	"github.com/issue9/mux/v9"
	"github.com/issue9/mux/v9/types"
)

func huntResolve2(h *mux.Hosts, host string) (bool, string) {
	ctx := types.NewContext()
	defer ctx.Destroy()
	ok := h.Match(&http.Request{Host: host}, ctx)
	var kv []string
	ctx.Range(func(k, v string) { kv = append(kv, k+"="+v) })
	sort.Strings(kv)
	return ok, strings.Join(kv, ",")
}

// Adding (and deleting again) a literal domain that has nothing to do with the host must not
// change which of two registered wildcard domains the host resolves to.
func TestHunt2(t *testing.T) {
	h := mux.NewHosts(false, "{x}.example.com", "{y}.{z}.com")
	ok1, ps1 := huntResolve2(h, "a.example.com")
	if !ok1 {
		t.Fatal("a.example.com must be accepted")
	}

	h.Add("static.example.org")
	ok2, ps2 := huntResolve2(h, "a.example.com")
	if ok2 != ok1 || ps2 != ps1 {
		t.Errorf("Add(static.example.org) changed a.example.com from [%s] to [%s]", ps1, ps2)
	}

	h.Delete("static.example.org") // registered set is again {x}.example.com, {y}.{z}.com
	ok3, ps3 := huntResolve2(h, "a.example.com")
	if ok3 != ok1 || ps3 != ps1 {
		t.Errorf("Add+Delete(static.example.org) changed a.example.com from [%s] to [%s]", ps1, ps3)
	}
}
