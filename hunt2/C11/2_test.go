// belongs in the module root directory (package mux_test); does not need -race
package mux_test

import (
	"net/http"
	"net/http/httptest"
	"strings"
	"testing"

	"github.com/issue9/mux/v9"
	"github.com/issue9/mux/v9/types"
)

// An origin list that holds only the empty string (what strings.Split("", ",")
// returns for an unset setting) names no origin at all. A request that carries
// no Origin header has no origin to echo, so the answer must not carry
// Access-Control-Allow-Origin / Access-Control-Allow-Credentials.
func TestHunt2(t *testing.T) {
	call := func(w http.ResponseWriter, r *http.Request, _ types.Route, h http.Handler) { h.ServeHTTP(w, r) }
	b := func(status int) types.BuildNodeHandler[http.Handler] {
		return func(n types.Node) http.Handler {
			return http.HandlerFunc(func(w http.ResponseWriter, r *http.Request) { w.WriteHeader(status) })
		}
	}

	origins := strings.Split("", ",") // [""] : nothing configured
	r := mux.NewRouter[http.Handler]("hunt2", call, http.NotFoundHandler(), b(405), b(200),
		mux.WithCORS(origins, nil, nil, 0, true))
	r.Get("/items", http.HandlerFunc(func(w http.ResponseWriter, r *http.Request) {}))

	for _, tc := range []struct{ method, acrm string }{{"GET", ""}, {"OPTIONS", "GET"}} {
		w := httptest.NewRecorder()
		req := httptest.NewRequest(tc.method, "/items", nil) // no Origin header
		if tc.acrm != "" {
			req.Header.Set("Access-Control-Request-Method", tc.acrm)
		}
		r.ServeHTTP(w, req)

		if v, found := w.Header()["Access-Control-Allow-Origin"]; found {
			t.Errorf("%s /items without Origin, origin list %q: Access-Control-Allow-Origin=%q Access-Control-Allow-Credentials=%q",
				tc.method, origins, v, w.Header().Get("Access-Control-Allow-Credentials"))
		}
	}
}
