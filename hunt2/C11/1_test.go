// belongs in the module root directory (package mux_test); does not need -race
package mux_test

import (
	"bufio"
	"fmt"
	"net"
	"net/http"
	"net/http/httptest"
	"testing"

	"github.com/issue9/mux/v9"
	"github.com/issue9/mux/v9/types"
)

func hunt1Router(o ...mux.Option) *mux.Router[http.Handler] {
	call := func(w http.ResponseWriter, r *http.Request, _ types.Route, h http.Handler) { h.ServeHTTP(w, r) }
	b := func(status int) types.BuildNodeHandler[http.Handler] {
		return func(n types.Node) http.Handler {
			return http.HandlerFunc(func(w http.ResponseWriter, r *http.Request) {
				w.Header().Set("Allow", n.AllowHeader())
				w.WriteHeader(status)
			})
		}
	}
	return mux.NewRouter[http.Handler]("hunt1", call, http.NotFoundHandler(), b(405), b(200), o...)
}

// A preflight that asks for a header whose name is NOT in the allowed list
// (it only equals an allowed name under Unicode simple case folding:
// U+212A KELVIN SIGN ~ k, U+017F LONG S ~ s) must not be approved.
func TestHunt1(t *testing.T) {
	r := hunt1Router(mux.WithCORS([]string{"https://a.example"}, []string{"X-Key", "X-Session"}, nil, 0, true))
	r.Handle("/items", http.HandlerFunc(func(w http.ResponseWriter, r *http.Request) {}), nil, http.MethodDelete)

	srv := httptest.NewServer(r)
	defer srv.Close()

	for _, name := range []string{"X-Key", "x-ſession", "X-Key, X-KEY"} {
		conn, err := net.Dial("tcp", srv.Listener.Addr().String())
		if err != nil {
			t.Fatal(err)
		}
		fmt.Fprintf(conn, "OPTIONS /items HTTP/1.1\r\nHost: x\r\nOrigin: https://a.example\r\n"+
			"Access-Control-Request-Method: DELETE\r\nAccess-Control-Request-Headers: %s\r\nConnection: close\r\n\r\n", name)
		resp, err := http.ReadResponse(bufio.NewReader(conn), nil)
		if err != nil {
			t.Fatal(err)
		}
		resp.Body.Close()
		conn.Close()

		if v := resp.Header.Get("Access-Control-Allow-Origin"); v != "" {
			t.Errorf("preflight asking for header %q (bytes % x), allowed list [X-Key X-Session]: got Access-Control-Allow-Origin=%q, Access-Control-Allow-Credentials=%q",
				name, name, v, resp.Header.Get("Access-Control-Allow-Credentials"))
		}
	}

	// control: an ASCII name outside the list is refused
	w := httptest.NewRecorder()
	req := httptest.NewRequest(http.MethodOptions, "/items", nil)
	req.Header.Set("Origin", "https://a.example")
	req.Header.Set("Access-Control-Request-Method", "DELETE")
	req.Header.Set("Access-Control-Request-Headers", "X-Bey")
	r.ServeHTTP(w, req)
	if v := w.Header().Get("Access-Control-Allow-Origin"); v != "" {
		t.Fatalf("control failed: %q", v)
	}
}
