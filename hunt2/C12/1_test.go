// belongs in the module root directory (package mux_test); does not need -race
package mux_test

import (
	"net/http"
	"net/http/httptest"
	"strings"
	"testing"

	"github.com/issue9/mux/v9"
	"github.com/issue9/mux/v9/types"
)

func huntRouter(o ...mux.Option) *mux.Router[http.Handler] {
	call := func(w http.ResponseWriter, r *http.Request, _ types.Route, h http.Handler) { h.ServeHTTP(w, r) }
	m := func(n types.Node) http.Handler {
		return http.HandlerFunc(func(w http.ResponseWriter, r *http.Request) {
			w.Header().Set("Allow", n.AllowHeader())
			w.WriteHeader(http.StatusMethodNotAllowed)
		})
	}
	opt := func(n types.Node) http.Handler {
		return http.HandlerFunc(func(w http.ResponseWriter, r *http.Request) { w.Header().Set("Allow", n.AllowHeader()) })
	}
	return mux.NewRouter[http.Handler]("hunt", call, http.NotFoundHandler(), m, opt, o...)
}

// The empty request path (absolute-form target "http://example.com") is a live route: the library answers
// OPTIONS on it with 200 and an Allow header, and with WithTrace it answers TRACE as well. A preflight from an
// allowed origin for exactly these served methods must be granted; the library drops every CORS header.
func TestHunt1(t *testing.T) {
	trace := http.HandlerFunc(func(w http.ResponseWriter, r *http.Request) { mux.Trace(w, r, false) })
	r := huntRouter(
		mux.WithCORS([]string{"https://a.example"}, []string{"X-A"}, []string{"X-E"}, 50, true),
		mux.WithTrace[http.Handler](trace),
	)
	r.Get("/path", http.HandlerFunc(func(w http.ResponseWriter, r *http.Request) {}))

	do := func(method, acrm string) *httptest.ResponseRecorder {
		req := httptest.NewRequest(method, "http://example.com", nil)
		if req.URL.Path != "" {
			t.Fatalf("test setup: path is %q", req.URL.Path)
		}
		req.Header.Set("Origin", "https://a.example")
		if acrm != "" {
			req.Header.Set("Access-Control-Request-Method", acrm)
		}
		w := httptest.NewRecorder()
		r.ServeHTTP(w, req)
		return w
	}

	// the route is live and serves OPTIONS and TRACE; non-preflight requests are granted
	for _, m := range []string{http.MethodOptions, http.MethodTrace} {
		w := do(m, "")
		if w.Code != 200 || w.Header().Get("Access-Control-Allow-Origin") != "https://a.example" {
			t.Fatalf("baseline %s: status=%d headers=%v", m, w.Code, w.Header())
		}
	}
	// the same path answers GET with 405: a preflight for GET is rightly refused
	if w := do(http.MethodGet, ""); w.Code != 405 {
		t.Fatalf("baseline GET: status=%d", w.Code)
	}

	for _, m := range []string{http.MethodOptions, http.MethodTrace} {
		w := do(http.MethodOptions, m)
		h := w.Header()
		if w.Code != 200 {
			t.Fatalf("preflight for %s: status=%d", m, w.Code)
		}
		if h.Get("Access-Control-Allow-Origin") != "https://a.example" ||
			h.Get("Access-Control-Allow-Credentials") != "true" ||
			h.Get("Access-Control-Expose-Headers") != "X-E" {
			t.Errorf("preflight for served method %s on the empty path: Allow-Origin/Credentials/Expose-Headers missing: %v", m, h)
		}
		if !strings.Contains(h.Get("Access-Control-Allow-Methods"), m) ||
			h.Get("Access-Control-Allow-Headers") != "X-A" || h.Get("Access-Control-Max-Age") != "50" {
			t.Errorf("preflight for served method %s on the empty path: preflight headers missing: %v", m, h)
		}
		vary := strings.Join(h.Values("Vary"), ",")
		if !strings.Contains(vary, "Origin") || !strings.Contains(vary, "Access-Control-Request-Method") {
			t.Errorf("preflight for %s: Vary=%q", m, vary)
		}
	}
}
