// belongs in the module root directory (package mux_test); does not need -race
package mux_test

import (
	"net/http"
	"net/http/httptest"
	"testing"

	"github.com/issue9/mux/v9"
	"github.com/issue9/mux/v9/types"
)

func hunt2Router(o ...mux.Option) *mux.Router[http.Handler] {
	call := func(w http.ResponseWriter, r *http.Request, _ types.Route, h http.Handler) { h.ServeHTTP(w, r) }
	m := func(n types.Node) http.Handler {
		return http.HandlerFunc(func(w http.ResponseWriter, r *http.Request) {
			w.Header().Set("Allow", n.AllowHeader())
			w.WriteHeader(http.StatusMethodNotAllowed)
		})
	}
	opt := func(n types.Node) http.Handler {
		return http.HandlerFunc(func(w http.ResponseWriter, r *http.Request) { w.Header().Set("Allow", n.AllowHeader()) })
	}
	return mux.NewRouter[http.Handler]("hunt", call, http.NotFoundHandler(), m, opt, o...)
}

// The router is configured once, at NewRouter. The cors object keeps the caller's origin and allowHeaders slices
// (while it freezes the Allow-Headers text and the "*" decisions), so a caller that reuses its slice afterwards
// silently changes who is granted what: the configured origin loses its grant, a never configured origin gains it,
// and a preflight is approved for a header that the very same response does not list in Access-Control-Allow-Headers.
func TestHunt2(t *testing.T) {
	origins := []string{"https://a.example"}
	allow := []string{"X-A"}
	r := hunt2Router(mux.WithCORS(origins, allow, []string{"X-E"}, 50, true))
	r.Get("/path", http.HandlerFunc(func(w http.ResponseWriter, r *http.Request) {}))

	preflight := func(origin, reqHeaders string) http.Header {
		req := httptest.NewRequest(http.MethodOptions, "/path", nil)
		req.Header.Set("Origin", origin)
		req.Header.Set("Access-Control-Request-Method", "GET")
		req.Header.Set("Access-Control-Request-Headers", reqHeaders)
		w := httptest.NewRecorder()
		r.ServeHTTP(w, req)
		return w.Header()
	}

	if h := preflight("https://a.example", "x-a"); h.Get("Access-Control-Allow-Origin") != "https://a.example" {
		t.Fatalf("baseline: %v", h)
	}

	// the caller reuses its slices for something else (e.g. to build the options of another router)
	origins[0] = "https://b.example"
	allow[0] = "X-B"

	h := preflight("https://a.example", "x-a")
	if h.Get("Access-Control-Allow-Origin") != "https://a.example" || h.Get("Access-Control-Allow-Headers") != "X-A" {
		t.Errorf("configured origin and header are no longer granted: %v", h)
	}

	h = preflight("https://b.example", "x-b")
	if got := h.Get("Access-Control-Allow-Origin"); got != "" {
		t.Errorf("origin that was never configured is granted: Allow-Origin=%q Allow-Headers=%q (request asked for x-b)",
			got, h.Get("Access-Control-Allow-Headers"))
	}
}
