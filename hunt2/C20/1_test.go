// package directory: repository root (package mux_test); does not need -race
package mux_test

import (
	"net/http"
	"net/http/httptest"
	"testing"

	"github.com/issue9/mux/v9"
	"github.com/issue9/mux/v9/types"
)

// A Matcher stores the parameter "ver" before the tree search (this is what
// NewPathVersion and Hosts do). A capturing child with the same name matches
// one segment, its subtree fails, and the search backtracks to a sibling whose
// own parameters have different names. The parameter captured by the Matcher
// must still be there; the route that finally wins never captured "ver".
func TestHunt1(t *testing.T) {
	var got map[string]string
	var count int
	var exists bool
	call := func(w http.ResponseWriter, r *http.Request, rt types.Route, h string) {
		got = map[string]string{}
		rt.Params().Range(func(k, v string) { got[k] = v })
		count = rt.Params().Count()
		exists = rt.Params().Exists("ver")
		if h != "y" {
			t.Errorf("routed to %q, want the route /{name}/y", h)
		}
	}
	b := func(types.Node) string { return "" }

	g := mux.NewGroup[string](call, "404", b, b)
	r := g.New("v1", mux.NewPathVersion("ver", "v1"))
	r.Get("/{ver:\\d+}/x", "x") // regexp children are tried before named ones
	r.Get("/{ver:\\d+}/z", "z") // splits the node: {ver:\\d+}/ with the children x and z
	r.Get("/{name}/y", "y")

	req := httptest.NewRequest(http.MethodGet, "/v1/7/y", nil)
	g.ServeHTTP(httptest.NewRecorder(), req)

	if got["name"] != "7" {
		t.Fatalf("name = %q, want 7 (params %v)", got["name"], got)
	}
	// what was captured: ver=/v1 by the matcher, name=7 by the route.
	if !exists || got["ver"] != "/v1" || count != 2 {
		t.Fatalf("captured {ver:/v1 name:7}; accessors report Count=%d Exists(ver)=%v params=%v", count, exists, got)
	}
}
