// Belongs in the module root directory (/tmp/wt/C08, package mux_test); does not need -race.
package mux_test

import (
	"net/http"
	"net/http/httptest"
	"testing"

	"github.com/issue9/assert/v4"

	"github.com/issue9/mux/v9"
	"github.com/issue9/mux/v9/types"
)

func hunt2Router(o ...mux.Option) *mux.Router[http.Handler] {
	call := func(w http.ResponseWriter, r *http.Request, _ types.Route, h http.Handler) { h.ServeHTTP(w, r) }
	node := func(status int) types.BuildNodeHandler[http.Handler] {
		return func(n types.Node) http.Handler {
			return http.HandlerFunc(func(w http.ResponseWriter, r *http.Request) {
				w.Header().Set("Allow", n.AllowHeader())
				w.WriteHeader(status)
			})
		}
	}
	return mux.NewRouter("hunt", call, http.NotFoundHandler(), node(405), node(200), o...)
}

// request through a real net/http server: what the client sees
func hunt2Srv(a *assert.Assertion, srv *httptest.Server, method, path string) *http.Response {
	req, err := http.NewRequest(method, srv.URL+path, nil)
	a.NotError(err)
	resp, err := srv.Client().Do(req)
	a.NotError(err).NotNil(resp)
	resp.Body.Close()
	return resp
}

// The body is written with several small Write calls and no Content-Type is set.
// On GET net/http detects the type from the buffered start of the body (all the
// small writes together); the HEAD wrapper detects it from the first Write alone.
func TestHunt1(t *testing.T) {
	a := assert.New(t, false)
	r := hunt2Router()

	// leading newline written on its own, as template engines and fmt.Fprintln callers do
	r.Get("/page", http.HandlerFunc(func(w http.ResponseWriter, _ *http.Request) {
		w.Write([]byte("\n"))
		w.Write([]byte("<html><body>hello</body></html>"))
	}))
	// a binary signature that arrives in two pieces
	r.Get("/png", http.HandlerFunc(func(w http.ResponseWriter, _ *http.Request) {
		w.Write([]byte("\x89PNG"))
		w.Write([]byte("\r\n\x1a\n and the rest of the picture"))
	}))

	srv := httptest.NewServer(r)
	defer srv.Close()

	for _, p := range []string{"/page", "/png"} {
		get := hunt2Srv(a, srv, http.MethodGet, p)
		head := hunt2Srv(a, srv, http.MethodHead, p)
		a.Equal(head.StatusCode, get.StatusCode)
		a.Equal(head.Header.Get("Content-Length"), get.Header.Get("Content-Length"))
		a.Equal(head.Header.Get("Content-Type"), get.Header.Get("Content-Type"),
			"%s: HEAD Content-Type %q, GET Content-Type %q", p, head.Header.Get("Content-Type"), get.Header.Get("Content-Type"))
	}
}
