// Belongs in the module root directory (/tmp/wt/C08, package mux_test); does not need -race.
package mux_test

import (
	"net/http"
	"net/http/httptest"
	"testing"

	"github.com/issue9/assert/v4"

	"github.com/issue9/mux/v9"
	"github.com/issue9/mux/v9/types"
)

func hunt2bRouter(o ...mux.Option) *mux.Router[http.Handler] {
	call := func(w http.ResponseWriter, r *http.Request, _ types.Route, h http.Handler) { h.ServeHTTP(w, r) }
	node := func(status int) types.BuildNodeHandler[http.Handler] {
		return func(n types.Node) http.Handler {
			return http.HandlerFunc(func(w http.ResponseWriter, r *http.Request) {
				w.Header().Set("Allow", n.AllowHeader())
				w.WriteHeader(status)
			})
		}
	}
	return mux.NewRouter("hunt", call, http.NotFoundHandler(), node(405), node(200), o...)
}

// request through a real net/http server: what the client sees
func hunt2bSrv(a *assert.Assertion, srv *httptest.Server, method, path string) *http.Response {
	req, err := http.NewRequest(method, srv.URL+path, nil)
	a.NotError(err)
	resp, err := srv.Client().Do(req)
	a.NotError(err).NotNil(resp)
	resp.Body.Close()
	return resp
}

// The handler sends the header itself (WriteHeader) and then writes a body,
// without setting Content-Type. On GET net/http still detects the type from
// the body; on HEAD the wrapper sets it on a header map that is already frozen.
func TestHunt2(t *testing.T) {
	a := assert.New(t, false)
	r := hunt2bRouter()

	r.Get("/page", http.HandlerFunc(func(w http.ResponseWriter, _ *http.Request) {
		w.Header().Set("X-A", "1")
		w.WriteHeader(http.StatusOK)
		w.Write([]byte("<html><body>hello</body></html>"))
	}))
	r.Get("/created", http.HandlerFunc(func(w http.ResponseWriter, _ *http.Request) {
		w.WriteHeader(http.StatusCreated)
		w.Write([]byte(`{"id":1}`))
	}))

	srv := httptest.NewServer(r)
	defer srv.Close()

	for _, p := range []string{"/page", "/created"} {
		get := hunt2bSrv(a, srv, http.MethodGet, p)
		head := hunt2bSrv(a, srv, http.MethodHead, p)
		a.Equal(head.StatusCode, get.StatusCode)
		a.Equal(head.Header.Get("X-A"), get.Header.Get("X-A"))
		a.Equal(head.Header.Get("Content-Type"), get.Header.Get("Content-Type"),
			"%s: HEAD Content-Type %q, GET Content-Type %q", p, head.Header.Get("Content-Type"), get.Header.Get("Content-Type"))
	}
}
