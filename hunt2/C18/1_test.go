// package directory: repository root (package mux_test); does not need -race
package mux_test

import (
	"io"
	"net/http"
	"net/http/httptest"
	"strings"
	"testing"

	"github.com/issue9/mux/v9"
	"github.com/issue9/mux/v9/types"
)

// A well-formed TRACE request with a 12-byte body, served by a router whose Use middleware
// caps request bodies with http.MaxBytesReader (8 bytes), handled by mux.Trace(w, r, true).
// The body cannot be read to its end, DumpRequest fails, mux.Trace drops the error and writes nothing.
func TestHunt1(t *testing.T) {
	call := func(w http.ResponseWriter, r *http.Request, _ types.Route, h http.Handler) { h.ServeHTTP(w, r) }
	b := func(types.Node) http.Handler { return http.NotFoundHandler() }
	th := http.HandlerFunc(func(w http.ResponseWriter, r *http.Request) { mux.Trace(w, r, true) })
	router := mux.NewRouter[http.Handler]("def", call, http.NotFoundHandler(), b, b, mux.WithTrace[http.Handler](th))
	router.Use(types.MiddlewareFunc[http.Handler](func(next http.Handler, _, _, _ string) http.Handler {
		return http.HandlerFunc(func(w http.ResponseWriter, r *http.Request) {
			r.Body = http.MaxBytesReader(nil, r.Body, 8) // nil writer: only limits the reader
			next.ServeHTTP(w, r)
		})
	}))

	srv := httptest.NewServer(router)
	defer srv.Close()

	req, err := http.NewRequest(http.MethodTrace, srv.URL+"/not/registered", strings.NewReader("<b>hello</b>"))
	if err != nil {
		t.Fatal(err)
	}
	req.Header.Set("X-H", "<v>")
	resp, err := srv.Client().Do(req)
	if err != nil {
		t.Fatal(err)
	}
	defer resp.Body.Close()
	body, _ := io.ReadAll(resp.Body)

	if resp.StatusCode != http.StatusOK {
		t.Errorf("status = %d", resp.StatusCode)
	}
	if ct := resp.Header.Get("Content-Type"); ct != "message/http" {
		t.Errorf("Content-Type = %q, want message/http", ct)
	}
	if !strings.HasPrefix(string(body), "TRACE /not/registered HTTP/1.1") || !strings.Contains(string(body), "X-H: &lt;v&gt;") {
		t.Errorf("body is not the escaped dump of the request: %q", body)
	}
}
