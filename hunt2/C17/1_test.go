// Package directory: repository root (package mux_test). Does not need -race.
package mux_test

import (
	"fmt"
	"net/http"
	"net/http/httptest"
	"reflect"
	"testing"

	"github.com/issue9/mux/v9"
	"github.com/issue9/mux/v9/header"
	"github.com/issue9/mux/v9/types"
)

func hunt1Router() *mux.Router[http.Handler] {
	call := func(w http.ResponseWriter, r *http.Request, _ types.Route, h http.Handler) { h.ServeHTTP(w, r) }
	b := func(status int) types.BuildNodeHandler[http.Handler] {
		return func(n types.Node) http.Handler {
			return http.HandlerFunc(func(w http.ResponseWriter, _ *http.Request) {
				w.Header().Set(header.Allow, n.AllowHeader())
				w.WriteHeader(status)
			})
		}
	}
	return mux.NewRouter[http.Handler]("def", call, http.NotFoundHandler(), b(405), b(200))
}

func hunt1Handle(r *mux.Router[http.Handler], pattern string, methods ...string) (err error) {
	defer func() {
		if e := recover(); e != nil {
			err = fmt.Errorf("%v", e)
		}
	}()
	r.Handle(pattern, http.HandlerFunc(func(w http.ResponseWriter, _ *http.Request) { w.WriteHeader(201) }), nil, methods...)
	return nil
}

func hunt1Do(r http.Handler, method, path string) (int, string) {
	req := httptest.NewRequest(method, "http://localhost/", nil)
	req.URL.Path = path
	w := httptest.NewRecorder()
	r.ServeHTTP(w, req)
	return w.Code, w.Header().Get(header.Allow)
}

// A rejected Handle must change nothing. Here the rejected call deletes a live route:
// the two patterns share a regexp parameter and their literal suffixes differ in the
// middle of a multi-byte UTF-8 character (作 = E4 BD 9C, 信 = E4 BF A1; é/è behave alike).
func TestHunt1(t *testing.T) {
	for _, pair := range [][2]string{
		{`/posts/{id:\d+}/作者`, `/posts/{id:\d+}/信息`},
		{`/{id:\d+}/é`, `/{id:\d+}/è`},
	} {
		p1, p2 := pair[0], pair[1]
		path1 := "/posts/5/作者"
		if p1[1] == '{' {
			path1 = "/5/é"
		}

		for _, p := range pair { // each pattern is well-formed and accepted on its own
			if err := mux.CheckSyntax(p); err != nil {
				t.Fatalf("%s: %v", p, err)
			}
			if err := hunt1Handle(hunt1Router(), p, http.MethodGet); err != nil {
				t.Fatalf("%s is not accepted on its own: %v", p, err)
			}
		}

		r := hunt1Router()
		if err := hunt1Handle(r, "/other", http.MethodPost); err != nil {
			t.Fatal(err)
		}
		if err := hunt1Handle(r, p1, http.MethodGet); err != nil {
			t.Fatal(err)
		}

		routes := r.Routes()
		if code, _ := hunt1Do(r, http.MethodGet, path1); code != 201 {
			t.Fatalf("setup: GET %s = %d", path1, code)
		}
		_, allow := hunt1Do(r, http.MethodOptions, path1)

		err := hunt1Handle(r, p2, http.MethodGet)
		if err == nil {
			continue // accepted: the property has nothing to say
		}
		t.Logf("Handle(%s) rejected: %v", p2, err)

		if got := r.Routes(); !reflect.DeepEqual(got, routes) {
			t.Errorf("rejected Handle(%s) changed Routes():\n before %v\n after  %v", p2, routes, got)
		}
		if code, _ := hunt1Do(r, http.MethodGet, path1); code != 201 {
			t.Errorf("rejected Handle(%s) changed dispatch: GET %s was 201, now %d", p2, path1, code)
		}
		if code, a := hunt1Do(r, http.MethodOptions, path1); a != allow {
			t.Errorf("rejected Handle(%s) changed OPTIONS %s: Allow %q -> %q (status %d)", p2, path1, allow, a, code)
		}
	}
}
