// Belongs in the module root directory (package mux_test, e.g. /tmp/wt/C02/zz_hunt1_test.go). Does not need -race.
package mux_test

import (
	"fmt"
	"net/http"
	"net/http/httptest"
	"sort"
	"strings"
	"testing"

	"github.com/issue9/mux/v9"
	"github.com/issue9/mux/v9/types"
)

type hunt1H struct{ pat string }

// hunt1Router returns an empty router; the answer body of a route is "<pattern>|k=v,k=v".
func hunt1Router() *mux.Router[*hunt1H] {
	call := func(w http.ResponseWriter, r *http.Request, ps types.Route, h *hunt1H) {
		if h == nil {
			w.WriteHeader(http.StatusNotFound)
			return
		}
		if h.pat == "" {
			w.WriteHeader(http.StatusMethodNotAllowed)
			return
		}
		var kv []string
		ps.Params().Range(func(k, v string) { kv = append(kv, k+"="+v) })
		sort.Strings(kv)
		fmt.Fprintf(w, "%s|%s", h.pat, strings.Join(kv, ","))
	}
	return mux.NewRouter[*hunt1H]("hunt", call, nil,
		func(types.Node) *hunt1H { return &hunt1H{} },
		func(types.Node) *hunt1H { return &hunt1H{} })
}

func hunt1Get(r http.Handler, path string) string {
	w := httptest.NewRecorder()
	req := httptest.NewRequest(http.MethodGet, "http://x/", nil)
	req.URL.Path = path
	r.ServeHTTP(w, req)
	if w.Code != http.StatusOK {
		return fmt.Sprint(w.Code)
	}
	return w.Body.String()
}

func hunt1Check(t *testing.T, r http.Handler, path, want string) {
	t.Helper()
	if got := hunt1Get(r, path); got != want {
		t.Errorf("GET %q: got %q, want %q", path, got, want)
	}
}

// A regexp rule with a counted quantifier ({2}, {1,2}) is an ordinary regexp constraint (the library's own fix
// 235ab8c names /{id:\d{2}}/x as a pattern that must dispatch). The parameter must take the text its constraint
// accepts; instead the rule is cut at the quantifier's closing brace.
func TestHunt1(t *testing.T) {
	for _, p := range []string{`/{id:\d{2}}/x`, `/v/{ver:v\d{1,2}}`, `/d/{date:\d{4}-\d{2}}/log`} {
		if err := mux.CheckSyntax(p); err != nil {
			t.Fatalf("%s is not accepted as well-formed: %v", p, err)
		}
	}

	r := hunt1Router()
	r.Get(`/{id:\d{2}}/x`, &hunt1H{`/{id:\d{2}}/x`})
	r.Get(`/v/{ver:v\d{1,2}}`, &hunt1H{`/v/{ver:v\d{1,2}}`})

	hunt1Check(t, r, "/12/x", `/{id:\d{2}}/x|id=12`)        // library: 404
	hunt1Check(t, r, "/1{2}/x", "404")                      // library: answers with id="1{2"
	hunt1Check(t, r, "/123/x", "404")                       // holds
	hunt1Check(t, r, "/v/v12", `/v/{ver:v\d{1,2}}|ver=v12`) // library: 404
	hunt1Check(t, r, "/v/v1{1,2}", "404")                   // library: answers with ver="v1{1,2"

	// two counted quantifiers in one rule: splitString cuts the pattern at the second "{" into the regexp parameter
	// {date:\d{4} with suffix "-\d" and a *named* parameter called "2" with suffix "}/log"
	r2 := hunt1Router()
	func() {
		defer func() {
			if x := recover(); x != nil {
				t.Errorf(`registering /d/{date:\d{4}-\d{2}}/log panics: %v`, x)
			}
		}()
		r2.Get(`/d/{date:\d{4}-\d{2}}/log`, &hunt1H{`/d/{date:\d{4}-\d{2}}/log`})
	}()
	hunt1Check(t, r2, "/d/2024-05/log", `/d/{date:\d{4}-\d{2}}/log|date=2024-05`)
}
