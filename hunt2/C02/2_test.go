// Belongs in the module root directory (package mux_test, e.g. /tmp/wt/C02/zz_hunt2_test.go). Does not need -race.
package mux_test

import (
	"fmt"
	"net/http"
	"net/http/httptest"
	"sort"
	"strings"
	"testing"

	"github.com/issue9/mux/v9"
	"github.com/issue9/mux/v9/types"
)

type hunt2H struct{ pat string }

func hunt2Router() *mux.Router[*hunt2H] {
	call := func(w http.ResponseWriter, r *http.Request, ps types.Route, h *hunt2H) {
		if h == nil {
			w.WriteHeader(http.StatusNotFound)
			return
		}
		if h.pat == "" {
			w.WriteHeader(http.StatusMethodNotAllowed)
			return
		}
		var kv []string
		ps.Params().Range(func(k, v string) { kv = append(kv, k+"="+v) })
		sort.Strings(kv)
		fmt.Fprintf(w, "%s|%s", h.pat, strings.Join(kv, ","))
	}
	return mux.NewRouter[*hunt2H]("hunt", call, nil,
		func(types.Node) *hunt2H { return &hunt2H{} },
		func(types.Node) *hunt2H { return &hunt2H{} })
}

func hunt2Get(r http.Handler, path string) string {
	w := httptest.NewRecorder()
	req := httptest.NewRequest(http.MethodGet, "http://x/", nil)
	req.URL.Path = path
	r.ServeHTTP(w, req)
	if w.Code != http.StatusOK {
		return fmt.Sprint(w.Code)
	}
	return w.Body.String()
}

// hunt2Add registers p and reports a panic as an error instead of aborting the test.
func hunt2Add(r *mux.Router[*hunt2H], p string) (err error) {
	defer func() {
		if x := recover(); x != nil {
			err = fmt.Errorf("%v", x)
		}
	}()
	r.Get(p, &hunt2H{p})
	return nil
}

// Two routes use the same regexp parameter and their literal text after it differs inside a multi-byte character
// ("ä" = C3 A4, "ü" = C3 BC; likewise é/è, or 论/证 which share E8). Both patterns are well-formed and not ambiguous.
func TestHunt2(t *testing.T) {
	const p1, p2 = `/{id:\d+}/ärzte`, `/{id:\d+}/übersicht`

	r := hunt2Router()
	if err := hunt2Add(r, p1); err != nil {
		t.Fatalf("add %s: %v", p1, err)
	}
	if got, want := hunt2Get(r, "/7/ärzte"), p1+"|id=7"; got != want {
		t.Fatalf("with one route: GET /7/ärzte: got %q, want %q", got, want)
	}

	if err := hunt2Add(r, p2); err != nil {
		t.Errorf("add %s after %s: %v", p2, p1, err) // library: error parsing regexp: invalid UTF-8
	}
	if got, want := hunt2Get(r, "/7/ärzte"), p1+"|id=7"; got != want {
		t.Errorf("GET /7/ärzte: got %q, want %q", got, want) // library: 404, the first route has been dropped from the tree
	}
	if got, want := hunt2Get(r, "/7/übersicht"), p2+"|id=7"; got != want {
		t.Errorf("GET /7/übersicht: got %q, want %q", got, want) // library: 404
	}
	if _, ok := r.Routes()[p1]; !ok {
		t.Errorf("Routes() no longer lists %s: %v", p1, r.Routes())
	}

	// the same two routes with a named parameter (or an interceptor) work; only regexp parameters are affected
	n := hunt2Router()
	for _, p := range []string{`/{id}/ärzte`, `/{id}/übersicht`} {
		if err := hunt2Add(n, p); err != nil {
			t.Fatalf("add %s: %v", p, err)
		}
	}
	if got, want := hunt2Get(n, "/7/übersicht"), `/{id}/übersicht|id=7`; got != want {
		t.Fatalf("named: got %q, want %q", got, want)
	}
}
