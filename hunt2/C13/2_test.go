// belongs in the module root directory (package mux_test); does not need -race

package mux_test

import (
	"fmt"
	"net/http"
	"net/http/httptest"
	"testing"

	"github.com/issue9/mux/v9"
	"github.com/issue9/mux/v9/types"
)

type hunt2H func(w http.ResponseWriter, r *http.Request, route types.Route)

func hunt2Call(w http.ResponseWriter, r *http.Request, route types.Route, h hunt2H) { h(w, r, route) }

func hunt2Dump(name string) hunt2H {
	return func(w http.ResponseWriter, r *http.Request, route types.Route) {
		ps := route.Params()
		fmt.Fprintf(w, "%s path=%s", name, r.URL.Path)
		for _, k := range []string{"ver", "tenant", "id", "rest"} {
			if v, found := ps.Get(k); found {
				fmt.Fprintf(w, " %s=%s", k, v)
			}
		}
	}
}

func hunt2Builder(name string) types.BuildNodeHandler[hunt2H] {
	return func(types.Node) hunt2H { return hunt2Dump(name) }
}

func hunt2Group() *mux.Group[hunt2H] {
	return mux.NewGroup(hunt2Call, hunt2Dump("group404"), hunt2Builder("405"), hunt2Builder("options"))
}

func hunt2Get(h http.Handler, url string, hdr ...string) string {
	w := httptest.NewRecorder()
	r := httptest.NewRequest(http.MethodGet, url, nil)
	for i := 0; i+1 < len(hdr); i += 2 {
		r.Header.Add(hdr[i], hdr[i+1])
	}
	h.ServeHTTP(w, r)
	return w.Body.String()
}

// AndMatcher/OrMatcher keep the caller's slice: reusing the slice for the next router's
// matcher rewrites the matcher of a router that is already in the group.
func TestHunt2(t *testing.T) {
	for _, comb := range []struct {
		name string
		f    func(...mux.Matcher) mux.Matcher
	}{{"Or", mux.OrMatcher}, {"And", mux.AndMatcher}} {
		g := hunt2Group()

		ms := []mux.Matcher{mux.NewHosts(false, "a.example.com"), mux.NewHosts(false, "a.example.com")}
		g.New("a", comb.f(ms...)).Get("/x", hunt2Dump("a"))

		// control: the group as built so far
		if got, want := hunt2Get(g, "http://a.example.com/x"), "a path=/x"; got != want {
			t.Fatalf("%s control: got %q, want %q", comb.name, got, want)
		}

		// the list is reused to build the matcher of the next router
		ms[0], ms[1] = mux.NewHosts(false, "b.example.com"), mux.NewHosts(false, "b.example.com")
		g.New("b", comb.f(ms...)).Get("/x", hunt2Dump("b"))

		if got, want := hunt2Get(g, "http://a.example.com/x"), "a path=/x"; got != want {
			t.Errorf("%s: host a: got %q, want %q", comb.name, got, want)
		}
		if got, want := hunt2Get(g, "http://b.example.com/x"), "b path=/x"; got != want {
			t.Errorf("%s: host b: got %q, want %q", comb.name, got, want)
		}
	}
}
