// belongs in the module root directory (package mux_test); does not need -race

package mux_test

import (
	"fmt"
	"net/http"
	"net/http/httptest"
	"testing"

	"github.com/issue9/mux/v9"
	"github.com/issue9/mux/v9/types"
)

type hunt1H func(w http.ResponseWriter, r *http.Request, route types.Route)

func hunt1Call(w http.ResponseWriter, r *http.Request, route types.Route, h hunt1H) { h(w, r, route) }

func hunt1Dump(name string) hunt1H {
	return func(w http.ResponseWriter, r *http.Request, route types.Route) {
		ps := route.Params()
		fmt.Fprintf(w, "%s path=%s", name, r.URL.Path)
		for _, k := range []string{"ver", "tenant", "id", "rest"} {
			if v, found := ps.Get(k); found {
				fmt.Fprintf(w, " %s=%s", k, v)
			}
		}
	}
}

func hunt1Builder(name string) types.BuildNodeHandler[hunt1H] {
	return func(types.Node) hunt1H { return hunt1Dump(name) }
}

func hunt1Group() *mux.Group[hunt1H] {
	return mux.NewGroup(hunt1Call, hunt1Dump("group404"), hunt1Builder("405"), hunt1Builder("options"))
}

func hunt1Get(h http.Handler, url string, hdr ...string) string {
	w := httptest.NewRecorder()
	r := httptest.NewRequest(http.MethodGet, url, nil)
	for i := 0; i+1 < len(hdr); i += 2 {
		r.Header.Add(hdr[i], hdr[i+1])
	}
	h.ServeHTTP(w, r)
	return w.Body.String()
}

// The parameter captured by the accepting matcher is lost when the router's own search
// backtracks over a route parameter of the same name.
func TestHunt1(t *testing.T) {
	// control: the matcher's parameter has a name no route uses
	{
		g := hunt1Group()
		r := g.New("api", mux.NewPathVersion("ver", "v1"))
		r.Get("/{id}/edit", hunt1Dump("edit"))
		r.Get("/{id}/show", hunt1Dump("show"))
		r.Get("/{rest}", hunt1Dump("rest"))
		want := "rest path=/5/view ver=/v1 rest=5/view"
		if got := hunt1Get(g, "http://example.com/v1/5/view"); got != want {
			t.Fatalf("control: got %q, want %q", got, want)
		}
	}

	// same routes, the version is stored as "id"; the routes that capture {id} do not match the request
	g := hunt1Group()
	r := g.New("api", mux.NewPathVersion("id", "v1"))
	r.Get("/{id}/edit", hunt1Dump("edit"))
	r.Get("/{id}/show", hunt1Dump("show"))
	r.Get("/{rest}", hunt1Dump("rest"))

	// the router alone serves /5/view with route /{rest} and the single parameter rest=5/view;
	// the group must add what the matcher captured: id=/v1
	want := "rest path=/5/view id=/v1 rest=5/view"
	if got := hunt1Get(g, "http://example.com/v1/5/view"); got != want {
		t.Errorf("got %q, want %q", got, want)
	}

	// the same with Hosts as the matcher and the router's not-found handler
	g = hunt1Group()
	r = g.New("api", mux.NewHosts(false, "{id}.example.com"))
	r.Get("/{id}/edit", hunt1Dump("edit"))
	r.Get("/{id}/show", hunt1Dump("show"))
	want = "group404 path=/5/view id=acme" // handler given to NewGroup, inherited by New as the router's 404
	if got := hunt1Get(g, "http://acme.example.com/5/view"); got != want {
		t.Errorf("got %q, want %q", got, want)
	}
}

