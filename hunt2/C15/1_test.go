// belongs in the module root directory (package mux_test); no -race needed
package mux_test

import (
	"net/http"
	"net/http/httptest"
	"testing"

	"github.com/issue9/mux/v9"
	"github.com/issue9/mux/v9/types"
)

// The version "/" is the empty version name written with its slash. NewPathVersion
// refuses "" but lets "/" through; the resulting matcher accepts every rooted path,
// removes nothing and records "" (not "/<version>").
func TestHunt1(t *testing.T) {
	var m mux.Matcher
	func() {
		defer func() { _ = recover() }() // refusing "/" like "" is an acceptable answer
		m = mux.NewPathVersion("ver", "/")
	}()
	if m == nil {
		return
	}

	// same version written with both slashes: behaves as the property says
	ref := mux.NewPathVersion("ver", "//")

	for _, path := range []string{"/users/1", "/", "/v1/x", "//x"} {
		r := httptest.NewRequest(http.MethodGet, "http://localhost/", nil)
		r.URL.Path = path
		ctx := types.NewContext()
		ok := m.Match(r, ctx)

		r2 := httptest.NewRequest(http.MethodGet, "http://localhost/", nil)
		r2.URL.Path = path
		ctx2 := types.NewContext()
		ok2 := ref.Match(r2, ctx2)

		v, found := ctx.Get("ver")
		v2, found2 := ctx2.Get("ver")
		t.Logf("path %q: \"/\" -> ok=%v path=%q ver=%q(%v); \"//\" -> ok=%v path=%q ver=%q(%v)",
			path, ok, r.URL.Path, v, found, ok2, r2.URL.Path, v2, found2)

		if ok {
			// an accepting path-version matcher removes a segment "/<version>" and records it:
			// recorded value + new path must give back the old path, and the recorded value starts with '/'.
			if !found || len(v) == 0 || v[0] != '/' {
				t.Errorf("path %q accepted, but recorded version is %q (found=%v), want \"/<version>\"", path, v, found)
			}
			if r.URL.Path == path {
				t.Errorf("path %q accepted, but no version segment was removed", path)
			}
			if v+r.URL.Path != path {
				t.Errorf("path %q: recorded %q + rewritten %q do not make up the request path", path, v, r.URL.Path)
			}
		} else if r.URL.Path != path || ctx.Count() != 0 {
			t.Errorf("path %q rejected but touched", path)
		}
	}
}
