// Package directory: repository root (/tmp/wt/C06/zz_hunt2_test.go), package mux_test. Does NOT need -race (deterministic).
package mux_test

import (
	"net/http"
	"net/http/httptest"
	"testing"

	"github.com/issue9/mux/v9"
	"github.com/issue9/mux/v9/examples/std"
)

// Two routes are registered once and never touched again: /{id}.json (first)
// and /{id}/meta.json (second). /a/meta.json is served by the first one
// (routes of the same kind are tried in the order they were added).
// A writer then registers and removes a third route, /{id}/data.json.
// The registration splits the node of the second route, the node gains
// children, its sort key drops and it is moved in front of the first route's
// node; removing the third route does not undo this. The same request is now
// served by the other route's handler with another parameter value.
func TestHunt2(t *testing.T) {
	r := std.NewRouter("def", mux.WithLock(true))
	mk := func(tag string) http.Handler {
		return http.HandlerFunc(func(w http.ResponseWriter, req *http.Request) {
			id, _ := std.GetParams(req).Params().Get("id")
			w.Write([]byte(tag + ":" + id))
		})
	}
	r.Get("/{id}.json", mk("first"))
	r.Get("/{id}/meta.json", mk("second"))

	get := func() string {
		w := httptest.NewRecorder()
		r.ServeHTTP(w, httptest.NewRequest(http.MethodGet, "/a/meta.json", nil))
		return w.Body.String()
	}

	before := get()
	if before != "first:a/meta" {
		t.Fatalf("precondition: %q", before)
	}

	r.Get("/{id}/data.json", mk("third")) // does not match /a/meta.json
	during := get()
	r.Remove("/{id}/data.json")
	after := get()

	if rs := r.Routes(); len(rs) != 3 { // "*" and the two untouched routes
		t.Fatalf("routes: %v", rs)
	}
	if during != before {
		t.Errorf("while /{id}/data.json is registered: got %q, want %q", during, before)
	}
	if after != before {
		t.Errorf("after /{id}/data.json has been removed again: got %q, want %q", after, before)
	}
}
