// Package directory: repository root (/tmp/wt/C06/zz_hunt1_test.go), package mux_test. Does NOT need -race (the outcome is deterministic; readers run concurrently only to show the effect on live traffic).
package mux_test

import (
	"net/http"
	"net/http/httptest"
	"sync"
	"testing"

	"github.com/issue9/mux/v9"
	"github.com/issue9/mux/v9/examples/std"
)

// The route /files/{name}.txt is registered once and never touched again.
// Writers only toggle a different route, /files/{name}.tgz. Registering it
// splits the untouched route's node "{name}.txt" into "{name}.t" + "xt", and
// from then on (also after the other route has been removed again) requests
// the untouched route served before get 404.
func TestHunt1(t *testing.T) {
	r := std.NewRouter("def", mux.WithLock(true))
	r.Get("/files/{name}.txt", http.HandlerFunc(func(w http.ResponseWriter, req *http.Request) {
		name, _ := std.GetParams(req).Params().Get("name")
		w.Write([]byte("txt:" + name))
	}))
	other := http.HandlerFunc(func(w http.ResponseWriter, req *http.Request) { w.Write([]byte("tgz")) })

	get := func() (int, string) {
		w := httptest.NewRecorder()
		r.ServeHTTP(w, httptest.NewRequest(http.MethodGet, "/files/my.tmp.txt", nil))
		return w.Code, w.Body.String()
	}

	if code, body := get(); code != 200 || body != "txt:my.tmp" { // holds: the untouched route owns this path
		t.Fatalf("precondition: %d %q", code, body)
	}

	var wg sync.WaitGroup
	stop := make(chan struct{})
	var once sync.Once
	for i := 0; i < 4; i++ { // readers: only ever ask for the untouched route
		wg.Add(1)
		go func() {
			defer wg.Done()
			for {
				select {
				case <-stop:
					return
				default:
				}
				if code, body := get(); code != 200 || body != "txt:my.tmp" {
					once.Do(func() {
						t.Errorf("untouched route /files/{name}.txt while /files/{name}.tgz is toggled: got %d %q, want 200 \"txt:my.tmp\"", code, body)
					})
					return
				}
			}
		}()
	}
	for i := 0; i < 200; i++ { // writer: toggles a different route
		r.Get("/files/{name}.tgz", other)
		r.Remove("/files/{name}.tgz")
	}
	close(stop)
	wg.Wait()

	// the route set is again exactly what it was at the start
	if rs := r.Routes(); len(rs) != 2 || rs["/files/{name}.txt"] == nil {
		t.Fatalf("routes: %v", rs)
	}
	if code, body := get(); code != 200 || body != "txt:my.tmp" {
		t.Errorf("after the other route is gone again: got %d %q, want 200 \"txt:my.tmp\"", code, body)
	}
}
