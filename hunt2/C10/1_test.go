// package directory: repository root (package mux_test); does not need -race
package mux_test

import (
	"net/http"
	"regexp"
	"testing"

	"github.com/issue9/mux/v9"
	"github.com/issue9/mux/v9/types"
)

func newHunt1Router() *mux.Router[http.Handler] {
	call := func(w http.ResponseWriter, r *http.Request, _ types.Route, h http.Handler) { h.ServeHTTP(w, r) }
	b := func(status int) types.BuildNodeHandler[http.Handler] {
		return func(types.Node) http.Handler {
			return http.HandlerFunc(func(w http.ResponseWriter, r *http.Request) { w.WriteHeader(status) })
		}
	}
	return mux.NewRouter("hunt1", call, http.NotFoundHandler(), b(405), b(200))
}

// Strict building rejects a value that satisfies the regexp of its parameter over its whole length.
func TestHunt1(t *testing.T) {
	r := newHunt1Router()
	h := http.HandlerFunc(func(w http.ResponseWriter, r *http.Request) {})

	cases := []struct {
		pattern string
		rules   map[string]string
		params  map[string]string
		want    string
	}{
		{"/{lang:zh|zh-cn}-{page:\\d+}", map[string]string{"lang": "zh|zh-cn", "page": `\d+`}, map[string]string{"lang": "zh-cn", "page": "3"}, "/zh-cn-3"},
		{"/{name:\\w+?}_{id:\\d+}", map[string]string{"name": `\w+?`, "id": `\d+`}, map[string]string{"name": "a_b", "id": "3"}, "/a_b_3"},
	}
	for _, c := range cases {
		r.Get(c.pattern, h)
		if _, ok := r.Routes()[c.pattern]; !ok {
			t.Fatalf("%s is not a live route", c.pattern)
		}
		for name, rule := range c.rules { // the premise: every value satisfies its constraint over its whole length
			if !regexp.MustCompile(`\A(?:` + rule + `)\z`).MatchString(c.params[name]) {
				t.Fatalf("test is wrong: %q does not satisfy %q", c.params[name], rule)
			}
		}

		loose, err := r.URL(false, c.pattern, c.params)
		if err != nil || loose != c.want {
			t.Fatalf("non-strict URL(%q) = %q, %v", c.pattern, loose, err)
		}
		strict, err := r.URL(true, c.pattern, c.params)
		if err != nil || strict != c.want {
			t.Errorf("strict URL(%q, %v) = %q, %v; want %q, nil", c.pattern, c.params, strict, err, c.want)
		}
	}
}
