// package directory: repository root (package mux_test); does not need -race
package mux_test

import (
	"net/http"
	"regexp"
	"testing"

	"github.com/issue9/mux/v9"
	"github.com/issue9/mux/v9/types"
)

// A rule that is not a regexp is accepted whenever the text the library wraps around it
// ("(?P<name>" + rule + ")" + suffix) happens to balance it: building succeeds for a malformed pattern.
func TestHunt3(t *testing.T) {
	call := func(w http.ResponseWriter, r *http.Request, _ types.Route, h http.Handler) { h.ServeHTTP(w, r) }
	b := func(status int) types.BuildNodeHandler[http.Handler] {
		return func(types.Node) http.Handler {
			return http.HandlerFunc(func(w http.ResponseWriter, r *http.Request) { w.WriteHeader(status) })
		}
	}
	r := mux.NewRouter("hunt3", call, http.NotFoundHandler(), b(405), b(200))

	for _, rule := range []string{`\d+)(`, `a)|(b`, `a)(?P<x>b`} {
		if _, err := regexp.Compile(rule); err == nil {
			t.Fatalf("test is wrong: %q compiles", rule)
		}
		for _, pattern := range []string{"/{id:" + rule + "}/x", "/{-id:" + rule + "}"} {
			ps := map[string]string{"id": "1"}
			if err := mux.CheckSyntax(pattern); err == nil {
				t.Errorf("CheckSyntax(%q) = nil; want an error, the rule %q does not compile", pattern, rule)
			}
			if got, err := mux.URL(pattern, ps); err == nil {
				t.Errorf("mux.URL(%q, %v) = %q, nil; want an error (uncompilable regexp)", pattern, ps, got)
			}
			if got, err := r.URL(false, pattern, ps); err == nil {
				t.Errorf("Router.URL(false, %q, %v) = %q, nil; want an error (uncompilable regexp)", pattern, ps, got)
			}
		}
	}
}
