// package directory: repository root (package mux_test); does not need -race
package mux_test

import (
	"net/http"
	"net/http/httptest"
	"testing"

	"github.com/issue9/mux/v9"
	"github.com/issue9/mux/v9/types"
)

// A literal } that ends the pattern turns the last named/interceptor parameter into a catch-all:
// the captured value swallows the literal text after the parameter, so building does not invert matching.
func TestHunt2(t *testing.T) {
	var gotPattern string
	var gotParams map[string]string
	call := func(w http.ResponseWriter, r *http.Request, route types.Route, h http.Handler) {
		if route.Node() != nil {
			gotPattern = route.Node().Pattern()
			gotParams = map[string]string{}
			route.Params().Range(func(k, v string) { gotParams[k] = v })
		}
		h.ServeHTTP(w, r)
	}
	b := func(status int) types.BuildNodeHandler[http.Handler] {
		return func(types.Node) http.Handler {
			return http.HandlerFunc(func(w http.ResponseWriter, r *http.Request) { w.WriteHeader(status) })
		}
	}
	r := mux.NewRouter("hunt2", call, http.NotFoundHandler(), b(405), b(200), mux.WithDigitInterceptor("digit"))
	h := http.HandlerFunc(func(w http.ResponseWriter, r *http.Request) { w.WriteHeader(http.StatusOK) })

	for _, pattern := range []string{"/p/{id}/}", "/q/{id:digit}}"} {
		if err := mux.CheckSyntax(pattern); err != nil {
			t.Fatalf("%s: %v", pattern, err)
		}
		r.Get(pattern, h)
	}

	// the text after {id} is literal: non-strict and strict building keep it in place
	if u, err := r.URL(true, "/p/{id}/}", map[string]string{"id": "5"}); err != nil || u != "/p/5/}" {
		t.Fatalf("URL = %q, %v", u, err)
	}

	for _, path := range []string{"/p/5/}", "/p/5", "/p/a/b/c"} {
		gotPattern, gotParams = "", nil
		w := httptest.NewRecorder()
		req := httptest.NewRequest(http.MethodGet, "http://localhost/", nil)
		req.URL.Path = path
		r.ServeHTTP(w, req)
		if w.Code != http.StatusOK { // not dispatched: nothing to invert
			continue
		}
		for _, strict := range []bool{false, true} {
			got, err := r.URL(strict, gotPattern, gotParams)
			if err != nil || got != path {
				t.Errorf("GET %q was dispatched to %q with %v, but URL(strict=%v) of these = %q, %v", path, gotPattern, gotParams, strict, got, err)
			}
		}
	}
}
