// package directory: module root (/tmp/wt/C03, package mux_test); does not need -race
package mux_test

import (
	"net/http"
	"net/http/httptest"
	"testing"

	"github.com/issue9/mux/v9"
	"github.com/issue9/mux/v9/types"
)

func hunt3Router() *mux.Router[http.Handler] {
	call := func(w http.ResponseWriter, r *http.Request, _ types.Route, h http.Handler) { h.ServeHTTP(w, r) }
	status := func(code int) types.BuildNodeHandler[http.Handler] {
		return func(n types.Node) http.Handler {
			return http.HandlerFunc(func(w http.ResponseWriter, _ *http.Request) {
				w.Header().Set("Allow", n.AllowHeader())
				w.WriteHeader(code)
			})
		}
	}
	return mux.NewRouter[http.Handler]("hunt", call, http.NotFoundHandler(), status(http.StatusMethodNotAllowed), status(http.StatusOK))
}

func hunt3Tag(tag string) http.Handler {
	return http.HandlerFunc(func(w http.ResponseWriter, _ *http.Request) { w.Header().Set("X-Route", tag) })
}

func hunt3ServedBy(r http.Handler, method, path string) string {
	w := httptest.NewRecorder()
	req := httptest.NewRequest(method, "/", nil)
	req.URL.Path = path
	r.ServeHTTP(w, req)
	if tag := w.Header().Get("X-Route"); tag != "" {
		return tag
	}
	return http.StatusText(w.Code)
}

// TestHunt3: {id} and {id:} are two spellings of the same named parameter; both registrations
// are accepted and listed, the second one can never be served.
func TestHunt3(t *testing.T) {
	const (
		p1 = "/u/{id}"
		p2 = "/u/{id:}"
	)
	r := hunt3Router()
	r.Get(p1, hunt3Tag(p1))
	func() {
		defer func() {
			if recover() != nil {
				t.Log("second spelling refused: fine")
			}
		}()
		r.Get(p2, hunt3Tag(p2)) // a library that keeps the property has to refuse this like it refuses Get(p1) twice
	}()
	routes := r.Routes()
	if _, live := routes[p2]; !live {
		return
	}
	// p2 is live: some request built from it has to be served by it
	served := map[string]bool{}
	for _, v := range []string{"QZ", "77", "Q_Z", "ZQ9"} {
		served[hunt3ServedBy(r, "GET", "/u/"+v)] = true
	}
	if !served[p2] {
		t.Errorf("%s is listed with %v but no request reaches it (all go to %s)", p2, routes[p2], p1)
	}
	r.Remove(p1)
	if got := hunt3ServedBy(r, "GET", "/u/QZ"); got != p2 {
		t.Errorf("after Remove(%s): GET /u/QZ served by %q, want %q", p1, got, p2)
	} else {
		t.Logf("after Remove(%s) the same request reaches %s: it was live but shadowed", p1, p2)
	}
}
