// package directory: module root (/tmp/wt/C03, package mux_test); does not need -race
package mux_test

import (
	"net/http"
	"net/http/httptest"
	"testing"

	"github.com/issue9/mux/v9"
	"github.com/issue9/mux/v9/types"
)

func hunt2Router() *mux.Router[http.Handler] {
	call := func(w http.ResponseWriter, r *http.Request, _ types.Route, h http.Handler) { h.ServeHTTP(w, r) }
	status := func(code int) types.BuildNodeHandler[http.Handler] {
		return func(n types.Node) http.Handler {
			return http.HandlerFunc(func(w http.ResponseWriter, _ *http.Request) {
				w.Header().Set("Allow", n.AllowHeader())
				w.WriteHeader(code)
			})
		}
	}
	return mux.NewRouter[http.Handler]("hunt", call, http.NotFoundHandler(), status(http.StatusMethodNotAllowed), status(http.StatusOK))
}

func hunt2Tag(tag string) http.Handler {
	return http.HandlerFunc(func(w http.ResponseWriter, _ *http.Request) { w.Header().Set("X-Route", tag) })
}

func hunt2ServedBy(r http.Handler, method, path string) string {
	w := httptest.NewRecorder()
	req := httptest.NewRequest(method, "/", nil)
	req.URL.Path = path
	r.ServeHTTP(w, req)
	if tag := w.Header().Get("X-Route"); tag != "" {
		return tag
	}
	return http.StatusText(w.Code)
}

// TestHunt2: a regexp parameter whose rule uses a {n} quantifier is registered and listed
// but never serves a value that satisfies the rule.
func TestHunt2(t *testing.T) {
	const p = `/posts/{year:\d{4}}/{month:\d{2}}`
	r := hunt2Router()
	r.Get(p, hunt2Tag(p))
	if _, found := r.Routes()[p]; !found {
		t.Fatalf("%s is not listed", p)
	}
	if got := hunt2ServedBy(r, "GET", "/posts/2024/05"); got != p {
		t.Errorf("GET /posts/2024/05 served by %q, want %q", got, p)
	}
	if got := hunt2ServedBy(r, "GET", "/posts/2{4}/0{2}"); got == p {
		t.Errorf("GET /posts/2{4}/0{2} is served by %q: the quantifier is taken as literal text", p)
	}

	// with >=5 literal siblings and after removals nothing changes
	for _, s := range []string{"/posts/a", "/posts/b", "/posts/c", "/posts/d", "/posts/e"} {
		r.Get(s, hunt2Tag(s))
	}
	r.Remove("/posts/a")
	if got := hunt2ServedBy(r, "GET", "/posts/2024/05"); got != p {
		t.Errorf("GET /posts/2024/05 served by %q, want %q", got, p)
	}
}
