// package directory: module root (/tmp/wt/C03, package mux_test); does not need -race
package mux_test

import (
	"net/http"
	"net/http/httptest"
	"testing"

	"github.com/issue9/mux/v9"
	"github.com/issue9/mux/v9/types"
)

func hunt1Router() *mux.Router[http.Handler] {
	call := func(w http.ResponseWriter, r *http.Request, _ types.Route, h http.Handler) { h.ServeHTTP(w, r) }
	status := func(code int) types.BuildNodeHandler[http.Handler] {
		return func(n types.Node) http.Handler {
			return http.HandlerFunc(func(w http.ResponseWriter, _ *http.Request) {
				w.Header().Set("Allow", n.AllowHeader())
				w.WriteHeader(code)
			})
		}
	}
	return mux.NewRouter[http.Handler]("hunt", call, http.NotFoundHandler(), status(http.StatusMethodNotAllowed), status(http.StatusOK))
}

func hunt1Tag(tag string) http.Handler {
	return http.HandlerFunc(func(w http.ResponseWriter, _ *http.Request) { w.Header().Set("X-Route", tag) })
}

func hunt1ServedBy(r http.Handler, method, path string) string {
	w := httptest.NewRecorder()
	req := httptest.NewRequest(method, "/", nil)
	req.URL.Path = path
	r.ServeHTTP(w, req)
	if tag := w.Header().Get("X-Route"); tag != "" {
		return tag
	}
	return http.StatusText(w.Code)
}

// TestHunt1: a live route stops serving its own witness after an unrelated
// literal sibling is registered; the same live table dispatches differently
// depending on the order of registration.
func TestHunt1(t *testing.T) {
	const (
		p = "/a/{id}-x/y" // witness /a/QZ-x/y (id=QZ, shares no byte with literal text)
		q = "/a/{id}/{z}" // witness /a/QZ/QZ
	)

	// history 1: p, q, then an unrelated literal route
	r := hunt1Router()
	r.Get(p, hunt1Tag(p))
	r.Get(q, hunt1Tag(q))
	if got := hunt1ServedBy(r, "GET", "/a/QZ-x/y"); got != p { // holds
		t.Fatalf("before: GET /a/QZ-x/y served by %q, want %q", got, p)
	}
	r.Get("/a/zzz", hunt1Tag("/a/zzz")) // unrelated to both
	if got := hunt1ServedBy(r, "GET", "/a/QZ-x/y"); got != p {
		t.Errorf("after Handle(/a/zzz): GET /a/QZ-x/y served by %q, want %q (Routes still lists %v)", got, p, r.Routes()[p])
	}
	if got := hunt1ServedBy(r, "GET", "/a/QZ/QZ"); got != q {
		t.Errorf("GET /a/QZ/QZ served by %q, want %q", got, q)
	}

	// history 2: the same two routes in the other order
	r = hunt1Router()
	r.Get(q, hunt1Tag(q))
	r.Get(p, hunt1Tag(p))
	got2 := hunt1ServedBy(r, "GET", "/a/QZ-x/y")
	if got2 != p {
		t.Errorf("q then p: GET /a/QZ-x/y served by %q, want %q", got2, p)
	}

	// history 3: Remove + Handle of q leaves the live table of history 2, the dispatch must be the same
	r.Remove(q)
	r.Get(q, hunt1Tag(q))
	if got3 := hunt1ServedBy(r, "GET", "/a/QZ-x/y"); got3 != got2 {
		t.Errorf("same live table, different dispatch: %q before Remove(q)+Get(q), %q after", got2, got3)
	}
}
