// Package directory: module root (package mux_test). Does not need -race.

package mux_test

import (
	"net/http"
	"net/http/httptest"
	"testing"

	"github.com/issue9/mux/v9"
	"github.com/issue9/mux/v9/types"
)

// With GODEBUG=panicnil=1 (a supported Go setting, implied by any main module whose go.mod says go < 1.21)
// panic(nil) is an ordinary panic whose value is nil. The recovery wrappers of Router and Group
// stop that panic (calling recover() always stops it) but then test the value against nil and
// never call the recovery function.
func TestHunt1(t *testing.T) {
	t.Setenv("GODEBUG", "panicnil=1") // the runtime re-reads GODEBUG when the variable is set

	call := func(w http.ResponseWriter, r *http.Request, _ types.Route, h http.Handler) { h.ServeHTTP(w, r) }
	nf := http.NotFoundHandler()
	b := func(types.Node) http.Handler { return http.HandlerFunc(func(http.ResponseWriter, *http.Request) {}) }
	var boom http.Handler = http.HandlerFunc(func(http.ResponseWriter, *http.Request) { panic(nil) })

	// sanity: without the option the nil panic does reach the caller of ServeHTTP, and its value is nil.
	plain := mux.NewRouter("plain", call, nf, b, b)
	plain.Get("/p", boom)
	escaped, val := serve(plain, "/p")
	if !escaped || val != nil {
		t.Fatalf("precondition: want a panic with the value nil to escape the router without recovery, got escaped=%v val=%v", escaped, val)
	}

	calls := 0
	var got any = "never called"
	rec := mux.WithRecovery(func(w http.ResponseWriter, v any) {
		calls++
		got = v
		w.WriteHeader(http.StatusInternalServerError)
	})

	r := mux.NewRouter("r", call, nf, b, b, rec)
	r.Get("/p", boom)
	if escaped, _ := serve(r, "/p"); escaped {
		t.Fatal("panic escaped Router.ServeHTTP")
	}
	if calls != 1 || got != nil {
		t.Errorf("Router: recovery function called %d times (value %v), want exactly once with the value nil", calls, got)
	}

	calls, got = 0, "never called"
	g := mux.NewGroup(call, boom, b, b, rec) // group not-found panics
	if escaped, _ := serve(g, "/nowhere"); escaped {
		t.Fatal("panic escaped Group.ServeHTTP")
	}
	if calls != 1 || got != nil {
		t.Errorf("Group: recovery function called %d times (value %v), want exactly once with the value nil", calls, got)
	}
}

func serve(h http.Handler, path string) (escaped bool, val any) {
	escaped = true
	defer func() { val = recover() }()
	h.ServeHTTP(httptest.NewRecorder(), httptest.NewRequest(http.MethodGet, path, nil))
	return false, nil
}
