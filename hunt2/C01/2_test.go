// package directory: repository root (package mux_test); no -race needed
package mux_test

import (
	"net/http"
	"net/http/httptest"
	"net/url"
	"testing"

	"github.com/issue9/mux/v9"
	"github.com/issue9/mux/v9/types"
)

// A request whose URL.Path is empty (absolute-form request target "GET http://host HTTP/1.1")
// is answered with the 405 handler of the tree's root node: the reported route is "",
// which is not (and can never be) a registered pattern, and the Allow list is the union of
// the methods of all routes - it even names the method that was just refused.
func TestHunt2(t *testing.T) {
	type info struct {
		kind string
		node types.Node
	}
	var got *info
	var route types.Route
	call := func(_ http.ResponseWriter, _ *http.Request, rt types.Route, h *info) { got, route = h, rt }
	r := mux.NewRouter[*info]("def", call, &info{kind: "404"},
		func(n types.Node) *info { return &info{kind: "405", node: n} },
		func(n types.Node) *info { return &info{kind: "options", node: n} })
	r.Get("/", &info{kind: "GET /"})
	r.Post("/x", &info{kind: "POST /x"})

	for _, method := range []string{http.MethodGet, http.MethodPost, http.MethodDelete} {
		req := httptest.NewRequest(method, "http://example.com/", nil)
		req.URL = &url.URL{Scheme: "http", Host: "example.com", Path: ""} // what net/http produces for "GET http://example.com HTTP/1.1"
		got, route = nil, nil
		r.ServeHTTP(httptest.NewRecorder(), req)

		if got.kind == "404" {
			if route.Node() != nil || route.Params().Count() != 0 {
				t.Errorf("%s \"\": 404 reports a route", method)
			}
			continue
		}
		// anything else is an answer for a matched route: the reported route must be registered
		pattern := route.Node().Pattern()
		if _, found := r.Routes()[pattern]; !found {
			t.Errorf("%s \"\": answered by %q, reported route %q is not a registered pattern (Allow would be %q)",
				method, got.kind, pattern, route.Node().AllowHeader())
		}
	}
}
