// package directory: repository root (package mux_test); no -race needed. ASIDE: not a C01 violation, see aside.md (the test only logs; it shows 201 before and 404 after)
package mux_test

import (
	"net/http"
	"net/http/httptest"
	"testing"

	"github.com/issue9/mux/v9"
	"github.com/issue9/mux/v9/types"
)

func TestHuntAside(t *testing.T) {
	call := func(w http.ResponseWriter, r *http.Request, _ types.Route, h http.Handler) { h.ServeHTTP(w, r) }
	b := func(status int) types.BuildNodeHandler[http.Handler] {
		return func(types.Node) http.Handler {
			return http.HandlerFunc(func(w http.ResponseWriter, _ *http.Request) { w.WriteHeader(status) })
		}
	}
	r := mux.NewRouter[http.Handler]("def", call, http.NotFoundHandler(), b(405), b(200))
	h := http.HandlerFunc(func(w http.ResponseWriter, _ *http.Request) { w.WriteHeader(201) })
	r.Get("/{id:\\d+}/é1", h)
	w := httptest.NewRecorder()
	r.ServeHTTP(w, httptest.NewRequest("GET", "/5/%C3%A91", nil))
	t.Log("before", w.Code, r.Routes())
	func() {
		defer func() { t.Log("recovered:", recover()) }()
		r.Get("/{id:\\d+}/è2", h)
	}()
	w = httptest.NewRecorder()
	r.ServeHTTP(w, httptest.NewRequest("GET", "/5/%C3%A91", nil))
	t.Log("after", w.Code, r.Routes())
}
