// package directory: repository root (package mux_test); needs -race
package mux_test

import (
	"net/http"
	"net/http/httptest"
	"sync"
	"testing"

	"github.com/issue9/mux/v9"
	"github.com/issue9/mux/v9/types"
)

// WithLock(true) promises that the route table may be changed while requests are served.
// Use rewrites every node's handler map (and the 404 handler) without taking the tree lock,
// while ServeHTTP reads the same maps under the read lock.
func TestHunt1(t *testing.T) {
	call := func(w http.ResponseWriter, r *http.Request, _ types.Route, h http.Handler) { h.ServeHTTP(w, r) }
	b := func(status int) types.BuildNodeHandler[http.Handler] {
		return func(types.Node) http.Handler {
			return http.HandlerFunc(func(w http.ResponseWriter, _ *http.Request) { w.WriteHeader(status) })
		}
	}
	r := mux.NewRouter[http.Handler]("def", call, http.NotFoundHandler(), b(405), b(200), mux.WithLock(true))
	r.Get("/users/{id}", http.HandlerFunc(func(w http.ResponseWriter, _ *http.Request) { w.WriteHeader(201) }))

	m := types.MiddlewareFunc[http.Handler](func(next http.Handler, _, _, _ string) http.Handler { return next })

	var wg sync.WaitGroup
	wg.Add(2)
	go func() {
		defer wg.Done()
		for i := 0; i < 2000; i++ {
			w := httptest.NewRecorder()
			r.ServeHTTP(w, httptest.NewRequest(http.MethodGet, "/users/5", nil))
			if w.Code != 201 {
				t.Errorf("status %d", w.Code)
				return
			}
		}
	}()
	go func() {
		defer wg.Done()
		for i := 0; i < 200; i++ {
			r.Use(m)
		}
	}()
	wg.Wait()
}
