#!/usr/bin/env python3
# Rewrites the seeded-change table of DESIGN.md from /verif/seeded/*/meta.json.
import json,glob,os,re
rows=[]
for d in sorted(glob.glob('/verif/seeded/C*')):
    m=json.load(open(d+'/meta.json'))
    notes=open(d+'/notes.md').read() if os.path.exists(d+'/notes.md') else ''
    first=''
    for line in notes.split('\n'):
        line=line.strip().lstrip('#').strip()
        if len(line)>25 and not line.lower().startswith(('change','notes','what','#')):
            first=line; break
    first=re.sub(r'[`*|]','',first)[:150]
    own=[r for r in m['detected_by_rules'] if r.startswith(m['breaks_property']+'.')]
    other=[r for r in m['detected_by_rules'] if not r.startswith(m['breaks_property']+'.')]
    verdict=' '.join(own) if own else ('— (only '+' '.join(other)+')' if other else '**not reported**')
    rows.append('| %s | %s | %s | %s |'%(m['id'],first,verdict,' '.join(other) if own else ''))
tot=len(rows); own=sum(1 for r in rows if '| — (only' not in r and 'not reported' not in r)
tab='| id | change (from the agent\'s notes) | reported by the property\'s own check | also reported by |\n|---|---|---|---|\n'+'\n'.join(rows)+'\n\n%d seeded changes; %d reported by the check of their own property, %d only by another property\'s check, %d not reported.\n'%(tot,own,sum(1 for r in rows if '| — (only' in r),sum(1 for r in rows if 'not reported' in r))
p='/verif/DESIGN.md'
s=open(p).read()
s=re.sub(r'<!-- SEEDED-TABLE-BEGIN -->.*?<!-- SEEDED-TABLE-END -->','<!-- SEEDED-TABLE-BEGIN -->\n'+tab+'<!-- SEEDED-TABLE-END -->',s,flags=re.S)
open(p,'w').write(s)
print(tot,own)
