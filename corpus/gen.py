#!/usr/bin/env python3
# Generates the self-validation corpus: one entries.json per property.
# Each entry is an edit of the current tree that still compiles; breaking entries must be reported by the named
# rule, benign entries (behaviour-preserving refactorings) must stay silent.
import json, os
ND='internal/tree/node.go'; TR='internal/tree/tree.go'; ME='internal/tree/method.go'; SG='internal/syntax/segment.go'
SY='internal/syntax/syntax.go'; RO='router.go'; OP='options.go'; MA='match.go'; GR='group.go'; CT='types/context.go'; TC='internal/trace/trace.go'
C={}
def add(pid,name,file,old,new,expect,why=''):
    C.setdefault(pid,[]).append({"name":name,"file":file,"old":old,"new":new,"expect":expect,"why":why})
def addm(pid,name,edits,expect,why=''):
    C.setdefault(pid,[]).append({"name":name,"edits":[{"file":f,"old":o,"new":n} for f,o,n in edits],"expect":expect,"why":why})

# ---------------- C01
add('C01','drop-path-restore-scan',ND,"		// 不匹配子元素，则恢复原有数据\n		ctx.Path = path\n","		// 不匹配子元素，则恢复原有数据\n		_ = path\n",'violation:C01.R1')
add('C01','drop-path-restore-index',ND,"			return nn\n		}\n\n		ctx.Path = path\n	}","			return nn\n		}\n		_ = path\n	}",'violation:C01.R1')
add('C01','drop-capture-delete',ND,"		ctx.Delete(child.segment.Name)\n","",'violation:C01.R1')
add('C01','delete-parent-key',ND,"		ctx.Delete(child.segment.Name)","		ctx.Delete(n.segment.Name)",'violation:C01.R1')
add('C01','set-under-suffix',SG,"						ctx.Set(seg.Name, val)","						ctx.Set(seg.Suffix, val)",'violation:C01.R2')
add('C01','set-without-ignore-test',SG,"				if !seg.ignoreName {\n					ctx.Set(seg.Name, ctx.Path)\n				}","				ctx.Set(seg.Name, ctx.Path)",'violation:C01.R2')
add('C01','unquote-suffix',SG,'regexp.QuoteMeta(seg.Suffix)','seg.Suffix','violation:C01.R3')
add('C01','lookup-constant-method',TR,"	if h, exists := node.handlers[method]; exists && method != methodNotAllowed {","	if h, exists := node.handlers[http.MethodGet]; exists && method != methodNotAllowed {",'violation:C01.R4')
add('C01','drop-size-test',ND,"	if len(ctx.Path) == 0 && n.size() > 0 {","	if len(ctx.Path) == 0 {",'violation:C01.R4')
add('C01','405-of-root',TR,"	return node, node.handlers[methodNotAllowed], false","	return node, tree.node.handlers[methodNotAllowed], false",'violation:C01.R4')
add('C01','benign-undo-helper',ND,"				ctx.Delete(child.segment.Name)\n			}\n		}\n	}","				name := child.segment.Name\n				ctx.Delete(name)\n			}\n		}\n	}",'silent','local alias of the key')
add('C01','benign-builder-regexp',SG,'regexp.Compile("(?" + name + seg.rule + ")" + tail)','regexp.Compile("(?" + name + seg.rule + ")" + tail + "")','silent')

# ---------------- C02
add('C02','swap-regexp-named',SY,"	Regexp\n\n	// Named 命名参数，相对于正则，其效率更高，当然也没有正则灵活。比如：\n	//  {id}/abc\n	// 可以匹配 /users/1、/users/2 和 /users/username 等非数值类型\n	Named\n","	Named\n\n	Regexp\n",'violation:C02.R1')
add('C02','priority-times-1',ND,"ret := int(n.segment.Type) * 10","ret := int(n.segment.Type) * 1",'violation:C02.R2')
add('C02','priority-extra-weight',ND,"	if n.segment.Endpoint { // 同类型中权重最低\n		ret++\n	}","	if n.segment.Endpoint { // 同类型中权重最低\n		ret += 9\n	}",'violation:C02.R2')
add('C02','drop-sort-addSegment',ND,"		nn := n.newChild(seg)\n		n.sort()","		nn := n.newChild(seg)\n		n.buildIndexes()",'violation:C02.R3')
add('C02','reverse-comparator',ND,"return a.priority() - b.priority()","return b.priority() - a.priority()",'violation:C02.R3')
add('C02','scan-from-zero',ND,"	for i := len(n.indexes); i < len(n.children); i++ {","	for i := 0; i < len(n.children); i++ {",'violation:C02.R4')
add('C02','scan-step-two',ND,"i < len(n.children); i++ {\n		child := n.children[i]\n		path := ctx.Path","i < len(n.children); i += 2 {\n		child := n.children[i]\n		path := ctx.Path",'violation:C02.R4')
add('C02','unquote-suffix',SG,'regexp.QuoteMeta(seg.Suffix)','seg.Suffix','violation:C02.R6')
add('C02','benign-sort-helper',ND,"func (n *node[T]) sort() {\n	slices.SortStableFunc(n.children, func(a, b *node[T]) int { return a.priority() - b.priority() })","func (n *node[T]) sort() {\n	cmp := func(a, b *node[T]) int { return a.priority() - b.priority() }\n	slices.SortStableFunc(n.children, cmp)",'silent')

# ---------------- C03
add('C03','drop-rebuild-in-Remove',TR,"		child.parent.buildIndexes()\n","",'violation:C03.R1')
add('C03','drop-rebuild-in-clean-all',ND,"		n.children = n.children[:0]\n		n.buildIndexes()\n","		n.children = n.children[:0]\n",'violation:C03.R1')
add('C03','drop-rebuild-in-clean',ND,"		n.children = removeNodes(n.children, del)\n	}\n	n.buildIndexes()","		n.children = removeNodes(n.children, del)\n	}",'violation:C03.R1')
add('C03','drop-clear',ND,"	clear(n.indexes)\n","",'violation:C03.R2')
add('C03','index-all-kinds',ND,"		if node.segment.Type == syntax.String {\n			n.indexes[node.segment.Value[0]] = index\n		}","		if len(node.segment.Value) > 0 {\n			n.indexes[node.segment.Value[0]] = index\n		}",'violation:C03.R2')
add('C03','drop-buildMethods-in-Remove',TR,"	child.buildMethods()\n\n	for child.size() == 0","	for child.size() == 0",'violation:C03.R3')
add('C03','benign-sort-instead-of-build',TR,"		child.parent.buildIndexes()","		child.parent.sort()",'silent','sort() rebuilds the index too')
add('C03','benign-nil-index',ND,"		n.children = n.children[:0]\n		n.buildIndexes()","		n.children = n.children[:0]\n		n.indexes = nil",'silent','a missing index is correct')
add('C03','benign-fresh-map',ND,"	if n.indexes == nil {\n		n.indexes = make(map[byte]int, indexesSize)\n	}\n	clear(n.indexes)","	n.indexes = make(map[byte]int, indexesSize)",'silent','fresh map on every rebuild')

# ---------------- C04
add('C03','clean-breaks-early',ND,"					dels = append(dels, child.segment.Value)\n				}\n			}\n		}","					dels = append(dels, child.segment.Value)\n				}\n				break\n			}\n		}",'violation:C03.R4')
add('C03','remove-all-by-default-list',TR,"	if len(methods) == 0 {\n		child.handlers = nil\n	} else {","	if len(methods) == 0 {\n		methods = AnyMethods\n	}\n	{",'violation:C03.R5')
add('C03','resource-clean-cleans-tree',RO,"func (r *Resource[T]) Clean() { r.router.Remove(r.pattern) }","func (r *Resource[T]) Clean() { r.router.tree.Clean(r.pattern) }",'violation:C03.R6')
add('C03','benign-remove-all-clear',TR,"	if len(methods) == 0 {\n		child.handlers = nil\n	} else {","	if len(methods) == 0 {\n		clear(child.handlers)\n	} else {",'silent')
add('C04','reintroduce-node-copy',ND,"	n.segment = segs[1] // 保留 n 本身，OPTIONS 和 405 的处理方法引用的是该实例。\n	n.parent = ret\n	ret.children = append(ret.children, n)\n","	c := ret.newChild(segs[1])\n	c.handlers = n.handlers\n	c.methodIndex = n.methodIndex\n	c.children = n.children\n	c.indexes = n.indexes\n	for _, item := range c.children {\n		item.parent = c\n	}\n",'violation:C04.R2')
add('C04','drop-root-summary-build',TR,"	tree.buildMethods(0)\n\n	if lock {","	if lock {",'violation:C04.R3')
add('C04','drop-trace-clause-node',ME,"	if n.root.hasTrace {\n		n.methodIndex += methodIndexMap[http.MethodTrace]\n	}\n	buildMethodIndexes(n.methodIndex)","	buildMethodIndexes(n.methodIndex)",'violation:C04.R3')
add('C04','drop-memo-render',ME,"		n.methodIndex += methodIndexMap[http.MethodTrace]\n	}\n	buildMethodIndexes(n.methodIndex)\n}","		n.methodIndex += methodIndexMap[http.MethodTrace]\n	}\n}",'violation:C04.R3')
add('C04','drop-recount-in-Clean',TR,"	tree.node.clean(prefix)\n	tree.recountMethods()","	tree.node.clean(prefix)",'violation:C04.R4')
add('C04','decrement-by-caller-list',TR,"	tree.recountMethods() // methods 中可能包含了该节点上并不存在的请求方法，所以重新统计。","	tree.buildMethods(-1, methods...)",'violation:C04.R4')
add('C04','drop-node-summary-in-addMethods',ME,"	n.buildMethods()\n	n.root.buildMethods(1, methods...)","	n.root.buildMethods(1, methods...)",'violation:C04.R1')
add('C04','options-built-for-root',ME,"ApplyMiddleware(n.root.optionsBuilder(n), http.MethodOptions","ApplyMiddleware(n.root.optionsBuilder(n.root.node), http.MethodOptions",'violation:C04.R2')
add('C04','benign-local-alias',ME,"	n.buildMethods()\n	n.root.buildMethods(1, methods...)","	n.buildMethods()\n	root := n.root\n	root.buildMethods(1, methods...)",'silent')

add('C04','builder-skips-head',ME,"	for method := range n.handlers {\n		n.methodIndex += methodIndexMap[method]\n	}","	for method := range n.handlers {\n		if method != http.MethodHead {\n			n.methodIndex += methodIndexMap[method]\n		}\n	}",'violation:C04.R5')
add('C04','renderer-inverted',ME,"		if index&i == i {","		if index&i == 0 {",'violation:C04.R5')
add('C04','renderer-join-comma',ME,'options: strings.Join(methods, ", "),','options: strings.Join(methods, ","),','violation:C04.R5')
add('C04','table-shared-bits',ME,"		methodIndexMap[m] = 1 << i","		methodIndexMap[m] = 1 << (i / 2)",'violation:C04.R5')
add('C04','allow-of-root',ME,"func (n *node[T]) AllowHeader() string { return getMethodIndexEntity(n.getMethodIndex()).options }","func (n *node[T]) AllowHeader() string { return getMethodIndexEntity(n.root.node.getMethodIndex()).options }",'violation:C04.R5')
add('C04','benign-renderer-neq-zero',ME,"		if index&i == i {","		if index&i != 0 {",'silent')
add('C04','routes-liveness-by-summary',ND,"	if n.size() > 0 { // methodIndex 在 hasTrace 时，即使没有任何处理函数也不为零。","	if n.methodIndex > 0 {",'violation:C04.R7')
add('C04','recount-skips-trace',ME,"		if m != http.MethodHead && m != http.MethodOptions && m != methodNotAllowed {","		if m != http.MethodHead && m != http.MethodOptions && m != methodNotAllowed && m != http.MethodTrace {",'violation:C04.R4c')
add('C04','conditional-recount',TR,"	tree.node.clean(prefix)\n	tree.recountMethods()","	tree.node.clean(prefix)\n	if len(tree.node.children) == 0 {\n		tree.recountMethods()\n	}",'violation:C04.R4a')

# ---------------- C05
add('C05','drop-root-405',TR,"		methodNotAllowed:   tree.methodNotAllowedBuilder(tree.node),\n","",'violation:C05.R1a')
add('C05','remove-405-by-name',TR,"case http.MethodOptions, http.MethodHead, methodNotAllowed:","case http.MethodOptions, http.MethodHead:",'violation:C05.R1b')
add('C05','size-3',TR,"		if child.size() == 2 {","		if child.size() == 3 {",'violation:C05.R1c')
add('C05','drop-presence-tests',TR,"			if e1 && e2 {\n				delete(child.handlers, http.MethodOptions)\n				delete(child.handlers, methodNotAllowed)\n			}","			_, _ = e1, e2\n			delete(child.handlers, http.MethodOptions)\n			delete(child.handlers, methodNotAllowed)",'violation:C05.R1c')
add('C05','panic-in-match',SG,"	case Regexp:\n		// 正则表达式会将无效的 utf8 字节当作 U+FFFD 处理，Suffix 作为普通字符串需要按字节再次比较。\n		if seg.ignoreName {","	case Regexp:\n		if seg.expr == nil {\n			panic(\"no expr\")\n		}\n		if seg.ignoreName {",'violation:C05.R3')
add('C05','panic-string-in-Add',ME,'			return fmt.Errorf("该请求方法 %s 已经存在", m)','			panic("该请求方法已经存在")','violation:C05.R3')
add('C05','drop-path-nonempty',ND,"	if len(n.indexes) > 0 && len(ctx.Path) > 0 {","	if len(n.indexes) > 0 {",'violation:C05.R4')
add('C05','drop-minus-one-hosts',MA,"	if i := strings.LastIndexByte(h, ':'); i != -1 && validOptionalPort(h[i:]) {","	if i := strings.LastIndexByte(h, ':'); validOptionalPort(h[i:]) {",'violation:C05.R4')
add('C05','drop-loc-nil-test',SG,"		return locs != nil && locs[0] == 0 && locs[1] == len(pattern)","		return locs[0] == 0 && locs[1] == len(pattern)",'violation:C05.R4')
add('C05','drop-index-guard-match',SG,"} else if index := strings.Index(ctx.Path, seg.Suffix); index >= 0 {","} else if index := strings.Index(ctx.Path, seg.Suffix); index != 0 {",'violation:C05.R4')
add('C05','drop-clear',ND,"	clear(n.indexes)\n","",'violation:C05.R2')
add('C05','benign-neq-minus-one',MA,"i != -1 && validOptionalPort(h[i:])","i >= 0 && validOptionalPort(h[i:])",'silent')
add('C05','benign-len-neq-zero',ND,"	if len(n.indexes) > 0 && len(ctx.Path) > 0 {","	if len(n.indexes) != 0 && ctx.Path != \"\" {",'silent')

# ---------------- C06
add('C06','rlock-in-Remove',TR,"func (tree *Tree[T]) Remove(pattern string, methods ...string) {\n	if tree.locker != nil {\n		tree.locker.Lock()\n		defer tree.locker.Unlock()\n	}","func (tree *Tree[T]) Remove(pattern string, methods ...string) {\n	if tree.locker != nil {\n		tree.locker.RLock()\n		defer tree.locker.RUnlock()\n	}",'violation:C06.R1')
add('C06','drop-Clean-prologue',TR,"func (tree *Tree[T]) Clean(prefix string) {\n	if tree.locker != nil {\n		tree.locker.Lock()\n		defer tree.locker.Unlock()\n	}\n","func (tree *Tree[T]) Clean(prefix string) {\n",'violation:C06.R1')
add('C06','precheck-before-lock',TR,"	if tree.locker != nil {\n		tree.locker.Lock()\n		defer tree.locker.Unlock()\n	}\n\n	if err := tree.checkAmbiguous(pattern); err != nil {\n		return err\n	}\n","	if err := tree.checkAmbiguous(pattern); err != nil {\n		return err\n	}\n\n	if tree.locker != nil {\n		tree.locker.Lock()\n		defer tree.locker.Unlock()\n	}\n",'violation:C06.R1')
add('C06','url-without-lock',TR,"func (tree *Tree[T]) URL(buf *errwrap.StringBuilder, pattern string, ps map[string]string) error {\n	if tree.locker != nil {\n		tree.locker.RLock()\n		defer tree.locker.RUnlock()\n	}\n","func (tree *Tree[T]) URL(buf *errwrap.StringBuilder, pattern string, ps map[string]string) error {\n",'violation:C06.R1')
add('C06','summary-read-unlocked',ME,"func (n *node[T]) AllowHeader() string { return getMethodIndexEntity(n.getMethodIndex()).options }","func (n *node[T]) AllowHeader() string { return getMethodIndexEntity(n.methodIndex).options }",'violation:C06.R1')
add('C06','leak-lock-in-Routes',TR,"func (tree *Tree[T]) Routes() map[string][]string {\n	if tree.locker != nil {\n		tree.locker.RLock()\n		defer tree.locker.RUnlock()\n	}","func (tree *Tree[T]) Routes() map[string][]string {\n	if tree.locker != nil {\n		tree.locker.RLock()\n	}",'violation:C06.R2')
add('C06','reentrant-rlock-in-routes',ND,"		routes[n.Pattern()] = slices.Clone(getMethodIndexEntity(n.methodIndex).methods) // 已经在 Routes 的锁范围之内","		routes[n.Pattern()] = n.Methods()",'violation:C06.R2')
add('C06','lock-order-inverted',ME,"func (n *node[T]) AllowHeader() string { return getMethodIndexEntity(n.getMethodIndex()).options }","func (n *node[T]) AllowHeader() string {\n	methodIndexesLocker.RLock()\n	defer methodIndexesLocker.RUnlock()\n	return methodIndexes[n.getMethodIndex()].options\n}",'violation:C06.R3')
add('C06','benign-memo-read-before-tree-lock-released',ME,"func (n *node[T]) AllowHeader() string { return getMethodIndexEntity(n.getMethodIndex()).options }","func (n *node[T]) AllowHeader() string {\n	i := n.getMethodIndex()\n	e := getMethodIndexEntity(i)\n	return e.options\n}",'silent')
add('C06','benign-explicit-unlock',TR,"func (tree *Tree[T]) Clean(prefix string) {\n	if tree.locker != nil {\n		tree.locker.Lock()\n		defer tree.locker.Unlock()\n	}\n\n	tree.node.clean(prefix)\n	tree.recountMethods()\n}","func (tree *Tree[T]) Clean(prefix string) {\n	if tree.locker != nil {\n		tree.locker.Lock()\n	}\n\n	tree.node.clean(prefix)\n	tree.recountMethods()\n	if tree.locker != nil {\n		tree.locker.Unlock()\n	}\n}",'silent')
add('C06','benign-local-lock-alias',TR,"func (tree *Tree[T]) Clean(prefix string) {\n	if tree.locker != nil {\n		tree.locker.Lock()\n		defer tree.locker.Unlock()\n	}","func (tree *Tree[T]) Clean(prefix string) {\n	if l := tree.locker; l != nil {\n		l.Lock()\n		defer l.Unlock()\n	}",'silent')

# ---------------- C07
addm('C07','global-cache-in-getNode',[(TR,"var _ = 0","var _ = 0"),],'silent') if False else None
add('C07','unsynchronised-global-cache',TR,"// Find 查找匹配的节点\nfunc (tree *Tree[T]) Find(pattern string) *node[T] { return tree.node.find(pattern) }","var seenPatterns = map[string]int{}\n\n// Find 查找匹配的节点\nfunc (tree *Tree[T]) Find(pattern string) *node[T] {\n	seenPatterns[pattern]++\n	return tree.node.find(pattern)\n}",'violation:C07.R1')
add('C07','memo-write-outside-mutex',ME,"func buildMethodIndexes(index int) {\n	methodIndexesLocker.Lock()\n	defer methodIndexesLocker.Unlock()\n","func buildMethodIndexes(index int) {\n	methodIndexesLocker.RLock()\n	defer methodIndexesLocker.RUnlock()\n",'violation:C07.R1')
add('C07','memo-read-outside-mutex',ME,"func getMethodIndexEntity(index int) methodIndexEntity {\n	methodIndexesLocker.RLock()\n	defer methodIndexesLocker.RUnlock()\n	return methodIndexes[index]","func getMethodIndexEntity(index int) methodIndexEntity {\n	return methodIndexes[index]",'violation:C07.R1')
add('C07','return-global-without-clone','mux.go',"func Methods() []string { return slices.Clone(tree.Methods) }","func Methods() []string { return tree.Methods }",'violation:C07.R2')
add('C07','drop-clear-params',CT,"	clear(ctx.params)\n","",'violation:C07.R3')
add('C07','drop-reset-on-get',CT,"	ctx := contextPool.Get().(*Context)\n	ctx.Reset()\n	return ctx","	ctx := contextPool.Get().(*Context)\n	return ctx",'violation:C07.R3')
add('C07','new-field-not-reset',CT,"	routerName string\n	node       Node\n}","	routerName string\n	node       Node\n	hits       int\n}",'violation:C07.R3')
add('C07','destroy-before-serve',RO,"	r.serveContext(w, req, ctx)\n	ctx.Destroy()","	ctx.Destroy()\n	r.serveContext(w, req, ctx)",'violation:C07.R3')
add('C07','second-pool-user',CT,"func (ctx *Context) Params() Params { return ctx }","func (ctx *Context) Params() Params { return ctx }\n\nfunc (ctx *Context) Clone() *Context {\n	c := contextPool.Get().(*Context)\n	c.Path = ctx.Path\n	return c\n}",'violation:C07.R3')
add('C07','benign-reset-order',CT,"	ctx.Path = \"\"\n	clear(ctx.params)\n	ctx.routerName = \"\"\n	ctx.node = nil","	ctx.node = nil\n	ctx.routerName = \"\"\n	clear(ctx.params)\n	ctx.Path = \"\"",'silent')

add('C07','memo-lock-leaked-on-early-return',ME,"	methodIndexesLocker.Lock()\n	defer methodIndexesLocker.Unlock()\n\n	if _, found := methodIndexes[index]; found {\n		return\n	}\n","	methodIndexesLocker.Lock()\n\n	if _, found := methodIndexes[index]; found {\n		return\n	}\n	defer methodIndexesLocker.Unlock()\n",'violation:C07.R2c')
add('C07','benign-memo-explicit-unlock',ME,"func getMethodIndexEntity(index int) methodIndexEntity {\n	methodIndexesLocker.RLock()\n	defer methodIndexesLocker.RUnlock()\n	return methodIndexes[index]\n}","func getMethodIndexEntity(index int) methodIndexEntity {\n	methodIndexesLocker.RLock()\n	e := methodIndexes[index]\n	methodIndexesLocker.RUnlock()\n	return e\n}",'silent')
# ---------------- C08
add('C08','drop-head-install',ME,"		if m == http.MethodGet {\n			n.handlers[http.MethodHead] = ApplyMiddleware(h, http.MethodHead, pattern, n.root.Name(), ms...)\n		}\n","",'violation:C08.R1')
add('C08','head-without-middlewares',ME,"n.handlers[http.MethodHead] = ApplyMiddleware(h, http.MethodHead, pattern, n.root.Name(), ms...)","n.handlers[http.MethodHead] = ApplyMiddleware(h, http.MethodHead, pattern, n.root.Name())",'violation:C08.R1')
add('C08','drop-head-delete',TR,"			case http.MethodGet:\n				delete(child.handlers, http.MethodHead)\n				fallthrough\n","",'violation:C08.R2')
add('C08','head-removable-by-name',TR,"case http.MethodOptions, http.MethodHead, methodNotAllowed:","case http.MethodOptions, methodNotAllowed:",'violation:C08.R3')
add('C08','drop-head-rejection',ME,"if m == http.MethodOptions || m == http.MethodHead || (tree.hasTrace && m == http.MethodTrace) {","if m == http.MethodOptions || (tree.hasTrace && m == http.MethodTrace) {",'violation:C08.R4')
add('C08','drop-method-table-check',ME,"		if _, found := methodIndexMap[m]; !found {\n			return fmt.Errorf(\"该请求方法 %s 不被支持\", m)\n		}\n","",'violation:C08.R4')
add('C08','validate-only-first',ME,"func (tree *Tree[T]) checkMethods(n *node[T], methods []string) error {\n	for i, m := range methods {","func (tree *Tree[T]) checkMethods(n *node[T], methods []string) error {\n	for i, m := range methods[:min(1, len(methods))] {",'violation:C08.R4')
add('C08','trace-always-refused',ME,"(tree.hasTrace && m == http.MethodTrace)","(m == http.MethodTrace)",'violation:C08.R4')
add('C08','head-writer-forwards',RO,"	h.Set(header.ContentLength, strconv.Itoa(resp.size))\n	return l, nil","	h.Set(header.ContentLength, strconv.Itoa(resp.size))\n	return resp.ResponseWriter.Write(bs)",'violation:C08.R5')
add('C08','content-length-of-last-write',RO,"strconv.Itoa(resp.size))","strconv.Itoa(l))",'violation:C08.R5')
add('C08','head-wrapper-on-every-method',RO,"		if req.Method == http.MethodHead {\n			w = &headResponse{ResponseWriter: w}\n		}","		if req.Method != http.MethodGet {\n			w = &headResponse{ResponseWriter: w}\n		}",'violation:C08.R5')
add('C08','benign-rename-local',RO,"	resp.size += l\n	h.Set(header.ContentLength","	resp.size = resp.size + l\n	h.Set(header.ContentLength",'silent')

# ---------------- C09
add('C09','swap-concat-prefix-handle',RO,"	p.router.Handle(p.Pattern()+pattern, h, slices.Concat(m, p.ms), methods...)","	p.router.Handle(p.Pattern()+pattern, h, slices.Concat(p.ms, m), methods...)",'violation:C09.R2')
add('C09','swap-concat-router-handle',RO,"r.tree.Add(pattern, h, slices.Concat(m, r.ms), methods...)","r.tree.Add(pattern, h, slices.Concat(r.ms, m), methods...)",'violation:C09.R2')
add('C09','use-prepends',RO,"	r.ms = append(r.ms, m...)","	r.ms = append(slices.Clone(m), r.ms...)",'violation:C09.R2')
add('C09','fold-backwards',ND,"	for _, ff := range f {\n		h = ff.Middleware(h, method, pattern, router)\n	}","	for i := len(f) - 1; i >= 0; i-- {\n		h = f[i].Middleware(h, method, pattern, router)\n	}",'violation:C09.R1')
add('C09','fold-swaps-args',ND,"h = ff.Middleware(h, method, pattern, router)","h = ff.Middleware(h, method, router, pattern)",'violation:C09.R1')
add('C09','retro-all-ms',RO,"	r.tree.ApplyMiddleware(m...)","	r.tree.ApplyMiddleware(r.ms...)",'violation:C09.R3')
add('C09','skip-notfound',TR,"	tree.notFound = ApplyMiddleware(tree.notFound, \"\", \"\", tree.Name(), ms...)\n","",'violation:C09.R3')
add('C09','skip-trace-when-configured',TR,"	if tree.hasTrace {\n		tree.trace = ApplyMiddleware(tree.trace, http.MethodTrace, \"\", tree.Name(), ms...)\n	}","	if !tree.hasTrace {\n		tree.trace = ApplyMiddleware(tree.trace, http.MethodTrace, \"\", tree.Name(), ms...)\n	}",'violation:C09.R3')
add('C09','walk-skips-leaf-children',ND,"	for _, c := range n.children {\n		c.applyMiddleware(ms...)\n	}","	for _, c := range n.children {\n		if len(c.children) > 0 {\n			c.applyMiddleware(ms...)\n		}\n	}",'violation:C09.R3')
add('C09','405-wrapped-as-options',ME,"ApplyMiddleware(n.root.methodNotAllowedBuilder(n), \"\", pattern","ApplyMiddleware(n.root.methodNotAllowedBuilder(n), http.MethodOptions, pattern",'violation:C09.R4')
add('C09','swap-pattern-router',ME,"		n.handlers[m] = ApplyMiddleware(h, m, pattern, n.root.Name(), ms...)","		n.handlers[m] = ApplyMiddleware(h, m, n.root.Name(), pattern, ms...)",'violation:C09.R4')
add('C09','group-add-applies-twice',GR,"	r.Use(g.ms...)\n	r.matcher = matcher","	r.Use(g.ms...)\n	r.Use(g.ms...)\n	r.matcher = matcher",'violation:C09.R3')
add('C09','benign-concat-via-append',RO,"	p.router.Handle(p.Pattern()+pattern, h, slices.Concat(m, p.ms), methods...)","	p.router.Handle(p.pattern+pattern, h, slices.Concat(m, p.ms), methods...)",'silent','accessor inlined by hand')

# ---------------- C10
add('C10','drop-interceptor-case',TR,"		case syntax.Named, syntax.Regexp, syntax.Interceptor:","		case syntax.Named, syntax.Regexp:",'violation:C10.R1')
add('C10','emit-before-valid',TR,"			if !s.Valid(param) {\n				return fmt.Errorf(\"参数 %s 格式不匹配\", s.Name)\n			}\n\n			buf.WString(param).WString(s.Suffix)","			buf.WString(param).WString(s.Suffix)\n			if !s.Valid(param) {\n				return fmt.Errorf(\"参数 %s 格式不匹配\", s.Name)\n			}",'violation:C10.R2')
add('C10','drop-start-anchor',SG,"locs != nil && locs[0] == 0 && locs[1] == len(pattern)","locs != nil && locs[1] == len(pattern)",'violation:C10.R2')
add('C10','drop-end-anchor',SG,"locs != nil && locs[0] == 0 && locs[1] == len(pattern)","locs != nil && locs[0] == 0",'violation:C10.R2')
add('C10','drop-match-anchor',SG,"loc := seg.expr.FindStringIndex(ctx.Path); loc != nil && loc[0] == 0 && strings.HasSuffix","loc := seg.expr.FindStringIndex(ctx.Path); loc != nil && strings.HasSuffix",'violation:C10.R2')
add('C10','old-case-order',RO,"	case len(params) == 0 && !strict:","	case len(params) == 0:",'violation:C10.R3')
add('C10','continue-on-missing',SY,"		if !found {\n			return fmt.Errorf(\"未找到参数 %s 的值\", seg.Name)\n		}","		if !found {\n			continue\n		}",'violation:C10.R4')
add('C10','drop-suffix',SY,"		buf.WString(val).WString(seg.Suffix)","		buf.WString(val)",'violation:C10.R4')
add('C10','domain-only-when-params',RO,"	if r.urlDomain != \"\" {\n		buf.WString(r.urlDomain)\n	}","	if r.urlDomain != \"\" && len(params) > 0 {\n		buf.WString(r.urlDomain)\n	}",'violation:C10.R4')
add('C10','drop-cleanName-regexp',SG,"	seg.Name = val[start+1 : separator]\n	if err := seg.cleanName(); err != nil {\n		return nil, err\n	}\n	seg.Suffix = val[end+1:]\n	name := \":\"","	seg.Name = val[start+1 : separator]\n	seg.Suffix = val[end+1:]\n	name := \":\"",'violation:C10.R5')
add('C10','benign-if-chain',TR,"		switch s.Type {\n		case syntax.String:\n			buf.WString(s.Value)\n		case syntax.Named, syntax.Regexp, syntax.Interceptor:","		switch {\n		case s.Type == syntax.String:\n			buf.WString(s.Value)\n		case s.Type == syntax.Named || s.Type == syntax.Regexp || s.Type == syntax.Interceptor:",'silent')
add('C10','benign-default-case',TR,"		case syntax.Named, syntax.Regexp, syntax.Interceptor:\n			param, exists := ps[s.Name]","		default:\n			param, exists := ps[s.Name]",'silent')

# ---------------- C11
add('C11','invert-origin-test',OP,"		if slices.Index(c.Origins, origin) < 0 {\n			return\n		}","		if slices.Index(c.Origins, origin) >= 0 {\n			return\n		}",'violation:C11.R1')
add('C11','echo-origin-without-test',OP,"		if slices.Index(c.Origins, origin) < 0 {\n			return\n		}\n		allowOrigin = origin","		allowOrigin = origin",'violation:C11.R1')
add('C11','star-when-not-configured',OP,"	allowOrigin := \"*\"\n	if !c.anyOrigins {","	allowOrigin := \"*\"\n	if !c.anyOrigins && r.Header.Get(header.Origin) != \"\" {",'violation:C11.R1')
add('C11','credentials-before-origin',OP,"	// Access-Control-Allow-Origin\n	allowOrigin := \"*\"","	if c.AllowCredentials {\n		wh.Set(header.AccessControlAllowCredentials, \"true\")\n	}\n\n	// Access-Control-Allow-Origin\n	allowOrigin := \"*\"",'violation:C11.R2')
add('C11','drop-star-credentials-check',OP,"	if c.anyOrigins && c.AllowCredentials {\n		return errors.New(\"origin=* 和 allowCredentials=true 不能同时成立\")\n	}\n","",'violation:C11.R2')
add('C11','drop-sanitize-error',OP,"	if err := o.cors.sanitize(); err != nil {\n		return err\n	}","	_ = o.cors.sanitize()",'violation:C11.R2')
add('C11','drop-deny',OP,"	if c.deny {\n		return\n	}\n","",'violation:C11.R3')
add('C11','deny-from-flag',OP,"	c.deny = len(c.Origins) == 0","	c.deny = len(c.Origins) == 0 && !c.AllowCredentials",'violation:C11.R3')
add('C11','cors-before-ok',RO,"	if ok { // !ok 即为 405 或是 404 状态\n		r.cors.handle(node, w.Header(), req)","	r.cors.handle(node, w.Header(), req)\n	if ok { // !ok 即为 405 或是 404 状态",'violation:C11.R4')
add('C11','drop-return-header-test',OP,"		if !c.headerIsAllowed(r) {\n			return\n		}","		_ = c.headerIsAllowed(r)",'violation:C11.R5')
add('C11','drop-return-method-test',OP,"		if slices.Index(methods, reqMethod) < 0 {\n			return\n		}","		_ = slices.Index(methods, reqMethod)",'violation:C11.R5')
add('C11','benign-contains',OP,"		if slices.Index(c.Origins, origin) < 0 {\n			return\n		}","		if !slices.Contains(c.Origins, origin) {\n			return\n		}",'silent')

# ---------------- C12
add('C12','case-sensitive-compare',OP,"		if !slices.ContainsFunc(c.AllowHeaders, func(h string) bool { return strings.EqualFold(h, v) }) {","		if slices.Index(c.AllowHeaders, v) < 0 {",'violation:C12.R1')
add('C12','vary-response-header',OP,"	wh.Add(header.Vary, header.Origin)","	wh.Add(header.Vary, header.AccessControlAllowOrigin)",'violation:C12.R2')
add('C12','drop-vary-request-method',OP,"		wh.Add(header.Vary, header.AccessControlRequestMethod)\n","",'violation:C12.R2')
add('C12','max-age-outside-preflight',OP,"		// Access-Control-Max-Age\n		if c.maxAgeString != \"\" {\n			wh.Set(header.AccessControlMaxAge, c.maxAgeString)\n		}\n	}\n","	}\n	if c.maxAgeString != \"\" {\n		wh.Set(header.AccessControlMaxAge, c.maxAgeString)\n	}\n",'violation:C12.R3')
add('C12','expose-only-on-preflight',OP,"	// Access-Control-Expose-Headers\n	if c.exposedHeadersString != \"\" {","	// Access-Control-Expose-Headers\n	if preflight && c.exposedHeadersString != \"\" {",'violation:C12.R3')
add('C12','allow-methods-constant',OP,"		wh.Set(header.AccessControlAllowMethods, strings.Join(methods, \", \"))","		wh.Set(header.AccessControlAllowMethods, reqMethod)",'violation:C12.R4')
add('C12','allow-headers-echo-request',OP,"			wh.Set(header.AccessControlAllowHeaders, c.allowHeadersString)","			wh.Set(header.AccessControlAllowHeaders, r.Header.Get(header.AccessControlRequestHeaders))",'violation:C12.R4')
add('C12','exposed-from-allow',OP,"		c.exposedHeadersString = strings.Join(c.ExposedHeaders, \",\")","		c.exposedHeadersString = strings.Join(c.AllowHeaders, \",\")",'violation:C12.R4')
add('C12','benign-tolower-compare',OP,"		if !slices.ContainsFunc(c.AllowHeaders, func(h string) bool { return strings.EqualFold(h, v) }) {","		want := v\n		if !slices.ContainsFunc(c.AllowHeaders, func(h string) bool { return strings.EqualFold(want, h) }) {",'silent')

# ---------------- C13
add('C13','drop-ctx-reset',GR,"		r.URL.Path = path\n		ctx.Reset()","		r.URL.Path = path",'violation:C13.R2')
add('C13','drop-path-restore',GR,"		r.URL.Path = path\n		ctx.Reset()","		_ = path\n		ctx.Reset()",'violation:C13.R2')
add('C13','set-before-prefix-test',MA,"		if strings.HasPrefix(p, ver) {\n			vv := ver[:len(ver)-1]\n","		if v.paramName != \"\" {\n			ctx.Set(v.paramName, ver)\n		}\n		if strings.HasPrefix(p, ver) {\n			vv := ver[:len(ver)-1]\n",'violation:C13.R3')
add('C13','no-return-after-serve',GR,"			router.serveContext(w, r, ctx)\n			return\n		}","			router.serveContext(w, r, ctx)\n		}",'violation:C13.R1')
add('C13','add-prepends',GR,"	g.routers = append(g.routers, r)","	g.routers = append([]*Router[T]{r}, g.routers...)",'violation:C13.R1')
add('C13','origin-notfound',GR,"	g.call(w, r, ctx, g.notFound)","	g.call(w, r, ctx, g.originNotFound)",'violation:C13.R4')
add('C13','drop-duplicate-panic',GR,"	if slices.IndexFunc(g.routers, func(rr *Router[T]) bool { return rr.Name() == r.Name() }) >= 0 {\n		panic(fmt.Sprintf(\"已经存在名为 %s 的路由\", r.Name()))\n	}","	_ = fmt.Sprintf",'violation:C13.R4')
add('C13','benign-reorder-undo',GR,"		r.URL.Path = path\n		ctx.Reset()","		ctx.Reset()\n		r.URL.Path = path",'silent')

# ---------------- C14
add('C14','drop-tolower-match',MA,"	ctx.Path = strings.ToLower(h)","	ctx.Path = h",'violation:C14.R1')
add('C14','drop-tolower-add',MA,"hs.tree.Add(lowerDomain(d), hs.emptyHandlerFunc","hs.tree.Add(d, hs.emptyHandlerFunc",'violation:C14.R1')
add('C14','drop-tolower-delete',MA,"hs.tree.Remove(lowerDomain(domain))","hs.tree.Remove(domain)",'violation:C14.R1')
add('C14','drop-port-validation',MA,"i != -1 && validOptionalPort(h[i:]) {","i != -1 {",'violation:C14.R3')
add('C14','brackets-prefix-only',MA,"	if strings.HasPrefix(h, \"[\") && strings.HasSuffix(h, \"]\") { // ipv6","	if strings.HasPrefix(h, \"[\") { // ipv6",'violation:C14.R3')
add('C14','drop-clear',ND,"	clear(n.indexes)\n","",'violation:C14.R2')
add('C14','benign-lower-local',MA,"func (hs *Hosts) Delete(domain string) { hs.tree.Remove(lowerDomain(domain)) }","func (hs *Hosts) Delete(domain string) {\n	d := lowerDomain(domain)\n	hs.tree.Remove(d)\n}",'silent')

# ---------------- C15
add('C15','hasprefix-of-stripped',MA,"		if strings.HasPrefix(p, ver) {\n			vv := ver[:len(ver)-1]","		if strings.HasPrefix(p, ver[:len(ver)-1]) {\n			vv := ver[:len(ver)-1]",'violation:C15.R1')
add('C15','record-with-slash',MA,"				ctx.Set(v.paramName, vv)\n			}\n\n			return true","				ctx.Set(v.paramName, ver)\n			}\n\n			return true",'violation:C15.R1')
add('C15','trim-full-version',MA,"			r.URL.Path = strings.TrimPrefix(p, vv)","			r.URL.Path = strings.TrimPrefix(p, ver)",'violation:C15.R1')
add('C15','skip-trailing-slash-normalisation',MA,"		if v[len(v)-1] != '/' {\n			v += \"/\"\n		}\n		versions[i] = v","		versions[i] = v",'violation:C15.R1')
add('C15','header-accepts-prefix',MA,"		if vv == ver {","		if strings.HasPrefix(ver, vv) {",'violation:C15.R3')
add('C15','header-parse-error-accepts',MA,"		v.errlog(err)\n		return false","		v.errlog(err)\n		return len(v.versions) == 0",'violation:C15.R3')
add('C15','benign-rename',MA,"			vv := ver[:len(ver)-1]\n\n			r.URL.Path = strings.TrimPrefix(p, vv)","			vv := ver[:len(ver)-1]\n			r.URL.Path = strings.TrimPrefix(p, vv)",'silent')

# ---------------- C16
add('C16','defer-after-handler-lookup',RO,"	if r.recoverFunc != nil {\n		defer func() {\n			if err := recover(); err != nil {\n				r.recoverFunc(w, err)\n			}\n		}()\n	}\n\n	ctx.Path = req.URL.Path\n	node, h, ok := r.tree.Handler(ctx, req.Method)\n	ctx.SetNode(node)\n","	ctx.Path = req.URL.Path\n	node, h, ok := r.tree.Handler(ctx, req.Method)\n	ctx.SetNode(node)\n\n	if r.recoverFunc != nil {\n		defer func() {\n			if err := recover(); err != nil {\n				r.recoverFunc(w, err)\n			}\n		}()\n	}\n",'violation:C16.R1')
add('C16','wrapped-panic-value',RO,"				r.recoverFunc(w, err)","				r.recoverFunc(w, fmt.Sprint(err))",'violation:C16.R2')
add('C16','group-new-drops-options',GR,"	o = slices.Concat(g.options, o)\n","",'violation:C16.R3')
add('C16','group-new-own-first',GR,"	o = slices.Concat(g.options, o)","	o = slices.Concat(o, g.options)",'violation:C16.R3')
add('C16','router-drops-option',RO,"		recoverFunc: opt.recoverFunc,\n\n		interceptors: opt.interceptors,\n	}","\n		interceptors: opt.interceptors,\n	}",'violation:C16.R3')
add('C16','group-destroy-not-deferred',GR,"	ctx := types.NewContext()\n	defer ctx.Destroy()\n","	ctx := types.NewContext()\n",'violation:C16.R4')
add('C16','benign-named-recover-var',RO,"			if err := recover(); err != nil {\n				r.recoverFunc(w, err)\n			}","			if rec := recover(); rec != nil {\n				r.recoverFunc(w, rec)\n			}",'silent')
# fmt import needed for wrapped-panic-value
for e in C['C16']:
    if e['name']=='wrapped-panic-value':
        e.pop('file'); old=e.pop('old'); new=e.pop('new')
        e['edits']=[{"file":RO,"old":old,"new":new},{"file":RO,"old":'import (\n	"net/http"','new':'import (\n	"fmt"\n	"net/http"'}]

# ---------------- C17
add('C17','validate-after-nodes',TR,"	if err := tree.checkMethods(tree.Find(pattern), methods); err != nil {\n		return err\n	}\n\n	n, err := tree.node.getNode(segs)\n	if err != nil {\n		return err\n	}\n","	n, err := tree.node.getNode(segs)\n	if err != nil {\n		return err\n	}\n\n	if err := tree.checkMethods(n, methods); err != nil {\n		return err\n	}\n",'violation:C17.R1')
add('C17','drop-presence-test',ME,"		if n != nil {\n			if _, found := n.handlers[m]; found {\n				return fmt.Errorf(\"该请求方法 %s 已经存在\", m)\n			}\n		}\n","",'violation:C17.R2')
add('C17','ignore-add-error',RO,"	if err := r.tree.Add(pattern, h, slices.Concat(m, r.ms), methods...); err != nil {\n		panic(err)\n	}","	_ = r.tree.Add(pattern, h, slices.Concat(m, r.ms), methods...)",'violation:C17.R3')
add('C17','summary-before-validation',TR,"	if err := tree.checkMethods(tree.Find(pattern), methods); err != nil {","	tree.buildMethods(1, methods...)\n	if err := tree.checkMethods(tree.Find(pattern), methods); err != nil {",'violation:C17.R1')
add('C17','benign-error-var',RO,"	if err := r.tree.Add(pattern, h, slices.Concat(m, r.ms), methods...); err != nil {\n		panic(err)\n	}","	err := r.tree.Add(pattern, h, slices.Concat(m, r.ms), methods...)\n	if err != nil {\n		panic(err)\n	}",'silent')

# ---------------- C18
add('C18','trace-after-match',TR,"	if tree.hasTrace && method == http.MethodTrace {\n		return tree.node, tree.trace, true\n	}\n","",'violation:C18.R1')
add('C18','header-after-status',TC,"		w.Header().Set(header.ContentType, header.MessageHTTP)\n		w.WriteHeader(http.StatusOK)","		w.WriteHeader(http.StatusOK)\n		w.Header().Set(header.ContentType, header.MessageHTTP)",'violation:C18.R4')
add('C18','raw-dump',TC,"w.Write([]byte(html.EscapeString(string(text))))","w.Write(text)",'violation:C18.R5')
add('C18','always-dump-body',TC,"httputil.DumpRequest(r, body)","httputil.DumpRequest(r, true)",'violation:C18.R5')
add('C18','tree-summary-without-trace',ME,"	if tree.hasTrace {\n		tree.node.methodIndex += methodIndexMap[http.MethodTrace]\n	}\n","",'violation:C18.R2')
add('C18','trace-always-refused',ME,"(tree.hasTrace && m == http.MethodTrace)","(m == http.MethodTrace)",'violation:C18.R3')
for e in C['C18']:
    if e['name']=='raw-dump':
        e.pop('file'); old=e.pop('old'); new=e.pop('new')
        e['edits']=[{"file":TC,"old":old,"new":new},{"file":TC,"old":'	"html"\n',"new":''}]

# ---------------- C19
add('C19','prefix-put-patches',RO,"func (p *Prefix[T]) Put(pattern string, h T, m ...types.Middleware[T]) *Prefix[T] {\n	return p.Handle(pattern, h, m, http.MethodPut)","func (p *Prefix[T]) Put(pattern string, h T, m ...types.Middleware[T]) *Prefix[T] {\n	return p.Handle(pattern, h, m, http.MethodPatch)",'violation:C19.R1')
add('C19','pattern-order',RO,"	p.router.Handle(p.Pattern()+pattern, h, slices.Concat(m, p.ms), methods...)","	p.router.Handle(pattern+p.Pattern(), h, slices.Concat(m, p.ms), methods...)",'violation:C19.R1')
add('C19','resource-drops-methods',RO,"	r.router.Handle(r.pattern, h, slices.Concat(m, r.ms), methods...)","	r.router.Handle(r.pattern, h, slices.Concat(m, r.ms))",'violation:C19.R1')
add('C19','resource-clean-get-only',RO,"func (r *Resource[T]) Clean() { r.router.Remove(r.pattern) }","func (r *Resource[T]) Clean() { r.router.Remove(r.pattern, http.MethodGet) }",'violation:C19.R1')
add('C19','prefix-url-nonstrict',RO,"	return p.router.URL(strict, p.Pattern()+pattern, params)","	return p.router.URL(false, p.Pattern()+pattern, params)",'violation:C19.R1')
add('C19','prefix-prefix-drops-ms',RO,"	return p.router.Prefix(p.Pattern()+prefix, slices.Concat(m, p.ms)...)","	return p.router.Prefix(p.Pattern()+prefix, m...)",'violation:C19.R1')
add('C19','prefix-shares-slice',RO,"	return &Prefix[T]{router: r, pattern: prefix, ms: slices.Clone(m)}","	return &Prefix[T]{router: r, pattern: prefix, ms: m}",'violation:C19.R1')
add('C19','prefix-clean-router-clean',RO,"func (p *Prefix[T]) Clean() { p.router.tree.Clean(p.Pattern()) }","func (p *Prefix[T]) Clean() { p.router.Clean() }",'violation:C19.R1')
add('C19','benign-field-instead-of-accessor',RO,"	return p.router.URL(strict, p.Pattern()+pattern, params)","	return p.router.URL(strict, p.pattern+pattern, params)",'silent')

# ---------------- C20
add('C20','parseint-base0',CT,"func (ctx *Context) Int(key string) (int64, error) {\n	if str, found := ctx.Get(key); found {\n		return strconv.ParseInt(str, 10, 64)","func (ctx *Context) Int(key string) (int64, error) {\n	if str, found := ctx.Get(key); found {\n		return strconv.ParseInt(str, 0, 64)",'violation:C20.R1')
add('C20','mustint-zero-on-error',CT,"		if val, err := strconv.ParseInt(str, 10, 64); err == nil {\n			return val\n		}\n	}\n	return def","		if val, err := strconv.ParseInt(str, 10, 64); err == nil {\n			return val\n		}\n		return 0\n	}\n	return def",'violation:C20.R1')
add('C20','exists-negated',CT,"	_, found := ctx.Get(key)\n	return found","	_, found := ctx.Get(key)\n	return !found",'violation:C20.R1')
add('C20','mustuint-parseint',CT,"		if val, err := strconv.ParseUint(str, 10, 64); err == nil {\n			return val\n		}","		if val, err := strconv.ParseInt(str, 10, 64); err == nil {\n			return uint64(val)\n		}",'violation:C20.R1')
add('C20','float-32',CT,"		return strconv.ParseFloat(str, 64)","		return strconv.ParseFloat(str, 32)",'violation:C20.R1')
add('C20','set-skips-existing',CT,"	ctx.params[k] = v\n}","	if _, has := ctx.params[k]; !has {\n		ctx.params[k] = v\n	}\n}",'violation:C20.R1')
add('C20','count-plus-node',CT,"func (ctx *Context) Count() int { return len(ctx.params) }","func (ctx *Context) Count() int { return len(ctx.params) + len(ctx.routerName) }",'violation:C20.R1')
add('C20','drop-clear-params',CT,"	clear(ctx.params)\n","",'violation:C20.R2')
add('C20','benign-string-else',CT,"	if v, found := ctx.Get(key); found {\n		return v, nil\n	}\n	return \"\", ErrParamNotExists()","	v, found := ctx.Get(key)\n	if !found {\n		return \"\", ErrParamNotExists()\n	}\n	return v, nil",'silent')

# ---------------- round 3
IC='internal/syntax/interceptor.go'
add('C01','word-shorthand-is-any',OP,"func WithWordInterceptor(rule string) Option { return WithInterceptor(syntax.MatchWord, rule) }","func WithWordInterceptor(rule string) Option { return WithInterceptor(syntax.MatchAny, rule) }",'violation:C01.R9')
add('C02','digit-upper-bound-lost',IC,"		if c < '0' || c > '9' {","		if c < '0' {",'violation:C02.R9')
add('C02','benign-digit-bounds-flipped',IC,"		if c < '0' || c > '9' {","		if '9' < c || '0' > c {",'silent')
add('C02','index-needs-two-bytes',ND,"	if len(n.indexes) > 0 && len(ctx.Path) > 0 { // 普通字符串的匹配","	if len(n.indexes) > 0 && len(ctx.Path) > 1 { // 普通字符串的匹配",'violation:C02.R8')
add('C02','benign-index-guard-neq',ND,"	if len(n.indexes) > 0 && len(ctx.Path) > 0 { // 普通字符串的匹配","	if len(n.indexes) != 0 && len(ctx.Path) != 0 { // 普通字符串的匹配",'silent')
add('C03','index-kept-when-small',ND,"	if len(n.children) < indexesSize {\n		n.indexes = nil\n		return\n	}","	if len(n.children) < indexesSize {\n		return\n	}",'violation:C03.R2c')
add('C05','segment-limit-uint16',SG,"	if len(val) > math.MaxInt16 {","	if len(val) > math.MaxUint16 {",'violation:C05.R9')
add('C06','hosts-lock-ignored',MA,'	t := tree.New("host", lock, i, nil, false, f, f)','	t := tree.New("host", false, i, nil, false, f, f)','violation:C06.R5')
add('C11','any-headers-reads-any-origins',OP,"func (c *cors) headerIsAllowed(r *http.Request) bool {\n	if c.anyHeaders {","func (c *cors) headerIsAllowed(r *http.Request) bool {\n	if c.anyOrigins {",'violation:C11.R7')
add('C13','router-name-after-trace',TR,"	ctx.SetRouterName(tree.Name())\n\n	if tree.hasTrace && method == http.MethodTrace {\n		return tree.node, tree.trace, true\n	}\n","	if tree.hasTrace && method == http.MethodTrace {\n		return tree.node, tree.trace, true\n	}\n	ctx.SetRouterName(tree.Name())\n",'violation:C13.R7')
add('C14','port-cut-at-first-colon',MA,"	if i := strings.LastIndexByte(h, ':'); i != -1 && validOptionalPort(h[i:]) {","	if i := strings.IndexByte(h, ':'); i != -1 && validOptionalPort(h[i:]) {",'violation:C14.R6')
add('C16','recovery-nil-ignored',OP,"func WithRecovery(f RecoverFunc) Option { return func(o *options) { o.recoverFunc = f } }","func WithRecovery(f RecoverFunc) Option {\n	return func(o *options) {\n		if o.recoverFunc == nil {\n			o.recoverFunc = f\n		}\n	}\n}",'violation:C16.R8')
add('C16','group-options-append-alias',GR,"	o = slices.Concat(g.options, o)","	o = append(g.options, o...)",'silent','harmless since NewGroup keeps a private copy and the derived list is consumed by NewRouter (section 32)')
addm('C16','group-options-append-kept',[(GR,"	o = slices.Concat(g.options, o)","	o = append(g.options, o...)\n	g.options = g.options[:len(g.options):len(g.options)+0]\n	lastNew = o"),(GR,"// New 声明新路由","var lastNew []Option\n\n// New 声明新路由")],'violation:C16.R7','the derived list is kept next to its base')
add('C06','group-options-after-own',GR,"	o = slices.Concat(g.options, o)","	o = slices.Concat(o, g.options)",'violation:C06.R8')
add('C18','trace-content-type-added',TC,"		w.Header().Set(header.ContentType, header.MessageHTTP)","		w.Header().Add(header.ContentType, header.MessageHTTP)",'violation:C18.R6')

add('C17','ambiguous-ignores-type',SG,"		(seg.Endpoint == s2.Endpoint && seg.Type == s2.Type && seg.rule == s2.rule && seg.Suffix == s2.Suffix)\n}","		(seg.Endpoint == s2.Endpoint && seg.rule == s2.rule && seg.Suffix == s2.Suffix)\n}",'violation:C17.R6')
add('C17','ambiguous-ignores-suffix-when-flag-differs',SG,"		return seg.Endpoint == s2.Endpoint && seg.Type == s2.Type && seg.rule == s2.rule && seg.Suffix == s2.Suffix\n","		return seg.Endpoint == s2.Endpoint && seg.Type == s2.Type && seg.rule == s2.rule\n",'violation:C17.R6')
add('C17','benign-ambiguous-conjuncts-reordered',SG,"		return seg.Endpoint == s2.Endpoint && seg.Type == s2.Type && seg.rule == s2.rule && seg.Suffix == s2.Suffix\n","		return s2.Suffix == seg.Suffix && seg.rule == s2.rule && !(seg.Type != s2.Type) && seg.Endpoint == s2.Endpoint\n",'silent')

add('C13','andfunc-builds-or',MA,"	return AndMatcher(f2i(f...)...)","	return OrMatcher(f2i(f...)...)",'violation:C13.R10')
add('C13','or-accepts-on-rejection',MA,"			if ok := mm.Match(r, ctx); ok {\n				return true\n			}","			if ok := mm.Match(r, ctx); !ok {\n				return true\n			}",'violation:C13.R10')
add('C13','and-ignores-rejection',MA,"				r.URL.Path = path\n				restoreParams(ctx, ps)\n				return false","				r.URL.Path = path\n				restoreParams(ctx, ps)\n				continue",'violation:C13.R10')
add('C13','benign-and-verdict-local',MA,"			if !mm.Match(r, ctx) {\n				r.URL.Path = path","			accepted := mm.Match(r, ctx)\n			if !accepted {\n				r.URL.Path = path",'silent')

add('C12','withcors-headers-swapped',OP,"			AllowHeaders:     allowHeaders,\n			ExposedHeaders:   exposedHeaders,","			AllowHeaders:     exposedHeaders,\n			ExposedHeaders:   allowHeaders,",'violation:C12.R10')
add('C11','withcors-origins-from-headers',OP,"			Origins:          origin,","			Origins:          allowHeaders,",'violation:C11.R9')
add('C11','denycors-allows-any',OP,"func WithDenyCORS() Option { return WithCORS(nil, nil, nil, 0, false) }","func WithDenyCORS() Option { return WithCORS([]string{\"*\"}, nil, nil, 0, false) }",'violation:C11.R9')
add('C12','allowedcors-drops-maxage',OP,"	return WithCORS([]string{\"*\"}, []string{\"*\"}, nil, maxAge, false)","	return WithCORS([]string{\"*\"}, []string{\"*\"}, nil, 0, false)",'violation:C12.R10')

add('C16','status-recovery-configures-nil',OP,"func WithStatusRecovery(status int) Option {\n	return WithRecovery(func(w http.ResponseWriter, msg any) {\n		http.Error(w, http.StatusText(status), status)\n	})\n}","func WithStatusRecovery(status int) Option {\n	var f RecoverFunc\n	if status < 0 {\n		f = func(w http.ResponseWriter, msg any) { http.Error(w, http.StatusText(status), status) }\n	}\n	return WithRecovery(f)\n}",'violation:C16.R9')
add('C16','log-recovery-repanics',OP,"		l.Println(source.Stack(4, true, msg))\n","		l.Println(source.Stack(4, true, msg))\n		panic(msg)\n",'violation:C16.R9')
add('C16','write-recovery-fixed-status',OP,"		http.Error(w, http.StatusText(status), status)\n		source.DumpStack(out, 4, true, msg)","		http.Error(w, http.StatusText(status), http.StatusInternalServerError)\n		source.DumpStack(out, 4, true, msg)",'violation:C16.R9')

add('C01','node-stored-only-when-served',RO,"	ctx.SetNode(node)\n\n	if ok {","	if ok {\n		ctx.SetNode(node)\n	}\n\n	if ok {",'violation:C01.R13')
add('C01','benign-node-stored-via-local',RO,"	ctx.SetNode(node)\n\n	if ok {","	matched := node\n	ctx.SetNode(matched)\n\n	if ok {",'silent')
add('C09','options-405-wrapped-eagerly',ME,"	if _, found := n.handlers[methodNotAllowed]; !found {\n		n.handlers[methodNotAllowed] = ApplyMiddleware(n.root.methodNotAllowedBuilder(n), \"\", pattern, n.root.Name(), ms...)\n	}","	h405 := ApplyMiddleware(n.root.methodNotAllowedBuilder(n), \"\", pattern, n.root.Name(), ms...)\n	if _, found := n.handlers[methodNotAllowed]; !found {\n		n.handlers[methodNotAllowed] = h405\n	}",'violation:C09.R4b')

add('C02','word-excludes-upper-z',IC,"(c < 'A' || c > 'Z')","(c < 'A' || c >= 'Z')",'violation:C02.R9b')
add('C02','word-includes-at-sign',IC,"(c < 'A' || c > 'Z')","(c < '@' || c > 'Z')",'violation:C02.R9b')
add('C14','port-excludes-nine',MA,"		if b < '0' || b > '9' {","		if b < '0' || b >= '9' {",'violation:C14.R7b')
add('C02','benign-word-as-switch',IC,"		if (c < '0' || c > '9') && (c < 'a' || c > 'z') && (c < 'A' || c > 'Z') {\n			return false\n		}","		switch {\n		case '0' <= c && c <= '9', 'a' <= c && c <= 'z', 'A' <= c && c <= 'Z':\n		default:\n			return false\n		}",'silent')

# ---------------- round 4
add('C15','header-prefilter-on-comma',MA,"	_, ps, err := mime.ParseMediaType(header)\n	if err != nil {","	if strings.Contains(header, \",\") {\n		return false\n	}\n	_, ps, err := mime.ParseMediaType(header)\n	if err != nil {",'violation:C15.R3')
add('C15','path-prefilter-on-length',MA,"	p := r.URL.Path\n	for _, ver := range v.versions {","	p := r.URL.Path\n	if len(p) < 4 {\n		return false\n	}\n	for _, ver := range v.versions {",'violation:C15.R1')
add('C06','reader-writes-counters',TR,"func (tree *Tree[T]) Routes() map[string][]string {\n	if tree.locker != nil {\n		tree.locker.RLock()\n		defer tree.locker.RUnlock()\n	}\n","func (tree *Tree[T]) Routes() map[string][]string {\n	if tree.locker != nil {\n		tree.locker.RLock()\n		defer tree.locker.RUnlock()\n	}\n	tree.methods[\"*\"]++\n",'violation:C06.R9')
add('C16','group-hands-recovery-to-router',GR,"	r.Use(g.ms...)\n","	r.Use(g.ms...)\n	if r.recoverFunc == nil {\n		r.recoverFunc = g.recoverFunc\n	}\n",'violation:C16.R10')
add('C18','hastrace-by-type-assertion',TR,"	hasTrace := trace != nil\n	var t T\n	if hasTrace {\n		t = trace.(T)\n	}","	t, hasTrace := trace.(T)",'violation:C18.R9')
add('C18','benign-hastrace-as-branch',TR,"	hasTrace := trace != nil\n	var t T\n	if hasTrace {\n		t = trace.(T)\n	}","	var hasTrace bool\n	var t T\n	if trace != nil {\n		hasTrace = true\n		t = trace.(T)\n	}",'silent')
add('C14','hosts-rejects-underscore',MA,"	ctx.Path = strings.ToLower(h)\n","	if strings.Contains(h, \"_\") {\n		return false\n	}\n	ctx.Path = strings.ToLower(h)\n",'violation:C14.R10')
add('C14','hosts-add-trims-port',MA,"		err := hs.tree.Add(lowerDomain(d), hs.emptyHandlerFunc, nil, http.MethodGet)","		err := hs.tree.Add(lowerDomain(strings.TrimSuffix(d, \":80\")), hs.emptyHandlerFunc, nil, http.MethodGet)",'violation:C14.R1b')
add('C05','trimspace-on-names',SG,"		seg.Name = val[start+1 : end]\n","		seg.Name = strings.TrimSpace(val[start+1 : end])\n",'violation:C05.R12')
add('C17','ambiguity-search-skipped-when-empty',TR,"	if err := tree.checkAmbiguous(pattern); err != nil {\n		return err\n	}","	if len(tree.node.children) > 0 {\n		if err := tree.checkAmbiguous(pattern); err != nil {\n			return err\n		}\n	}",'violation:C17.R9')
add('C03','clean-shortcut-by-find',TR,"	tree.node.clean(prefix)\n","	if n := tree.Find(prefix); n != nil && n.parent != nil {\n		n.parent.children = removeNodes(n.parent.children, n.segment.Value)\n		n.parent.buildIndexes()\n	} else {\n		tree.node.clean(prefix)\n	}\n",'violation:C03.R8')
add('C11','empty-method-served',TR,"exists && method != methodNotAllowed {","exists {",'violation:C11.R10')
add('C11','first-header-line-only',OP,"strings.Join(r.Header.Values(header.AccessControlRequestHeaders), \",\")","r.Header.Get(header.AccessControlRequestHeaders)",'violation:C11.R11')
add('C10','strict-url-of-interior-node',TR,"	if n == nil || n.size() == 0 {","	if n == nil {",'violation:C10.R3b')

base=os.path.dirname(os.path.abspath(__file__))
# ---------------- bug-hunt round: each repaired defect re-introduced
add('C20','hunt-delete-unguarded',ND,"		if captures { // 未写入参数的节点不能删除同名的参数，该参数可能来自于 [Matcher]。\n			if had {\n				ctx.Set(child.segment.Name, old)\n			} else {\n				ctx.Delete(child.segment.Name)\n			}\n		}","		if had {\n			ctx.Set(child.segment.Name, old)\n		} else {\n			ctx.Delete(child.segment.Name)\n		}",'violation:C20.R4')
add('C01','hunt-captures-ignores-flag',SG,"func (seg *Segment) Captures() bool { return seg.Type != String && !seg.ignoreName }","func (seg *Segment) Captures() bool { return seg.Type != String }",'silent','harmless since the undo looks the name up first: an ignored name is put back or found absent (section 32)')
add('C10','hunt-url-global-table',RO,"		if err := r.interceptors.URL(&buf, pattern, params); err != nil {","		if err := emptyInterceptors.URL(&buf, pattern, params); err != nil {",'violation:C10.R13')
add('C13','hunt-and-keeps-path',MA,"				r.URL.Path = path\n				restoreParams(ctx, ps)\n				return false","				_ = path\n				restoreParams(ctx, ps)\n				return false",'violation:C13.R10')
add('C13','hunt-and-keeps-params',MA,"				r.URL.Path = path\n				restoreParams(ctx, ps)\n				return false","				r.URL.Path = path\n				_ = ps\n				return false",'violation:C13.R10')
add('C13','hunt-restore-forgets-set',MA,"	for k, v := range ps {\n		ctx.Set(k, v)\n	}\n}","}",'violation:C13.R10')
add('C13','hunt-snapshot-inverted',MA,"	if ctx.Count() == 0 {\n		return nil\n	}\n\n	ps := make","	if ctx.Count() != 0 {\n		return nil\n	}\n\n	ps := make",'violation:C13.R10')
add('C12','hunt-empty-element-denies',OP,"		if v == \"\" { // 列表中的空元素不代表任何报头\n			continue\n		}\n","",'violation:C12.R11')
add('C06','hunt-two-reads',OP,"		wh.Set(header.AccessControlAllowMethods, strings.Join(methods, \", \"))","		wh.Set(header.AccessControlAllowMethods, node.AllowHeader())",'violation:C06.R10')
add('C08','hunt-head-no-content-type',RO,"			h.Set(header.ContentType, http.DetectContentType(bs))","			_ = http.DetectContentType(bs)",'violation:C08.R5')
add('C08','hunt-head-overwrites-type',RO,"		if !hasType && h.Get(header.ContentEncoding)","		if (hasType || !hasType) && h.Get(header.ContentEncoding)",'violation:C08.R5')
add('C11','hunt-empty-path-union',OP,"		if r.URL.Path == \"\" {\n			return\n		}\n","",'violation:C11.R12')
add('C19','hunt-clean-keeps-dead-node',ND,"				if child.size() == 0 && len(child.children) == 0 { // 与 Remove 保持一致，不保留空节点。\n					dels = append(dels, child.segment.Value)\n				}\n","",'violation:C19.R4')
add('C19','hunt-clean-prunes-live-node',ND,"				if child.size() == 0 && len(child.children) == 0 { // 与 Remove 保持一致，不保留空节点。","				if len(child.children) == 0 {",'violation:C19.R4')
add('C14','hunt-lower-whole-pattern',MA,"		start := strings.IndexByte(domain, '{')\n		if start < 0 {","		start := strings.IndexByte(domain, '{')\n		if start < 0 || start > 0 {",'violation:C14.R1b')
add('C02','hunt-resume-after-suffix',SG,"				i := strings.Index(ctx.Path[index+1:], seg.Suffix)\n				if i < 0 {\n					return false\n				}\n				index += i + 1","				i := strings.Index(ctx.Path[index+len(seg.Suffix):], seg.Suffix)\n				if i < 0 {\n					return false\n				}\n				index += i + len(seg.Suffix)",'violation:C02.R14')
add('C01','hunt-suffix-not-compared',SG," && // loc[3] 为 -1 表示命名分组未参与匹配\n			ctx.Path[loc[3]:loc[1]] == seg.Suffix {"," { // loc[3] 为 -1 表示命名分组未参与匹配",'violation:C01.R17')
add('C03','hunt-children-before-node',ND,"	if len(ctx.Path) == 0 && n.size() > 0 {\n		return n\n	}\n\n	if len(n.indexes) > 0","	if len(n.indexes) > 0",'violation:C03.R14')
add('C17','hunt-skip-length-recomputed',SG,"func (seg *Segment) AmbiguousLen() int16 { return int16(len(seg.Value)) }","func (seg *Segment) AmbiguousLen() int16 { return seg.ambiguousLength + int16(len(seg.Name)) }",'violation:C17.R10')
add('C02','hunt-endpoint-regexp-unanchored',SG,"		tail = `\\z`","		tail = \"\"",'violation:C02.R6')
add('C05','hunt-remainder-error-returned',ND,"		if err != nil { // pattern 是被之前的节点从某个参数的中间截断的，完整的内容由 [Tree.Add] 负责验证，此处不可能存在歧义。\n			continue\n		}","		if err != nil {\n			return nil, false, err\n		}",'violation:C05.R13')
add('C07','hunt-methods-shared-slice',ME,"	return slices.Clone(getMethodIndexEntity(n.getMethodIndex()).methods)","	return getMethodIndexEntity(n.getMethodIndex()).methods",'violation:C07.R9')
add('C15','hunt-header-key-case',MA,"		acceptKey: strings.ToLower(key), // mime.ParseMediaType 返回的参数名称均为小写","		acceptKey: key,",'violation:C15.R7')

# ---------------- round 5
# (r5-adjacency-from-segment: superseded by hunt4-adjacency-from-the-endpoint-flag after D62)
add('C12','r5-recovery-wipes-headers',RO,"				r.recoverFunc(w, err)","				clear(w.Header())\n				r.recoverFunc(w, err)",'violation:C12.R13')
add('C13','r5-lookup-resets-params',TR,"		return nil, tree.notFound, false","		ctx.Reset()\n		return nil, tree.notFound, false",'violation:C13.R13')

# ---------------- second hunt: D51-D53 re-introduced
add('C13','hunt2-and-keeps-callers-slice',MA,"func AndMatcher(m ...Matcher) Matcher {\n	m = slices.Clone(m) // 不能保留调用方的 m，调用方可能会在之后修改其内容。\n","func AndMatcher(m ...Matcher) Matcher {\n",'violation:C13.R14')
add('C12','hunt2-cors-keeps-callers-slices',OP,"	origin, allowHeaders, exposedHeaders = slices.Clone(origin), slices.Clone(allowHeaders), slices.Clone(exposedHeaders)\n","",'violation:C12.R15')
addm('C17','hunt2-split-inside-a-character',[(SG,"	\"unicode/utf8\"\n",""),(SG,"		if l <= 0 || l >= len(seg.Value) || utf8.RuneStart(seg.Value[l]) {\n			return l\n		}\n\n		for l > 0 && !utf8.RuneStart(seg.Value[l]) {\n			l--\n		}\n","")],'violation:C17.R11')

# ---------------- round 7: the clauses of the repairs, one by one
add('C01','r7-untested-recursion-result',ND,"	if len(n.indexes) > 0 && len(ctx.Path) > 0 { // 普通字符串的匹配","	if len(n.children) == 1 {\n		if child := n.children[0]; child.segment.Match(ctx) {\n			return child.matchChildren(ctx)\n		}\n		return nil\n	}\n\n	if len(n.indexes) > 0 && len(ctx.Path) > 0 { // 普通字符串的匹配",'violation:C01.R1')
addm('C13','r7-and-saves-path-per-member',[(MA,"		path := r.URL.Path\n		ps := cloneParams(ctx)\n		for _, mm := range m {\n","		ps := cloneParams(ctx)\n		for _, mm := range m {\n			path := r.URL.Path\n")],'violation:C13.R10')
add('C02','r7-research-gives-up-at-zero',SG,"				if i < 0 {\n					return false\n				}\n				index += i + 1","				if i <= 0 {\n					return false\n				}\n				index += i + 1",'violation:C02.R14')
add('C02','r7-benign-research-not-found-as-minus-one',SG,"				if i < 0 {\n					return false\n				}\n				index += i + 1","				if i == -1 {\n					return false\n				}\n				index += i + 1",'silent')
add('C04','r7-remove-passes-over-trace',TR,"			case http.MethodOptions, http.MethodHead, methodNotAllowed: // OPTIONS 不作任何操作","			case http.MethodOptions, http.MethodHead, http.MethodTrace, methodNotAllowed: // OPTIONS 不作任何操作",'violation:C04.R16')
add('C18','r7-remove-passes-over-trace',TR,"			case http.MethodOptions, http.MethodHead, methodNotAllowed: // OPTIONS 不作任何操作","			case http.MethodOptions, http.MethodHead, http.MethodTrace, methodNotAllowed: // OPTIONS 不作任何操作",'violation:C18.R11')
add('C05','r7-index-of-the-other-text',SG,"		if l <= 0 || l >= len(seg.Value) || utf8.RuneStart(seg.Value[l]) {","		if l <= 0 || l >= len(seg.Value) || utf8.RuneStart(s1.Value[l]) {",'violation:C05.R17')
add('C05','r7-benign-text-alias',SG,"		l := longestPrefix(s1.Value, seg.Value)\n		if l <= 0 || l >= len(seg.Value) || utf8.RuneStart(seg.Value[l]) {","		text := seg.Value\n		l := longestPrefix(s1.Value, text)\n		if l <= 0 || l >= len(text) || utf8.RuneStart(text[l]) {",'silent')
add('C08','r7-detects-on-empty-write',RO,"	if resp.size == 0 && l > 0 {","	if resp.size == 0 {",'violation:C08.R5')
add('C09','r7-automatic-entries-rebuilt',ME,"	if _, found := n.handlers[http.MethodOptions]; !found {\n		n.handlers[http.MethodOptions] = ApplyMiddleware(n.root.optionsBuilder(n), http.MethodOptions, pattern, n.root.Name(), ms...)\n	}","	n.handlers[http.MethodOptions] = ApplyMiddleware(n.root.optionsBuilder(n), http.MethodOptions, pattern, n.root.Name(), ms...)",'violation:C09.R5')
add('C09','r7-benign-automatic-entries-when-empty',ME,"	if _, found := n.handlers[methodNotAllowed]; !found {","	if _, found := n.handlers[methodNotAllowed]; !found || len(n.handlers) == 0 {",'silent')
addm('C17','r7-one-step-back',[(SG,"		for l > 0 && !utf8.RuneStart(seg.Value[l]) {\n			l--\n		}\n","		_, size := utf8.DecodeLastRuneInString(seg.Value[:l])\n		l -= size\n")],'violation:C17.R11')
add('C07','r7-append-into-group-options',GR,"	o = slices.Concat(g.options, o)","	o = append(g.options, o...)",'silent','harmless since NewGroup keeps a private copy (section 32)')
add('C14','r7-unstable-sort',ND,"slices.SortStableFunc(n.children,","slices.SortFunc(n.children,",'violation:C14.R11')
add('C20','r7-restore-skipped-on-equal-count',MA,"func restoreParams(ctx *types.Context, ps map[string]string) {\n","func restoreParams(ctx *types.Context, ps map[string]string) {\n	if ctx.Count() == len(ps) {\n		return\n	}\n",'violation:C20.R6')

# ---------------- round 8: code no repair touched
add('C07','r8-deferred-reset-after-put',CT,"	if ctx != nil && len(ctx.params) <= destroyMaxSize {\n		contextPool.Put(ctx)\n	}","	if ctx == nil {\n		return\n	}\n	defer ctx.Reset()\n	if len(ctx.params) <= destroyMaxSize {\n		contextPool.Put(ctx)\n	}",'violation:C07.R3e')
add('C07','r8-recovery-closure-releases',RO,"				r.recoverFunc(w, err)\n","				r.recoverFunc(w, err)\n				ctx.Destroy()\n",'violation:C07.R3e')
addm('C01','r8-names-only-for-long-patterns',[(SY,"	names := make(map[string]int, len(ss))\n","	var names map[string]int\n	if len(ss) > 2 {\n		names = make(map[string]int, len(ss))\n	}\n"),(SY,"		if seg.Type != String {\n			if names[seg.Name] > 0 {","		if seg.Type != String && names != nil {\n			if names[seg.Name] > 0 {")],'violation:C01.R20')
add('C05','r8-set-without-allocation',CT,"func (ctx *Context) Set(k, v string) {\n	if ctx.params == nil {\n		ctx.params = map[string]string{k: v}\n		return\n	}\n	ctx.params[k] = v\n}","func (ctx *Context) Set(k, v string) { ctx.params[k] = v }",'violation:C05.R18')
add('C05','r8-checksyntax-shortcut','mux.go',"func CheckSyntax(pattern string) error {\n","func CheckSyntax(pattern string) error {\n	if pattern == \"/\" {\n		return nil\n	}\n",'violation:C05.R5')
add('C08','r8-writestring-bypasses-write',RO,"func (resp *headResponse) Write(bs []byte) (int, error) {","func (resp *headResponse) WriteString(s string) (int, error) {\n	resp.size += len(s)\n	resp.Header().Set(header.ContentLength, strconv.Itoa(resp.size))\n	return len(s), nil\n}\n\nfunc (resp *headResponse) Write(bs []byte) (int, error) {",'violation:C08.R5')
add('C08','r8-benign-writestring-delegates',RO,"func (resp *headResponse) Write(bs []byte) (int, error) {","func (resp *headResponse) WriteString(s string) (int, error) { return resp.Write([]byte(s)) }\n\nfunc (resp *headResponse) Write(bs []byte) (int, error) {",'silent')
add('C11','r8-builders-crossed',GR,"g.methodNotAllowedBuilder, g.optionsBuilder, o...)","g.optionsBuilder, g.methodNotAllowedBuilder, o...)",'violation:C11.R16')
add('C12','r8-single-header-not-joined',OP,"	if c.allowHeadersString == \"\" && len(c.AllowHeaders) > 0 {","	if c.allowHeadersString == \"\" && len(c.AllowHeaders) > 1 {",'violation:C12.R4')
add('C03','r8-benign-priority-unchanged',ND,"	ret := int(n.segment.Type) * 10 // 10 可以保证在当前类型的节点进行加权时，不会超过其它节点。","	ret := 10 * int(n.segment.Type) // 10 可以保证在当前类型的节点进行加权时，不会超过其它节点。",'silent')

# ---------------- third hunt: D54-D60 re-introduced
add('C07','hunt3-newgroup-keeps-callers-slice',GR,"		options:                 slices.Clone(o), // 不能保留调用方的 o，Group.New 每次都会读取该值。","		options:                 o,",'violation:C07.R12')
add('C16','hunt3-newgroup-keeps-callers-slice',GR,"		options:                 slices.Clone(o), // 不能保留调用方的 o，Group.New 每次都会读取该值。","		options:                 o,",'violation:C16.R11')
add('C10','hunt3-flag-only-name-accepted',SG,"	if seg.Name == \"\" {\n		return fmt.Errorf(\"无效的语法：%s\", seg.Value)\n	}\n	return nil","	return nil",'violation:C10.R17')
add('C13','hunt3-abandon-deletes-whatever-was-there',ND,"			if had {\n				ctx.Set(child.segment.Name, old)\n			} else {\n				ctx.Delete(child.segment.Name)\n			}","			_, _ = old, had\n			ctx.Delete(child.segment.Name)",'violation:C13.R15')
add('C03','hunt3-split-appends-the-head',ND,"	p.children[slices.Index(p.children, n)] = ret\n","	p.children = append(removeNodes(p.children, n.segment.Value), ret)\n",'violation:C03.R18')
add('C02','hunt3-rule-with-a-brace-accepted',SG,"	if strings.IndexByte(seg.rule, startByte) >= 0 {","	if strings.IndexByte(seg.rule, startByte) >= len(seg.rule) {",'violation:C02.R19')
add('C03','hunt3-endpoint-by-the-last-byte',SG,"		seg.Endpoint = seg.Suffix == \"\" // 参数之后没有其它内容，/{id}/a} 最后的 } 只是普通字符。\n		seg.matcher = func(string) bool { return true }","		seg.Endpoint = val[len(val)-1] == endByte\n		seg.matcher = func(string) bool { return true }",'violation:C03.R19')
add('C03','hunt3-benign-endpoint-by-length',SG,"		seg.Endpoint = seg.Suffix == \"\" // 参数之后没有其它内容，/{id}/a} 最后的 } 只是普通字符。\n		seg.matcher = func(string) bool { return true }","		seg.Endpoint = len(seg.Suffix) == 0\n		seg.matcher = func(string) bool { return true }",'silent')

# ---------------- the split-point automaton (section 33)
addm('C02','auto-prev-after-the-switch',[(SG,"		prev := state // s1[:i] == s2[:i]，两者在 i 之前的状态是相同的。\n",""),(SG,"		if s1[i] != s2[i] {\n","		if s1[i] != s2[i] {\n			prev := state\n")],'violation:C02.R21')
add('C17','auto-closing-brace-by-start-index',SG,"			if state == startByte { // 不在参数中的 } 只是普通字符，比如 /path}","			if startIndex >= 0 {",'violation:C17.R15')
add('C03','auto-every-closing-brace-ends-a-parameter',SG,"			if state == startByte { // 不在参数中的 } 只是普通字符，比如 /path}\n				endIndex = i\n			}","			endIndex = i",'violation:C03.R21')
add('C02','auto-inner-brace-restarts-the-parameter',SG,"			if state != startByte { // 参数中的 { 不是参数的起始位置，比如 {id:\\d{2}}\n				startIndex = i\n			}","			startIndex = i",'violation:C02.R21')
add('C02','auto-state-before-the-byte-forgotten',SG,"			if prev != endByte || // s2 还处于命名参数之中，比如 {id} 与 {idx}\n				state != endByte ||","			_ = prev\n			if state != endByte ||",'violation:C02.R21')
add('C05','auto-no-literal-needed-behind-a-parameter',SG,"				state != endByte || // 不从命名参数中间分隔\n				endIndex+1 == i { // 命名参数之后必须要有一个或以上的普通字符","				state != endByte { // 不从命名参数中间分隔",'violation:C05.R20')
add('C02','auto-benign-in-parameter-flag',SG,"			if state == startByte { // 不在参数中的 } 只是普通字符，比如 /path}","			if inParam := state == startByte; inParam {",'silent')
add('C02','auto-benign-exit-test-first',SG,"	if endIndex == l-1 {\n		return startIndex\n	}\n\n	return l","	if endIndex != l-1 {\n		return l\n	}\n	return startIndex",'silent')

add('C02','auto-inner-brace-skips-the-comparison',SG,"			if state != startByte { // 参数中的 { 不是参数的起始位置，比如 {id:\\d{2}}\n				startIndex = i\n			}","			if state == startByte {\n				continue\n			}\n			startIndex = i",'violation:C02.R21')
add('C03','auto-end-test-looks-at-the-last-byte',SG,"	if endIndex == l-1 {","	if l > 0 && s1[l-1] == endByte {",'violation:C03.R21')
add('C17','auto-brace-test-before-the-back-off',SG,"		for l > 0 && !utf8.RuneStart(seg.Value[l]) {\n			l--\n		}\n		if l > 0 && seg.Value[l-1] == endByte { // 参数之后必须要有一个或以上的普通字符\n			return 0\n		}\n		return l","		if l > 0 && seg.Value[l-1] == endByte { // 参数之后必须要有一个或以上的普通字符\n			return 0\n		}\n		for l > 0 && !utf8.RuneStart(seg.Value[l]) {\n			l--\n		}\n		return l",'violation:C17.R11')
add('C02','auto-benign-range-over-int',SG,"	for i := 0; i < l; i++ {\n		prev := state","	for i := range l {\n		prev := state",'silent')
add('C02','auto-benign-empty-texts-first',SG,"	startIndex := -10\n	endIndex := -10\n	state := endByte","	if l == 0 {\n		return 0\n	}\n	startIndex := -10\n	endIndex := -10\n	state := endByte",'silent')

# ---------------- fourth hunt: D61-D64 re-introduced
add('C13','hunt4-routers-hands-out-the-list',GR,"return slices.Clone(g.routers) }","return g.routers }",'violation:C13.R16')
addm('C10','hunt4-adjacency-from-the-last-byte',[(SY,"		lastFlag = seg.Type != String && seg.Suffix == \"\" // 以参数结尾，/x} 最后的 } 只是普通字符。\n",""),(SY,"		seg, err := i.NewSegment(s)\n","		lastFlag = s[len(s)-1] == endByte\n		seg, err := i.NewSegment(s)\n")],'violation:C10.R15')
add('C10','hunt4-adjacency-from-the-endpoint-flag',SY,"		lastFlag = seg.Type != String && seg.Suffix == \"\" // 以参数结尾，/x} 最后的 } 只是普通字符。","		lastFlag = seg.Endpoint",'violation:C10.R15')
add('C03','hunt4-literals-through-the-brace-rules',SG,"	case seg.Type == String: // 字符串节点中没有参数，其中的 { 和 } 只是普通字符，比如 /p/{a 与 /p/{b，按字节比较即可。","	case seg.Type == String && len(seg.Value) < 0:",'violation:C03.R23')
add('C01','hunt4-group-name-unchecked',SG,"		if strings.IndexByte(seg.Name, '>') >= 0 { // 名称会成为正则表达式中的分组名称，其中的 > 会提前结束该名称。","		if strings.IndexByte(seg.Name, '>') >= len(seg.Name) {",'violation:C01.R24')

# ---------------- round 12: the regexp source assembled in a strings.Builder, an error built by a helper
_OLD_SRC = "	name := \":\"\n	if !seg.ignoreName {\n		if strings.IndexByte(seg.Name, '>') >= 0 { // 名称会成为正则表达式中的分组名称，其中的 > 会提前结束该名称。\n			return nil, fmt.Errorf(\"正则参数的名称中不能包含 >：%s\", val)\n		}\n		name = \"P<\" + seg.Name + \">\"\n	}\n	tail := regexp.QuoteMeta(seg.Suffix)\n	if seg.Suffix == \"\" { // 没有后缀的正则节点必然处于路由项的末尾，需要匹配所有剩余的内容，否则 zh|zh-CN 无法匹配 zh-CN。\n		tail = `\\z`\n	}\n	expr, err := regexp.Compile(\"(?\" + name + seg.rule + \")\" + tail)\n"
def _builder(suffix_write, tail):
    return ("	var b strings.Builder\n	b.WriteString(\"(?\")\n	if seg.ignoreName {\n		b.WriteByte(':')\n	} else {\n		if strings.IndexByte(seg.Name, '>') >= 0 {\n			return nil, fmt.Errorf(\"正则参数的名称中不能包含 >：%s\", val)\n		}\n		b.WriteString(\"P<\")\n		b.WriteString(seg.Name)\n		b.WriteByte('>')\n	}\n	b.WriteString(seg.rule)\n	b.WriteByte(')')\n" + tail.replace('SUFFIX', suffix_write) + "	expr, err := regexp.Compile(b.String())\n")
_TAIL = "	if seg.Suffix == \"\" {\n		b.WriteString(`\\z`)\n	} else {\n		b.WriteString(SUFFIX)\n	}\n"
add('C01','r12-benign-regexp-source-in-a-builder',SG,_OLD_SRC,_builder('regexp.QuoteMeta(seg.Suffix)',_TAIL),'silent','the same pieces in the same order, written into a local builder')
add('C10','r12-benign-scratch-builder-is-not-an-emission',SG,_OLD_SRC,_builder('regexp.QuoteMeta(seg.Suffix)',_TAIL),'silent','the constructor\'s scratch builder is not the URL buffer')
add('C01','r12-builder-raw-suffix',SG,_OLD_SRC,_builder('seg.Suffix',_TAIL),'violation:C01.R3')
add('C02','r12-builder-anchor-on-every-expression',SG,_OLD_SRC,_builder('',"	b.WriteString(regexp.QuoteMeta(seg.Suffix))\n	b.WriteString(`\\z`)\n"),'violation:C02.R6')
add('C14','r12-builder-group-closed-after-the-suffix',SG,_OLD_SRC,_builder('regexp.QuoteMeta(seg.Suffix)',_TAIL).replace("	b.WriteString(seg.rule)\n	b.WriteByte(')')\n","	b.WriteString(seg.rule)\n").replace("	expr, err := regexp.Compile(b.String())\n","	b.WriteByte(')')\n	expr, err := regexp.Compile(b.String())\n"),'violation:C14.R8')
addm('C04','r12-benign-error-built-by-a-helper',[(SG,"		return nil, fmt.Errorf(\"参数的规则中不能包含 %c：%s\", startByte, val)\n	}\n	if matcher, found","		return nil, errRuleStartByte(val)\n	}\n	if matcher, found"),(SG,"// 去掉名称中表示忽略的 - 前缀","func errRuleStartByte(val string) error {\n	return fmt.Errorf(\"参数的规则中不能包含 %c：%s\", startByte, val)\n}\n\n// 去掉名称中表示忽略的 - 前缀")],'silent','a helper whose every return is an error constructor hands out a non-nil error')
addm('C04','r12-error-helper-that-may-answer-nil',[(SG,"		return nil, fmt.Errorf(\"参数的规则中不能包含 %c：%s\", startByte, val)\n	}\n	if matcher, found","		return nil, errRuleStartByte(val)\n	}\n	if matcher, found"),(SG,"// 去掉名称中表示忽略的 - 前缀","func errRuleStartByte(val string) error {\n	if len(val) > 64 {\n		return nil\n	}\n	return fmt.Errorf(\"参数的规则中不能包含 %c：%s\", startByte, val)\n}\n\n// 去掉名称中表示忽略的 - 前缀")],'violation:C04.R18')
add('C02','r12-benign-regexp-source-by-sprintf',SG,'regexp.Compile("(?" + name + seg.rule + ")" + tail)','regexp.Compile(fmt.Sprintf("(?%s%s)%s", name, seg.rule, tail))','silent','a constant format of %s verbs over strings is a concatenation')
add('C14','r12-sprintf-suffix-inside-the-group',SG,'regexp.Compile("(?" + name + seg.rule + ")" + tail)','regexp.Compile(fmt.Sprintf("(?%s%s%s)", name, seg.rule, tail))','violation:C14.R8')
add('C01','r12-sprintf-quoting-verb',SG,'regexp.Compile("(?" + name + seg.rule + ")" + tail)','regexp.Compile(fmt.Sprintf("(?%s%s)%q", name, seg.rule, tail))','violation:C01.R3')

# ---------------- section 37: the requested-header loop written with strings.Cut
_CUT_OLD = "	for _, v := range strings.Split(h, \",\") {\n		v = strings.TrimSpace(v)\n"
_CUT_NEW = "	for more := true; more; {\n		var v string\n		v, h, more = strings.Cut(h, \",\")\n		v = strings.TrimSpace(v)\n"
add('C11','r13-benign-header-loop-by-cut',OP,_CUT_OLD,_CUT_NEW,'silent','the final return true is behind the exit edge of the loop header')
addm('C11','r13-cut-loop-one-allowed-header-grants-all',[(OP,_CUT_OLD,_CUT_NEW),(OP,"		if !slices.ContainsFunc(c.AllowHeaders, func(h string) bool { return strings.EqualFold(h, v) }) {\n			return false\n		}\n	}\n\n	return true\n}","		if slices.ContainsFunc(c.AllowHeaders, func(h string) bool { return strings.EqualFold(h, v) }) {\n			return true\n		}\n	}\n\n	return false\n}")],'violation:C11.R7')

# ---------------- section 37: the tail of both summary builders in a setter that is handed the node
_SET_E1_OLD = "	n.methodIndex = 0\n	for method := range n.handlers {\n		n.methodIndex += methodIndexMap[method]\n	}\n	if n.root.hasTrace {\n		n.methodIndex += methodIndexMap[http.MethodTrace]\n	}\n	buildMethodIndexes(n.methodIndex)\n}\n"
def _set_e1(arg): return "	index := 0\n	for method := range n.handlers {\n		index += methodIndexMap[method]\n	}\n	n.root.setMethodIndex(n, "+arg+")\n}\n\nfunc (tree *Tree[T]) setMethodIndex(n *node[T], index int) {\n	if tree.hasTrace {\n		index += methodIndexMap[http.MethodTrace]\n	}\n	n.methodIndex = index\n	buildMethodIndexes(index)\n}\n"
_SET_E2_OLD = "	tree.node.methodIndex = methodIndexMap[http.MethodOptions]\n	if tree.hasTrace {\n		tree.node.methodIndex += methodIndexMap[http.MethodTrace]\n	}\n\n	for m, num := range tree.methods {\n		if num > 0 {\n			tree.node.methodIndex += methodIndexMap[m]\n		}\n	}\n\n	buildMethodIndexes(tree.node.methodIndex)\n}"
_SET_E2_NEW = "	index := methodIndexMap[http.MethodOptions]\n	for m, num := range tree.methods {\n		if num > 0 {\n			index += methodIndexMap[m]\n		}\n	}\n	tree.setMethodIndex(tree.node, index)\n}"
addm('C04','r13-benign-summary-setter-handed-the-node',[(ME,_SET_E1_OLD,_set_e1('index')),(ME,_SET_E2_OLD,_SET_E2_NEW)],'silent','a setter is any function handed the node and the value')
addm('C04','r13-setter-handed-a-value-computed-from-the-sum',[(ME,_SET_E1_OLD,_set_e1('index&^1')),(ME,_SET_E2_OLD,_SET_E2_NEW)],'violation:C04.R5')

for pid,entries in C.items():
    os.makedirs(os.path.join(base,pid),exist_ok=True)
    json.dump(entries,open(os.path.join(base,pid,'entries.json'),'w'),indent=1,ensure_ascii=False)
print({k:len(v) for k,v in sorted(C.items())}, sum(len(v) for v in C.values()))
