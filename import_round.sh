#!/bin/bash
# dev helper: import_round.sh <round-tag e.g. r3> <Cnn ...> : copies /tmp/wt-out/Cnn/<tag>-k into seeded/Cnn-<tag>k and evaluates them
tag=$1; shift
for p in "$@"; do
  for d in /tmp/wt-out/$p/$tag-*; do
    [ -f $d/patch.diff ] || continue
    k=$(basename $d | sed "s/$tag-//")
    t=/verif/seeded/$p-$tag$k; mkdir -p $t; cp $d/patch.diff $d/demo_test.go $d/notes.md $t/ 2>/dev/null
    echo $t
  done
done | xargs -P 8 -I{} sh -c '/verif/seedcheck.sh {} $(basename {})' 2>&1 | grep -v WARNING | sed 's/suite_fail_lines=0 //; s#github.com/issue9/mux/v9##' | sort
