#!/bin/bash
# dev helper: run every check on the round-2 refactorings (benign/r2*.diff) with BIN (default bin/muxlint); summary + per-diff output under /tmp/r2res
mkdir -p /tmp/r2res; rm -f /tmp/r2res/*
ls /verif/benign/${1:-r2}*.diff | xargs -P 8 -I{} sh -c 'COLS=260 /verif/trypatch.sh {} all > /tmp/r2res/$(basename {} .diff).txt 2>&1'
grep -l "silent" /tmp/r2res/*.txt | wc -l | sed 's/^/silent: /'
grep -L "silent" /tmp/r2res/*.txt | wc -l | sed 's/^/alarm: /'
grep -L "silent" /tmp/r2res/*.txt | xargs -n1 basename | sed 's/.txt//' | tr '\n' ' '; echo
