#!/bin/sh
# development helper: run all registered properties on a tree and print the summary lines
repo=${1:-/repo}
ev=${2:-/tmp/ev-dev}
/verif/bin/muxlint -repo $repo -evidence $ev -property all 2>&1 | grep -E '^C[0-9]+ tier|CHECKER-ERROR'
