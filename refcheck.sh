#!/bin/bash
# usage: refcheck.sh <diff> : applies a behaviour-preserving refactoring to a scratch worktree and runs every check; any report is a false alarm.
export GOFLAGS=-mod=mod GOPROXY=off GOSUMDB=off GOTOOLCHAIN=local GOWORK=off
d=$1; name=$(basename $(dirname $d))-$(basename $d .diff)
wt=$(mktemp -d /tmp/refwt-XXXX); rmdir $wt
git -C /repo worktree add -q --detach $wt HEAD || exit 2
trap "git -C /repo worktree remove --force $wt >/dev/null 2>&1; rm -rf $wt /tmp/ref-ev-$$" EXIT
cd $wt
if ! git apply $d 2>/dev/null; then echo "$name: PATCH-DOES-NOT-APPLY"; exit 0; fi
if ! go build ./... 2>/dev/null; then echo "$name: DOES-NOT-COMPILE"; exit 0; fi
suite=$(go test -mod=mod -vet=off -count=1 ./... 2>&1 | grep -c '^FAIL\|^--- FAIL\|panic:')
out=$(${BIN:-/verif/bin/muxlint} -repo $wt -evidence /tmp/ref-ev-$$ -property all -obligations 2>&1)
alarms=$(echo "$out" | grep -E '^  FAIL|CHECKER-ERROR' | cut -c1-260)
if [ -z "$alarms" ]; then echo "$name: silent (suite_fail=$suite)"; else echo "$name: ALARM (suite_fail=$suite)"; echo "$alarms" | sed 's/^/      /'; fi
