// package directory: repository root (package mux_test); no -race needed
package mux_test

import (
	"fmt"
	"net/http"
	"net/http/httptest"
	"slices"
	"strings"
	"testing"

	"github.com/issue9/mux/v9"
	"github.com/issue9/mux/v9/types"
)

type hunt1Handler = http.HandlerFunc

func hunt1Call(w http.ResponseWriter, r *http.Request, _ types.Route, h hunt1Handler) { h(w, r) }

func hunt1Say(s string) hunt1Handler {
	return func(w http.ResponseWriter, _ *http.Request) { w.Write([]byte(s)) }
}

func hunt1Builder(types.Node) hunt1Handler { return hunt1Say("builder") }

func hunt1Group() *mux.Group[hunt1Handler] {
	g := mux.NewGroup[hunt1Handler](hunt1Call, hunt1Say("group-404"), hunt1Builder, hunt1Builder)
	g.New("a", mux.NewHosts(false, "a.example.com")).Get("/x", hunt1Say("a"))
	g.New("b", mux.NewHosts(false, "b.example.com")).Get("/x", hunt1Say("b"))
	g.New("z-fallback", nil).Get("/x", hunt1Say("fallback")) // nil matcher: accepts whatever the routers before it refused
	return g
}

func hunt1Get(g http.Handler, url string) string {
	w := httptest.NewRecorder()
	g.ServeHTTP(w, httptest.NewRequest(http.MethodGet, url, nil))
	return w.Body.String()
}

func TestHunt1(t *testing.T) {
	// 1. a caller that only orders the list it was given (here: for a listing, by name, descending)
	//    changes the order in which the group asks its routers.
	g := hunt1Group()
	if got := hunt1Get(g, "http://a.example.com/x"); got != "a" { // control
		t.Fatalf("control: host a served by %q", got)
	}

	list := g.Routers()
	slices.SortFunc(list, func(x, y *mux.Router[hunt1Handler]) int { return strings.Compare(y.Name(), x.Name()) })

	if got := hunt1Get(g, "http://a.example.com/x"); got != "a" {
		t.Errorf("no Add/New/Remove/Use was called, yet host a is now served by %q, want router a (first added router whose matcher accepts)", got)
	}
	if got := hunt1Get(g, "http://b.example.com/x"); got != "b" {
		t.Errorf("no Add/New/Remove/Use was called, yet host b is now served by %q, want router b", got)
	}

	// 2. Remove rewrites the list a caller obtained before: emptying the group by walking Routers() meets a nil router.
	g = hunt1Group()
	err := func() (err any) {
		defer func() { err = recover() }()
		for _, r := range g.Routers() {
			g.Remove(r.Name())
		}
		return nil
	}()
	if err != nil {
		t.Errorf("for _, r := range g.Routers() { g.Remove(r.Name()) } panicked: %v", err)
	}
	if n := len(g.Routers()); n != 0 {
		names := []string{}
		for _, r := range g.Routers() {
			names = append(names, r.Name())
		}
		t.Errorf("%d router(s) still dispatched after removing every listed router: %s", n, fmt.Sprint(names))
	}
}
