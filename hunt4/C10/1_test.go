// package directory: repository root (package mux_test); does not need -race
package mux_test

import (
	"net/http"
	"net/http/httptest"
	"testing"

	"github.com/issue9/mux/v9"
	"github.com/issue9/mux/v9/types"
)

// A '}' outside a parameter is ordinary text (CheckSyntax accepts /x}, /x}/{id} and /{a}/x}).
// A pattern whose literal text ends in '}' right before a parameter has ONE parameter there,
// not two adjacent ones: building must substitute it, and the route must be usable.
func TestHunt1(t *testing.T) {
	for _, p := range []string{"/x}", "/x}/{id}", "/{a}/x}", "/{a}/x}/{id}"} {
		if err := mux.CheckSyntax(p); err != nil {
			t.Fatalf("test premise: CheckSyntax(%q) = %v", p, err)
		}
	}

	ps := map[string]string{"id": "5", "a": "7"}
	cases := []struct{ pattern, want string }{
		{"/x}{id}", "/x}5"},                // literal "/x}" + {id}
		{"/{a}/x}{id}", "/7/x}5"},          // {a} + literal "/x}" + {id}
		{"/v}{id:\\d+}/edit", "/v}5/edit"}, // literal "/v}" + regexp parameter
	}

	var route types.Route
	call := func(w http.ResponseWriter, r *http.Request, rt types.Route, h http.Handler) {
		route = rt
		h.ServeHTTP(w, r)
	}
	b := func(status int) types.BuildNodeHandler[http.Handler] {
		return func(types.Node) http.Handler {
			return http.HandlerFunc(func(w http.ResponseWriter, r *http.Request) { w.WriteHeader(status) })
		}
	}
	h := http.HandlerFunc(func(w http.ResponseWriter, r *http.Request) { w.WriteHeader(http.StatusAccepted) })

	for _, c := range cases {
		if err := mux.CheckSyntax(c.pattern); err != nil {
			t.Errorf("CheckSyntax(%q) = %v; the pattern has no two adjacent parameters", c.pattern, err)
		}
		if got, err := mux.URL(c.pattern, ps); err != nil || got != c.want {
			t.Errorf("mux.URL(%q) = %q, %v; want %q, nil", c.pattern, got, err, c.want)
		}

		r := mux.NewRouter("hunt4", call, http.NotFoundHandler(), b(405), b(200))
		if got, err := r.URL(false, c.pattern, ps); err != nil || got != c.want {
			t.Errorf("Router.URL(false, %q) = %q, %v; want %q, nil", c.pattern, got, err, c.want)
		}

		func() {
			defer func() {
				if e := recover(); e != nil {
					t.Errorf("Get(%q) panics: %v", c.pattern, e)
				}
			}()
			r.Get(c.pattern, h)

			if got, err := r.URL(true, c.pattern, ps); err != nil || got != c.want {
				t.Errorf("Router.URL(true, %q) = %q, %v; want %q, nil", c.pattern, got, err, c.want)
			}

			// building inverts matching
			route = nil
			w := httptest.NewRecorder()
			r.ServeHTTP(w, httptest.NewRequest(http.MethodGet, c.want, nil))
			if w.Code != http.StatusAccepted || route == nil {
				t.Errorf("GET %s on route %q = %d", c.want, c.pattern, w.Code)
				return
			}
			captured := map[string]string{}
			route.Params().Range(func(k, v string) { captured[k] = v })
			if got, err := r.URL(true, route.Node().Pattern(), captured); err != nil || got != c.want {
				t.Errorf("rebuilding %q from %v = %q, %v; want %q", route.Node().Pattern(), captured, got, err, c.want)
			}
		}()
	}
}
