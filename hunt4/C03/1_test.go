// package directory: the module root (/tmp/wt/C03, package mux_test); does not need -race
package mux_test

import (
	"net/http"
	"net/http/httptest"
	"testing"

	"github.com/issue9/mux/v9"
	"github.com/issue9/mux/v9/examples/std"
)

// A '{' that is never closed is ordinary text (mux_test.go: CheckSyntax("/{path") is valid,
// syntax_test.go: "/posts/{id}/{author" splits into "/posts/", "{id}/", "{author").
// Two such literal routes under one parent lose one of them as soon as the parent has five children.
func TestHunt1(t *testing.T) {
	for _, p := range []string{"/s/{a", "/s/{b"} {
		if err := mux.CheckSyntax(p); err != nil {
			t.Fatalf("%s is not a legal pattern: %v", p, err)
		}
	}

	serve := func(r *std.Router, method, path string) (int, string) {
		w := httptest.NewRecorder()
		req := httptest.NewRequest(method, "/", nil)
		req.URL.Path = path
		r.ServeHTTP(w, req)
		return w.Code, w.Body.String()
	}
	h := func(name string) http.Handler {
		return http.HandlerFunc(func(w http.ResponseWriter, _ *http.Request) { w.Write([]byte(name)) })
	}

	r := std.NewRouter("def")
	four := []string{"/s/{a", "/s/{b", "/s/c", "/s/d"}
	for _, p := range four {
		r.Get(p, h(p))
	}
	for _, p := range four { // control: with four siblings every route serves its own path
		if code, body := serve(r, http.MethodGet, p); code != 200 || body != p {
			t.Fatalf("four siblings: GET %s -> %d %q", p, code, body)
		}
	}

	r.Get("/s/e", h("/s/e")) // an unrelated fifth literal sibling

	for _, p := range append(four, "/s/e") {
		if _, live := r.Routes()[p]; !live {
			t.Fatalf("Routes() does not list %s", p)
		}
		if code, body := serve(r, http.MethodGet, p); code != 200 || body != p {
			t.Errorf("after Get(/s/e): GET %s -> %d %q although Routes() lists %v", p, code, body, r.Routes()[p])
		}
	}

	r.Remove("/s/e") // removing the unrelated route changes the answer again
	for _, p := range four {
		if code, body := serve(r, http.MethodGet, p); code != 200 || body != p {
			t.Errorf("after Remove(/s/e): GET %s -> %d %q", p, code, body)
		}
	}
}
