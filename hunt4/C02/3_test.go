// Belongs in the module root directory (package mux_test, e.g. /tmp/wt/C02/zz_hunt4_3_test.go). Does not need -race.
package mux_test

import (
	"fmt"
	"net/http"
	"net/http/httptest"
	"sort"
	"strings"
	"testing"

	"github.com/issue9/mux/v9"
	"github.com/issue9/mux/v9/types"
)


type hunt4x3H struct{ pat string }

// hunt4x3Router registers every pattern for GET; the answer body is "<pattern>|k=v,k=v".
func hunt4x3Router(opts []mux.Option, patterns ...string) *mux.Router[*hunt4x3H] {
	call := func(w http.ResponseWriter, r *http.Request, ps types.Route, h *hunt4x3H) {
		if h == nil {
			w.WriteHeader(http.StatusNotFound)
			return
		}
		if h.pat == "" {
			w.WriteHeader(http.StatusMethodNotAllowed)
			return
		}
		var kv []string
		ps.Params().Range(func(k, v string) { kv = append(kv, k+"="+v) })
		sort.Strings(kv)
		fmt.Fprintf(w, "%s|%s", h.pat, strings.Join(kv, ","))
	}
	r := mux.NewRouter[*hunt4x3H]("hunt", call, nil,
		func(types.Node) *hunt4x3H { return &hunt4x3H{} },
		func(types.Node) *hunt4x3H { return &hunt4x3H{} }, opts...)
	for _, p := range patterns {
		r.Get(p, &hunt4x3H{p})
	}
	return r
}

func hunt4x3Get(r http.Handler, path string) string {
	w := httptest.NewRecorder()
	req := httptest.NewRequest(http.MethodGet, "http://x/", nil)
	req.URL.Path = path
	r.ServeHTTP(w, req)
	if w.Code != http.StatusOK {
		return fmt.Sprint(w.Code)
	}
	return w.Body.String()
}

func hunt4x3Check(t *testing.T, r http.Handler, path, want string) {
	t.Helper()
	if got := hunt4x3Get(r, path); got != want {
		t.Errorf("GET %q: got %q, want %q", path, got, want)
	}
}

// refusing the pattern is a consistent answer as well; the demonstration then does not apply.
func hunt4x3Accepted(t *testing.T, patterns ...string) {
	t.Helper()
	for _, p := range patterns {
		if err := mux.CheckSyntax(p); err != nil {
			t.Skipf("CheckSyntax refuses %q: %v", p, err)
		}
	}
}


// A regexp parameter followed by literal text that contains U+FFFD: the engine decodes an invalid byte of the
// request path as U+FFFD, prefers that false occurrence, the byte-wise comparison rejects it and the real one is never tried.
func TestHunt3(t *testing.T) {
	r := hunt4x3Router(nil, "/g/{id:.+}/�{rest}", "/l/{id:.+?}/�{rest}", "/n/{id}/�{rest}")

	// control: a named parameter looks for the real text
	hunt4x3Check(t, r, "/n/a/�x/\xffq", "/n/{id}/�{rest}|id=a,rest=x/\xffq")
	hunt4x3Check(t, r, "/n/a/\xffx/�q", "/n/{id}/�{rest}|id=a/\xffx,rest=q")
	// control: no invalid byte
	hunt4x3Check(t, r, "/g/a/�x/q", "/g/{id:.+}/�{rest}|id=a,rest=x/q")

	// the only occurrence of "/�" follows "a"
	hunt4x3Check(t, r, "/g/a/�x/\xffq", "/g/{id:.+}/�{rest}|id=a,rest=x/\xffq")
	// the only occurrence of "/�" follows "a/\xffx"
	hunt4x3Check(t, r, "/l/a/\xffx/�q", "/l/{id:.+?}/�{rest}|id=a/\xffx,rest=q")
}

