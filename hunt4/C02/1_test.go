// Belongs in the module root directory (package mux_test, e.g. /tmp/wt/C02/zz_hunt4_1_test.go). Does not need -race.
package mux_test

import (
	"fmt"
	"net/http"
	"net/http/httptest"
	"sort"
	"strings"
	"testing"

	"github.com/issue9/mux/v9"
	"github.com/issue9/mux/v9/types"
)


type hunt4x1H struct{ pat string }

// hunt4x1Router registers every pattern for GET; the answer body is "<pattern>|k=v,k=v".
func hunt4x1Router(opts []mux.Option, patterns ...string) *mux.Router[*hunt4x1H] {
	call := func(w http.ResponseWriter, r *http.Request, ps types.Route, h *hunt4x1H) {
		if h == nil {
			w.WriteHeader(http.StatusNotFound)
			return
		}
		if h.pat == "" {
			w.WriteHeader(http.StatusMethodNotAllowed)
			return
		}
		var kv []string
		ps.Params().Range(func(k, v string) { kv = append(kv, k+"="+v) })
		sort.Strings(kv)
		fmt.Fprintf(w, "%s|%s", h.pat, strings.Join(kv, ","))
	}
	r := mux.NewRouter[*hunt4x1H]("hunt", call, nil,
		func(types.Node) *hunt4x1H { return &hunt4x1H{} },
		func(types.Node) *hunt4x1H { return &hunt4x1H{} }, opts...)
	for _, p := range patterns {
		r.Get(p, &hunt4x1H{p})
	}
	return r
}

func hunt4x1Get(r http.Handler, path string) string {
	w := httptest.NewRecorder()
	req := httptest.NewRequest(http.MethodGet, "http://x/", nil)
	req.URL.Path = path
	r.ServeHTTP(w, req)
	if w.Code != http.StatusOK {
		return fmt.Sprint(w.Code)
	}
	return w.Body.String()
}

func hunt4x1Check(t *testing.T, r http.Handler, path, want string) {
	t.Helper()
	if got := hunt4x1Get(r, path); got != want {
		t.Errorf("GET %q: got %q, want %q", path, got, want)
	}
}

// refusing the pattern is a consistent answer as well; the demonstration then does not apply.
func hunt4x1Accepted(t *testing.T, patterns ...string) {
	t.Helper()
	for _, p := range patterns {
		if err := mux.CheckSyntax(p); err != nil {
			t.Skipf("CheckSyntax refuses %q: %v", p, err)
		}
	}
}


// A literal "{" that opens no parameter is ordinary text (CheckSyntax accepts it), but the splitter
// cuts the pattern there, so the parameter in front of it gets a shorter literal tail than the pattern states.
func TestHunt1(t *testing.T) {
	pats := []string{"/u/{n}1{a", "/w/{n}1}a", "/v/{d:digit}0{x", "/p/{a:digit}1{", "/p/{b}"}
	hunt4x1Accepted(t, pats...)
	r := hunt4x1Router([]mux.Option{mux.WithDigitInterceptor("digit")}, pats...)

	// control: the same shape with "}" instead of "{" works
	hunt4x1Check(t, r, "/w/x11}a", "/w/{n}1}a|n=x1")

	// n must be the shortest text followed by the literal "1{a": that is "x1"
	hunt4x1Check(t, r, "/u/x11{a", "/u/{n}1{a|n=x1")
	// the path is what the router itself builds for n=x1
	if u, err := r.URL(true, "/u/{n}1{a", map[string]string{"n": "x1"}); err != nil || u != "/u/x11{a" {
		t.Fatalf("URL: %q %v", u, err)
	}
	hunt4x1Check(t, r, "/v/100{x", "/v/{d:digit}0{x|d=10")
	// interceptor before named: a=21 is followed by "1{"
	hunt4x1Check(t, r, "/p/211{", "/p/{a:digit}1{|a=21")
}

