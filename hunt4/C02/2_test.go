// Belongs in the module root directory (package mux_test, e.g. /tmp/wt/C02/zz_hunt4_2_test.go). Does not need -race.
package mux_test

import (
	"fmt"
	"net/http"
	"net/http/httptest"
	"sort"
	"strings"
	"testing"

	"github.com/issue9/mux/v9"
	"github.com/issue9/mux/v9/types"
)


type hunt4x2H struct{ pat string }

// hunt4x2Router registers every pattern for GET; the answer body is "<pattern>|k=v,k=v".
func hunt4x2Router(opts []mux.Option, patterns ...string) *mux.Router[*hunt4x2H] {
	call := func(w http.ResponseWriter, r *http.Request, ps types.Route, h *hunt4x2H) {
		if h == nil {
			w.WriteHeader(http.StatusNotFound)
			return
		}
		if h.pat == "" {
			w.WriteHeader(http.StatusMethodNotAllowed)
			return
		}
		var kv []string
		ps.Params().Range(func(k, v string) { kv = append(kv, k+"="+v) })
		sort.Strings(kv)
		fmt.Fprintf(w, "%s|%s", h.pat, strings.Join(kv, ","))
	}
	r := mux.NewRouter[*hunt4x2H]("hunt", call, nil,
		func(types.Node) *hunt4x2H { return &hunt4x2H{} },
		func(types.Node) *hunt4x2H { return &hunt4x2H{} }, opts...)
	for _, p := range patterns {
		r.Get(p, &hunt4x2H{p})
	}
	return r
}

func hunt4x2Get(r http.Handler, path string) string {
	w := httptest.NewRecorder()
	req := httptest.NewRequest(http.MethodGet, "http://x/", nil)
	req.URL.Path = path
	r.ServeHTTP(w, req)
	if w.Code != http.StatusOK {
		return fmt.Sprint(w.Code)
	}
	return w.Body.String()
}

func hunt4x2Check(t *testing.T, r http.Handler, path, want string) {
	t.Helper()
	if got := hunt4x2Get(r, path); got != want {
		t.Errorf("GET %q: got %q, want %q", path, got, want)
	}
}

// refusing the pattern is a consistent answer as well; the demonstration then does not apply.
func hunt4x2Accepted(t *testing.T, patterns ...string) {
	t.Helper()
	for _, p := range patterns {
		if err := mux.CheckSyntax(p); err != nil {
			t.Skipf("CheckSyntax refuses %q: %v", p, err)
		}
	}
}


// Two literal routes whose text starts with a "{" that opens no parameter become literal siblings with the
// same first byte; with five and more siblings the first-byte index reaches only one of them.
func TestHunt2(t *testing.T) {
	hunt4x2Accepted(t, "/p/{a", "/p/{b")

	// control: four siblings, no index
	r := hunt4x2Router(nil, "/p/b", "/p/c", "/p/{a", "/p/{b")
	hunt4x2Check(t, r, "/p/{a", "/p/{a|")
	hunt4x2Check(t, r, "/p/{b", "/p/{b|")

	r = hunt4x2Router(nil, "/p/b", "/p/c", "/p/d", "/p/{a", "/p/{b")
	hunt4x2Check(t, r, "/p/{b", "/p/{b|")
	hunt4x2Check(t, r, "/p/{a", "/p/{a|") // 404

	// literal text before named parameter
	r = hunt4x2Router(nil, "/q/b", "/q/c", "/q/d", "/q/{a", "/q/{b", "/q/{x}")
	hunt4x2Check(t, r, "/q/{a", "/q/{a|") // answered by /q/{x}
}

