// belongs in the module root (package mux_test); does not need -race
package mux_test

import (
	"net/http"
	"net/http/httptest"
	"net/url"
	"regexp"
	"testing"

	mux "github.com/issue9/mux/v9"
	"github.com/issue9/mux/v9/types"
)

// A regexp parameter's name is pasted unescaped into "(?P<" + name + ">" + rule + ")".
// Go ends the group name at the first '>', so the rest of the name becomes part of
// the expression: {a>b:\d+} is compiled as (?P<a>b>\d+). The route is then served
// for /b>12 with the value "b>12", which does not satisfy the rule \d+ the pattern
// states, and /12 (the only kind of path the pattern describes) is a 404.
func TestHunt1(t *testing.T) {
	const pattern = `/{a>b:\d+}`
	rule := regexp.MustCompile(`\A(?:\d+)\z`)

	type result struct {
		called bool
		node   types.Node
		params map[string]string
	}
	var got result
	call := func(w http.ResponseWriter, r *http.Request, route types.Route, h string) {
		got = result{called: h == "H", node: route.Node(), params: map[string]string{}}
		route.Params().Range(func(k, v string) { got.params[k] = v })
	}
	b := func(types.Node) string { return "" }
	r := mux.NewRouter[string]("r", call, "", b, b)

	refused := func() (refused bool) {
		defer func() { refused = recover() != nil }()
		r.Get(pattern, "H")
		return false
	}()
	if refused {
		return // a router that refuses the pattern satisfies the property
	}

	for _, path := range []string{"/b>12", "/b>0", "/12"} {
		got = result{}
		req := httptest.NewRequest(http.MethodGet, "/", nil)
		req.URL = &url.URL{Path: path}
		r.ServeHTTP(httptest.NewRecorder(), req)
		if !got.called {
			if len(got.params) != 0 {
				t.Errorf("%q: 404 with parameters %v", path, got.params)
			}
			continue
		}

		if got.node.Pattern() != pattern {
			t.Errorf("%q: reported route %q", path, got.node.Pattern())
		}
		v, found := got.params["a>b"]
		if !found || len(got.params) != 1 {
			t.Errorf("%q: handler called with parameters %v, want exactly the parameter %q", path, got.params, "a>b")
			continue
		}
		if !rule.MatchString(v) {
			t.Errorf("%q: handler for %s called with %q=%q, which does not satisfy the rule \\d+", path, pattern, "a>b", v)
		}
		if "/"+v != path {
			t.Errorf("%q: pattern with the value %q substituted is %q", path, v, "/"+v)
		}
	}
}
