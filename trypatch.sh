#!/bin/bash
# usage: trypatch.sh <patch file> [property|all] : applies the patch to a scratch worktree of /repo, runs the checks, prints FAIL / CHECKER-ERROR lines
export GOFLAGS=-mod=mod GOPROXY=off GOSUMDB=off GOTOOLCHAIN=local GOWORK=off
d=$1; prop=${2:-all}
wt=$(mktemp -d /tmp/trywt-XXXX); rmdir $wt
git -C /repo worktree add -q --detach $wt HEAD || exit 2
trap "git -C /repo worktree remove --force $wt >/dev/null 2>&1; rm -rf $wt /tmp/try-ev-$$" EXIT
cd $wt
git apply $d || { echo PATCH-DOES-NOT-APPLY; exit 1; }
out=$(${BIN:-/verif/bin/muxlint} -repo $wt -evidence /tmp/try-ev-$$ -property $prop -obligations 2>&1)
echo "$(basename $(dirname $d))/$(basename $d): $(echo "$out" | grep -E '^  FAIL|CHECKER-ERROR' | cut -c1-${COLS:-300} | sed 's/^ */    /' | (grep . || echo '    silent'))"
