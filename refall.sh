#!/bin/bash
# Runs every check against every behaviour-preserving refactoring under /verif/benign (4 in parallel); any report is a false alarm.
ls /verif/benign/*.diff | xargs -P 6 -I{} sh -c '/verif/refcheck.sh {} > {}.result 2>&1'
cat /verif/benign/*.result | grep -E 'silent|ALARM|DOES-NOT|PATCH' | sed 's/(suite.*//' | sort | awk '{print}' > /tmp/refall.txt
grep -c silent /tmp/refall.txt | sed 's/^/silent: /'; grep -c ALARM /tmp/refall.txt | sed 's/^/alarm: /'; grep -v silent /tmp/refall.txt | tr '\n' ' '; echo
