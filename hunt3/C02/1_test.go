// Belongs in the module root directory (/tmp/wt/C02, package mux_test). Does not need -race.
package mux_test

import (
	"net/http"
	"net/http/httptest"
	"testing"

	"github.com/issue9/mux/v9"
	"github.com/issue9/mux/v9/types"
)

// A regexp rule with a counted repetition ({id:\d{2}}) is accepted by CheckSyntax and by
// Router.Get, but the parameter is cut at the FIRST '}' (rule `\d{2`, literal suffix `}`),
// so the constraint \d{2} is never applied: /p/12 is answered with 404 and /p/1{2} with 200.
func TestHunt1(t *testing.T) {
	if err := mux.CheckSyntax(`/p/{id:\d{2}}`); err != nil {
		t.Skipf("pattern rejected as malformed (%v): nothing to resolve", err)
	}

	var gotID string
	var found bool
	call := func(w http.ResponseWriter, r *http.Request, route types.Route, h http.Handler) {
		gotID, found = route.Params().Get("id")
		h.ServeHTTP(w, r)
	}
	status := func(code int) types.BuildNodeHandler[http.Handler] {
		return func(types.Node) http.Handler {
			return http.HandlerFunc(func(w http.ResponseWriter, _ *http.Request) { w.WriteHeader(code) })
		}
	}
	ok := http.HandlerFunc(func(w http.ResponseWriter, _ *http.Request) { w.WriteHeader(http.StatusOK) })

	r := mux.NewRouter[http.Handler]("hunt1", call, http.NotFoundHandler(), status(405), status(200))
	r.Get(`/p/{id:\d{2}}`, ok)     // parameter ends the pattern
	r.Get(`/q/{id:\d{2}}/x`, ok)   // parameter followed by literal text
	r.Get(`/q/{id:\d{2}}/y`, ok)   // ... shared with a sibling, so the node is split
	r.Get(`/r/{id:[0-9]{1,3}}`, ok) // another common spelling

	get := func(path string) int {
		gotID, found = "", false
		w := httptest.NewRecorder()
		req := httptest.NewRequest(http.MethodGet, "http://localhost/", nil)
		req.URL.Path = path
		r.ServeHTTP(w, req)
		return w.Code
	}

	for _, c := range []struct{ path, id string }{
		{"/p/12", "12"}, {"/q/12/x", "12"}, {"/q/34/y", "34"}, {"/r/7", "7"}, {"/r/123", "123"},
	} {
		if code := get(c.path); code != http.StatusOK || !found || gotID != c.id {
			t.Errorf("GET %s: status %d, id=%q (found=%v); want 200 with id=%q", c.path, code, gotID, found, c.id)
		}
	}

	// texts the constraint \d{2} rejects must not reach the route
	for _, path := range []string{"/p/1{2}", "/p/1", "/p/123", "/q/1{2}/x", "/r/1{1,3}"} {
		if code := get(path); code != http.StatusNotFound {
			t.Errorf("GET %s: status %d with id=%q; want 404 (the rule does not accept this text)", path, code, gotID)
		}
	}
}
