// Belongs in the module root directory (/tmp/wt/C02, package mux_test). Does not need -race.
// BORDERLINE: see 2.md.
package mux_test

import (
	"net/http"
	"net/http/httptest"
	"testing"

	"github.com/issue9/mux/v9"
	"github.com/issue9/mux/v9/types"
)

// The README example for "a parent never widens its capture" (/posts/{id}-{page:digit}.html does
// not match /posts/1-1-1.html) stops holding when the first parameter is a regexp parameter:
// a greedy rule takes the LONGEST text after which the literal occurs, not the shortest.
func TestHunt2(t *testing.T) {
	params := map[string]string{}
	call := func(w http.ResponseWriter, r *http.Request, route types.Route, h http.Handler) {
		clear(params)
		route.Params().Range(func(k, v string) { params[k] = v })
		h.ServeHTTP(w, r)
	}
	status := func(code int) types.BuildNodeHandler[http.Handler] {
		return func(types.Node) http.Handler {
			return http.HandlerFunc(func(w http.ResponseWriter, _ *http.Request) { w.WriteHeader(code) })
		}
	}
	ok := http.HandlerFunc(func(w http.ResponseWriter, _ *http.Request) { w.WriteHeader(http.StatusOK) })

	r := mux.NewRouter[http.Handler]("hunt2", call, http.NotFoundHandler(), status(405), status(200), mux.WithDigitInterceptor("digit"))
	r.Get(`/named/{id}-{page:digit}.html`, ok)
	r.Get(`/regexp/{id:.+}-{page:digit}.html`, ok)

	get := func(path string) int {
		clear(params)
		w := httptest.NewRecorder()
		r.ServeHTTP(w, httptest.NewRequest(http.MethodGet, path, nil))
		return w.Code
	}

	// documented behaviour, named parameter: id takes "1", the child cannot take "1-1": 404
	if code := get("/named/1-1-1.html"); code != http.StatusNotFound {
		t.Errorf("named: status %d %v; want 404", code, params)
	}
	// the same with a regexp parameter: the shortest text followed by "-" that .+ accepts is "1",
	// after which {page:digit}.html cannot take "1-1.html"; no other choice exists: 404.
	if code := get("/regexp/1-1-1.html"); code != http.StatusNotFound {
		t.Errorf("regexp: status %d %v; want 404 (id must not be widened to \"1-1\")", code, params)
	}
}
