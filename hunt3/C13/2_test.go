// belongs in the module root directory (package mux_test); does not need -race

package mux_test

import (
	"net/http"
	"net/http/httptest"
	"testing"

	"github.com/issue9/mux/v9"
	"github.com/issue9/mux/v9/types"
)

type hunt2Handler func(http.ResponseWriter, *http.Request, types.Route)

func hunt2Call(w http.ResponseWriter, r *http.Request, ps types.Route, h hunt2Handler) { h(w, r, ps) }

func hunt2Status(status int) types.BuildNodeHandler[hunt2Handler] {
	return func(types.Node) hunt2Handler {
		return func(w http.ResponseWriter, _ *http.Request, _ types.Route) { w.WriteHeader(status) }
	}
}

// A member of an Or combination (Hosts) rejects, and in doing so removes a parameter that an
// earlier, accepting member of the enclosing And combination had captured.
func TestHunt2(t *testing.T) {
	g := mux.NewGroup[hunt2Handler](hunt2Call,
		func(w http.ResponseWriter, _ *http.Request, _ types.Route) { w.WriteHeader(http.StatusNotFound) },
		hunt2Status(http.StatusMethodNotAllowed), hunt2Status(http.StatusOK))

	var got map[string]string
	h := func(w http.ResponseWriter, _ *http.Request, ps types.Route) {
		got = map[string]string{}
		ps.Params().Range(func(k, v string) { got[k] = v })
	}

	build := func(hosts *mux.Hosts) mux.Matcher {
		return mux.AndMatcher(
			mux.NewHeaderVersion("sub", "", func(error) {}, "1"),
			mux.OrMatcher(hosts, mux.NewPathVersion("", "v1")),
		)
	}
	// the two groups differ only in how the rejecting Hosts member arrives at its rejection
	g.New("r1", build(mux.NewHosts(false, "{sub}.a.com", "{sub}.b.com"))).Get("/x", h)

	g2 := mux.NewGroup[hunt2Handler](hunt2Call,
		func(w http.ResponseWriter, _ *http.Request, _ types.Route) { w.WriteHeader(http.StatusNotFound) },
		hunt2Status(http.StatusMethodNotAllowed), hunt2Status(http.StatusOK))
	g2.New("r1", build(mux.NewHosts(false, "{sub}.a.com"))).Get("/x", h)

	req := func() *http.Request {
		r := httptest.NewRequest(http.MethodGet, "http://x.c.com/v1/x", nil)
		r.Header.Set("Accept", "application/json;version=1")
		return r
	}

	// control: Hosts rejects x.c.com without ever matching {sub}: the parameter of the header matcher survives
	got = nil
	g2.ServeHTTP(httptest.NewRecorder(), req())
	if got == nil || got["sub"] != "1" {
		t.Fatalf("control: params=%v", got)
	}

	// Hosts rejects x.c.com after having tried "{sub}." : the parameter of the header matcher is gone
	got = nil
	g.ServeHTTP(httptest.NewRecorder(), req())
	if got == nil {
		t.Fatal("the router was not reached")
	}
	if got["sub"] != "1" {
		t.Errorf("a rejecting Or member removed the parameter captured by an earlier And member: params=%v", got)
	}
}
