// belongs in the module root directory (package mux_test); does not need -race

package mux_test

import (
	"net/http"
	"net/http/httptest"
	"testing"

	"github.com/issue9/mux/v9"
	"github.com/issue9/mux/v9/types"
)

type huntHandler func(http.ResponseWriter, *http.Request, types.Route)

func huntCall(w http.ResponseWriter, r *http.Request, ps types.Route, h huntHandler) { h(w, r, ps) }

func huntStatus(status int) types.BuildNodeHandler[huntHandler] {
	return func(types.Node) huntHandler {
		return func(w http.ResponseWriter, _ *http.Request, _ types.Route) { w.WriteHeader(status) }
	}
}

// The matcher captures a parameter ("version"); the router that it lets the request into
// tries a route with a parameter of the same name, abandons it (backtracking) and serves
// the request with another route that has no parameter of that name.
// The property demands that the router serves the request the matcher produced
// "plus the parameters the matcher captured": version must still be "/v1".
func TestHunt1(t *testing.T) {
	g := mux.NewGroup[huntHandler](huntCall,
		func(w http.ResponseWriter, _ *http.Request, _ types.Route) { w.WriteHeader(http.StatusNotFound) },
		huntStatus(http.StatusMethodNotAllowed), huntStatus(http.StatusOK))

	var got map[string]string
	var served string
	record := func(name string) huntHandler {
		return func(w http.ResponseWriter, _ *http.Request, ps types.Route) {
			served = name
			got = map[string]string{}
			ps.Params().Range(func(k, v string) { got[k] = v })
		}
	}

	r := g.New("api", mux.NewPathVersion("version", "v1"))
	r.Get("/{version}/x", record("x"))
	r.Get("/{version}/z", record("z"))
	r.Get("/{rest}", record("rest"))

	// control: a request that does not make the tree backtrack keeps the matcher's parameter
	g.ServeHTTP(httptest.NewRecorder(), httptest.NewRequest(http.MethodGet, "/v1/plain", nil))
	if served != "rest" || got["rest"] != "plain" || got["version"] != "/v1" {
		t.Fatalf("control: served=%q params=%v", served, got)
	}

	// /v1/a/y -> matcher: path=/a/y, version=/v1 -> tree tries {version}/ (version=a), fails on "y",
	// backtracks, then {rest}=a/y matches.
	served, got = "", nil
	g.ServeHTTP(httptest.NewRecorder(), httptest.NewRequest(http.MethodGet, "/v1/a/y", nil))
	if served != "rest" || got["rest"] != "a/y" {
		t.Fatalf("unexpected route: served=%q params=%v", served, got)
	}
	if v, found := got["version"]; !found || v != "/v1" {
		t.Errorf("the parameter captured by the matcher is lost: version=%q found=%v, all params=%v", v, found, got)
	}
}
