// package directory: repository root /tmp/wt/C05 (package mux_test). -race not required (the run usually dies with "fatal error: concurrent map read and map write"), but -race makes the failure deterministic.
package mux_test

import (
	"net/http"
	"net/http/httptest"
	"sync"
	"testing"

	"github.com/issue9/mux/v9"
	"github.com/issue9/mux/v9/types"
)

// WithLock(true) is the library's switch for changing a router while it serves.
// Router.Use rewrites every node's handler map (tree.ApplyMiddleware) without
// taking the tree lock, while ServeHTTP reads those maps under the read lock:
// a concurrent map read/write, which the Go runtime turns into the
// unrecoverable "fatal error: concurrent map read and map write".
func TestHunt1(t *testing.T) {
	call := func(w http.ResponseWriter, r *http.Request, _ types.Route, h http.Handler) { h.ServeHTTP(w, r) }
	b := func(n types.Node) http.Handler {
		return http.HandlerFunc(func(w http.ResponseWriter, _ *http.Request) { w.Header().Set("Allow", n.AllowHeader()) })
	}
	ok := http.HandlerFunc(func(w http.ResponseWriter, _ *http.Request) {})

	r := mux.NewRouter[http.Handler]("def", call, http.NotFoundHandler(), b, b, mux.WithLock(true))
	r.Get("/a", ok)

	m := types.MiddlewareFunc[http.Handler](func(next http.Handler, _, _, _ string) http.Handler { return next })

	var wg sync.WaitGroup
	wg.Add(2)
	go func() {
		defer wg.Done()
		for i := 0; i < 2000; i++ {
			r.ServeHTTP(httptest.NewRecorder(), httptest.NewRequest(http.MethodGet, "/a", nil))
		}
	}()
	go func() {
		defer wg.Done()
		for i := 0; i < 2000; i++ {
			r.Use(m)
		}
	}()
	wg.Wait()
}
