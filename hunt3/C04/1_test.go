// Belongs in the module root directory (package mux_test); does not need -race.
package mux_test

import (
	"net/http"
	"net/http/httptest"
	"slices"
	"strings"
	"testing"

	"github.com/issue9/mux/v9"
	"github.com/issue9/mux/v9/types"
)

// Two patterns whose regexp parameters use a {n} quantifier (the form commit 235ab8c
// names as supported: /{id:\d{2}}/x). After the longer one restructured the tree, methods
// added to the shorter one land on a second node: the pattern's method set is split in two.
func TestHunt1(t *testing.T) {
	call := func(w http.ResponseWriter, r *http.Request, ps types.Route, h http.Handler) {
		if n := ps.Node(); n != nil {
			w.Header().Set("X-Pattern", n.Pattern())
			w.Header()["X-Methods"] = n.Methods()
		}
		h.ServeHTTP(w, r)
	}
	b405 := func(n types.Node) http.Handler {
		return http.HandlerFunc(func(w http.ResponseWriter, r *http.Request) {
			w.Header().Set("Allow", n.AllowHeader())
			w.WriteHeader(http.StatusMethodNotAllowed)
		})
	}
	bOpt := func(n types.Node) http.Handler {
		return http.HandlerFunc(func(w http.ResponseWriter, r *http.Request) { w.Header().Set("Allow", n.AllowHeader()) })
	}
	h := http.HandlerFunc(func(w http.ResponseWriter, r *http.Request) {})

	const (
		yearMonth = `/archive/{date:\d{4}-\d{2}}`
		year      = `/archive/{date:\d{4}}`
	)
	for _, p := range []string{yearMonth, year} {
		if err := mux.CheckSyntax(p); err != nil {
			t.Fatal(p, err)
		}
	}

	r := mux.NewRouter[http.Handler]("def", call, http.NotFoundHandler(), b405, bOpt)
	r.Handle(yearMonth, h, nil, http.MethodGet)
	r.Handle(year, h, nil, http.MethodGet)
	r.Handle(year, h, nil, http.MethodPost) // accepted, no panic

	want := []string{"GET", "HEAD", "OPTIONS", "POST"}
	if got := r.Routes()[year]; !slices.Equal(got, want) {
		t.Errorf("Routes()[%q] = %v, want %v", year, got, want)
	}

	do := func(method, path string) *httptest.ResponseRecorder {
		w := httptest.NewRecorder()
		req := httptest.NewRequest(method, "http://localhost/", nil)
		req.URL.Path = path
		r.ServeHTTP(w, req)
		return w
	}

	// The library reads {date:\d{4}} as rule `\d{4` + literal suffix `}`, so the only path
	// that reaches the pattern is the literal text "5{4}" (a routing matter, not claimed here);
	// it is used to look at the pattern's own OPTIONS / 405 answers.
	const path = "/archive/5{4}"
	w := do(http.MethodOptions, path)
	if w.Header().Get("X-Pattern") != year {
		t.Fatalf("OPTIONS %s routed to %q (status %d)", path, w.Header().Get("X-Pattern"), w.Code)
	}
	if got := w.Header().Get("Allow"); got != strings.Join(want, ", ") {
		t.Errorf("OPTIONS %s: Allow = %q, want %q", path, got, strings.Join(want, ", "))
	}
	if got := w.Header()["X-Methods"]; !slices.Equal(got, want) {
		t.Errorf("OPTIONS %s: Node().Methods() = %v, want %v", path, got, want)
	}
	if w := do(http.MethodGet, path); w.Code != http.StatusOK {
		t.Errorf("GET %s = %d (Allow %q); GET is registered for %s", path, w.Code, w.Header().Get("Allow"), year)
	}
	if w := do(http.MethodDelete, path); w.Code != 405 || w.Header().Get("Allow") != strings.Join(want, ", ") {
		t.Errorf("DELETE %s = %d Allow %q, want 405 %q", path, w.Code, w.Header().Get("Allow"), strings.Join(want, ", "))
	}

	// removal of all methods
	r.Remove(year)
	if got, found := r.Routes()[year]; found {
		t.Errorf("after Remove(%q): Routes() still lists it with %v", year, got)
	}
	if w := do(http.MethodOptions, path); w.Code != http.StatusNotFound {
		t.Errorf("after Remove(%q): OPTIONS %s = %d Allow %q, want 404", year, path, w.Code, w.Header().Get("Allow"))
	}
	star := strings.Split(do(http.MethodOptions, "*").Header().Get("Allow"), ", ")
	star = slices.DeleteFunc(star, func(s string) bool { return s == "HEAD" })
	if !slices.Equal(star, []string{"GET", "OPTIONS"}) {
		t.Errorf("after Remove(%q): OPTIONS * = %v, want [GET OPTIONS] (only %s is left, with GET)", year, star, yearMonth)
	}
}
