// belongs in the module root directory (package mux_test); does not need -race
package mux_test

import (
	"net/http"
	"net/http/httptest"
	"testing"

	"github.com/issue9/mux/v9"
	"github.com/issue9/mux/v9/types"
)

// NewPathVersion("ver", "v1") accepts /v1/5/b and records ver=/v1. The route
// that finally serves the request, /{other}/b, has no parameter called ver,
// yet the handler finds ver gone: the sibling node {ver:\d+}/ (shared by
// /{ver:\d+}/a and /{ver:\d+}/c) matched "5/", nothing below it matched "b",
// and the backtracking deleted the matcher's record instead of putting it back.
func TestHunt2(t *testing.T) {
	type hf = http.HandlerFunc
	call := func(w http.ResponseWriter, r *http.Request, route types.Route, h http.Handler) {
		v, found := route.Params().Get("ver")
		o, _ := route.Params().Get("other")
		w.Header().Set("X-Ver", v)
		if found {
			w.Header().Set("X-Ver-Found", "1")
		}
		w.Header().Set("X-Other", o)
		w.Header().Set("X-Path", r.URL.Path)
		h.ServeHTTP(w, r)
	}
	b := func(types.Node) http.Handler { return hf(func(w http.ResponseWriter, _ *http.Request) { w.WriteHeader(405) }) }
	g := mux.NewGroup[http.Handler](call, http.NotFoundHandler(), b, b)

	r := g.New("v1", mux.NewPathVersion("ver", "v1"))
	r.Get(`/{ver:\d+}/a`, hf(func(w http.ResponseWriter, _ *http.Request) { w.Write([]byte("a")) }))
	r.Get(`/{ver:\d+}/c`, hf(func(w http.ResponseWriter, _ *http.Request) { w.Write([]byte("c")) }))
	r.Get(`/{other}/b`, hf(func(w http.ResponseWriter, _ *http.Request) { w.Write([]byte("b")) }))

	// control: no backtracking through the capturing sibling, the record survives
	w := httptest.NewRecorder()
	g.ServeHTTP(w, httptest.NewRequest(http.MethodGet, "/v1/x/b", nil))
	if w.Body.String() != "b" || w.Header().Get("X-Ver") != "/v1" {
		t.Fatalf("control: body=%q ver=%q", w.Body.String(), w.Header().Get("X-Ver"))
	}

	w = httptest.NewRecorder()
	g.ServeHTTP(w, httptest.NewRequest(http.MethodGet, "/v1/5/b", nil))
	if w.Body.String() != "b" || w.Header().Get("X-Other") != "5" || w.Header().Get("X-Path") != "/5/b" {
		t.Fatalf("unexpected routing: body=%q other=%q path=%q", w.Body.String(), w.Header().Get("X-Other"), w.Header().Get("X-Path"))
	}
	if got := w.Header().Get("X-Ver"); got != "/v1" {
		t.Errorf("/v1/5/b served by /{other}/b: ver=%q (found=%q), want /v1 as recorded by the accepting matcher", got, w.Header().Get("X-Ver-Found"))
	}
}
