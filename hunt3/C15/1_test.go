// belongs in the module root directory (package mux_test); does not need -race
package mux_test

import (
	"net/http"
	"net/http/httptest"
	"testing"

	"github.com/issue9/mux/v9"
	"github.com/issue9/mux/v9/types"
)

// The version list {"/"} (a leading/trailing slash around nothing; the
// constructor refuses "" itself). Whatever <version> is taken to be ("" or "/"),
// '/<version>/' is "//" or "///", so a path such as "/users" must be rejected.
func TestHunt1(t *testing.T) {
	defer func() {
		if msg := recover(); msg != nil {
			t.Log("constructor refused the version, which also satisfies the property:", msg)
		}
	}()

	m := mux.NewPathVersion("ver", "/", "v1")

	for _, path := range []string{"/users", "/v1/users", "/"} {
		r := httptest.NewRequest(http.MethodGet, "http://localhost/", nil)
		r.URL.Path = path
		ctx := types.NewContext()
		ok := m.Match(r, ctx)
		ver, found := ctx.Get("ver")
		if path == "/v1/users" {
			// the only listed version the path begins with is v1
			if !ok || ver != "/v1" || r.URL.Path != "/users" {
				t.Errorf("path %q: accepted=%v ver=%q(found=%v) rewritten=%q; want accepted, ver=/v1, path=/users", path, ok, ver, found, r.URL.Path)
			}
			continue
		}
		if ok {
			t.Errorf("path %q accepted by a matcher whose versions are {\"/\", \"v1\"}: recorded ver=%q (found=%v), path now %q", path, ver, found, r.URL.Path)
		}
	}
}
