// Package directory: repository root (package mux_test). Does not need -race.
package mux_test

import (
	"fmt"
	"net/http"
	"net/http/httptest"
	"testing"

	"github.com/issue9/mux/v9"
	"github.com/issue9/mux/v9/header"
	"github.com/issue9/mux/v9/types"
)

func hunt3Router() *mux.Router[http.Handler] {
	call := func(w http.ResponseWriter, r *http.Request, _ types.Route, h http.Handler) { h.ServeHTTP(w, r) }
	b := func(status int) types.BuildNodeHandler[http.Handler] {
		return func(n types.Node) http.Handler {
			return http.HandlerFunc(func(w http.ResponseWriter, _ *http.Request) {
				w.Header().Set(header.Allow, n.AllowHeader())
				w.WriteHeader(status)
			})
		}
	}
	return mux.NewRouter[http.Handler]("def", call, http.NotFoundHandler(), b(405), b(200))
}

func hunt3Handle(r *mux.Router[http.Handler], pattern string, status int, methods ...string) (err error) {
	defer func() {
		if e := recover(); e != nil {
			err = fmt.Errorf("%v", e)
		}
	}()
	r.Handle(pattern, http.HandlerFunc(func(w http.ResponseWriter, _ *http.Request) { w.WriteHeader(status) }), nil, methods...)
	return nil
}

func hunt3Do(r http.Handler, method, path string) (int, string) {
	req := httptest.NewRequest(method, "http://localhost/", nil)
	req.URL.Path = path
	w := httptest.NewRecorder()
	r.ServeHTTP(w, req)
	return w.Code, w.Header().Get(header.Allow)
}

// A duplicate pattern+method must always be rejected. When a parameter is followed by a
// literal '}' ("/{id}}", accepted by CheckSyntax and by Handle on an empty router) next to
// a route with the same parameter ("/{id}/a"), the route ends up in two nodes with the same
// text; the duplicate check looks at one, the handler is written to the other.
func TestHunt1(t *testing.T) {
	for _, c := range [][2]string{
		{"/{id}/a", "/{id}}"},
		{`/{id:\d+}/a`, `/{id:\d+}}`},
	} {
		r := hunt3Router()
		if err := mux.CheckSyntax(c[1]); err != nil {
			t.Fatalf("%s is not well-formed: %v", c[1], err)
		}
		if err := hunt3Handle(r, c[0], 201, http.MethodGet); err != nil {
			t.Fatal(err)
		}
		if err := hunt3Handle(r, c[1], 202, http.MethodPost); err != nil {
			t.Fatal(err)
		}
		if err := hunt3Handle(r, c[1], 203, http.MethodPatch); err != nil { // another method of the same route: fine
			t.Fatal(err)
		}

		// the very same pattern+method a second time: must be rejected and must change nothing
		code, _ := hunt3Do(r, http.MethodPatch, "/5}")
		err := hunt3Handle(r, c[1], 299, http.MethodPatch)
		if err == nil {
			t.Errorf("%s: duplicate Handle(%q, PATCH) was accepted", c[0], c[1])
		}
		if code2, _ := hunt3Do(r, http.MethodPatch, "/5}"); code2 != code {
			t.Errorf("%s: PATCH /5} answered %d before the duplicate Handle and %d after it", c[0], code, code2)
		}

		// the same for POST, registered by the first call for that pattern
		if err := hunt3Handle(r, c[1], 298, http.MethodPost); err == nil {
			t.Errorf("%s: duplicate Handle(%q, POST) was accepted", c[0], c[1])
		}
	}
}
