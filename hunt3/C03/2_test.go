// Belongs in the module root directory (package mux_test, next to router.go); does not need -race.
package mux_test

import (
	"net/http"
	"net/http/httptest"
	"testing"

	"github.com/issue9/mux/v9"
	"github.com/issue9/mux/v9/examples/std"
)

func hunt2Handler(name string) http.Handler {
	return http.HandlerFunc(func(w http.ResponseWriter, r *http.Request) { _, _ = w.Write([]byte(name)) })
}

// Two literal siblings that differ right after a '}' ("a}" and "a}b") are not merged under a common
// prefix node, so their parent has two string children with the same first byte. As soon as the parent
// owns five children the first-byte index is built, it can hold only one of the two, and the other one
// is never tried again: registering an unrelated fifth sibling kills a live route, removing it revives it.
func TestHunt2(t *testing.T) {
	for _, p := range []string{"/s/a}", "/s/a}b"} {
		if err := mux.CheckSyntax(p); err != nil {
			t.Fatalf("pattern %s is not well-formed: %v", p, err)
		}
	}

	r := std.NewRouter("hunt2")
	r.Get("/s/b", hunt2Handler("b"))
	r.Get("/s/c", hunt2Handler("c"))
	r.Get("/s/a}", hunt2Handler("A"))
	r.Get("/s/a}b", hunt2Handler("B"))

	probe := func(step string) {
		t.Helper()
		for path, want := range map[string]string{"/s/a}": "A", "/s/a}b": "B", "/s/b": "b", "/s/c": "c"} {
			if _, ok := r.Routes()[path]; !ok {
				t.Fatalf("%s: %s is not listed", step, path)
			}
			w := httptest.NewRecorder()
			req := httptest.NewRequest(http.MethodGet, "/", nil)
			req.URL.Path = path
			r.ServeHTTP(w, req)
			if w.Code != 200 || w.Body.String() != want {
				t.Errorf("%s: GET %s = %d %q, want 200 %q", step, path, w.Code, w.Body.String(), want)
			}
		}
	}

	probe("four siblings") // holds

	r.Get("/s/d", hunt2Handler("d")) // an unrelated fifth literal sibling
	probe("after Handle(/s/d)")      // GET /s/a} is 404 now

	r.Remove("/s/d")
	probe("after Remove(/s/d)") // and is served again
}
