// Belongs in the module root directory (package mux_test, next to router.go); does not need -race.
package mux_test

import (
	"net/http"
	"net/http/httptest"
	"testing"

	"github.com/issue9/mux/v9"
	"github.com/issue9/mux/v9/examples/std"
)

func hunt1Serve(r *std.Router, method, path string) (int, string) {
	w := httptest.NewRecorder()
	req := httptest.NewRequest(method, "/", nil)
	req.URL.Path = path
	r.ServeHTTP(w, req)
	return w.Code, w.Body.String()
}

func hunt1Handler(name string) http.Handler {
	return http.HandlerFunc(func(w http.ResponseWriter, r *http.Request) {
		v := "<no params>"
		if ps := std.GetParams(r); ps != nil {
			v = ps.Params().MustString("id", "<none>")
		}
		_, _ = w.Write([]byte(name + "(" + v + ")"))
	})
}

// A parameter route whose literal tail ends with '}' (mux.CheckSyntax accepts it, mux_test.go even
// asserts that "/path}" is valid) is taken for an end-point parameter ("{id}" as the last thing of the
// pattern): the parameter then has to match the whole rest of the path, literal tail included.
func TestHunt1(t *testing.T) {
	for _, p := range []string{"/json/{id:digit}/a}", "/text/{id}/a}"} {
		if err := mux.CheckSyntax(p); err != nil {
			t.Fatalf("pattern %s is not well-formed: %v", p, err)
		}
	}

	r := std.NewRouter("hunt1", mux.WithDigitInterceptor("digit"))
	r.Get("/json/{id:digit}/a}", hunt1Handler("I")) // interceptor parameter
	r.Get("/text/{id}/a}", hunt1Handler("N"))       // named parameter
	r.Get("/ctl/{id:digit}/a", hunt1Handler("C"))   // control: same shape, tail does not end with '}'

	if _, ok := r.Routes()["/json/{id:digit}/a}"]; !ok {
		t.Fatalf("route is not listed: %v", r.Routes())
	}
	if code, body := hunt1Serve(r, http.MethodGet, "/ctl/77/a"); code != 200 || body != "C(77)" {
		t.Fatalf("control route: %d %q", code, body)
	}

	// the witness of the live route, id=77
	if code, body := hunt1Serve(r, http.MethodGet, "/json/77/a}"); code != 200 || body != "I(77)" {
		t.Errorf("GET /json/77/a} = %d %q, want 200 \"I(77)\": a live, listed route does not serve its own witness", code, body)
	}

	// the named variant is served, but the literal tail became part of the value and any tail is accepted
	if code, body := hunt1Serve(r, http.MethodGet, "/text/QZ/a}"); code != 200 || body != "N(QZ)" {
		t.Errorf("GET /text/QZ/a} = %d %q, want 200 \"N(QZ)\"", code, body)
	}
	if code, body := hunt1Serve(r, http.MethodGet, "/text/QZ/other"); code != 404 {
		t.Errorf("GET /text/QZ/other = %d %q, want 404: the path does not end with the literal tail of /text/{id}/a}", code, body)
	}
}
