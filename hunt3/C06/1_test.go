// Package directory: repository root (/tmp/wt/C06/zz_hunt1_test.go), package mux_test. Does NOT need -race (deterministic; readers run concurrently only to show the effect on live traffic).
package mux_test

import (
	"net/http"
	"net/http/httptest"
	"reflect"
	"sync"
	"testing"

	"github.com/issue9/mux/v9"
	"github.com/issue9/mux/v9/examples/std"
)

// Four routes are registered once and never touched again:
//
//	/{a:\d+}/one/x   /{a:\d+}/one/y      (handler "A", registered first)
//	/{b:[0-9]+}/one/x /{b:[0-9]+}/one/z  (handler "B", registered second)
//
// Both families are regexp nodes with children, i.e. they have the same
// priority, and GET /5/one/x is served by the family that was registered
// first ("A", a=5) - the documented order for nodes of the same kind.
//
// A writer toggles a fifth route, /{a:\d+}/two. It does not match /5/one/x.
// Registering it splits the node "{a:\d+}/one/" of the untouched A routes;
// splitNode removes that node from its parent and appends the new head node
// at the END of the parent's children, so the untouched A family now stands
// behind the untouched B family. From then on - also after the fifth route
// has been removed and Routes() is what it was - /5/one/x is answered by the
// handler of another route, with another parameter.
func TestHunt1(t *testing.T) {
	h := func(name, param string) http.Handler {
		return http.HandlerFunc(func(w http.ResponseWriter, req *http.Request) {
			v, _ := std.GetParams(req).Params().Get(param)
			w.Write([]byte(name + ":" + param + "=" + v))
		})
	}

	r := std.NewRouter("def", mux.WithLock(true))
	r.Get(`/{a:\d+}/one/x`, h("A", "a"))
	r.Get(`/{a:\d+}/one/y`, h("A", "a"))
	r.Get(`/{b:[0-9]+}/one/x`, h("B", "b"))
	r.Get(`/{b:[0-9]+}/one/z`, h("B", "b"))
	before := r.Routes()

	get := func() (int, string) {
		w := httptest.NewRecorder()
		r.ServeHTTP(w, httptest.NewRequest(http.MethodGet, "/5/one/x", nil))
		return w.Code, w.Body.String()
	}
	const want = "A:a=5"
	if code, body := get(); code != 200 || body != want {
		t.Fatalf("precondition: %d %q", code, body)
	}

	other := http.HandlerFunc(func(w http.ResponseWriter, req *http.Request) { w.Write([]byte("two")) })

	var wg sync.WaitGroup
	stop := make(chan struct{})
	var once sync.Once
	for i := 0; i < 4; i++ { // readers: only ever ask for the untouched route
		wg.Add(1)
		go func() {
			defer wg.Done()
			for {
				select {
				case <-stop:
					return
				default:
				}
				if code, body := get(); code != 200 || body != want {
					once.Do(func() {
						t.Errorf(`untouched routes while /{a:\d+}/two is toggled: GET /5/one/x got %d %q, want 200 %q`, code, body, want)
					})
					return
				}
			}
		}()
	}
	for i := 0; i < 200; i++ { // writer: toggles a route that does not match the readers' path
		r.Get(`/{a:\d+}/two`, other)
		r.Remove(`/{a:\d+}/two`)
	}
	close(stop)
	wg.Wait()

	if after := r.Routes(); !reflect.DeepEqual(before, after) {
		t.Fatalf("routes changed: %v -> %v", before, after)
	}
	if code, body := get(); code != 200 || body != want {
		t.Errorf("after the toggled route is gone again (Routes() identical to the start): got %d %q, want 200 %q", code, body, want)
	}
}
