// belongs in the module root directory (package mux_test); does not need -race
package mux_test

import (
	"bufio"
	"fmt"
	"net"
	"net/http"
	"net/http/httptest"
	"testing"

	mux "github.com/issue9/mux/v9"
	"github.com/issue9/mux/v9/types"
)

// A preflight that carries two Access-Control-Request-Method lines is approved
// on the first line alone; the second line (a method the route does not serve)
// is never looked at.
func TestHunt2(t *testing.T) {
	call := func(w http.ResponseWriter, r *http.Request, _ types.Route, h http.Handler) { h.ServeHTTP(w, r) }
	node := func(status int) types.BuildNodeHandler[http.Handler] {
		return func(n types.Node) http.Handler {
			return http.HandlerFunc(func(w http.ResponseWriter, r *http.Request) {
				w.Header().Set("Allow", n.AllowHeader())
				w.WriteHeader(status)
			})
		}
	}
	router := mux.NewRouter[http.Handler]("def", call, http.NotFoundHandler(), node(405), node(200),
		mux.WithCORS([]string{"https://a.example"}, []string{"X-Key"}, nil, 0, true))
	router.Get("/items", http.HandlerFunc(func(w http.ResponseWriter, r *http.Request) { w.WriteHeader(200) }))

	srv := httptest.NewServer(router)
	defer srv.Close()

	send := func(lines string) *http.Response {
		conn, err := net.Dial("tcp", srv.Listener.Addr().String())
		if err != nil {
			t.Fatal(err)
		}
		defer conn.Close()
		fmt.Fprintf(conn, "OPTIONS /items HTTP/1.1\r\nHost: x\r\nOrigin: https://a.example\r\n%sConnection: close\r\n\r\n", lines)
		resp, err := http.ReadResponse(bufio.NewReader(conn), nil)
		if err != nil {
			t.Fatal(err)
		}
		return resp
	}

	// control: DELETE is not served, alone or first it is refused
	if v := send("Access-Control-Request-Method: DELETE\r\n").Header.Get("Access-Control-Allow-Origin"); v != "" {
		t.Fatalf("control: preflight for DELETE granted: %q", v)
	}
	if v := send("Access-Control-Request-Method: DELETE\r\nAccess-Control-Request-Method: GET\r\n").Header.Get("Access-Control-Allow-Origin"); v != "" {
		t.Fatalf("control: preflight for DELETE,GET granted: %q", v)
	}

	resp := send("Access-Control-Request-Method: GET\r\nAccess-Control-Request-Method: DELETE\r\n")
	if v := resp.Header.Get("Access-Control-Allow-Origin"); v != "" {
		t.Errorf("preflight naming GET and DELETE on a GET-only route: Access-Control-Allow-Origin = %q, Allow-Credentials = %q",
			v, resp.Header.Get("Access-Control-Allow-Credentials"))
	}
}
