// belongs in the module root directory (package mux_test); does not need -race
package mux_test

import (
	"net/http"
	"net/http/httptest"
	"testing"

	mux "github.com/issue9/mux/v9"
	"github.com/issue9/mux/v9/types"
)

func hunt1Call(w http.ResponseWriter, r *http.Request, _ types.Route, h http.Handler) {
	h.ServeHTTP(w, r)
}

func hunt1Node(status int) types.BuildNodeHandler[http.Handler] {
	return func(n types.Node) http.Handler {
		return http.HandlerFunc(func(w http.ResponseWriter, r *http.Request) {
			w.Header().Set("Allow", n.AllowHeader())
			w.WriteHeader(status)
		})
	}
}

// NewGroup keeps the caller's option slice; Group.New reads it again for every
// router it creates. A caller that reuses its slice after NewGroup changes the
// CORS configuration of the routers the group creates later.
func TestHunt1(t *testing.T) {
	ok := http.HandlerFunc(func(w http.ResponseWriter, r *http.Request) { w.WriteHeader(http.StatusOK) })

	// The private group: no CORS at all (no configured origins), with a lock.
	opts := []mux.Option{mux.WithDenyCORS(), mux.WithLock(true)}
	private := mux.NewGroup[http.Handler](hunt1Call, http.NotFoundHandler(), hunt1Node(405), hunt1Node(200), opts...)

	// The caller reuses its slice to build an unrelated, public router.
	opts[0] = mux.WithAllowedCORS(3600)
	public := mux.NewRouter[http.Handler]("public", hunt1Call, http.NotFoundHandler(), hunt1Node(405), hunt1Node(200), opts...)
	public.Get("/ping", ok)

	// A router of the private group, created after that.
	r := private.New("private", nil)
	r.Delete("/secret", ok)

	// simple request
	w := httptest.NewRecorder()
	req := httptest.NewRequest(http.MethodDelete, "/secret", nil)
	req.Header.Set("Origin", "https://evil.example")
	private.ServeHTTP(w, req)
	if w.Code != http.StatusOK {
		t.Fatalf("status %d", w.Code)
	}
	if v, found := w.Header()["Access-Control-Allow-Origin"]; found {
		t.Errorf("DELETE /secret: the group was configured without origins, yet Access-Control-Allow-Origin = %q", v)
	}

	// preflight asking for an arbitrary header
	w = httptest.NewRecorder()
	req = httptest.NewRequest(http.MethodOptions, "/secret", nil)
	req.Header.Set("Origin", "https://evil.example")
	req.Header.Set("Access-Control-Request-Method", http.MethodDelete)
	req.Header.Set("Access-Control-Request-Headers", "X-Anything")
	private.ServeHTTP(w, req)
	if v, found := w.Header()["Access-Control-Allow-Origin"]; found {
		t.Errorf("preflight /secret: the group was configured without origins, yet Access-Control-Allow-Origin = %q, Allow-Headers = %q",
			v, w.Header().Get("Access-Control-Allow-Headers"))
	}
}
