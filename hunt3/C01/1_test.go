// belongs in the repository root (package mux_test); plain go test, no -race needed
package mux_test

import (
	"net/http"
	"net/http/httptest"
	"regexp"
	"testing"

	"github.com/issue9/mux/v9"
	"github.com/issue9/mux/v9/types"
)

func TestHunt1(t *testing.T) {
	const pattern = `/posts/{year:\d{4}}/{id}`

	var node types.Node
	ps := map[string]string{}
	served := false
	call := func(w http.ResponseWriter, r *http.Request, rt types.Route, h http.Handler) {
		node = rt.Node()
		rt.Params().Range(func(k, v string) { ps[k] = v })
		h.ServeHTTP(w, r)
	}
	b := func(status int) types.BuildNodeHandler[http.Handler] {
		return func(types.Node) http.Handler {
			return http.HandlerFunc(func(w http.ResponseWriter, _ *http.Request) { w.WriteHeader(status) })
		}
	}
	r := mux.NewRouter[http.Handler]("def", call, http.NotFoundHandler(), b(405), b(200))

	if err := mux.CheckSyntax(pattern); err != nil {
		t.Skip("the pattern is refused, nothing to dispatch:", err) // a library that refuses the pattern satisfies the property
	}
	r.Get(pattern, http.HandlerFunc(func(http.ResponseWriter, *http.Request) { served = true }))

	year := regexp.MustCompile(`^(?:\d{4})$`) // the constraint the pattern puts on year
	for _, path := range []string{"/posts/2024/7", "/posts/2{4}/7", "/posts/20244/7", "/posts/2{4/7"} {
		node, served = nil, false
		clear(ps)
		req := httptest.NewRequest(http.MethodGet, "/", nil)
		req.URL.Path = path
		r.ServeHTTP(httptest.NewRecorder(), req)
		if !served {
			continue // soundness only: a 404 is not judged here
		}

		// dispatched: path must be the pattern with {year:\d{4}} and {id} replaced by the reported values
		if node == nil || node.Pattern() != pattern {
			t.Errorf("%s: dispatched with route %v", path, node)
			continue
		}
		if len(ps) != 2 {
			t.Errorf("%s: params %v", path, ps)
		}
		if !year.MatchString(ps["year"]) {
			t.Errorf("%s: dispatched to %s with year=%q which does not satisfy \\d{4}", path, pattern, ps["year"])
		}
		if rebuilt := "/posts/" + ps["year"] + "/" + ps["id"]; rebuilt != path {
			t.Errorf("%s: pattern with the reported values %v gives %s", path, ps, rebuilt)
		}
	}
}
