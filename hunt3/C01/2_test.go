// belongs in the repository root (package mux_test); plain go test, no -race needed
package mux_test

import (
	"net/http"
	"net/http/httptest"
	"testing"

	"github.com/issue9/mux/v9"
	"github.com/issue9/mux/v9/types"
)

func TestHunt2(t *testing.T) {
	got := map[string]string{}
	pattern := ""
	call := func(w http.ResponseWriter, r *http.Request, rt types.Route, h http.Handler) {
		if n := rt.Node(); n != nil {
			pattern = n.Pattern()
		}
		rt.Params().Range(func(k, v string) { got[k] = v })
		h.ServeHTTP(w, r)
	}
	b := func(status int) types.BuildNodeHandler[http.Handler] {
		return func(types.Node) http.Handler {
			return http.HandlerFunc(func(w http.ResponseWriter, _ *http.Request) { w.WriteHeader(status) })
		}
	}
	ok := http.HandlerFunc(func(w http.ResponseWriter, _ *http.Request) {})

	serve := func(withAbandoned bool) (string, map[string]string) {
		g := mux.NewGroup[http.Handler](call, http.NotFoundHandler(), b(405), b(200))
		r := g.New("v1", mux.NewPathVersion("ver", "v1"))
		r.Get("/{other}/b", ok)
		if withAbandoned { // two routes sharing the capturing node {ver:\d+}/ ; neither matches /5/b
			r.Get(`/{ver:\d+}/a`, ok)
			r.Get(`/{ver:\d+}/c`, ok)
		}
		got, pattern = map[string]string{}, ""
		g.ServeHTTP(httptest.NewRecorder(), httptest.NewRequest(http.MethodGet, "/v1/5/b", nil))
		return pattern, got
	}

	p1, ps1 := serve(false)
	p2, ps2 := serve(true)
	if p1 != "/{other}/b" || p2 != "/{other}/b" {
		t.Fatalf("unexpected routes %q %q", p1, p2)
	}
	if ps1["ver"] != "/v1" || ps1["other"] != "5" || len(ps1) != 2 {
		t.Fatalf("baseline: %v", ps1)
	}
	// the routes that were tried and abandoned must not change what is reported for /{other}/b
	if len(ps2) != len(ps1) || ps2["ver"] != ps1["ver"] || ps2["other"] != ps1["other"] {
		t.Errorf("same request, same route %q: params %v without the abandoned routes, %v with them", p2, ps1, ps2)
	}
}
