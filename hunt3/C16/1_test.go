// belongs in the module root directory (package mux_test); does not need -race

package mux_test

import (
	"net/http"
	"net/http/httptest"
	"testing"

	"github.com/issue9/mux/v9"
	"github.com/issue9/mux/v9/types"
)

func hcall(w http.ResponseWriter, r *http.Request, _ types.Route, h http.Handler) { h.ServeHTTP(w, r) }

func hbuilder(types.Node) http.Handler {
	return http.HandlerFunc(func(http.ResponseWriter, *http.Request) {})
}

// NewGroup keeps the caller's variadic option slice and evaluates it again in every Group.New.
// A caller that reuses the slice afterwards silently changes (here: removes) the recovery of routers
// the group creates later, although the group was configured with a recovery option.
func TestHunt1(t *testing.T) {
	var got []any
	rec := func(w http.ResponseWriter, v any) { got = append(got, v) }

	opts := []mux.Option{mux.WithRecovery(rec)}
	g := mux.NewGroup[http.Handler](hcall, http.NotFoundHandler(), hbuilder, hbuilder, opts...)

	// the caller reuses its own slice for an unrelated purpose (e.g. to build the options of another router)
	opts[0] = mux.WithLock(true)

	r := g.New("r1", nil)
	r.Get("/p", http.HandlerFunc(func(http.ResponseWriter, *http.Request) { panic("boom") }))
	r.Get("/ok", http.HandlerFunc(func(w http.ResponseWriter, _ *http.Request) { w.WriteHeader(201) }))

	serve := func(h http.Handler, path string) (escaped any, code int) {
		w := httptest.NewRecorder()
		defer func() { escaped = recover() }()
		h.ServeHTTP(w, httptest.NewRequest(http.MethodGet, path, nil))
		return nil, w.Code
	}

	// the group itself still contains the panic (its own recoverFunc was read in NewGroup)
	if v, _ := serve(g, "/p"); v != nil {
		t.Errorf("panic %v escaped Group.ServeHTTP", v)
	}
	if len(got) != 1 || got[0] != "boom" {
		t.Errorf("group: recovery got %v, want [boom]", got)
	}

	// a router created by Group.New inherits the recovery configured on the group
	got = nil
	if v, _ := serve(r, "/p"); v != nil {
		t.Errorf("panic %v escaped ServeHTTP of a router created by Group.New of a group configured with a recovery", v)
	}
	if len(got) != 1 || got[0] != "boom" {
		t.Errorf("router: recovery got %v, want [boom]", got)
	}
	if v, code := serve(r, "/ok"); v != nil || code != 201 {
		t.Errorf("later request: escaped=%v code=%d", v, code)
	}
}
