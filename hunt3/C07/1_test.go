// Belongs in the module root (package mux_test, next to group.go). Fails without -race; with -race it additionally reports a data race.

package mux_test

import (
	"net/http"
	"net/http/httptest"
	"strconv"
	"sync"
	"testing"

	"github.com/issue9/mux/v9"
	"github.com/issue9/mux/v9/header"
	"github.com/issue9/mux/v9/types"
)

type hunt1Handler func(http.ResponseWriter, *http.Request, types.Route)

func hunt1Call(w http.ResponseWriter, r *http.Request, ps types.Route, h hunt1Handler) { h(w, r, ps) }

func hunt1NotFound(w http.ResponseWriter, _ *http.Request, _ types.Route) { w.WriteHeader(404) }

func hunt1Builder(status int) types.BuildNodeHandler[hunt1Handler] {
	return func(n types.Node) hunt1Handler {
		return func(w http.ResponseWriter, _ *http.Request, _ types.Route) {
			w.Header().Set(header.Allow, n.AllowHeader())
			w.WriteHeader(status)
		}
	}
}

func hunt1Group(o ...mux.Option) *mux.Group[hunt1Handler] {
	return mux.NewGroup[hunt1Handler](hunt1Call, hunt1NotFound, hunt1Builder(405), hunt1Builder(200), o...)
}

// what a router of g answers: the URL it builds and the CORS header of a simple cross-origin GET
func hunt1Observe(t *testing.T, g *mux.Group[hunt1Handler], name string) (url, allowOrigin string) {
	t.Helper()
	r := g.New(name, nil)
	r.Get("/ping", func(w http.ResponseWriter, _ *http.Request, _ types.Route) { w.WriteHeader(202) })

	url, err := r.URL(false, "/ping", nil)
	if err != nil {
		t.Fatal(err)
	}

	w := httptest.NewRecorder()
	req := httptest.NewRequest(http.MethodGet, "/ping", nil)
	req.Header.Set(header.Origin, "https://client.example")
	g.ServeHTTP(w, req)
	if w.Code != 202 {
		t.Fatalf("status %d", w.Code)
	}
	return url, w.Header().Get(header.AccessControlAllowOrigin)
}

func TestHunt1(t *testing.T) {
	// control: a group configured for tenant A, nothing else happens in the process
	ctlURL, ctlOrigin := hunt1Observe(t, hunt1Group(mux.WithURLDomain("https://a.example"), mux.WithDenyCORS()), "api")
	if ctlURL != "https://a.example/ping" || ctlOrigin != "" {
		t.Fatalf("control: %q %q", ctlURL, ctlOrigin)
	}

	// the same group, but the caller builds a second, unrelated group for tenant B from the same option list
	opts := []mux.Option{mux.WithURLDomain("https://a.example"), mux.WithDenyCORS()}
	ga := hunt1Group(opts...)
	opts[0], opts[1] = mux.WithURLDomain("https://b.example"), mux.WithAllowedCORS(0)
	gb := hunt1Group(opts...)
	_ = gb // gb is never used; ga is never touched after its construction

	url, origin := hunt1Observe(t, ga, "api")
	if url != ctlURL {
		t.Errorf("router of group A builds %q, the same group built alone builds %q", url, ctlURL)
	}
	if origin != ctlOrigin {
		t.Errorf("router of group A (CORS denied) answers Access-Control-Allow-Origin %q, built alone it answers %q", origin, ctlOrigin)
	}

	// two distinct groups built and used from two goroutines: go test -race reports
	// a read of ga.options (Group.New) against the caller's write of its own slice.
	opts2 := []mux.Option{mux.WithLock(true)}
	g1 := hunt1Group(opts2...)
	var wg sync.WaitGroup
	wg.Add(2)
	go func() {
		defer wg.Done()
		for i := 0; i < 200; i++ {
			g1.New("r"+strconv.Itoa(i), nil)
		}
	}()
	go func() {
		defer wg.Done()
		for i := 0; i < 200; i++ {
			opts2[0] = mux.WithLock(i%2 == 0)
			hunt1Group(opts2...).New("x", nil)
		}
	}()
	wg.Wait()
}
