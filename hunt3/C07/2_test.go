// Belongs in the module root (package mux_test). Fails without -race; with -race it also reports the race on the pooled Context.

package mux_test

import (
	"net/http"
	"net/http/httptest"
	"testing"
	"time"

	"github.com/issue9/mux/v9/examples/std"
)

// A route is wrapped in net/http's own TimeoutHandler. By design of TimeoutHandler the inner handler
// keeps running after the timeout answer has been sent. The router has by then put the request's
// Context back into the pool, the next request gets the same object, and the first request's handler
// reads the second request's parameters.
func TestHunt2(t *testing.T) {
	router := std.NewRouter("t") // immutable after the next statement

	type seen struct{ id, found string }
	results := make(chan seen, 1)
	release := make(chan struct{})

	inner := http.HandlerFunc(func(w http.ResponseWriter, r *http.Request) {
		if r.URL.Path != "/u/first" {
			return
		}
		<-release // still working when the timeout fires
		id, found := std.GetParams(r).Params().Get("id")
		f := "found"
		if !found {
			f = "missing"
		}
		results <- seen{id, f}
	})
	router.Get("/u/{id}", http.TimeoutHandler(inner, 10*time.Millisecond, "timeout"))

	for attempt := 0; attempt < 20; attempt++ {
		release = make(chan struct{})

		w1 := httptest.NewRecorder()
		router.ServeHTTP(w1, httptest.NewRequest(http.MethodGet, "/u/first", nil))
		if w1.Code != http.StatusServiceUnavailable {
			t.Fatalf("request 1: status %d", w1.Code)
		}

		// an unrelated second request on the same quiescent router
		w2 := httptest.NewRecorder()
		router.ServeHTTP(w2, httptest.NewRequest(http.MethodGet, "/u/second", nil))
		if w2.Code != http.StatusOK {
			t.Fatalf("request 2: status %d", w2.Code)
		}

		close(release)
		got := <-results
		if got.id != "first" || got.found != "found" {
			t.Fatalf("attempt %d: the handler of GET /u/first reads id=%q (%s); its own parameter is id=\"first\"", attempt, got.id, got.found)
		}
	}
}
