// belongs in the module root directory (package mux_test); does not need -race
package mux_test

import (
	"net/http"
	"net/http/httptest"
	"strings"
	"testing"

	"github.com/issue9/mux/v9"
	"github.com/issue9/mux/v9/types"
)

// NewGroup documents that the options given to it are handed on to every router made by Group.New.
// The group keeps the caller's option slice itself, so a caller that reuses that slice afterwards
// (here: to build a second, CORS-less group) silently changes the CORS configuration of routers the
// first group creates later. WithCORS (15c93c7), AndMatcher/OrMatcher (3b8dabd) and the version
// matchers (598c095) were all repaired to own their lists; NewGroup was not.
func TestHunt1(t *testing.T) {
	call := func(w http.ResponseWriter, r *http.Request, _ types.Route, h http.Handler) { h.ServeHTTP(w, r) }
	m := func(n types.Node) http.Handler {
		return http.HandlerFunc(func(w http.ResponseWriter, r *http.Request) {
			w.Header().Set("Allow", n.AllowHeader())
			w.WriteHeader(http.StatusMethodNotAllowed)
		})
	}
	opt := func(n types.Node) http.Handler {
		return http.HandlerFunc(func(w http.ResponseWriter, r *http.Request) { w.Header().Set("Allow", n.AllowHeader()) })
	}
	h := http.HandlerFunc(func(w http.ResponseWriter, r *http.Request) {})

	opts := []mux.Option{mux.WithCORS([]string{"https://a.example"}, []string{"X-A"}, []string{"X-E"}, 50, true)}
	g := mux.NewGroup[http.Handler](call, http.NotFoundHandler(), m, opt, opts...)

	preflight := func(path string) http.Header {
		req := httptest.NewRequest(http.MethodOptions, path, nil)
		req.Header.Set("Origin", "https://a.example")
		req.Header.Set("Access-Control-Request-Method", "GET")
		req.Header.Set("Access-Control-Request-Headers", "x-a")
		w := httptest.NewRecorder()
		g.ServeHTTP(w, req)
		if w.Code != 200 {
			t.Fatalf("%s: status %d", path, w.Code)
		}
		return w.Header()
	}
	check := func(name string, hd http.Header) {
		vary := strings.Join(hd.Values("Vary"), ",")
		if hd.Get("Access-Control-Allow-Origin") != "https://a.example" ||
			hd.Get("Access-Control-Allow-Credentials") != "true" ||
			hd.Get("Access-Control-Expose-Headers") != "X-E" ||
			hd.Get("Access-Control-Allow-Methods") != hd.Get("Allow") ||
			hd.Get("Access-Control-Allow-Headers") != "X-A" ||
			hd.Get("Access-Control-Max-Age") != "50" ||
			!strings.Contains(vary, "Origin") || !strings.Contains(vary, "Access-Control-Request-Method") {
			t.Errorf("%s: the CORS configuration given to NewGroup is not applied: %v", name, hd)
		}
	}

	// baseline: a router created right away carries the group's configuration
	g.New("r1", mux.NewPathVersion("", "v1")).Get("/path", h)
	check("r1", preflight("/v1/path"))

	// the caller reuses its slice for something else
	opts[0] = mux.WithDenyCORS()

	// r1 is unaffected, but a router created now no longer gets what NewGroup was configured with
	check("r1 again", preflight("/v1/path"))
	g.New("r2", mux.NewPathVersion("", "v2")).Get("/path", h)
	check("r2", preflight("/v2/path"))
}
