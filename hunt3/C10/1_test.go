// package directory: repository root (package mux_test); does not need -race
package mux_test

import (
	"net/http"
	"testing"

	"github.com/issue9/mux/v9"
	"github.com/issue9/mux/v9/types"
)

func newHunt3Router(o ...mux.Option) *mux.Router[http.Handler] {
	call := func(w http.ResponseWriter, r *http.Request, _ types.Route, h http.Handler) { h.ServeHTTP(w, r) }
	b := func(status int) types.BuildNodeHandler[http.Handler] {
		return func(types.Node) http.Handler {
			return http.HandlerFunc(func(w http.ResponseWriter, r *http.Request) { w.WriteHeader(status) })
		}
	}
	return mux.NewRouter("hunt3", call, http.NotFoundHandler(), b(405), b(200), o...)
}

// A parameter whose name is empty once the leading '-' is ignored ({-}, {-:rule}, {-:}) is the
// documented "empty name" syntax error; building must fail, like it does for {} and {:rule}.
func TestHunt1(t *testing.T) {
	params := map[string]string{"": "EMPTY", "-": "DASH", "id": "5"}

	// the library's own verdict on the same token without the dash
	for _, p := range []string{"/u/{}/x", "/u/{:\\d+}/x"} {
		if _, err := mux.URL(p, params); err == nil {
			t.Fatalf("test premise: %q should be an empty-name error", p)
		}
	}

	for _, p := range []string{"/u/{-}/x", "/u/{-:\\d+}/x", "/u/{-:}/x", "/u/{-}"} {
		if err := mux.CheckSyntax(p); err == nil {
			t.Errorf("CheckSyntax(%q) = nil; want an empty-name error", p)
		}
		if s, err := mux.URL(p, params); err == nil {
			t.Errorf("mux.URL(%q) = %q, nil; want an empty-name error", p, s)
		}

		r := newHunt3Router(mux.WithURLDomain("https://example.com"))
		if s, err := r.URL(false, p, params); err == nil {
			t.Errorf("Router.URL(false, %q) = %q, nil; want an empty-name error", p, s)
		}

		registered := func() (ok bool) {
			defer func() {
				if recover() != nil {
					ok = false
				}
			}()
			r.Get(p, http.NotFoundHandler())
			return true
		}()
		if registered {
			t.Errorf("Handle(%q) accepted a parameter without a name", p)
			if s, err := r.URL(true, p, params); err == nil {
				t.Errorf("Router.URL(true, %q) = %q, nil; want an error", p, s)
			}
		}
	}
}
