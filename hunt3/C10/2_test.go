// package directory: repository root (package mux_test); does not need -race
package mux_test

import (
	"net/http"
	"net/http/httptest"
	"testing"

	"github.com/issue9/mux/v9"
	"github.com/issue9/mux/v9/types"
)

func newHunt3bRouter() *mux.Router[http.Handler] {
	call := func(w http.ResponseWriter, r *http.Request, _ types.Route, h http.Handler) { h.ServeHTTP(w, r) }
	b := func(status int) types.BuildNodeHandler[http.Handler] {
		return func(types.Node) http.Handler {
			return http.HandlerFunc(func(w http.ResponseWriter, r *http.Request) { w.WriteHeader(status) })
		}
	}
	return mux.NewRouter("hunt3b", call, http.NotFoundHandler(), b(405), b(200))
}

// Strict building of a live route must not start failing because two other routes were registered.
func TestHunt2(t *testing.T) {
	h := http.HandlerFunc(func(w http.ResponseWriter, r *http.Request) { w.WriteHeader(http.StatusAccepted) })
	ps := map[string]string{"unused": "1"}

	for _, routes := range [][]string{
		{"/a}", "/a}-x", "/a}}"},
		{"/k/}", "/k/}/edit", "/k/}}"},
	} {
		target := routes[0]
		for _, p := range routes {
			if err := mux.CheckSyntax(p); err != nil {
				t.Fatalf("test premise: CheckSyntax(%q) = %v", p, err)
			}
		}

		r := newHunt3bRouter()
		r.Get(target, h)
		if got, err := r.URL(true, target, ps); err != nil || got != target {
			t.Fatalf("test premise: strict URL(%q) with one route = %q, %v", target, got, err)
		}

		for _, p := range routes[1:] {
			r.Get(p, h)
		}

		// still a live route: listed by Routes(), served, and built by non-strict URL
		if _, ok := r.Routes()[target]; !ok {
			t.Fatalf("%q is no longer listed by Routes()", target)
		}
		w := httptest.NewRecorder()
		r.ServeHTTP(w, httptest.NewRequest(http.MethodGet, target, nil))
		if w.Code != http.StatusAccepted {
			t.Fatalf("GET %s = %d", target, w.Code)
		}
		if got, err := r.URL(false, target, ps); err != nil || got != target {
			t.Fatalf("non-strict URL(%q) = %q, %v", target, got, err)
		}

		if got, err := r.URL(true, target, ps); err != nil || got != target {
			t.Errorf("after registering %q: strict URL(%q) = %q, %v; want %q, nil", routes[1:], target, got, err, target)
		}
	}
}
