// Belongs in the root package directory of the library (package mux_test); does not need -race.
package mux_test

import (
	"net/http"
	"testing"

	"github.com/issue9/mux/v9"
	"github.com/issue9/mux/v9/types"
)

func hunt3Match(h *mux.Hosts, host string) bool {
	ctx := types.NewContext()
	defer ctx.Destroy()
	return h.Match(&http.Request{Host: host}, ctx)
}

// A literal domain with a '{' that is never closed is accepted by Add as a literal, but the text
// after the '{' keeps its case, so the domain can never be matched (Match lower-cases the Host)
// unless it was written in lower case; Add/Delete are case-sensitive for that part.
func TestHunt2(t *testing.T) {
	lower := mux.NewHosts(false, "a{b.example.com") // written in lower case: works
	if !hunt3Match(lower, "A{B.example.com") {
		t.Fatal("a{b.example.com is a literal domain and must accept the Host A{B.example.com") // holds
	}

	h := mux.NewHosts(false, "a{B.Example.com") // the same domain, other case
	for _, host := range []string{"a{b.example.com", "A{B.EXAMPLE.COM:80"} {
		if !hunt3Match(h, host) {
			t.Errorf("Add(a{B.Example.com): Host %s must be accepted (domain names are case-insensitive)", host)
		}
	}

	lower.Delete("A{B.example.com") // the same domain, other case
	if hunt3Match(lower, "a{b.example.com") {
		t.Errorf("Delete(A{B.example.com) must remove a{b.example.com")
	}
}
