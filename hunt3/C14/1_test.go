// Belongs in the root package directory of the library (package mux_test); does not need -race.
package mux_test

import (
	"net/http"
	"testing"

	"github.com/issue9/mux/v9"
	"github.com/issue9/mux/v9/types"
)

func hunt3Accepts(h *mux.Hosts, host string) bool {
	ctx := types.NewContext()
	defer ctx.Destroy()
	return h.Match(&http.Request{Host: host}, ctx)
}

// Two registered literal domains that share their first byte and contain a '}' are both
// accepted while the Hosts holds fewer than five domains; registering four more unrelated
// literal domains makes the first of them unreachable.
func TestHunt1(t *testing.T) {
	h := mux.NewHosts(false, "a}b.example.com", "a}c.example.com")
	for _, host := range []string{"a}b.example.com", "a}c.example.com"} {
		if !hunt3Accepts(h, host) {
			t.Fatalf("two domains registered: %s must be accepted", host) // holds
		}
	}

	others := []string{"b.example.com", "c.example.com", "d.example.com", "e.example.com"}
	h.Add(others...)
	for _, host := range []string{"a}b.example.com", "a}c.example.com", "b.example.com", "e.example.com"} {
		if !hunt3Accepts(h, host) {
			t.Errorf("six literal domains registered: %s is registered and must be accepted", host)
		}
	}

	for _, d := range others {
		h.Delete(d)
	}
	if !hunt3Accepts(h, "a}b.example.com") { // holds again: the outcome depends on how many other domains exist
		t.Errorf("after deleting the four others: a}b.example.com must be accepted")
	}
}
