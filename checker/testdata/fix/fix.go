// Package fixture holds small functions on which the analysis primitives are unit-tested.
package fixture

import (
	"errors"
	"fmt"
	"slices"
	"sync"
)

type Kind int8

const (
	A Kind = iota
	B
	C
)

type T struct {
	k    Kind
	name string
	list []string
	mu   *sync.Mutex
	next *T
}

func emit(string) {}

// AllKinds emits for every kind: with enum exhaustion there is no silent path.
func AllKinds(t *T) {
	switch t.k {
	case A:
		emit("a")
	case B, C:
		emit("bc")
	}
}

// MissingKind forgets C: a silent path exists.
func MissingKind(t *T) {
	switch t.k {
	case A:
		emit("a")
	case B:
		emit("b")
	}
}

// TwoPass validates every element, then uses them.
func TwoPass(xs []string) error {
	for _, x := range xs {
		if x == "bad" {
			return errors.New("bad")
		}
	}
	for _, x := range xs {
		emit(x)
	}
	return nil
}

// OnePassLate uses before validating.
func OnePassLate(xs []string) error {
	for _, x := range xs {
		emit(x)
		if x == "bad" {
			return errors.New("bad")
		}
	}
	return nil
}

// ShortCircuit: emit only when a && !b.
func ShortCircuit(a, b bool) {
	ok := a && !b
	if ok {
		emit("x")
	}
}

func (t *T) Name() string { return t.name }

// Concat builds name + suffix through an accessor.
func Concat(t *T, suffix string) string { return t.Name() + suffix }

func variadic(xs ...string) int { return len(xs) }

// Lists packs a variadic call and a slices.Concat.
func Lists(t *T, a []string) int {
	return variadic("x", t.name) + len(slices.Concat(a, t.list))
}

// Spill has a defer, so results are spilled into cells.
func Spill(t *T, fail bool) (int, error) {
	t.mu.Lock()
	defer t.mu.Unlock()
	if fail {
		return 0, fmt.Errorf("no")
	}
	return 1, nil
}

// Wrapped returns the callee's error behind the != nil test.
func Wrapped(t *T) error {
	_, err := Spill(t, true)
	if err != nil {
		return err
	}
	return nil
}

// Walk loads the same field chain twice.
func Walk(t *T) bool {
	if t.next.name == "" {
		return false
	}
	return t.next.name == "x"
}

// Capture spills its parameter because a closure captures it.
func Capture(t *T) func() string {
	return func() string { return t.name }
}
