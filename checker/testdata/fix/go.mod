module github.com/issue9/mux/v9/fixture

go 1.23.0
