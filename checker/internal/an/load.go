// Package an holds the analysis infrastructure of muxlint: loading, the
// function universe, control-flow path queries, access paths, value origins,
// lock states and reporting.  Nothing in here executes code of the analysed
// module; everything is derived from go/packages + go/types + go/ssa.
package an

import (
	"fmt"
	"go/token"
	"go/types"
	"os"
	"path/filepath"
	"sort"
	"strings"

	"golang.org/x/tools/go/packages"
	"golang.org/x/tools/go/ssa"
	"golang.org/x/tools/go/ssa/ssautil"
)

// ModulePath is the import path prefix of the analysed module.
const ModulePath = "github.com/issue9/mux/v9"

// Prog is the loaded, type-checked and SSA-built module.
type Prog struct {
	Dir   string
	Fset  *token.FileSet
	Pkgs  []*packages.Package
	SSA   *ssa.Program
	Funcs []*ssa.Function          // function universe, sorted by position
	byKey map[string]*ssa.Function // FuncKey -> function
	SPkgs map[string]*ssa.Package  // import path -> ssa package
	GOARCH string
}

// CheckerError is a failure of the checker itself (exit 2): it could not
// decide, and therefore neither passes nor reports a violation.
type CheckerError struct{ Msg string }

func (e *CheckerError) Error() string { return e.Msg }

func Fatalf(format string, args ...any) {
	panic(&CheckerError{Msg: fmt.Sprintf(format, args...)})
}

// Load loads ./... of the module rooted at dir.  Test files are not loaded.
// extraEnv entries (e.g. GOARCH=386) are appended to the environment.
func Load(dir string, instantiate bool, extraEnv ...string) *Prog {
	env := os.Environ()
	// the analysed tree must be resolved offline and without a workspace
	env = append(env, "GOFLAGS=-mod=mod", "GOPROXY=off", "GOSUMDB=off", "GOTOOLCHAIN=local", "GOWORK=off")
	env = append(env, extraEnv...)
	cfg := &packages.Config{
		Mode:  packages.LoadSyntax,
		Dir:   dir,
		Tests: false,
		Env:   env,
	}
	pkgs, err := packages.Load(cfg, "./...")
	if err != nil {
		Fatalf("load %s: %v", dir, err)
	}
	if len(pkgs) == 0 {
		Fatalf("load %s: zero packages", dir)
	}
	var errs []string
	packages.Visit(pkgs, nil, func(p *packages.Package) {
		for _, e := range p.Errors {
			errs = append(errs, e.Error())
		}
	})
	if len(errs) > 0 {
		Fatalf("load %s: %d package errors, first: %s", dir, len(errs), errs[0])
	}
	sort.Slice(pkgs, func(i, j int) bool { return pkgs[i].PkgPath < pkgs[j].PkgPath })

	mode := ssa.BuilderMode(0)
	if instantiate {
		mode |= ssa.InstantiateGenerics
	}
	prog, spkgs := ssautil.Packages(pkgs, mode)
	for i, sp := range spkgs {
		if sp == nil {
			Fatalf("no SSA package for %s", pkgs[i].PkgPath)
		}
	}
	prog.Build()

	p := &Prog{Dir: dir, Fset: pkgs[0].Fset, Pkgs: pkgs, SSA: prog, byKey: map[string]*ssa.Function{}, SPkgs: map[string]*ssa.Package{}}
	for _, e := range extraEnv {
		if strings.HasPrefix(e, "GOARCH=") {
			p.GOARCH = strings.TrimPrefix(e, "GOARCH=")
		}
	}
	for _, sp := range spkgs {
		p.SPkgs[sp.Pkg.Path()] = sp
	}
	p.collectFuncs(spkgs)
	return p
}

// collectFuncs enumerates the function universe: package-level functions,
// methods of every named type (generic or not) and anonymous functions,
// recursively.  ssautil.AllFunctions is not used: it misses the methods of
// generic types.
func (p *Prog) collectFuncs(spkgs []*ssa.Package) {
	seen := map[*ssa.Function]bool{}
	var add func(f *ssa.Function)
	add = func(f *ssa.Function) {
		if f == nil || seen[f] {
			return
		}
		if f.Synthetic != "" && !strings.HasPrefix(f.Synthetic, "package initializer") {
			return // wrappers, thunks, bound-method closures, instantiations
		}
		if len(f.TypeArgs()) > 0 {
			return
		}
		seen[f] = true
		p.Funcs = append(p.Funcs, f)
		for _, a := range f.AnonFuncs {
			add(a)
		}
	}
	for _, sp := range spkgs {
		names := make([]string, 0, len(sp.Members))
		for n := range sp.Members {
			names = append(names, n)
		}
		sort.Strings(names)
		for _, n := range names {
			switch m := sp.Members[n].(type) {
			case *ssa.Function:
				add(m)
			case *ssa.Type:
				named, ok := m.Type().(*types.Named)
				if !ok {
					continue
				}
				for i := 0; i < named.NumMethods(); i++ {
					add(p.SSA.FuncValue(named.Method(i)))
				}
			}
		}
	}
	sort.SliceStable(p.Funcs, func(i, j int) bool {
		a, b := p.Fset.Position(p.Funcs[i].Pos()), p.Fset.Position(p.Funcs[j].Pos())
		if a.Filename != b.Filename {
			return a.Filename < b.Filename
		}
		return a.Offset < b.Offset
	})
	for _, f := range p.Funcs {
		k := FuncKey(f)
		if _, dup := p.byKey[k]; dup {
			// keep the first; closures are numbered so this should not happen
			continue
		}
		p.byKey[k] = f
	}
}

// InModule reports whether the function belongs to the analysed module.
func InModule(f *ssa.Function) bool {
	if f == nil {
		return false
	}
	o := Origin(f)
	if o.Pkg != nil {
		return strings.HasPrefix(o.Pkg.Pkg.Path(), ModulePath)
	}
	if o.Object() != nil && o.Object().Pkg() != nil {
		return strings.HasPrefix(o.Object().Pkg().Path(), ModulePath)
	}
	if par := o.Parent(); par != nil {
		return InModule(par)
	}
	return false
}

// Origin normalises an instantiation to its generic origin.
func Origin(f *ssa.Function) *ssa.Function {
	if f == nil {
		return nil
	}
	if o := f.Origin(); o != nil {
		return o
	}
	return f
}

// FuncKey is the stable name of a function: pkg.(*Recv).name or pkg.name,
// type parameters erased, closures as parent$N.
func FuncKey(f *ssa.Function) string {
	if f == nil {
		return "<nil>"
	}
	f = Origin(f)
	if par := f.Parent(); par != nil {
		// closure: name is like "Outer$1"
		n := f.Name()
		if i := strings.LastIndex(n, "$"); i >= 0 {
			return FuncKey(par) + n[i:]
		}
		return FuncKey(par) + "$" + n
	}
	pkg := ""
	if f.Pkg != nil {
		pkg = f.Pkg.Pkg.Name()
	} else if f.Object() != nil && f.Object().Pkg() != nil {
		pkg = f.Object().Pkg().Name()
	}
	if recv := f.Signature.Recv(); recv != nil {
		return pkg + "." + recvString(recv.Type()) + "." + f.Name()
	}
	return pkg + "." + f.Name()
}

func recvString(t types.Type) string {
	ptr := ""
	if p, ok := t.(*types.Pointer); ok {
		ptr = "*"
		t = p.Elem()
	}
	name := "?"
	switch tt := t.(type) {
	case *types.Named:
		name = tt.Obj().Name()
	case *types.Alias:
		name = tt.Obj().Name()
	}
	if ptr != "" {
		return "(" + ptr + name + ")"
	}
	return name
}

// Func resolves a function of the universe by key; nil if absent.
func (p *Prog) Func(key string) *ssa.Function { return p.byKey[key] }

// MustFunc resolves a function or fails as an unresolved anchor.
func (p *Prog) MustFunc(key string) *ssa.Function {
	f := p.byKey[key]
	if f == nil {
		Fatalf("UNRESOLVED anchor: function %s", key)
	}
	return f
}

// Pos renders a position relative to the module root.
func (p *Prog) Pos(pos token.Pos) string {
	if !pos.IsValid() {
		return "-"
	}
	ps := p.Fset.Position(pos)
	rel, err := filepath.Rel(p.Dir, ps.Filename)
	if err != nil {
		rel = ps.Filename
	}
	return fmt.Sprintf("%s:%d", rel, ps.Line)
}

// InstrPos is the best position for an instruction (falls back to operands
// and then to the block's neighbours).
func (p *Prog) InstrPos(in ssa.Instruction) string {
	return p.Pos(BestPos(in))
}

func BestPos(in ssa.Instruction) token.Pos {
	if in == nil {
		return token.NoPos
	}
	if in.Pos().IsValid() {
		return in.Pos()
	}
	if v, ok := in.(ssa.Value); ok && v.Pos().IsValid() {
		return v.Pos()
	}
	for _, op := range in.Operands(nil) {
		if *op != nil && (*op).Pos().IsValid() {
			return (*op).Pos()
		}
	}
	// nearest positioned instruction in the block
	b := in.Block()
	if b != nil {
		idx := -1
		for i, x := range b.Instrs {
			if x == in {
				idx = i
			}
		}
		for d := 1; d < len(b.Instrs); d++ {
			for _, j := range []int{idx - d, idx + d} {
				if j >= 0 && j < len(b.Instrs) && b.Instrs[j].Pos().IsValid() {
					return b.Instrs[j].Pos()
				}
			}
		}
	}
	return token.NoPos
}

// Package returns the types.Package by short name suffix (e.g. "internal/tree").
func (p *Prog) Package(suffix string) *packages.Package {
	for _, pk := range p.Pkgs {
		if pk.PkgPath == ModulePath+"/"+suffix || (suffix == "" && pk.PkgPath == ModulePath) {
			return pk
		}
	}
	Fatalf("UNRESOLVED anchor: package %q", suffix)
	return nil
}

// LibraryFuncs are the functions of the non-example, non-test-support packages.
func (p *Prog) LibraryFuncs() []*ssa.Function {
	var out []*ssa.Function
	for _, f := range p.Funcs {
		if IsLibrary(f) {
			out = append(out, f)
		}
	}
	return out
}

// IsLibrary: module function outside examples/ and routertest/.
func IsLibrary(f *ssa.Function) bool {
	o := Origin(f)
	for o.Parent() != nil {
		o = o.Parent()
	}
	var path string
	if o.Pkg != nil {
		path = o.Pkg.Pkg.Path()
	} else if o.Object() != nil && o.Object().Pkg() != nil {
		path = o.Object().Pkg().Path()
	}
	if !strings.HasPrefix(path, ModulePath) {
		return false
	}
	rest := strings.TrimPrefix(path, ModulePath)
	if strings.HasPrefix(rest, "/examples") || strings.HasPrefix(rest, "/routertest") {
		return false
	}
	// internal/tree/test.go holds test helpers compiled into the package
	if o.Pos().IsValid() && o.Prog != nil {
		fn := o.Prog.Fset.Position(o.Pos()).Filename
		if strings.HasSuffix(fn, "/internal/tree/test.go") {
			return false
		}
	}
	return true
}

// InModulePkg reports whether the package belongs to the analysed module.
func InModulePkg(p *types.Package) bool {
	return p != nil && strings.HasPrefix(p.Path(), ModulePath)
}
