package an

import (
	"fmt"
	"go/token"
	"go/types"
	"strings"

	"golang.org/x/tools/go/ssa"
)

// FieldName resolves the name of field #i of the struct (or pointer to
// struct) type t.
func FieldName(t types.Type, i int) string {
	st := structOf(t)
	if st == nil || i >= st.NumFields() {
		return fmt.Sprintf("f%d", i)
	}
	return st.Field(i).Name()
}

// fieldEmbeddedStruct: field #i is an embedded (anonymous) struct value of the module — its fields are promoted.
func fieldEmbeddedStruct(t types.Type, i int) bool {
	st := structOf(t)
	if st == nil || i >= st.NumFields() || !st.Field(i).Embedded() {
		return false
	}
	ft := types.Unalias(st.Field(i).Type())
	if _, isStruct := ft.Underlying().(*types.Struct); !isStruct {
		return false
	}
	n, ok := ft.(*types.Named)
	return ok && n.Obj().Pkg() != nil && strings.HasPrefix(n.Obj().Pkg().Path(), ModulePath)
}

func structOf(t types.Type) *types.Struct {
	t = types.Unalias(t)
	if p, ok := t.Underlying().(*types.Pointer); ok {
		t = p.Elem()
	}
	st, _ := t.Underlying().(*types.Struct)
	return st
}

// FieldVar resolves the *types.Var of field #i.
func FieldVar(t types.Type, i int) *types.Var {
	st := structOf(t)
	if st == nil || i >= st.NumFields() {
		return nil
	}
	return st.Field(i)
}

// AP computes the access path of a value: a string that is equal for two
// values denoting the same location/value chain from the same root.  go/ssa
// does no CSE, so `child.parent` loaded twice are two SSA values with one AP.
func AP(v ssa.Value) string { return ap(v, 0) }

func ap(v ssa.Value, depth int) string {
	if v == nil {
		return "?nil"
	}
	if depth > 40 {
		return "?deep"
	}
	switch x := v.(type) {
	case *ssa.Parameter:
		f := x.Parent()
		if f != nil && f.Signature.Recv() != nil && len(f.Params) > 0 && f.Params[0] == x {
			return "recv"
		}
		return "p:" + x.Name()
	case *ssa.FreeVar:
		return "free:" + x.Name()
	case *ssa.FieldAddr:
		if fieldEmbeddedStruct(x.X.Type(), x.Field) {
			return ap(x.X, depth+1) // a promoted field reads the same whether it lives in the struct or in an embedded one
		}
		return ap(x.X, depth+1) + "." + FieldName(x.X.Type(), x.Field)
	case *ssa.Field:
		if fieldEmbeddedStruct(x.X.Type(), x.Field) {
			return ap(x.X, depth+1)
		}
		return ap(x.X, depth+1) + "." + FieldName(x.X.Type(), x.Field)
	case *ssa.UnOp:
		if x.Op == token.MUL {
			return ap(x.X, depth+1)
		}
		return "?" + x.Name()
	case *ssa.IndexAddr:
		return ap(x.X, depth+1) + "[]"
	case *ssa.Index:
		return ap(x.X, depth+1) + "[]"
	case *ssa.Lookup:
		return ap(x.X, depth+1) + "[" + ap(x.Index, depth+1) + "]"
	case *ssa.Phi:
		// a phi whose (non-self) edges all have one access path is that path
		same := ""
		for _, e := range x.Edges {
			if e == ssa.Value(x) {
				continue
			}
			a := ap(e, depth+10)
			if same == "" {
				same = a
			} else if same != a {
				same = "-"
				break
			}
		}
		if same != "" && same != "-" && !strings.HasPrefix(same, "?") && !strings.Contains(same, "phi:") {
			return same
		}
		return "phi:" + x.Name()
	case *ssa.Call:
		return "call:" + CalleeName(&x.Call) + ":" + x.Name()
	case *ssa.Extract:
		return fmt.Sprintf("%s#%d", ap(x.Tuple, depth+1), x.Index)
	case *ssa.Alloc:
		if x.Comment != "" && x.Comment != "complit" && x.Comment != "varargs" && x.Comment != "new" {
			// a spilled parameter (captured by a closure) is that parameter
			var only ssa.Value
			n := 0
			if refs := x.Referrers(); refs != nil {
				for _, r := range *refs {
					if st, ok := r.(*ssa.Store); ok && st.Addr == ssa.Value(x) {
						n++
						only = st.Val
					}
				}
			}
			if n == 1 {
				if p, ok := only.(*ssa.Parameter); ok {
					return ap(p, depth+1)
				}
			}
			return "var:" + x.Comment
		}
		return "alloc:" + x.Name()
	case *ssa.Const:
		return "const:" + ConstKey(x)
	case *ssa.Global:
		return "global:" + x.Pkg.Pkg.Name() + "." + x.Name()
	case *ssa.MakeInterface:
		return ap(x.X, depth+1)
	case *ssa.ChangeType:
		return ap(x.X, depth+1)
	case *ssa.ChangeInterface:
		return ap(x.X, depth+1)
	case *ssa.TypeAssert:
		return ap(x.X, depth+1)
	case *ssa.Slice:
		return "slice(" + ap(x.X, depth+1) + ")"
	case *ssa.Function:
		return "func:" + FuncKey(x)
	case *ssa.Range:
		return "range(" + ap(x.X, depth+1) + ")"
	case *ssa.Next:
		return "next:" + x.Name() + "(" + ap(x.Iter, depth+1) + ")"
	}
	return "?" + v.Name()
}

// CalleeName names the callee of a call: FuncKey for static module callees,
// the qualified name for other static callees, "invoke:Iface.Method" for
// interface calls, "builtin:name" for builtins, "dynamic:<ap>" for calls of
// function values.
func CalleeName(c *ssa.CallCommon) string {
	if c.IsInvoke() {
		recv := c.Value.Type()
		name := types.TypeString(recv, func(p *types.Package) string { return p.Name() })
		return "invoke:" + name + "." + c.Method.Name()
	}
	switch f := c.Value.(type) {
	case *ssa.Builtin:
		return "builtin:" + f.Name()
	case *ssa.Function:
		return StaticName(f)
	case *ssa.MakeClosure:
		if fn, ok := f.Fn.(*ssa.Function); ok {
			return StaticName(fn)
		}
	}
	return "dynamic:" + AP(c.Value)
}

// StaticName: FuncKey for module functions, pkgpath.Name (type arguments
// erased) otherwise.
func StaticName(f *ssa.Function) string {
	f = Origin(f)
	if InModule(f) {
		return FuncKey(f)
	}
	if f.Parent() != nil {
		return FuncKey(f)
	}
	pkg := ""
	if f.Pkg != nil {
		pkg = f.Pkg.Pkg.Path()
	} else if f.Object() != nil && f.Object().Pkg() != nil {
		pkg = f.Object().Pkg().Path()
	}
	if recv := f.Signature.Recv(); recv != nil {
		return pkg + "." + recvString(recv.Type()) + "." + f.Name()
	}
	return pkg + "." + f.Name()
}

// StaticCallee returns the generic-normalised static callee of a call, or nil.
func StaticCallee(c *ssa.CallCommon) *ssa.Function {
	if f := c.StaticCallee(); f != nil {
		return Origin(f)
	}
	return nil
}

// CallOf returns the CallCommon of a call-like instruction (Call, Defer, Go).
func CallOf(in ssa.Instruction) *ssa.CallCommon {
	switch x := in.(type) {
	case *ssa.Call:
		return &x.Call
	case *ssa.Defer:
		return &x.Call
	case *ssa.Go:
		return &x.Call
	}
	return nil
}

// CallArgs returns receiver+arguments of a static call (for methods the
// receiver is Args[0] in go/ssa static calls).
func CallArgs(c *ssa.CallCommon) []ssa.Value {
	if c.IsInvoke() {
		return append([]ssa.Value{c.Value}, c.Args...)
	}
	return c.Args
}

// AllInstrs iterates over all instructions of a function in block order.
func AllInstrs(f *ssa.Function, fn func(in ssa.Instruction)) {
	for _, b := range f.Blocks {
		for _, in := range b.Instrs {
			fn(in)
		}
	}
}

// Calls lists call-like instructions of f whose callee name satisfies pred.
func Calls(f *ssa.Function, pred func(name string, c *ssa.CallCommon) bool) []ssa.Instruction {
	var out []ssa.Instruction
	AllInstrs(f, func(in ssa.Instruction) {
		if c := CallOf(in); c != nil && pred(CalleeName(c), c) {
			out = append(out, in)
		}
	})
	return out
}

// APHasPrefix reports whether path p is rooted at prefix (equal, or
// continues with a field / index selector).
func APHasPrefix(p, prefix string) bool {
	if p == prefix {
		return true
	}
	if strings.HasPrefix(p, prefix) {
		r := p[len(prefix)]
		return r == '.' || r == '['
	}
	return false
}

// APBase strips the last field selector: "recv.parent.children" -> "recv.parent", "children".
func APBase(p string) (base, field string) {
	i := strings.LastIndex(p, ".")
	if i < 0 {
		return p, ""
	}
	return p[:i], p[i+1:]
}
