package an

import (
	"sort"
	"strings"

	"golang.org/x/tools/go/ssa"
)

// Graph is the module-local call graph used by REACH rules: static callees
// (generic-normalised), closures created in a function (they are run by the
// function or by the callee they are passed to, or deferred), and interface
// invocations resolved by method name over the module's methods (a
// conservative, name-based class-hierarchy approximation).  Calls through
// function values and through values of type-parameter type are boundary
// calls (user code) and are not followed.
type Graph struct {
	P       *Prog
	edges   map[*ssa.Function][]Edge
	methods map[string][]*ssa.Function
}

type Edge struct {
	Callee *ssa.Function
	Site   ssa.Instruction
	Kind   string // static | closure | invoke
}

func NewGraph(p *Prog) *Graph {
	g := &Graph{P: p, edges: map[*ssa.Function][]Edge{}, methods: map[string][]*ssa.Function{}}
	for _, f := range p.Funcs {
		if f.Signature.Recv() != nil && InModule(f) {
			g.methods[f.Name()] = append(g.methods[f.Name()], f)
		}
	}
	for _, f := range p.Funcs {
		g.build(f)
	}
	return g
}

func (g *Graph) build(f *ssa.Function) {
	seen := map[string]bool{}
	add := func(callee *ssa.Function, site ssa.Instruction, kind string) {
		callee = Origin(callee)
		if callee == nil {
			return
		}
		k := FuncKey(callee) + "@" + kind
		if site != nil {
			k += "@" + site.String() + site.Block().String()
		}
		if seen[k] {
			return
		}
		seen[k] = true
		g.edges[f] = append(g.edges[f], Edge{callee, site, kind})
	}
	AllInstrs(f, func(in ssa.Instruction) {
		if mc, ok := in.(*ssa.MakeClosure); ok {
			if fn, ok := mc.Fn.(*ssa.Function); ok {
				add(fn, in, "closure")
			}
		}
		c := CallOf(in)
		if c == nil {
			// function values passed around (e.g. a named function used as a value)
			return
		}
		if c.IsInvoke() {
			for _, m := range g.methods[c.Method.Name()] {
				if m.Signature.Params().Len() == c.Signature().Params().Len() {
					add(m, in, "invoke")
				}
			}
			return
		}
		if callee := c.StaticCallee(); callee != nil {
			add(callee, in, "static")
		}
		for _, a := range c.Args {
			if fn, ok := a.(*ssa.Function); ok {
				add(fn, in, "closure")
			}
		}
	})
}

// Callees returns the outgoing edges of f.
func (g *Graph) Callees(f *ssa.Function) []Edge { return g.edges[Origin(f)] }

// Reach computes the functions reachable from the entries, with a parent map
// for shortest witness chains.  follow filters edges (nil = all module edges).
func (g *Graph) Reach(entries []*ssa.Function, follow func(from *ssa.Function, e Edge) bool) map[*ssa.Function]*ssa.Function {
	parent := map[*ssa.Function]*ssa.Function{}
	var queue []*ssa.Function
	for _, e := range entries {
		e = Origin(e)
		if _, ok := parent[e]; !ok {
			parent[e] = nil
			queue = append(queue, e)
		}
	}
	for len(queue) > 0 {
		f := queue[0]
		queue = queue[1:]
		for _, e := range g.edges[f] {
			if !InModule(e.Callee) {
				continue
			}
			if follow != nil && !follow(f, e) {
				continue
			}
			if _, ok := parent[e.Callee]; !ok {
				parent[e.Callee] = f
				queue = append(queue, e.Callee)
			}
		}
	}
	return parent
}

// Chain renders the witness chain entry → ... → f.
func Chain(parent map[*ssa.Function]*ssa.Function, f *ssa.Function) string {
	var names []string
	for x := Origin(f); x != nil; x = parent[x] {
		names = append(names, FuncKey(x))
		if len(names) > 50 {
			break
		}
	}
	for i, j := 0, len(names)-1; i < j; i, j = i+1, j-1 {
		names[i], names[j] = names[j], names[i]
	}
	return strings.Join(names, " → ")
}

// SortedFuncs returns the keys of a reach map sorted by FuncKey.
func SortedFuncs(m map[*ssa.Function]*ssa.Function) []*ssa.Function {
	out := make([]*ssa.Function, 0, len(m))
	for f := range m {
		out = append(out, f)
	}
	sort.Slice(out, func(i, j int) bool { return FuncKey(out[i]) < FuncKey(out[j]) })
	return out
}
