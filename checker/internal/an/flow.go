package an

import (
	"fmt"
	"go/constant"
	"go/token"
	"go/types"
	"sort"
	"strings"

	"golang.org/x/tools/go/ssa"
)

// Point is the program point just before instruction I of block B.
type Point struct {
	B *ssa.BasicBlock
	I int
}

func (pt Point) Instr() ssa.Instruction {
	if pt.B == nil || pt.I >= len(pt.B.Instrs) {
		return nil
	}
	return pt.B.Instrs[pt.I]
}

// PointOf returns the point of an instruction.
func PointOf(in ssa.Instruction) Point {
	b := in.Block()
	for i, x := range b.Instrs {
		if x == in {
			return Point{b, i}
		}
	}
	Fatalf("instruction not in its block: %v", in)
	return Point{}
}

// After returns the point right after an instruction.
func After(in ssa.Instruction) Point {
	p := PointOf(in)
	p.I++
	return p
}

// Entry is the entry point of a function.
func Entry(f *ssa.Function) Point { return Point{f.Blocks[0], 0} }

// Query is an AVOID query: is there a CFG path from a start point to a target
// that passes no blocked instruction and no blocked edge, and that is
// consistent with the assumptions and with the facts collected on the way
// (equalities / disequalities of values against constants)?
type Query struct {
	Block      func(in ssa.Instruction) bool
	BlockEdge  func(b *ssa.BasicBlock, succ int) bool
	Target     func(in ssa.Instruction) bool
	TargetEdge func(b *ssa.BasicBlock, succ int) bool
	// Assume fixes the truth value of a condition (If.Cond); ok=false leaves it open.
	Assume func(cond ssa.Value) (val bool, ok bool)
	// Facts enables tracking of (value ==/!= const) along the path so that
	// contradictory edges are not followed and exhausted enums are pruned.
	Facts bool
	// InitFacts seeds the fact state (key -> constant it equals).
	InitEq map[string]constant.Value
	// InitNeq seeds "key != constant" facts (constants in ExactString form).
	InitNeq map[string][]string
	// Deep > 0 makes the search interprocedural: static calls of module functions are entered (at most Deep
	// frames, no recursion) and left again through their returns; the constant boolean / nil-or-error result of
	// the path taken through the callee decides the caller's branches on that result.
	Deep int
	// Descend filters the callees that are entered (nil = every module function with a body).
	Descend func(g *ssa.Function) bool
	// TargetReturn makes a return of the root function a target depending on the value it returns on this path:
	// val resolves a result operand to a known boolean (constants, short-circuit phis, results of calls the path went through).
	TargetReturn func(r *ssa.Return, val func(v ssa.Value) (known bool, b bool)) bool
	// Ascend > 0 lets the search leave the function it started in: at a return of the root frame it continues after
	// every static call site of that function in the module (at most Ascend levels up, context-insensitive: the
	// caller's facts start empty, the returned values are classified as for Deep).
	Ascend int
	// SkipStart: Target / Block are not evaluated on the instruction the search starts at (used to start *at* a call
	// so that an interprocedural search enters it).
	SkipStart bool
}

type factState struct {
	eq   map[string]string          // key -> constant (ExactString) it equals
	neq  map[string]map[string]bool // key -> constants excluded
	rets map[string]string          // call result key -> "true" | "false" | "err" | "nil" (interprocedural search)
	phis map[string]bool            // boolean phis whose value is decided by the path taken so far
}

func (s *factState) clone() *factState {
	n := &factState{eq: map[string]string{}, neq: map[string]map[string]bool{}, rets: map[string]string{}}
	if len(s.phis) > 0 {
		n.phis = map[string]bool{}
		for k, v := range s.phis {
			n.phis[k] = v
		}
	}
	for k, v := range s.eq {
		n.eq[k] = v
	}
	for k, v := range s.rets {
		n.rets[k] = v
	}
	for k, m := range s.neq {
		mm := map[string]bool{}
		for c := range m {
			mm[c] = true
		}
		n.neq[k] = mm
	}
	return n
}

func (s *factState) String() string {
	if s == nil {
		return ""
	}
	var parts []string
	for k, v := range s.eq {
		parts = append(parts, k+"=="+v)
	}
	for k, v := range s.rets {
		parts = append(parts, k+"=>"+v)
	}
	for k, v := range s.phis {
		parts = append(parts, fmt.Sprintf("%s:=%v", k, v))
	}
	for k, m := range s.neq {
		var cs []string
		for c := range m {
			cs = append(cs, c)
		}
		sort.Strings(cs)
		parts = append(parts, k+"!="+strings.Join(cs, "|"))
	}
	sort.Strings(parts)
	return strings.Join(parts, ";")
}

// apply returns the state after learning key==c (eq) or key!=c; feasible=false
// when that contradicts what is known.  enumAll lists all constants of a
// closed enum type (nil if the domain is open).
func (s *factState) apply(key, c string, eq bool, enumAll []string) (*factState, bool) {
	if cur, ok := s.eq[key]; ok {
		if eq {
			return s, cur == c
		}
		return s, cur != c
	}
	if eq {
		if s.neq[key][c] {
			return s, false
		}
		n := s.clone()
		n.eq[key] = c
		delete(n.neq, key)
		return n, true
	}
	n := s.clone()
	if n.neq[key] == nil {
		n.neq[key] = map[string]bool{}
	}
	n.neq[key][c] = true
	if enumAll != nil {
		all := true
		for _, e := range enumAll {
			if !n.neq[key][e] {
				all = false
				break
			}
		}
		if all {
			return s, false // every declared constant excluded: infeasible
		}
	}
	return n, true
}

// CondAtom decomposes a condition into (x <op> const).  eq is true for ==.
var trueConst = ssa.NewConst(constant.MakeBool(true), types.Typ[types.Bool])

func CondAtom(v ssa.Value) (x ssa.Value, c *ssa.Const, eq bool, ok bool) {
	neg := false
	for {
		u, isU := v.(*ssa.UnOp)
		if !isU || u.Op != token.NOT {
			break
		}
		neg = !neg
		v = u.X
	}
	b, isB := v.(*ssa.BinOp)
	if !isB {
		// a bare boolean parameter or field: `if flag` is `flag == true`
		if bt, isBasic := v.Type().Underlying().(*types.Basic); isBasic && bt.Kind() == types.Bool {
			switch x := v.(type) {
			case *ssa.Parameter:
				return v, trueConst, !neg, true
			case *ssa.UnOp:
				if x.Op == token.MUL {
					return v, trueConst, !neg, true
				}
			}
		}
		return nil, nil, false, false
	}
	if b.Op != token.EQL && b.Op != token.NEQ {
		return nil, nil, false, false
	}
	eq = b.Op == token.EQL
	if neg {
		eq = !eq
	}
	if k, isC := b.Y.(*ssa.Const); isC {
		return b.X, k, eq, true
	}
	if k, isC := b.X.(*ssa.Const); isC {
		return b.Y, k, eq, true
	}
	return nil, nil, false, false
}

// ConstKey renders a constant for comparison.
func ConstKey(c *ssa.Const) string {
	if c == nil {
		return "<nil>"
	}
	if c.Value == nil {
		return "nil"
	}
	return c.Value.ExactString()
}

// EnumConstants lists the declared constants of a named basic type inside its
// own package (closed enum), or nil when the type is not such an enum.
func EnumConstants(t types.Type) []string {
	named, ok := types.Unalias(t).(*types.Named)
	if !ok {
		return nil
	}
	if _, isBasic := named.Underlying().(*types.Basic); !isBasic {
		return nil
	}
	pkg := named.Obj().Pkg()
	if pkg == nil || !strings.HasPrefix(pkg.Path(), ModulePath) {
		return nil
	}
	var out []string
	for _, n := range pkg.Scope().Names() {
		if k, ok := pkg.Scope().Lookup(n).(*types.Const); ok && types.Identical(k.Type(), named) {
			out = append(out, k.Val().ExactString())
		}
	}
	if len(out) < 2 {
		return nil
	}
	sort.Strings(out)
	return out
}

type searchNode struct {
	pt     Point
	st     *factState
	parent *searchNode
	pred   *ssa.BasicBlock // block the path arrived from (nil at the start)
	fr     *frame          // call stack of the interprocedural search (nil in the root function)
	up     int             // levels ascended into callers
}

type frame struct {
	call       *ssa.Call
	callee     *ssa.Function
	parent     *frame
	saved      *factState
	callerPred *ssa.BasicBlock
	depth      int
}

func (f *frame) sig() string {
	if f == nil {
		return ""
	}
	var sb strings.Builder
	for x := f; x != nil; x = x.parent {
		sb.WriteString(FuncKey(x.call.Parent()))
		sb.WriteString(":")
		sb.WriteString(x.call.Name())
		sb.WriteString(">")
	}
	return sb.String()
}

func (f *frame) onStack(g *ssa.Function) bool {
	for x := f; x != nil; x = x.parent {
		if x.callee == g {
			return true
		}
	}
	return false
}

func retKey(call *ssa.Call, idx int) string {
	return fmt.Sprintf("%s:%s#%d", FuncKey(call.Parent()), call.Name(), idx)
}

// translateFacts maps the caller's facts about argument access paths to the callee's parameter access paths.
func translateFacts(cur *factState, call *ssa.Call, g *ssa.Function) *factState {
	n := &factState{eq: map[string]string{}, neq: map[string]map[string]bool{}, rets: map[string]string{}}
	for k, v := range cur.rets {
		n.rets[k] = v
	}
	args := CallArgs(&call.Call)
	mapKey := func(k string) (string, bool) {
		pre := ""
		if strings.HasPrefix(k, "len:") {
			pre, k = "len:", k[4:]
		}
		if strings.HasPrefix(k, "global:") {
			return pre + k, true
		}
		for i, a := range args {
			if i >= len(g.Params) {
				break
			}
			aap := AP(a)
			if strings.HasPrefix(aap, "?") || strings.HasPrefix(aap, "const:") {
				continue
			}
			if APHasPrefix(k, aap) {
				return pre + AP(g.Params[i]) + k[len(aap):], true
			}
		}
		return "", false
	}
	for k, v := range cur.eq {
		if nk, ok := mapKey(k); ok {
			n.eq[nk] = v
		}
	}
	// constant arguments are facts about the parameters
	for i, a := range args {
		if i >= len(g.Params) {
			break
		}
		if k, ok := a.(*ssa.Const); ok {
			n.eq[ValueKey(g.Params[i])] = ConstKey(k)
		}
	}
	for k, m := range cur.neq {
		if nk, ok := mapKey(k); ok {
			mm := map[string]bool{}
			for c := range m {
				mm[c] = true
			}
			n.neq[nk] = mm
		}
	}
	return n
}

// classifyReturn records what the path through the callee returned: constant booleans and nil / non-nil errors.
// boolResolver, when set by the running query, resolves a non-constant boolean result (by the query's assumptions
// or by the facts of the path through the callee).
var boolResolver func(v ssa.Value, facts *factState) (val bool, known bool)

func classifyReturn(st *factState, call *ssa.Call, r *ssa.Return, pred *ssa.BasicBlock, calleeFacts ...*factState) {
	g := r.Parent()
	ei := ErrorResultIndex(g)
	nilable := func(t types.Type) bool {
		switch t.Underlying().(type) {
		case *types.Pointer, *types.Interface, *types.Map, *types.Slice, *types.Signature, *types.Chan:
			return true
		}
		return false
	}
	for j := range r.Results {
		v := unspill(r, r.Results[j])
		if phi, ok := v.(*ssa.Phi); ok && phi.Block() == r.Block() && pred != nil {
			for i, p := range phi.Block().Preds {
				if p == pred {
					v = phi.Edges[i]
				}
			}
		}
		key := retKey(call, j)
		delete(st.rets, key)
		if k, ok := v.(*ssa.Const); ok {
			if k.Value == nil {
				if j == ei || nilable(v.Type()) {
					st.rets[key] = "nil"
				}
			} else if k.Value.Kind() == constant.Bool {
				st.rets[key] = k.Value.ExactString()
			}
		} else if bt, isBasic := v.Type().Underlying().(*types.Basic); isBasic && bt.Kind() == types.Bool && boolResolver != nil {
			var cf *factState
			if len(calleeFacts) > 0 {
				cf = calleeFacts[0]
			}
			if val, known := boolResolver(v, cf); known {
				if val {
					st.rets[key] = "true"
				} else {
					st.rets[key] = "false"
				}
			}
		} else if nilable(v.Type()) {
			// known non-nil on this path: a fresh object, or a value the path tested against nil
			switch v.(type) {
			case *ssa.Alloc, *ssa.MakeInterface, *ssa.MakeMap, *ssa.MakeSlice, *ssa.MakeClosure, *ssa.Function:
				st.rets[key] = "err"
			}
			for _, cf := range calleeFacts {
				if cf != nil && cf.neq[ValueKey(v)]["nil"] {
					st.rets[key] = "err"
				}
			}
		}
		if j == ei && IsErrorReturn(r) {
			st.rets[key] = "err"
		}
	}
}

// retCond resolves a branch condition on the result of a call the path has been through.
func retCond(st *factState, cond ssa.Value) (known bool, val bool) {
	neg := false
	for {
		u, ok := cond.(*ssa.UnOp)
		if !ok || u.Op != token.NOT {
			break
		}
		neg = !neg
		cond = u.X
	}
	keyOf := func(v ssa.Value) (string, bool) {
		switch x := v.(type) {
		case *ssa.Call:
			return retKey(x, 0), true
		case *ssa.Extract:
			if c, ok := x.Tuple.(*ssa.Call); ok {
				return retKey(c, x.Index), true
			}
		}
		return "", false
	}
	if k, ok := keyOf(cond); ok {
		switch st.rets[k] {
		case "true":
			return true, !neg
		case "false":
			return true, neg
		}
		return false, false
	}
	if x, c, eq, ok := CondAtom(cond); ok && c.Value == nil {
		if k, ok := keyOf(x); ok {
			switch st.rets[k] {
			case "err": // x != nil
				return true, (!eq) != neg
			case "nil":
				return true, eq != neg
			}
		}
	}
	return false, false
}

// Search looks for a path from `from`; it returns the witness (list of
// points at block granularity plus the final point) or nil.
func (q *Query) Search(from Point) []Point {
	st := &factState{eq: map[string]string{}, neq: map[string]map[string]bool{}, rets: map[string]string{}}
	for k, v := range q.InitEq {
		st.eq[k] = v.ExactString()
	}
	for k, vs := range q.InitNeq {
		st.neq[k] = map[string]bool{}
		for _, v := range vs {
			st.neq[k][v] = true
		}
	}
	prevResolver := boolResolver
	defer func() { boolResolver = prevResolver }()
	boolResolver = func(v ssa.Value, facts *factState) (bool, bool) {
		neg := false
		for {
			u, ok := v.(*ssa.UnOp)
			if !ok || u.Op != token.NOT {
				break
			}
			neg = !neg
			v = u.X
		}
		if q.Assume != nil {
			if val, ok := q.Assume(v); ok {
				return val != neg, true
			}
		}
		if facts != nil {
			if x, c, eq, ok := CondAtom(v); ok {
				k := ValueKey(x)
				ck := ConstKey(c)
				if cur, has := facts.eq[k]; has {
					return ((cur == ck) == eq) != neg, true
				}
				if facts.neq[k][ck] {
					return (!eq) != neg, true
				}
			}
			if known, val := retCond(facts, v); known {
				return val != neg, true
			}
			if val, ok := predicateFact(facts, v); ok {
				return val != neg, true
			}
		}
		return false, false
	}
	visited := map[string]bool{}
	stack := []*searchNode{{pt: from, st: st}}
	for len(stack) > 0 {
		n := stack[len(stack)-1]
		stack = stack[:len(stack)-1]
		predIdx := -1
		if n.pred != nil && n.pt.I == 0 && len(n.pt.B.Instrs) > 0 {
			if _, isPhi := n.pt.B.Instrs[0].(*ssa.Phi); isPhi {
				predIdx = n.pred.Index
			}
		}
		key := fmt.Sprintf("%d^%s%s.%d.%d.%d|%s", n.up, n.fr.sig(), FuncKey(n.pt.B.Parent()), n.pt.B.Index, n.pt.I, predIdx, n.st.String())
		if visited[key] {
			continue
		}
		visited[key] = true

		b := n.pt.B
		blocked := false
		cur := n.st
		if n.pred != nil && n.pt.I == 0 {
			// boolean phis of this block take the value of the edge the path arrived over
			for _, pin := range b.Instrs {
				phi, isPhi := pin.(*ssa.Phi)
				if !isPhi {
					break
				}
				bt, isB := phi.Type().Underlying().(*types.Basic)
				if !isB || bt.Kind() != types.Bool {
					continue
				}
				var e ssa.Value
				for pi, p := range b.Preds {
					if p == n.pred && pi < len(phi.Edges) {
						e = phi.Edges[pi]
					}
				}
				if e == nil {
					continue
				}
				known, val := false, false
				if k, isC := e.(*ssa.Const); isC && k.Value != nil && k.Value.Kind() == constant.Bool {
					known, val = true, k.Value.ExactString() == "true"
				} else if v, has := cur.phis[ValueKey(e)]; has {
					known, val = true, v
				} else if boolResolver != nil {
					val, known = boolResolver(e, cur)
				}
				key := ValueKey(phi)
				if _, had := cur.phis[key]; had || known {
					cur = cur.clone()
					if cur.phis == nil {
						cur.phis = map[string]bool{}
					}
					if known {
						cur.phis[key] = val
					} else {
						delete(cur.phis, key)
					}
				}
			}
		}
		for i := n.pt.I; i < len(b.Instrs); i++ {
			in := b.Instrs[i]
			if n.fr != nil {
				if r, isRet := in.(*ssa.Return); isRet {
					// leave the callee: continue after the call site with the caller's facts and the classified result
					ns := n.fr.saved.clone()
					for k, v := range cur.rets {
						ns.rets[k] = v
					}
					classifyReturn(ns, n.fr.call, r, n.pred, cur)
					stack = append(stack, &searchNode{pt: After(n.fr.call), st: ns, parent: n, pred: n.fr.callerPred, fr: n.fr.parent, up: n.up})
					blocked = true
					break
				}
			}
			skip := q.SkipStart && n.parent == nil && n.fr == nil && b == from.B && i == from.I
			if q.Target != nil && !skip && q.Target(in) {
				return witness(n, Point{b, i})
			}
			if q.TargetReturn != nil && n.fr == nil {
				if r, isRet := in.(*ssa.Return); isRet {
					pred := n.pred
					val := func(v ssa.Value) (bool, bool) {
						v = unspill(r, v)
						if phi, ok := v.(*ssa.Phi); ok && phi.Block() == r.Block() && pred != nil && i == len(b.Instrs)-1 {
							for pi, p := range phi.Block().Preds {
								if p == pred {
									v = phi.Edges[pi]
								}
							}
						}
						if k, ok := v.(*ssa.Const); ok && k.Value != nil && k.Value.Kind() == constant.Bool {
							return true, k.Value.ExactString() == "true"
						}
						return retCond(cur, v)
					}
					if q.TargetReturn(r, val) {
						return witness(n, Point{b, i})
					}
				}
			}
			if q.Block != nil && !skip && q.Block(in) {
				blocked = true
				break
			}
			if r, isRet := in.(*ssa.Return); isRet && n.fr == nil && q.Ascend > 0 && n.up < q.Ascend {
				for _, cs := range CallersOf(b.Parent()) {
					ns := &factState{eq: map[string]string{}, neq: map[string]map[string]bool{}, rets: map[string]string{}}
					for k, v := range cur.rets {
						ns.rets[k] = v
					}
					classifyReturn(ns, cs, r, n.pred, cur)
					stack = append(stack, &searchNode{pt: After(cs), st: ns, parent: n, up: n.up + 1})
				}
				blocked = true
				break
			}
			if q.Facts {
				cur = killFacts(cur, in)
				// a pointer whose field is addressed here is not nil on the rest of the path
				if fa, ok := in.(*ssa.FieldAddr); ok {
					if _, isPtr := fa.X.Type().Underlying().(*types.Pointer); isPtr {
						if k := ValueKey(fa.X); !strings.HasPrefix(k, "?") {
							if ns, feasible := cur.apply(k, "nil", false, nil); feasible {
								cur = ns
							}
						}
					}
				}
			}
			if q.Deep > 0 {
				if call, isCall := in.(*ssa.Call); isCall {
					depth := 0
					if n.fr != nil {
						depth = n.fr.depth
					}
					if g := StaticCallee(&call.Call); g != nil && depth < q.Deep && InModule(g) && len(g.Blocks) > 0 && g != b.Parent() && g != from.B.Parent() && !n.fr.onStack(g) && (q.Descend == nil || q.Descend(g)) {
						ns := translateFacts(cur, call, g)
						stack = append(stack, &searchNode{pt: Entry(g), st: ns, parent: n, fr: &frame{call: call, callee: g, parent: n.fr, saved: cur, callerPred: n.pred, depth: depth + 1}, up: n.up})
						blocked = true
						break
					}
				}
			}
		}
		if cur != n.st {
			n = &searchNode{pt: n.pt, st: cur, parent: n.parent, pred: n.pred, fr: n.fr, up: n.up}
		}
		if blocked {
			continue
		}
		if len(b.Succs) == 0 {
			continue
		}
		last := b.Instrs[len(b.Instrs)-1]
		ifi, isIf := last.(*ssa.If)
		for si, succ := range b.Succs {
			st2 := n.st
			if isIf {
				want := si == 0
				pc, known, kval := pathCond(ifi, n.pred)
				if !known && len(n.st.rets) > 0 {
					known, kval = retCond(n.st, pc)
				}
				if !known && len(n.st.phis) > 0 {
					pv, pneg := pc, false
					for {
						u, ok := pv.(*ssa.UnOp)
						if !ok || u.Op != token.NOT {
							break
						}
						pneg, pv = !pneg, u.X
					}
					if v, has := n.st.phis[ValueKey(pv)]; has {
						known, kval = true, v != pneg
					}
				}
				if known && kval != want {
					continue
				}
				if q.Assume != nil && !known {
					if val, ok := q.Assume(pc); ok && val != want {
						continue
					}
				}
				if q.Facts && !known {
					pv, pneg := pc, false
					for {
						u, ok := pv.(*ssa.UnOp)
						if !ok || u.Op != token.NOT {
							break
						}
						pneg, pv = !pneg, u.X
					}
					if val, ok := predicateFact(n.st, pv); ok && (val != pneg) != want {
						continue
					}
				}
				if q.Facts {
					if sl, pre, ok := rangeHeader(ifi); ok {
						k := "len:" + AP(sl)
						feasible := true
						if want { // body entered: the slice is not empty
							st2, feasible = n.st.apply(k, "0", false, nil)
						} else if n.pred == pre { // left before the first iteration: empty
							st2, feasible = n.st.apply(k, "0", true, nil)
						}
						if !feasible {
							continue
						}
					}
					if x, c, eq, ok := CondAtom(pc); ok && !known {
						k := ValueKey(x)
						var enumAll []string
						if !(eq == want) { // learning a disequality
							enumAll = EnumConstants(x.Type())
						}
						var feasible bool
						st2, feasible = st2.apply(k, ConstKey(c), eq == want, enumAll)
						if !feasible {
							continue
						}
					}
				}
			}
			if q.BlockEdge != nil && q.BlockEdge(b, si) {
				continue
			}
			if q.TargetEdge != nil && q.TargetEdge(b, si) {
				return witness(&searchNode{pt: Point{succ, 0}, st: st2, parent: n, pred: b, fr: n.fr, up: n.up}, Point{succ, 0})
			}
			stack = append(stack, &searchNode{pt: Point{succ, 0}, st: st2, parent: n, pred: b, fr: n.fr, up: n.up})
		}
	}
	return nil
}

func witness(n *searchNode, final Point) []Point {
	var rev []Point
	rev = append(rev, final)
	for x := n; x != nil; x = x.parent {
		rev = append(rev, x.pt)
	}
	out := make([]Point, 0, len(rev))
	for i := len(rev) - 1; i >= 0; i-- {
		out = append(out, rev[i])
	}
	return out
}

// PathString renders a witness path as block indices with source lines.
func (p *Prog) PathString(path []Point) string {
	var parts []string
	lastLine := ""
	for _, pt := range path {
		in := pt.Instr()
		pos := "-"
		if in != nil {
			pos = p.InstrPos(in)
		}
		s := fmt.Sprintf("b%d(%s)", pt.B.Index, pos)
		if len(path) > 0 && pt.B.Parent() != path[0].B.Parent() {
			s = FuncKey(pt.B.Parent()) + ":" + s
		}
		if s != lastLine {
			parts = append(parts, s)
		}
		lastLine = s
	}
	return strings.Join(parts, "→")
}

// ValueKey gives a key identifying "the same runtime value" for fact
// tracking: the access path when the value is a load of a field chain or a
// parameter, otherwise the SSA name scoped by function.
func ValueKey(v ssa.Value) string {
	return AP(v)
}

// IsReturn / helpers ---------------------------------------------------------

// Returns lists the Return instructions of a function.
func Returns(f *ssa.Function) []*ssa.Return {
	var out []*ssa.Return
	for _, b := range f.Blocks {
		if len(b.Instrs) == 0 || b == f.Recover {
			continue
		}
		if r, ok := b.Instrs[len(b.Instrs)-1].(*ssa.Return); ok {
			out = append(out, r)
		}
	}
	return out
}

// ErrorResultIndex returns the index of the last result if it has type error, else -1.
func ErrorResultIndex(f *ssa.Function) int {
	res := f.Signature.Results()
	if res.Len() == 0 {
		return -1
	}
	last := res.At(res.Len() - 1).Type()
	if types.Identical(last, types.Universe.Lookup("error").Type()) {
		return res.Len() - 1
	}
	return -1
}

// IsNilConst reports whether v is the nil constant (possibly of interface type).
func IsNilConst(v ssa.Value) bool {
	c, ok := v.(*ssa.Const)
	return ok && c.Value == nil
}

// IsSuccessReturn: a return whose error result is absent or the nil constant.
// A return whose error operand is a phi is successful if some incoming edge is nil
// (conservative: treated as possibly successful).
func IsSuccessReturn(r *ssa.Return) bool {
	f := r.Parent()
	ei := ErrorResultIndex(f)
	if ei < 0 {
		return true
	}
	return !IsErrorReturn(r)
}

func mayBeNil(v ssa.Value, seen map[ssa.Value]bool) bool {
	if seen[v] {
		return false
	}
	seen[v] = true
	switch x := v.(type) {
	case *ssa.Const:
		return x.Value == nil
	case *ssa.Phi:
		for _, e := range x.Edges {
			if mayBeNil(e, seen) {
				return true
			}
		}
		return false
	case *ssa.MakeInterface:
		return false
	case *ssa.Call:
		// result of an error constructor is non-nil; anything else may be nil
		if callee := x.Call.StaticCallee(); callee != nil {
			n := callee.String()
			if n == "fmt.Errorf" || n == "errors.New" {
				return false
			}
			// a helper of the module that builds the error: every return of it hands out a non-nil value
			// (func errRule(val string) error { return fmt.Errorf(...) })
			if len(callee.Blocks) > 0 && callee.Signature.Results().Len() == 1 && !seen[callee] {
				seen[callee] = true
				rets := Returns(callee)
				if len(rets) == 0 {
					return true
				}
				for _, r := range rets {
					if len(r.Results) != 1 || mayBeNil(unspill(r, r.Results[0]), seen) {
						return true
					}
				}
				return false
			}
		}
		return true
	case *ssa.Extract:
		return true
	case *ssa.UnOp:
		return true // load from a cell (named result)
	}
	return true
}

// IsErrorReturn: a return whose error operand is certainly non-nil on this
// return: an error constructor result, or a value that flowed here only over
// the true edge of its `!= nil` test.
func IsErrorReturn(r *ssa.Return) bool {
	f := r.Parent()
	ei := ErrorResultIndex(f)
	if ei < 0 {
		return false
	}
	v := unspill(r, r.Results[ei])
	if !mayBeNil(v, map[ssa.Value]bool{}) {
		return true
	}
	// dominated by the true edge of v != nil ?
	q := &Query{
		Target: func(in ssa.Instruction) bool { return in == ssa.Instruction(r) },
		BlockEdge: func(b *ssa.BasicBlock, succ int) bool {
			ifi, ok := b.Instrs[len(b.Instrs)-1].(*ssa.If)
			if !ok {
				return false
			}
			x, c, eq, ok := CondAtom(ifi.Cond)
			if !ok || c.Value != nil || !sameValue(x, v) {
				return false
			}
			// edge on which v != nil holds
			nonNilEdge := 0
			if eq { // cond is v == nil: non-nil on false edge
				nonNilEdge = 1
			}
			return succ == nonNilEdge
		},
	}
	return q.Search(Entry(f)) == nil
}

func sameValue(a, b ssa.Value) bool {
	if a == b {
		return true
	}
	return AP(a) == AP(b) && !strings.HasPrefix(AP(a), "?")
}

// DominatedByEdge reports whether every path from the function entry to `in`
// passes an edge accepted by pred.
func DominatedByEdge(in ssa.Instruction, pred func(b *ssa.BasicBlock, succ int) bool) bool {
	q := &Query{
		Target:    func(x ssa.Instruction) bool { return x == in },
		BlockEdge: pred,
	}
	return q.Search(Entry(in.Parent())) == nil
}

// DominatedByInstr reports whether every path from entry to `in` passes an
// instruction accepted by pred.
func DominatedByInstr(in ssa.Instruction, pred func(x ssa.Instruction) bool) bool {
	q := &Query{
		Target: func(x ssa.Instruction) bool { return x == in },
		Block:  func(x ssa.Instruction) bool { return x != in && pred(x) },
	}
	return q.Search(Entry(in.Parent())) == nil
}

// EdgeCond returns the If condition controlling the edge b->succ, or nil.
func EdgeCond(b *ssa.BasicBlock, succ int) (cond ssa.Value, onTrue bool) {
	if len(b.Instrs) == 0 {
		return nil, false
	}
	ifi, ok := b.Instrs[len(b.Instrs)-1].(*ssa.If)
	if !ok {
		return nil, false
	}
	// a short-circuit phi: on the true edge of `a && b` the last conjunct
	// holds, on the false edge of `a || b` the last disjunct does not
	if phi, isPhi := ifi.Cond.(*ssa.Phi); isPhi && phi.Block() == b {
		var last ssa.Value
		allConst := func(want string) bool {
			ok := true
			n := 0
			for _, e := range phi.Edges {
				if k, isC := e.(*ssa.Const); isC && k.Value != nil {
					if k.Value.ExactString() != want {
						ok = false
					}
				} else {
					n++
					last = e
				}
			}
			return ok && n == 1
		}
		if succ == 0 && allConst("false") {
			return last, true
		}
		if succ == 1 && allConst("true") {
			return last, false
		}
	}
	return ifi.Cond, succ == 0
}

// rangeHeader recognises the header of a range-over-slice loop:
//   i = phi [pre: -1, ...]; j = i + 1; if j < len(S) goto body else done
// and returns S and the pre-header block.
func rangeHeader(ifi *ssa.If) (slice ssa.Value, pre *ssa.BasicBlock, ok bool) {
	cmp, isB := ifi.Cond.(*ssa.BinOp)
	if !isB || cmp.Op != token.LSS {
		return nil, nil, false
	}
	add, isB := cmp.X.(*ssa.BinOp)
	if !isB || add.Op != token.ADD {
		return nil, nil, false
	}
	phi, isPhi := add.X.(*ssa.Phi)
	if !isPhi || phi.Block() != ifi.Block() {
		return nil, nil, false
	}
	call, isCall := cmp.Y.(*ssa.Call)
	if !isCall {
		return nil, nil, false
	}
	if bi, isBi := call.Call.Value.(*ssa.Builtin); !isBi || bi.Name() != "len" {
		return nil, nil, false
	}
	for i, e := range phi.Edges {
		if k, isC := e.(*ssa.Const); isC && k.Value != nil && k.Int64() == -1 {
			pre = phi.Block().Preds[i]
		}
	}
	if pre == nil {
		return nil, nil, false
	}
	return call.Call.Args[0], pre, true
}

// RangeLoopOf returns, for an element load `S[i]` of a range-over-slice loop,
// the loop header If, the slice and whether v is such an element.
func RangeLoopOf(v ssa.Value) (hdr *ssa.If, slice ssa.Value, ok bool) {
	u, isU := v.(*ssa.UnOp)
	if !isU || u.Op != token.MUL {
		return nil, nil, false
	}
	ia, isIA := u.X.(*ssa.IndexAddr)
	if !isIA {
		return nil, nil, false
	}
	add, isB := ia.Index.(*ssa.BinOp)
	if !isB {
		return nil, nil, false
	}
	phi, isPhi := add.X.(*ssa.Phi)
	if !isPhi {
		return nil, nil, false
	}
	hb := phi.Block()
	ifi, isIf := hb.Instrs[len(hb.Instrs)-1].(*ssa.If)
	if !isIf {
		return nil, nil, false
	}
	sl, _, isR := rangeHeader(ifi)
	if !isR {
		return nil, nil, false
	}
	return ifi, sl, true
}

// killFacts drops facts about values that instruction `in` (re)defines:
// element loads of range loops, map-range extractions, phis and stores.
func killFacts(s *factState, in ssa.Instruction) *factState {
	if len(s.eq) == 0 && len(s.neq) == 0 {
		return s
	}
	var key string
	switch x := in.(type) {
	case *ssa.Store:
		key = AP(x.Addr)
	case *ssa.Phi:
		key = "phi:" + x.Name()
	case *ssa.UnOp:
		if x.Op == token.MUL {
			if _, isIA := x.X.(*ssa.IndexAddr); isIA {
				key = AP(x)
			}
		}
	case *ssa.Next:
		key = AP(x)
	}
	if key == "" || strings.HasPrefix(key, "?") {
		return s
	}
	hit := false
	for k := range s.eq {
		if APHasPrefix(k, key) {
			hit = true
		}
	}
	for k := range s.neq {
		if APHasPrefix(k, key) {
			hit = true
		}
	}
	if !hit {
		return s
	}
	n := s.clone()
	for k := range n.eq {
		if APHasPrefix(k, key) {
			delete(n.eq, k)
		}
	}
	for k := range n.neq {
		if APHasPrefix(k, key) {
			delete(n.neq, k)
		}
	}
	return n
}

// unspill looks through the result cell go/ssa introduces in functions with
// defers: `*cell = v; rundefers; t = *cell; return t`.
func unspill(r *ssa.Return, v ssa.Value) ssa.Value {
	u, ok := v.(*ssa.UnOp)
	if !ok || u.Op != token.MUL {
		return v
	}
	al, ok := u.X.(*ssa.Alloc)
	if !ok {
		return v
	}
	var last ssa.Value
	for _, in := range r.Block().Instrs {
		if st, ok := in.(*ssa.Store); ok && st.Addr == ssa.Value(al) {
			last = st.Val
		}
		if in == ssa.Instruction(u) {
			break
		}
	}
	if last != nil {
		return last
	}
	return v
}

// ReturnValue returns result #i of a return, looking through defer spills.
func ReturnValue(r *ssa.Return, i int) ssa.Value { return unspill(r, r.Results[i]) }

// pathCond evaluates the condition of an If for a path that arrived from
// pred: a short-circuit phi (a && b, a || b used as a value) is resolved to the
// incoming edge's value.  known=true when that value is a boolean constant.
func pathCond(ifi *ssa.If, pred *ssa.BasicBlock) (cond ssa.Value, known bool, val bool) {
	cond = ifi.Cond
	for depth := 0; depth < 4; depth++ {
		phi, ok := cond.(*ssa.Phi)
		if !ok || phi.Block() != ifi.Block() || pred == nil {
			return cond, false, false
		}
		var e ssa.Value
		for i, p := range phi.Block().Preds {
			if p == pred {
				e = phi.Edges[i]
			}
		}
		if e == nil {
			return cond, false, false
		}
		if k, ok := e.(*ssa.Const); ok && k.Value != nil {
			return cond, true, k.Value.ExactString() == "true"
		}
		cond = e
	}
	return cond, false, false
}

// DominatedByEdgeDeep: from the entry of every root, every (interprocedural, depth-bounded) path to `in` passes an
// edge accepted by pred.  With no roots the instruction's own function is the root.
func DominatedByEdgeDeep(roots []*ssa.Function, in ssa.Instruction, pred func(b *ssa.BasicBlock, succ int) bool, deep int) bool {
	if len(roots) == 0 {
		roots = []*ssa.Function{in.Parent()}
	}
	for _, r := range roots {
		d := deep
		if r == in.Parent() {
			d = 0
		}
		q := &Query{Target: func(x ssa.Instruction) bool { return x == in }, BlockEdge: pred, Deep: d, Facts: d > 0}
		if q.Search(Entry(r)) != nil {
			return false
		}
	}
	return true
}

// DominatedByInstrDeep: every path from a root's entry to `in` passes an instruction accepted by pred.
func DominatedByInstrDeep(roots []*ssa.Function, in ssa.Instruction, pred func(x ssa.Instruction) bool, deep int) bool {
	if len(roots) == 0 {
		roots = []*ssa.Function{in.Parent()}
	}
	for _, r := range roots {
		d := deep
		if r == in.Parent() {
			d = 0
		}
		q := &Query{Target: func(x ssa.Instruction) bool { return x == in }, Block: func(x ssa.Instruction) bool { return x != in && pred(x) }, Deep: d, Facts: d > 0}
		if q.Search(Entry(r)) != nil {
			return false
		}
	}
	return true
}


var callersIndex map[*ssa.Function][]*ssa.Call
var callersProg *ssa.Program

// RegisterCallers indexes the (non-deferred) static call sites of every function of the loaded program.
func RegisterCallers(funcs []*ssa.Function) {
	callersIndex = map[*ssa.Function][]*ssa.Call{}
	for _, f := range funcs {
		AllInstrs(f, func(in ssa.Instruction) {
			if call, ok := in.(*ssa.Call); ok {
				if g := StaticCallee(&call.Call); g != nil {
					callersIndex[g] = append(callersIndex[g], call)
				}
			}
		})
	}
}

// CallersOf: the static call sites of f (after RegisterCallers).
func CallersOf(f *ssa.Function) []*ssa.Call { return callersIndex[Origin(f)] }

// predicateFact: the condition is a call g(x) of a one-parameter boolean function of the module whose argument is
// known to equal a constant, and g is a pure test of its parameter against constants (isDerivedMethod(m)): the call
// is evaluated with that constant.
func predicateFact(facts *factState, v ssa.Value) (bool, bool) {
	call, ok := v.(*ssa.Call)
	if !ok || facts == nil || len(call.Call.Args) != 1 || call.Call.IsInvoke() {
		return false, false
	}
	g := StaticCallee(&call.Call)
	if g == nil || !IsLibrary(g) || len(g.Params) != 1 {
		return false, false
	}
	cur, has := facts.eq[ValueKey(call.Call.Args[0])]
	if !has {
		return false, false
	}
	return EvalConstPredicate(Origin(g), cur)
}

// EvalConstPredicate evaluates a function that only compares its single parameter with constants (==, !=, &&, ||,
// !) for the parameter value with constant key argKey; ok=false when the function does anything else.
func EvalConstPredicate(g *ssa.Function, argKey string) (bool, bool) {
	if g == nil || len(g.Blocks) == 0 || len(g.Params) != 1 {
		return false, false
	}
	env := map[ssa.Value]string{g.Params[0]: argKey}
	val := func(v ssa.Value) (string, bool) {
		if c, ok := v.(*ssa.Const); ok {
			return ConstKey(c), true
		}
		s, ok := env[v]
		return s, ok
	}
	var prev *ssa.BasicBlock
	b := g.Blocks[0]
	for steps := 0; steps < 200; steps++ {
		var next *ssa.BasicBlock
		for _, in := range b.Instrs {
			switch x := in.(type) {
			case *ssa.Phi:
				found := false
				for i, p := range b.Preds {
					if p == prev {
						s, ok := val(x.Edges[i])
						if !ok {
							return false, false
						}
						env[x] = s
						found = true
					}
				}
				if !found {
					return false, false
				}
			case *ssa.BinOp:
				if x.Op != token.EQL && x.Op != token.NEQ {
					return false, false
				}
				l, ok1 := val(x.X)
				r, ok2 := val(x.Y)
				if !ok1 || !ok2 {
					return false, false
				}
				env[x] = fmt.Sprint((l == r) == (x.Op == token.EQL))
			case *ssa.UnOp:
				if x.Op != token.NOT {
					return false, false
				}
				s, ok := val(x.X)
				if !ok {
					return false, false
				}
				env[x] = fmt.Sprint(s != "true")
			case *ssa.If:
				s, ok := val(x.Cond)
				if !ok {
					return false, false
				}
				if s == "true" {
					next = b.Succs[0]
				} else {
					next = b.Succs[1]
				}
			case *ssa.Jump:
				next = b.Succs[0]
			case *ssa.Return:
				if len(x.Results) != 1 {
					return false, false
				}
				s, ok := val(x.Results[0])
				if !ok || (s != "true" && s != "false") {
					return false, false
				}
				return s == "true", true
			case *ssa.DebugRef:
			default:
				return false, false
			}
		}
		if next == nil {
			return false, false
		}
		prev, b = b, next
	}
	return false, false
}
