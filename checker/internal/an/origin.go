package an

import (
	"fmt"
	"go/token"
	"go/types"
	"sort"
	"strings"

	"golang.org/x/tools/go/ssa"
)

// Term is the ORIGIN of a value: a small expression tree over the leaves
// parameter / receiver / field load / constant / call result / allocation.
type Term struct {
	Op   string // const param recv load free global call concat slice phi list struct closure lookup extract binop unop convert make cycle unknown field index len
	S    string // constant value, name, access path, callee, operator, type name
	Args []*Term
	Names []string // field names for struct terms (parallel to Args)
	V    ssa.Value
}

func (t *Term) String() string {
	if t == nil {
		return "<nil>"
	}
	var b strings.Builder
	t.write(&b, 0)
	return b.String()
}

func (t *Term) write(b *strings.Builder, depth int) {
	if depth > 12 {
		b.WriteString("…")
		return
	}
	switch t.Op {
	case "const":
		b.WriteString(t.S)
		return
	case "param":
		b.WriteString("param:" + t.S)
		return
	case "recv":
		b.WriteString("recv")
		return
	case "load", "free", "global":
		b.WriteString(t.S)
		return
	}
	b.WriteString(t.Op)
	if t.S != "" {
		b.WriteString("<" + t.S + ">")
	}
	b.WriteString("(")
	for i, a := range t.Args {
		if i > 0 {
			b.WriteString(", ")
		}
		if i < len(t.Names) && t.Names[i] != "" {
			b.WriteString(t.Names[i] + ":")
		}
		a.write(b, depth+1)
	}
	b.WriteString(")")
}

// APOf returns the access path of a term that denotes a location chain.
func (t *Term) APOf() (string, bool) {
	switch t.Op {
	case "recv":
		return "recv", true
	case "param":
		return "p:" + t.S, true
	case "load", "free", "global", "addr":
		return t.S, true
	case "call", "phi":
		if t.V != nil {
			if a := AP(t.V); !strings.HasPrefix(a, "?") {
				return a, true
			}
		}
	}
	return "", false
}

// Leaves collects the leaves of a term.
func (t *Term) Leaves() []*Term {
	if len(t.Args) == 0 {
		return []*Term{t}
	}
	var out []*Term
	for _, a := range t.Args {
		out = append(out, a.Leaves()...)
	}
	return out
}

// Walk visits all sub-terms.
func (t *Term) Walk(fn func(*Term)) {
	fn(t)
	for _, a := range t.Args {
		a.Walk(fn)
	}
}

// Originator builds terms with bounded inlining of small module functions.
type Originator struct {
	Prog        *Prog
	InlineDepth int
	Inlined     map[string]bool
	pure        map[*ssa.Function]bool
}

func NewOriginator(p *Prog) *Originator {
	return &Originator{Prog: p, InlineDepth: 3, Inlined: map[string]bool{}}
}

type octx struct {
	seen  map[ssa.Value]bool
	depth int // inlining depth
	at    ssa.Instruction
}

// Of computes the origin term of a value.
func (o *Originator) Of(v ssa.Value) *Term {
	return o.of(v, &octx{seen: map[ssa.Value]bool{}})
}

func cstr(c *ssa.Const) string {
	if c.Value == nil {
		return "nil"
	}
	return c.Value.ExactString()
}

func (o *Originator) of(v ssa.Value, c *octx) *Term {
	if v == nil {
		return &Term{Op: "unknown", S: "nil"}
	}
	if c.seen[v] {
		return &Term{Op: "cycle", S: v.Name(), V: v}
	}
	switch x := v.(type) {
	case *ssa.Const:
		return &Term{Op: "const", S: cstr(x), V: v}
	case *ssa.Parameter:
		if AP(x) == "recv" {
			return &Term{Op: "recv", V: v}
		}
		return &Term{Op: "param", S: x.Name(), V: v}
	case *ssa.FreeVar:
		return &Term{Op: "free", S: "free:" + x.Name(), V: v}
	case *ssa.Global:
		return &Term{Op: "global", S: AP(x), V: v}
	case *ssa.Function:
		return &Term{Op: "func", S: FuncKey(x), V: v}
	case *ssa.Builtin:
		return &Term{Op: "func", S: "builtin:" + x.Name(), V: v}
	}
	c.seen[v] = true
	defer delete(c.seen, v)

	switch x := v.(type) {
	case *ssa.UnOp:
		if x.Op == token.MUL {
			return o.load(x, c)
		}
		return &Term{Op: "unop", S: x.Op.String(), Args: []*Term{o.of(x.X, c)}, V: v}
	case *ssa.FieldAddr:
		return &Term{Op: "addr", S: AP(x), V: v}
	case *ssa.Field:
		base := o.of(x.X, c)
		fn := FieldName(x.X.Type(), x.Field)
		if a, ok := base.APOf(); ok {
			return &Term{Op: "load", S: a + "." + fn, V: v}
		}
		return &Term{Op: "field", S: fn, Args: []*Term{base}, V: v}
	case *ssa.BinOp:
		if x.Op == token.ADD {
			if bt, ok := x.Type().Underlying().(*types.Basic); ok && bt.Info()&types.IsString != 0 {
				l, r := o.of(x.X, c), o.of(x.Y, c)
				t := &Term{Op: "concat", V: v}
				for _, s := range []*Term{l, r} {
					if s.Op == "concat" {
						t.Args = append(t.Args, s.Args...)
					} else {
						t.Args = append(t.Args, s)
					}
				}
				return t
			}
		}
		return &Term{Op: "binop", S: x.Op.String(), Args: []*Term{o.of(x.X, c), o.of(x.Y, c)}, V: v}
	case *ssa.Phi:
		t := &Term{Op: "phi", S: x.Name(), V: v}
		for _, e := range x.Edges {
			t.Args = append(t.Args, o.of(e, c))
		}
		return t
	case *ssa.Call:
		return o.call(x, c)
	case *ssa.Extract:
		tt := o.of(x.Tuple, c)
		if tt.Op == "tuple" && x.Index < len(tt.Args) {
			return tt.Args[x.Index]
		}
		return &Term{Op: "extract", S: fmt.Sprint(x.Index), Args: []*Term{tt}, V: v}
	case *ssa.Lookup:
		return &Term{Op: "lookup", Args: []*Term{o.of(x.X, c), o.of(x.Index, c)}, V: v}
	case *ssa.Index:
		return &Term{Op: "index", Args: []*Term{o.of(x.X, c), o.of(x.Index, c)}, V: v}
	case *ssa.IndexAddr:
		return &Term{Op: "indexaddr", Args: []*Term{o.of(x.X, c), o.of(x.Index, c)}, V: v}
	case *ssa.Slice:
		if al, ok := x.X.(*ssa.Alloc); ok && x.Low == nil && x.High == nil {
			if lst := o.packedList(al, c); lst != nil {
				lst.V = v
				return lst
			}
		}
		t := &Term{Op: "slice", V: v, Args: []*Term{o.of(x.X, c)}}
		for _, b := range []ssa.Value{x.Low, x.High} {
			if b == nil {
				t.Args = append(t.Args, &Term{Op: "const", S: "-"})
			} else {
				t.Args = append(t.Args, o.of(b, c))
			}
		}
		return t
	case *ssa.Alloc:
		return o.alloc(x, c)
	case *ssa.MakeInterface:
		return o.of(x.X, c)
	case *ssa.ChangeType:
		return o.of(x.X, c)
	case *ssa.ChangeInterface:
		return o.of(x.X, c)
	case *ssa.TypeAssert:
		return &Term{Op: "assert", S: types.TypeString(x.AssertedType, nil), Args: []*Term{o.of(x.X, c)}, V: v}
	case *ssa.Convert:
		return &Term{Op: "convert", S: shortType(x.Type()), Args: []*Term{o.of(x.X, c)}, V: v}
	case *ssa.MakeClosure:
		t := &Term{Op: "closure", S: FuncKey(x.Fn.(*ssa.Function)), V: v}
		for _, b := range x.Bindings {
			t.Args = append(t.Args, o.of(b, c))
		}
		return t
	case *ssa.MakeMap:
		return &Term{Op: "make", S: "map", V: v}
	case *ssa.MakeSlice:
		return &Term{Op: "make", S: "slice", Args: []*Term{o.of(x.Len, c)}, V: v}
	case *ssa.Range:
		return &Term{Op: "range", Args: []*Term{o.of(x.X, c)}, V: v}
	case *ssa.Next:
		return &Term{Op: "next", Args: []*Term{o.of(x.Iter, c)}, V: v}
	}
	return &Term{Op: "unknown", S: fmt.Sprintf("%T:%s", v, v.Name()), V: v}
}

func shortType(t types.Type) string {
	return types.TypeString(t, func(p *types.Package) string { return p.Name() })
}

// load resolves a load: of a field chain (access path), of a local cell (the
// stores into it), of a captured variable.
func (o *Originator) load(x *ssa.UnOp, c *octx) *Term {
	switch a := x.X.(type) {
	case *ssa.Alloc:
		// local cell: union of the stored values
		var stores []*ssa.Store
		for _, r := range *a.Referrers() {
			if st, ok := r.(*ssa.Store); ok && st.Addr == ssa.Value(a) {
				stores = append(stores, st)
			}
		}
		if len(stores) == 1 {
			return o.of(stores[0].Val, c)
		}
		if len(stores) > 1 {
			t := &Term{Op: "phi", S: "cell:" + a.Comment, V: x}
			for _, st := range stores {
				t.Args = append(t.Args, o.of(st.Val, c))
			}
			return t
		}
		return &Term{Op: "load", S: AP(x), V: x}
	case *ssa.FreeVar:
		return &Term{Op: "free", S: "free:" + a.Name(), V: x}
	case *ssa.Global:
		return &Term{Op: "global", S: AP(a), V: x}
	case *ssa.IndexAddr:
		base := o.of(a.X, c)
		if p, ok := base.APOf(); ok {
			return &Term{Op: "load", S: p + "[]", V: x}
		}
		return &Term{Op: "elem", Args: []*Term{base, o.of(a.Index, c)}, V: x}
	case *ssa.FieldAddr:
		// field of a fresh composite literal in this function: the stored value
		if al, ok := a.X.(*ssa.Alloc); ok {
			var stores []*ssa.Store
			for _, r := range *al.Referrers() {
				if fa, ok := r.(*ssa.FieldAddr); ok && fa.Field == a.Field {
					for _, rr := range *fa.Referrers() {
						if st, ok := rr.(*ssa.Store); ok && st.Addr == ssa.Value(fa) {
							stores = append(stores, st)
						}
					}
				}
			}
			if len(stores) == 1 {
				return o.of(stores[0].Val, c)
			}
			return &Term{Op: "load", S: AP(x), V: x}
		}
		base := o.of(a.X, c)
		fn := FieldName(a.X.Type(), a.Field)
		if p, ok := base.APOf(); ok {
			return &Term{Op: "load", S: p + "." + fn, V: x}
		}
		return &Term{Op: "field", S: fn, Args: []*Term{base}, V: x}
	}
	return &Term{Op: "load", S: AP(x), V: x}
}

// packedList recognises variadic packing: new [n]T (varargs) + indexed stores + full slice.
func (o *Originator) packedList(al *ssa.Alloc, c *octx) *Term {
	arr, ok := al.Type().Underlying().(*types.Pointer).Elem().Underlying().(*types.Array)
	if !ok {
		return nil
	}
	elems := make([]*Term, arr.Len())
	for _, r := range *al.Referrers() {
		ia, ok := r.(*ssa.IndexAddr)
		if !ok {
			continue
		}
		k, ok := ia.Index.(*ssa.Const)
		if !ok {
			return nil
		}
		idx := int(k.Int64())
		for _, rr := range *ia.Referrers() {
			if st, ok := rr.(*ssa.Store); ok && st.Addr == ssa.Value(ia) {
				if idx < len(elems) {
					elems[idx] = o.of(st.Val, c)
				}
			}
		}
	}
	t := &Term{Op: "list"}
	for _, e := range elems {
		if e == nil {
			e = &Term{Op: "unknown", S: "unset"}
		}
		t.Args = append(t.Args, e)
	}
	return t
}

// alloc: composite literal → struct term with the stored fields.
func (o *Originator) alloc(al *ssa.Alloc, c *octx) *Term {
	elem := al.Type().Underlying().(*types.Pointer).Elem()
	if st := structOf(elem); st != nil {
		t := &Term{Op: "struct", S: shortTypeName(elem), V: al}
		type fs struct {
			idx int
			val *Term
		}
		var fields []fs
		type promoted struct {
			name string
			val  *Term
		}
		var proms []promoted
		for _, r := range *al.Referrers() {
			fa, ok := r.(*ssa.FieldAddr)
			if !ok {
				continue
			}
			for _, rr := range *fa.Referrers() {
				if s, ok := rr.(*ssa.Store); ok && s.Addr == ssa.Value(fa) {
					fields = append(fields, fs{fa.Field, o.of(s.Val, c)})
				}
				// fields of an embedded struct value of the module are fields of this struct (promotion)
				if inner, ok := rr.(*ssa.FieldAddr); ok && fieldEmbeddedStruct(al.Type(), fa.Field) {
					for _, r3 := range *inner.Referrers() {
						if s, ok := r3.(*ssa.Store); ok && s.Addr == ssa.Value(inner) {
							proms = append(proms, promoted{FieldName(inner.X.Type(), inner.Field), o.of(s.Val, c)})
						}
					}
				}
			}
		}
		sort.SliceStable(fields, func(i, j int) bool { return fields[i].idx < fields[j].idx })
		for _, f := range fields {
			t.Args = append(t.Args, f.val)
			t.Names = append(t.Names, st.Field(f.idx).Name())
		}
		for _, pf := range proms {
			t.Args = append(t.Args, pf.val)
			t.Names = append(t.Names, pf.name)
		}
		return t
	}
	if al.Comment != "" && al.Comment != "complit" && al.Comment != "new" && al.Comment != "varargs" {
		return &Term{Op: "cell", S: al.Comment, V: al}
	}
	return &Term{Op: "alloc", S: shortTypeName(elem), V: al}
}

func shortTypeName(t types.Type) string {
	t = types.Unalias(t)
	if n, ok := t.(*types.Named); ok {
		return n.Obj().Name()
	}
	return shortType(t)
}

// call: result of a call; small pure module functions are inlined (depth-bounded).
func (o *Originator) call(x *ssa.Call, c *octx) *Term {
	name := CalleeName(&x.Call)
	args := CallArgs(&x.Call)
	t := &Term{Op: "call", S: name, V: x}
	for _, a := range args {
		t.Args = append(t.Args, o.of(a, c))
	}
	callee := StaticCallee(&x.Call)
	if callee != nil && InModule(callee) && c.depth < o.InlineDepth {
		if rt := o.inlinePure(callee, t.Args, c); rt != nil {
			o.Inlined[FuncKey(callee)] = true
			// a closure: its free variables are the bindings of the MakeClosure (cells of the enclosing function)
			if mc := closureOf(x.Call.Value); mc != nil {
				fn := mc.Fn.(*ssa.Function)
				free := map[string]*Term{}
				for i, b := range mc.Bindings {
					if i >= len(fn.FreeVars) {
						break
					}
					var bt *Term
					if al, ok := b.(*ssa.Alloc); ok {
						bt = o.cellValue(al, c)
					} else {
						bt = o.of(b, c)
					}
					free["free:"+fn.FreeVars[i].Name()] = bt
				}
				rt = substituteFree(rt, free)
			}
			rt.V = x
			return rt
		}
	}
	return t
}

// isPure: the function has no side effects — no stores to non-local memory, no map updates, no defers, only
// calls of pure functions (recursively, module functions included).
func (o *Originator) isPure(f *ssa.Function, visiting map[*ssa.Function]bool) bool {
	if o.pure == nil {
		o.pure = map[*ssa.Function]bool{}
	}
	if v, ok := o.pure[f]; ok {
		return v
	}
	if visiting[f] || len(f.Blocks) == 0 || len(f.Blocks) > 12 {
		return false
	}
	visiting[f] = true
	defer delete(visiting, f)
	ok := true
	for _, b := range f.Blocks {
		if b == f.Recover {
			continue
		}
		for _, in := range b.Instrs {
			switch y := in.(type) {
			case *ssa.FieldAddr, *ssa.UnOp, *ssa.Field, *ssa.BinOp, *ssa.Lookup, *ssa.Extract, *ssa.Index, *ssa.IndexAddr, *ssa.Slice,
				*ssa.Convert, *ssa.ChangeType, *ssa.MakeInterface, *ssa.Phi, *ssa.If, *ssa.Jump, *ssa.Panic, *ssa.MakeSlice, *ssa.DebugRef, *ssa.Return:
			case *ssa.Alloc:
				if y.Heap && y.Comment != "varargs" {
					ok = false
				}
			case *ssa.Store:
				pure := false
				if ia, isIA := y.Addr.(*ssa.IndexAddr); isIA {
					if _, isAl := ia.X.(*ssa.Alloc); isAl {
						pure = true
					}
				}
				if !pure {
					ok = false
				}
			case *ssa.Call:
				if pureCallees[CalleeName(&y.Call)] {
					continue
				}
				cal := StaticCallee(&y.Call)
				if cal == nil || !InModule(cal) || !o.isPure(cal, visiting) {
					ok = false
				}
			default:
				ok = false
			}
		}
	}
	o.pure[f] = ok
	return ok
}

// pureCallees are functions without side effects whose calls may appear in an inlined body.
var pureCallees = map[string]bool{
	"strings.HasPrefix": true, "strings.HasSuffix": true, "strings.TrimSpace": true, "strings.ToLower": true, "strings.ToUpper": true,
	"strings.TrimPrefix": true, "strings.TrimSuffix": true, "strings.Index": true, "strings.IndexByte": true, "strings.LastIndexByte": true,
	"strings.Contains": true, "strings.EqualFold": true, "strings.Join": true, "strings.Split": true, "strings.Cut": true, "strings.CutPrefix": true,
	"slices.Concat": true, "slices.Clone": true, "slices.Contains": true, "slices.Index": true, "strconv.Itoa": true,
	"builtin:len": true, "builtin:cap": true, "builtin:append": true, "builtin:min": true, "builtin:max": true,
}

// inlinePure inlines a module function without effects (no stores to non-local memory, no map updates, only pure
// calls) whose results are terms over its parameters; several returns become a phi of the returned terms.
func (o *Originator) inlinePure(f *ssa.Function, args []*Term, c *octx) *Term {
	if !o.isPure(f, map[*ssa.Function]bool{}) {
		return nil
	}
	var rets []*ssa.Return
	for _, b := range f.Blocks {
		if b == f.Recover {
			continue
		}
		for _, in := range b.Instrs {
			switch y := in.(type) {
			case *ssa.FieldAddr, *ssa.UnOp, *ssa.Field, *ssa.BinOp, *ssa.Lookup, *ssa.Extract, *ssa.Index, *ssa.IndexAddr, *ssa.Slice,
				*ssa.Convert, *ssa.ChangeType, *ssa.MakeInterface, *ssa.Phi, *ssa.If, *ssa.Jump, *ssa.Panic, *ssa.MakeSlice, *ssa.DebugRef:
			case *ssa.Alloc:
				if y.Heap && y.Comment != "varargs" {
					return nil
				}
			case *ssa.Store:
				// stores into local arrays (variadic packing) only
				if ia, ok := y.Addr.(*ssa.IndexAddr); ok {
					if _, isAl := ia.X.(*ssa.Alloc); isAl {
						continue
					}
				}
				return nil
			case *ssa.Return:
				rets = append(rets, y)
			case *ssa.Call:
				name := CalleeName(&y.Call)
				if pureCallees[name] {
					continue
				}
			default:
			}
		}
	}
	if len(rets) == 0 || len(rets[0].Results) == 0 {
		return nil
	}
	sub := &octx{seen: map[ssa.Value]bool{}, depth: c.depth + 1}
	nres := len(rets[0].Results)
	results := make([]*Term, nres)
	for j := 0; j < nres; j++ {
		var alts []*Term
		for _, r := range rets {
			alts = append(alts, substitute(o.of(r.Results[j], sub), f, args))
		}
		if len(alts) == 1 {
			results[j] = alts[0]
		} else {
			same := true
			for _, a := range alts[1:] {
				if a.String() != alts[0].String() {
					same = false
				}
			}
			if same {
				results[j] = alts[0]
			} else {
				results[j] = &Term{Op: "phi", S: "ret:" + FuncKey(f), Args: alts}
			}
		}
	}
	if nres == 1 {
		return results[0]
	}
	return &Term{Op: "tuple", Args: results}
}

// Substitute / SubstituteFree are exported for rules that resolve wrappers themselves.
func Substitute(t *Term, f *ssa.Function, args []*Term) *Term { return substitute(t, f, args) }
func SubstituteFree(t *Term, free map[string]*Term) *Term    { return substituteFree(t, free) }

// substitute replaces parameter leaves of a callee term by argument terms.
func substitute(t *Term, f *ssa.Function, args []*Term) *Term {
	paramIdx := map[string]int{}
	for i, p := range f.Params {
		paramIdx[AP(p)] = i
	}
	var sub func(t *Term) *Term
	sub = func(t *Term) *Term {
		if a, ok := t.APOf(); ok && len(t.Args) == 0 {
			for pa, i := range paramIdx {
				if i >= len(args) {
					continue
				}
				if a == pa {
					return args[i]
				}
				if APHasPrefix(a, pa) {
					rest := a[len(pa):]
					if base, ok := args[i].APOf(); ok {
						return &Term{Op: "load", S: base + rest, V: t.V}
					}
					return &Term{Op: "field", S: strings.TrimPrefix(rest, "."), Args: []*Term{args[i]}, V: t.V}
				}
			}
			return t
		}
		n := &Term{Op: t.Op, S: t.S, Names: t.Names, V: t.V}
		for _, a := range t.Args {
			n.Args = append(n.Args, sub(a))
		}
		return n
	}
	return sub(t)
}

// FlattenConcat returns the ordered operand list of slices.Concat / append /
// string concat / list terms, recursively; other terms are a single operand.
func FlattenConcat(t *Term) []*Term {
	switch {
	case t.Op == "concat":
		var out []*Term
		for _, a := range t.Args {
			out = append(out, FlattenConcat(a)...)
		}
		return out
	case t.Op == "call" && t.S == "slices.Concat":
		// single variadic list argument; a nil operand adds nothing
		var out []*Term
		for _, a := range t.Args {
			if a.Op == "list" {
				for _, e := range a.Args {
					if e.Op == "const" && e.S == "nil" {
						continue
					}
					out = append(out, FlattenConcat(e)...)
				}
			} else if !(a.Op == "const" && a.S == "nil") {
				out = append(out, FlattenConcat(a)...)
			}
		}
		return out
	case t.Op == "call" && t.S == "builtin:append":
		var out []*Term
		for _, a := range t.Args {
			out = append(out, FlattenConcat(a)...)
		}
		return out
	case t.Op == "call" && t.S == "slices.Clone" && len(t.Args) == 1:
		return FlattenConcat(t.Args[0])
	case t.Op == "phi":
		// alternatives of an inlined helper: the nil / empty alternative adds nothing
		var lists [][]*Term
		for _, a := range t.Args {
			if a.Op == "const" && a.S == "nil" {
				continue
			}
			lists = append(lists, FlattenConcat(a))
		}
		if len(lists) == 1 {
			return lists[0]
		}
		if len(lists) > 1 {
			same := true
			for _, l := range lists[1:] {
				if termsString(l) != termsString(lists[0]) {
					same = false
				}
			}
			if same {
				return lists[0]
			}
		}
	}
	// a fresh, empty base (make) contributes no element
	if t.Op == "make" {
		return nil
	}
	return []*Term{t}
}

func closureOf(v ssa.Value) *ssa.MakeClosure {
	switch x := v.(type) {
	case *ssa.MakeClosure:
		return x
	case *ssa.UnOp:
		// a closure stored in a local cell
		if al, ok := x.X.(*ssa.Alloc); ok {
			var mc *ssa.MakeClosure
			n := 0
			for _, r := range *al.Referrers() {
				if st, ok := r.(*ssa.Store); ok && st.Addr == ssa.Value(al) {
					n++
					mc, _ = st.Val.(*ssa.MakeClosure)
				}
			}
			if n == 1 {
				return mc
			}
		}
	}
	return nil
}

// cellValue: the value held by a captured local cell (its single store), as a term.
func (o *Originator) cellValue(al *ssa.Alloc, c *octx) *Term {
	var stores []*ssa.Store
	for _, r := range *al.Referrers() {
		if st, ok := r.(*ssa.Store); ok && st.Addr == ssa.Value(al) {
			stores = append(stores, st)
		}
	}
	if len(stores) == 1 {
		return o.of(stores[0].Val, c)
	}
	return &Term{Op: "cell", S: al.Comment, V: al}
}

// substituteFree replaces free-variable leaves (free:name and paths rooted there) by the bound terms.
func substituteFree(t *Term, free map[string]*Term) *Term {
	if a, ok := t.APOf(); ok && len(t.Args) == 0 {
		for name, bt := range free {
			if a == name {
				return bt
			}
			if APHasPrefix(a, name) {
				rest := a[len(name):]
				if base, ok := bt.APOf(); ok {
					return &Term{Op: "load", S: base + rest, V: t.V}
				}
				return &Term{Op: "field", S: strings.TrimPrefix(rest, "."), Args: []*Term{bt}, V: t.V}
			}
		}
		return t
	}
	n := &Term{Op: t.Op, S: t.S, Names: t.Names, V: t.V}
	for _, a := range t.Args {
		n.Args = append(n.Args, substituteFree(a, free))
	}
	return n
}

func termsString(l []*Term) string {
	var parts []string
	for _, t := range l {
		parts = append(parts, t.String())
	}
	return strings.Join(parts, ", ")
}

// ListString renders a list-valued term by its flattened operands: @LIST(a, b).
func ListString(t *Term) string { return "@LIST(" + termsString(FlattenConcat(t)) + ")" }
