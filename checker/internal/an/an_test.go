package an

import (
	"go/constant"
	"path/filepath"
	"runtime"
	"strings"
	"testing"

	"golang.org/x/tools/go/ssa"
)

var fixture *Prog

func load(t *testing.T) *Prog {
	t.Helper()
	if fixture == nil {
		_, file, _, _ := runtime.Caller(0)
		dir := filepath.Join(filepath.Dir(file), "..", "..", "testdata", "fix")
		fixture = Load(dir, false)
	}
	return fixture
}

func fn(t *testing.T, p *Prog, key string) *ssa.Function {
	t.Helper()
	f := p.Func(key)
	if f == nil {
		t.Fatalf("function %s not found", key)
	}
	return f
}

func isEmit(in ssa.Instruction) bool {
	c := CallOf(in)
	return c != nil && CalleeName(c) == "fixture.emit"
}

func isReturn(in ssa.Instruction) bool { _, ok := in.(*ssa.Return); return ok }

// AVOID with enum exhaustion: positive and negative example.
func TestEnumExhaustion(t *testing.T) {
	p := load(t)
	q := func(f *ssa.Function) []Point {
		return (&Query{Facts: true, Target: isReturn, Block: isEmit}).Search(Entry(f))
	}
	if path := q(fn(t, p, "fixture.AllKinds")); path != nil {
		t.Errorf("AllKinds: a silent path was found although every kind emits: %s", p.PathString(path))
	}
	if path := q(fn(t, p, "fixture.MissingKind")); path == nil {
		t.Errorf("MissingKind: no silent path found although kind C emits nothing")
	}
	// without fact tracking the "none of the cases" path of AllKinds is (wrongly) feasible: that is what the facts are for
	if path := (&Query{Target: isReturn, Block: isEmit}).Search(Entry(fn(t, p, "fixture.AllKinds"))); path == nil {
		t.Errorf("AllKinds without facts: expected the infeasible path to be reported")
	}
}

// Facts about an element of a validated list: the two-pass form inherits the validation only through FORALL
// (rules/elemguard.go); here the single-loop primitives: assumed equality prunes the consistent edge only.
func TestAssumedEquality(t *testing.T) {
	p := load(t)
	f := fn(t, p, "fixture.OnePassLate")
	var elem ssa.Instruction
	AllInstrs(f, func(in ssa.Instruction) {
		if v, ok := in.(ssa.Value); ok {
			if _, _, isElem := RangeLoopOf(v); isElem {
				elem = in
			}
		}
	})
	if elem == nil {
		t.Fatal("range element not found")
	}
	// with x == "bad" the emit is still reached (it precedes the test)
	q := &Query{Facts: true, InitEq: map[string]constant.Value{ValueKey(elem.(ssa.Value)): constant.MakeString("bad")}, Target: isEmit, Block: func(in ssa.Instruction) bool { return in == elem }}
	if q.Search(After(elem)) == nil {
		t.Errorf("OnePassLate: the use before validation was not found")
	}
	// and no successful return is reachable in that iteration
	q2 := &Query{Facts: true, InitEq: map[string]constant.Value{ValueKey(elem.(ssa.Value)): constant.MakeString("bad")},
		Target: func(in ssa.Instruction) bool { r, ok := in.(*ssa.Return); return ok && IsSuccessReturn(r) },
		Block:  func(in ssa.Instruction) bool { return in == elem }}
	if path := q2.Search(After(elem)); path != nil {
		t.Errorf("OnePassLate: with x == bad a successful return was found: %s", p.PathString(path))
	}
}

// Range-loop length facts: a second loop over the same slice cannot be entered when the first one ran zero times.
func TestLenFacts(t *testing.T) {
	p := load(t)
	f := fn(t, p, "fixture.TwoPass")
	var elems []ssa.Instruction
	AllInstrs(f, func(in ssa.Instruction) {
		if v, ok := in.(ssa.Value); ok {
			if _, _, isElem := RangeLoopOf(v); isElem {
				elems = append(elems, in)
			}
		}
	})
	if len(elems) != 2 {
		t.Fatalf("expected 2 range elements, got %d", len(elems))
	}
	// path entry -> second loop body avoiding the first loop body: infeasible with facts, feasible without
	q := func(facts bool) []Point {
		return (&Query{Facts: facts, Target: func(in ssa.Instruction) bool { return in == elems[1] }, Block: func(in ssa.Instruction) bool { return in == elems[0] }}).Search(Entry(f))
	}
	if q(true) != nil {
		t.Errorf("TwoPass: second loop entered without the first (same slice) with facts on")
	}
	if q(false) == nil {
		t.Errorf("TwoPass: expected the CFG-only path to exist")
	}
}

// Short-circuit phi: assumptions are applied per path.
func TestShortCircuitPhi(t *testing.T) {
	p := load(t)
	f := fn(t, p, "fixture.ShortCircuit")
	assume := func(bval bool) func(cond ssa.Value) (bool, bool) {
		return func(cond ssa.Value) (bool, bool) {
			neg := false
			for {
				u, ok := cond.(*ssa.UnOp)
				if !ok {
					break
				}
				neg = !neg
				cond = u.X
			}
			if par, ok := cond.(*ssa.Parameter); ok && par.Name() == "b" {
				return bval != neg, true
			}
			return false, false
		}
	}
	if (&Query{Assume: assume(true), Target: isEmit}).Search(Entry(f)) != nil {
		t.Errorf("ShortCircuit: emit reached although b is assumed true")
	}
	if (&Query{Assume: assume(false), Target: isEmit}).Search(Entry(f)) == nil {
		t.Errorf("ShortCircuit: emit not reached with b false")
	}
}

func TestAccessPaths(t *testing.T) {
	p := load(t)
	f := fn(t, p, "fixture.Walk")
	var loads []string
	AllInstrs(f, func(in ssa.Instruction) {
		if u, ok := in.(*ssa.UnOp); ok && strings.HasSuffix(AP(u), ".name") {
			loads = append(loads, AP(u))
		}
	})
	if len(loads) != 2 || loads[0] != loads[1] || loads[0] != "p:t.next.name" {
		t.Errorf("Walk: two loads of t.next.name should share one access path, got %v", loads)
	}
	// a parameter spilled into a cell because a closure captures it is still that parameter
	g := fn(t, p, "fixture.Capture")
	found := false
	AllInstrs(g, func(in ssa.Instruction) {
		if al, ok := in.(*ssa.Alloc); ok && AP(al) == "p:t" {
			found = true
		}
	})
	if !found {
		t.Errorf("Capture: the spilled parameter cell does not resolve to p:t")
	}
}

func TestOrigins(t *testing.T) {
	p := load(t)
	o := NewOriginator(p)
	ret := func(key string) string {
		f := fn(t, p, key)
		return o.Of(Returns(f)[0].Results[0]).String()
	}
	if got := ret("fixture.Concat"); got != "concat(p:t.name, param:suffix)" {
		t.Errorf("Concat origin = %s", got)
	}
	got := ret("fixture.Lists")
	if !strings.Contains(got, `list("x", p:t.name)`) {
		t.Errorf("Lists: variadic packing not recognised: %s", got)
	}
	f := fn(t, p, "fixture.Lists")
	var concat *Term
	AllInstrs(f, func(in ssa.Instruction) {
		if c, ok := in.(*ssa.Call); ok && CalleeName(&c.Call) == "slices.Concat" {
			concat = o.Of(c)
		}
	})
	ops := FlattenConcat(concat)
	if len(ops) != 2 || ops[0].String() != "param:a" || ops[1].String() != "p:t.list" {
		t.Errorf("Lists: slices.Concat operands = %v", ops)
	}
}

func TestReturnClassification(t *testing.T) {
	p := load(t)
	f := fn(t, p, "fixture.Spill")
	nErr, nOK := 0, 0
	for _, r := range Returns(f) {
		if IsErrorReturn(r) {
			nErr++
		}
		if IsSuccessReturn(r) {
			nOK++
		}
	}
	if nErr != 1 || nOK != 1 {
		t.Errorf("Spill (defer-spilled results): error returns=%d success returns=%d, want 1/1", nErr, nOK)
	}
	g := fn(t, p, "fixture.Wrapped")
	nErr, nOK = 0, 0
	for _, r := range Returns(g) {
		if IsErrorReturn(r) {
			nErr++
		} else {
			nOK++
		}
	}
	if nErr != 1 || nOK != 1 {
		t.Errorf("Wrapped: `return err` behind err != nil should be the only error return (got %d error, %d other)", nErr, nOK)
	}
}
