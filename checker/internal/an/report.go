package an

import (
	"encoding/json"
	"regexp"
	"fmt"
	"os"
	"path/filepath"
	"sort"
	"strings"
)

// Obligation is one instance of a rule on one construct.
type Obligation struct {
	Property  string `json:"property"`
	Rule      string `json:"rule"`
	Func      string `json:"func"`
	Construct string `json:"construct"`
	Key       string `json:"key"`
	At        string `json:"at"`
	OK        bool   `json:"discharged"`
	Msg       string `json:"msg"`
	Path      string `json:"path,omitempty"`
	Known     bool   `json:"known,omitempty"`
}

type RuleStat struct {
	ID         string `json:"id"`
	Decides    string `json:"decides,omitempty"`
	Instances  int    `json:"instances"`
	Discharged int    `json:"discharged"`
	Floor      int    `json:"floor"`
}

// Report collects the obligations of one property run.
type Report struct {
	Property string
	Obls     []*Obligation
	rules    map[string]*RuleStat
	ruleOrd  []string
	Anchors  map[string]string
	Funcs    map[string]bool
	CallSites int
	Notes    []string
	Inlined  map[string]bool
	Undecided []string
}

func NewReport(property string) *Report {
	return &Report{Property: property, rules: map[string]*RuleStat{}, Anchors: map[string]string{}, Funcs: map[string]bool{}, Inlined: map[string]bool{}}
}

// Rule declares a rule with its floor (minimum number of instances) and the clause it decides.
func (r *Report) Rule(id string, floor int, decides string) {
	if _, ok := r.rules[id]; !ok {
		r.rules[id] = &RuleStat{ID: id, Floor: floor, Decides: decides}
		r.ruleOrd = append(r.ruleOrd, id)
	}
}

// Add records an obligation.  rule is like "R1"; construct must be built from
// names and access paths only (never positions).
func (r *Report) Add(rule, fn, construct, at string, ok bool, msg string) *Obligation {
	id := r.Property + "." + rule
	if _, has := r.rules[id]; !has {
		r.Rule(id, 1, "")
	}
	construct = NormalizeConstruct(construct)
	o := &Obligation{Property: r.Property, Rule: id, Func: fn, Construct: construct, At: at, OK: ok, Msg: msg}
	o.Key = r.Property + "/" + rule + "/" + fn + "/" + construct
	// keys must be unique: number duplicates deterministically
	n := 0
	for _, x := range r.Obls {
		if x.Key == o.Key || strings.HasPrefix(x.Key, o.Key+"#") {
			n++
		}
	}
	if n > 0 {
		o.Key = fmt.Sprintf("%s#%d", o.Key, n+1)
	}
	r.Obls = append(r.Obls, o)
	st := r.rules[id]
	st.Instances++
	if ok {
		st.Discharged++
	}
	r.Funcs[fn] = true
	return o
}

var regName = regexp.MustCompile(`:t[0-9]+`)

// NormalizeConstruct removes SSA register numbers from access paths used in
// obligation keys (call:f:t8 -> call:f, phi:t9 -> phi, alloc:t12 -> alloc):
// keys must survive edits that merely renumber registers.
func NormalizeConstruct(s string) string {
	return strings.ReplaceAll(regName.ReplaceAllString(s, ""), " ", "-")
}

func (r *Report) Anchor(name, val string) { r.Anchors[name] = val }
func (r *Report) Note(format string, a ...any) {
	r.Notes = append(r.Notes, fmt.Sprintf(format, a...))
}

// Undecide records that the analyser could not decide an obligation (exit 2).
func (r *Report) Undecide(format string, a ...any) {
	r.Undecided = append(r.Undecided, fmt.Sprintf(format, a...))
}

// KnownFindings is /verif/known_findings.json.
type KnownFindings struct {
	Known []struct {
		Property string `json:"property"`
		Key      string `json:"key"`
		What     string `json:"what"`
		Input    string `json:"input"`
		Defect   string `json:"defect"`
	} `json:"known"`
	Fixed []struct {
		Property string `json:"property"`
		Commit   string `json:"commit"`
		Key      string `json:"key"`
		What     string `json:"what"`
		Defect   string `json:"defect"`
	} `json:"fixed"`
}

func LoadKnown(path string) *KnownFindings {
	k := &KnownFindings{}
	data, err := os.ReadFile(path)
	if err != nil {
		if os.IsNotExist(err) {
			return k
		}
		Fatalf("known findings: %v", err)
	}
	if err := json.Unmarshal(data, k); err != nil {
		Fatalf("known findings %s: %v", path, err)
	}
	return k
}

// Outcome of finishing a report.
type Outcome struct {
	Violations int
	KnownHits  int
	ExitCode   int
	Lines      []string
}

// Finish evaluates floors and known findings, writes replay files and the
// evidence file, and returns the lines to print and the exit code.
func (r *Report) Finish(p *Prog, known *KnownFindings, evidenceDir, tier string, wall float64, extra map[string]any, checkerCmd string, explanation string, assumptions []string) *Outcome {
	out := &Outcome{}
	sort.SliceStable(r.Obls, func(i, j int) bool { return r.Obls[i].Key < r.Obls[j].Key })

	knownSet := map[string]string{}
	for _, k := range known.Known {
		if k.Property == r.Property {
			knownSet[k.Key] = k.What
		}
	}
	used := map[string]bool{}
	var failed []*Obligation
	discharged := 0
	for _, o := range r.Obls {
		if o.OK {
			discharged++
			continue
		}
		if what, ok := knownSet[o.Key]; ok {
			o.Known = true
			used[o.Key] = true
			out.KnownHits++
			out.Lines = append(out.Lines, fmt.Sprintf("KNOWN-FINDING: property=%s %s %s", r.Property, o.Key, what))
			continue
		}
		failed = append(failed, o)
	}
	// findings reproduced by a test but outside what the static rules decide: listed so that they are not forgotten,
	// reported on every run (the rules cannot tell whether they still hold)
	for _, k := range known.Known {
		if k.Property == r.Property && strings.HasPrefix(k.Key, "behaviour:") {
			used[k.Key] = true
			out.KnownHits++
			out.Lines = append(out.Lines, fmt.Sprintf("KNOWN-FINDING: property=%s %s %s (reproduced by a test; not decided by a static rule)", r.Property, k.Key, k.What))
		}
	}
	for k := range knownSet {
		if !used[k] {
			out.Lines = append(out.Lines, fmt.Sprintf("NOTE stale known finding (no failed obligation matches): %s", k))
		}
	}

	// floors
	var floorErr []string
	var ruleStats []*RuleStat
	for _, id := range r.ruleOrd {
		st := r.rules[id]
		ruleStats = append(ruleStats, st)
		// the floor is the number of instances confirmed by hand on the repaired tree. A consolidation may merge two
		// of them (two call sites into one helper), which is no reason to distrust the rule: falling below the floor is
		// noted, falling below half of it (or to zero) means the rule has lost its subject and nothing it says counts
		if st.Instances < st.Floor {
			if st.Instances == 0 || 2*st.Instances < st.Floor {
				floorErr = append(floorErr, fmt.Sprintf("rule %s has %d instances, floor %d", id, st.Instances, st.Floor))
			} else {
				out.Lines = append(out.Lines, fmt.Sprintf("NOTE rule %s has %d instances, %d were confirmed by hand (instances were merged or removed)", id, st.Instances, st.Floor))
			}
		}
	}

	vdir := filepath.Join(evidenceDir, "violations")
	// remove stale replay files of this property
	if ents, err := os.ReadDir(vdir); err == nil {
		for _, e := range ents {
			if strings.HasPrefix(e.Name(), r.Property+"-") {
				os.Remove(filepath.Join(vdir, e.Name()))
			}
		}
	}
	for i, o := range failed {
		os.MkdirAll(vdir, 0o755)
		path := filepath.Join(vdir, fmt.Sprintf("%s-%d.json", r.Property, i+1))
		abs, _ := filepath.Abs(path)
		data, _ := json.MarshalIndent(map[string]any{
			"property": r.Property, "rule": o.Rule, "key": o.Key, "at": o.At, "func": o.Func,
			"construct": o.Construct, "what": o.Msg, "path": o.Path, "repo": p.Dir, "anchors": r.Anchors,
		}, "", " ")
		os.WriteFile(path, data, 0o644)
		out.Lines = append(out.Lines, fmt.Sprintf("  %s %s: %s [%s]%s", o.Rule, o.At, o.Msg, o.Key, pathSuffix(o.Path)))
		out.Lines = append(out.Lines, fmt.Sprintf("VIOLATION property=%s replay=%s", r.Property, abs))
	}
	out.Violations = len(failed)

	// evidence
	var samples []any
	cnt := map[string]int{}
	for _, o := range r.Obls {
		if cnt[o.Rule] < 3 || !o.OK {
			cnt[o.Rule]++
			samples = append(samples, o)
		}
	}
	funcs := make([]string, 0, len(r.Funcs))
	for f := range r.Funcs {
		funcs = append(funcs, f)
	}
	sort.Strings(funcs)
	inl := make([]string, 0, len(r.Inlined))
	for f := range r.Inlined {
		inl = append(inl, f)
	}
	sort.Strings(inl)
	cov := map[string]any{
		"explanation":        explanation,
		"obligations":        len(r.Obls),
		"discharged":         discharged,
		"known_findings":     out.KnownHits,
		"exhaustive":         true,
		"packages":           len(p.Pkgs),
		"ssa_functions":      len(p.Funcs),
		"functions_analysed": len(funcs),
		"functions":          funcs,
		"anchors":            r.Anchors,
		"rules":              ruleStats,
		"samples":            samples,
		"inlined":            inl,
		"notes":              r.Notes,
		"checker_cmd":        checkerCmd,
		"trusted_base":       []string{"go/packages + go/types (type checker)", "golang.org/x/tools/go/ssa v0.29.0 (SSA construction)", "rule definitions in /verif/DESIGN.md section 4", "stdlib functions named in the rules (regexp, strconv, strings, slices, net/http)"},
	}
	for k, v := range extra {
		cov[k] = v
	}
	ev := map[string]any{
		"property_id": r.Property,
		"tier":        tier,
		"seed":        0,
		"level":       "other",
		"coverage":    cov,
		"assumptions": assumptions,
		"wall_s":      wall,
		"violations":  out.Violations,
	}
	os.MkdirAll(evidenceDir, 0o755)
	data, _ := json.MarshalIndent(ev, "", " ")
	if err := os.WriteFile(filepath.Join(evidenceDir, r.Property+".json"), data, 0o644); err != nil {
		Fatalf("write evidence: %v", err)
	}

	switch {
	case len(floorErr) > 0 || len(r.Undecided) > 0:
		for _, e := range floorErr {
			out.Lines = append(out.Lines, "CHECKER-ERROR "+e)
		}
		for _, e := range r.Undecided {
			out.Lines = append(out.Lines, "CHECKER-ERROR UNDECIDED "+e)
		}
		out.ExitCode = 2
		if out.Violations > 0 {
			out.ExitCode = 1
		}
	case out.Violations > 0:
		out.ExitCode = 1
	}
	return out
}

func pathSuffix(p string) string {
	if p == "" {
		return ""
	}
	return " path: " + p
}
