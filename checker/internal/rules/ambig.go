package rules

import (
	"fmt"
	"go/token"
	"go/types"
	"strings"

	"golang.org/x/tools/go/ssa"

	"muxlint/internal/an"
)

// ambig.go — C17.R6: the segment-level ambiguity verdict.
//
// "Identical up to parameter names" means: the two segments accept the same texts and differ at most in the name.
// What a parameter segment accepts is decided by its kind, its constraint, its suffix and whether it ends the
// pattern — the fields Type, rule, Suffix and Endpoint of syntax.Segment (confirmed by reading Segment.Match / Valid
// and NewSegment: matcher and expr are functions of rule). The verdict function is evaluated symbolically
// (symeval.go) once per field with the single assumption "the two segments differ in this field": every outcome
// must be the constant false. Helpers of the verdict function are entered, conjunctions may be written as
// short-circuit chains, early returns or a helper call; the comparison may stand on either side.
//
// Necessary, not sufficient: that segments agreeing in all four fields *are* declared ambiguous when their names
// differ (the rejecting direction) depends on the ambiguousLength arithmetic and is not decided here.
func ruleAmbiguityNeedsAgreement(c *Ctx, rule string) {
	c.R.Rule(c.R.Property+"."+rule, 4, "two parameter segments are declared ambiguous only when they agree in kind, constraint, suffix and end-of-pattern flag: a pattern that is not identical up to names to a live route is not rejected as ambiguous")
	f := c.P.MustFunc("syntax.(*Segment).IsAmbiguous")
	st, _ := c.A.SegmentT.Underlying().(*types.Struct)
	for _, field := range []string{"Type", "rule", "Suffix", "Endpoint"} {
		has := false
		for i := 0; st != nil && i < st.NumFields(); i++ {
			if st.Field(i).Name() == field {
				has = true
			}
		}
		if !has {
			c.R.Add(rule, c.fk(f), "differ-in:"+field+"/never-ambiguous", c.P.Pos(f.Pos()), false, "syntax.Segment has no field "+field+" any more: the table of fields that decide what a segment accepts must be re-confirmed")
			continue
		}
		a, b := "A."+field, "B."+field
		se := &symEval{c: c}
		se.truth = func(e string) int {
			switch e {
			case "EQ(" + a + "," + b + ")", "EQ(" + b + "," + a + ")":
				return -1
			case "NE(" + a + "," + b + ")", "NE(" + b + "," + a + ")":
				return 1
			}
			return 0
		}
		var bad []string
		outs := se.outcomes(f, []sval{sv("A"), sv("B")})
		for _, o := range outs {
			if o.ret != "CONST:false" {
				bad = append(bad, o.ret)
			}
		}
		good := len(bad) == 0 && len(outs) > 0
		c.R.Add(rule, c.fk(f), "differ-in:"+field+"/never-ambiguous", c.P.Pos(f.Pos()), good, ifelse(good, fmt.Sprintf("with %s different every one of the %d evaluated outcomes is false", field, len(outs)), "two segments that differ in "+field+" can be declared ambiguous (result "+strings.Join(bad, " | ")+"): a pattern that is not identical up to parameter names to a live route is rejected"))
	}
	// the rejecting direction at segment level: agreeing in all four fields and differing in the name (or only in the
	// '-' flag) is ambiguous. ambiguousLength is a function of the '-' flag, the constraint and the suffix
	// (calcAmbiguousLength reads nothing else — checked below), so it agrees whenever those do.
	lengthIsDerived := ambiguousLengthIsDerived(c)
	for _, sc := range []struct {
		name     string
		flagSame bool
	}{{"only-the-name-differs", true}, {"only-the-ignore-flag-differs", false}} {
		if sc.flagSame && !lengthIsDerived {
			continue // the length comparison cannot be discharged: this scenario is not decided
		}
		se := &symEval{c: c}
		se.truth = func(e string) int {
			for _, field := range []string{"Type", "rule", "Suffix", "Endpoint", "ambiguousLength", "ignoreName", "Name"} {
				a, b := "A."+field, "B."+field
				same := true
				switch field {
				case "ambiguousLength":
					if !lengthIsDerived || !sc.flagSame {
						continue
					}
				case "ignoreName":
					same = sc.flagSame
				case "Name":
					if !sc.flagSame {
						continue // open
					}
					same = false
				}
				switch e {
				case "EQ(" + a + "," + b + ")", "EQ(" + b + "," + a + ")":
					return pm(same)
				case "NE(" + a + "," + b + ")", "NE(" + b + "," + a + ")":
					return -pm(same)
				}
			}
			return 0
		}
		var bad []string
		outs := se.outcomes(f, []sval{sv("A"), sv("B")})
		for _, o := range outs {
			if o.ret != "CONST:true" {
				bad = append(bad, o.ret)
			}
		}
		good := len(bad) == 0 && len(outs) > 0
		c.R.Add(rule+"b", c.fk(f), "agree-in-kind-constraint-suffix-end/"+sc.name+"/ambiguous", c.P.Pos(f.Pos()), good, ifelse(good, fmt.Sprintf("every one of the %d evaluated outcomes is true", len(outs)), "two segments that accept the same texts and differ only in the name (or the '-' flag) are not always declared ambiguous (result "+strings.Join(bad, " | ")+"): a pattern identical up to parameter names to a live route can be registered"))
	}
}

func pm(b bool) int {
	if b {
		return 1
	}
	return -1
}

// ambiguousLengthIsDerived: every value stored into Segment.ambiguousLength is computed from constants, lengths and
// the fields ignoreName / rule / Suffix (and the running value of ambiguousLength itself) only — through module
// helpers whose results depend on nothing but their arguments.
func ambiguousLengthIsDerived(c *Ctx) bool {
	allowed := map[string]bool{"ignoreName": true, "rule": true, "Suffix": true, "ambiguousLength": true}
	var pure func(v ssa.Value, depth int, seen map[ssa.Value]bool) bool
	pure = func(v ssa.Value, depth int, seen map[ssa.Value]bool) bool {
		if seen[v] {
			return true
		}
		seen[v] = true
		switch x := v.(type) {
		case *ssa.Const:
			return true
		case *ssa.Parameter:
			return depth > 0 // bound to an argument that was checked at the call
		case *ssa.BinOp:
			return pure(x.X, depth, seen) && pure(x.Y, depth, seen)
		case *ssa.Convert:
			return pure(x.X, depth, seen)
		case *ssa.ChangeType:
			return pure(x.X, depth, seen)
		case *ssa.Phi:
			for _, e := range x.Edges {
				if !pure(e, depth, seen) {
					return false
				}
			}
			return true
		case *ssa.UnOp:
			if x.Op != token.MUL {
				return pure(x.X, depth, seen)
			}
			fa, ok := x.X.(*ssa.FieldAddr)
			return ok && isPtrToNamed(fa.X.Type(), c.A.SegmentT) && allowed[an.FieldName(fa.X.Type(), fa.Field)]
		case *ssa.Call:
			if _, isLen := builtinCall(x, "len"); isLen {
				return pure(x.Call.Args[0], depth, seen)
			}
			g := an.StaticCallee(&x.Call)
			if g == nil || !an.InModule(g) || len(g.Blocks) == 0 || depth > 2 {
				return false
			}
			for _, a := range an.CallArgs(&x.Call) {
				if isPtrToNamed(a.Type(), c.A.SegmentT) {
					continue // fields are checked where they are read
				}
				if !pure(a, depth, seen) {
					return false
				}
			}
			for _, r := range an.Returns(g) {
				for _, res := range r.Results {
					if !pure(res, depth+1, map[ssa.Value]bool{}) {
						return false
					}
				}
			}
			return true
		}
		return false
	}
	n, good := 0, true
	for _, f := range c.libFuncs() {
		an.AllInstrs(f, func(in ssa.Instruction) {
			st, ok := in.(*ssa.Store)
			if !ok {
				return
			}
			fa, ok := st.Addr.(*ssa.FieldAddr)
			if !ok || !isPtrToNamed(fa.X.Type(), c.A.SegmentT) || an.FieldName(fa.X.Type(), fa.Field) != "ambiguousLength" {
				return
			}
			n++
			if !pure(st.Val, 0, map[ssa.Value]bool{}) {
				good = false
			}
		})
	}
	return n > 0 && good
}
