package rules

import (
	"fmt"
	"go/token"
	"go/types"
	"strings"

	"golang.org/x/tools/go/ssa"

	"muxlint/internal/an"
)

// ambig.go — C17.R6: the segment-level ambiguity verdict.
//
// "Identical up to parameter names" means: the two segments accept the same texts and differ at most in the name.
// What a parameter segment accepts is decided by its kind, its constraint, its suffix and whether it ends the
// pattern — the fields Type, rule, Suffix and Endpoint of syntax.Segment (confirmed by reading Segment.Match / Valid
// and NewSegment: matcher and expr are functions of rule). The verdict function is evaluated symbolically
// (symeval.go) once per field with the single assumption "the two segments differ in this field": every outcome
// must be the constant false. Helpers of the verdict function are entered, conjunctions may be written as
// short-circuit chains, early returns or a helper call; the comparison may stand on either side.
//
// Necessary, not sufficient: that segments agreeing in all four fields *are* declared ambiguous when their names
// differ (the rejecting direction) depends on the ambiguousLength arithmetic and is not decided here.
func ruleAmbiguityNeedsAgreement(c *Ctx, rule string) {
	c.R.Rule(c.R.Property+"."+rule, 4, "two parameter segments are declared ambiguous only when they agree in kind, constraint, suffix and end-of-pattern flag: a pattern that is not identical up to names to a live route is not rejected as ambiguous")
	f := c.P.MustFunc("syntax.(*Segment).IsAmbiguous")
	st, _ := c.A.SegmentT.Underlying().(*types.Struct)
	for _, field := range []string{"Type", "rule", "Suffix", "Endpoint"} {
		has := false
		for i := 0; st != nil && i < st.NumFields(); i++ {
			if st.Field(i).Name() == field {
				has = true
			}
		}
		if !has {
			c.R.Add(rule, c.fk(f), "differ-in:"+field+"/never-ambiguous", c.P.Pos(f.Pos()), false, "syntax.Segment has no field "+field+" any more: the table of fields that decide what a segment accepts must be re-confirmed")
			continue
		}
		a, b := "A."+field, "B."+field
		se := &symEval{c: c}
		se.truth = func(e string) int {
			switch e {
			case "EQ(" + a + "," + b + ")", "EQ(" + b + "," + a + ")":
				return -1
			case "NE(" + a + "," + b + ")", "NE(" + b + "," + a + ")":
				return 1
			}
			return 0
		}
		var bad []string
		outs := se.outcomes(f, []sval{sv("A"), sv("B")})
		for _, o := range outs {
			if o.ret != "CONST:false" {
				bad = append(bad, o.ret)
			}
		}
		good := len(bad) == 0 && len(outs) > 0
		c.R.Add(rule, c.fk(f), "differ-in:"+field+"/never-ambiguous", c.P.Pos(f.Pos()), good, ifelse(good, fmt.Sprintf("with %s different every one of the %d evaluated outcomes is false", field, len(outs)), "two segments that differ in "+field+" can be declared ambiguous (result "+strings.Join(bad, " | ")+"): a pattern that is not identical up to parameter names to a live route is rejected"))
	}
	// the rejecting direction at segment level: agreeing in all four fields and differing in the name (or only in the
	// '-' flag) is ambiguous. ambiguousLength is a function of the '-' flag, the constraint and the suffix
	// (calcAmbiguousLength reads nothing else — checked below), so it agrees whenever those do.
	lengthIsDerived := ambiguousLengthIsDerived(c)
	for _, sc := range []struct {
		name     string
		flagSame bool
	}{{"only-the-name-differs", true}, {"only-the-ignore-flag-differs", false}} {
		if sc.flagSame && !lengthIsDerived {
			continue // the length comparison cannot be discharged: this scenario is not decided
		}
		se := &symEval{c: c}
		se.truth = func(e string) int {
			for _, field := range []string{"Type", "rule", "Suffix", "Endpoint", "ambiguousLength", "ignoreName", "Name"} {
				a, b := "A."+field, "B."+field
				same := true
				switch field {
				case "ambiguousLength":
					if !lengthIsDerived || !sc.flagSame {
						continue
					}
				case "ignoreName":
					same = sc.flagSame
				case "Name":
					if !sc.flagSame {
						continue // open
					}
					same = false
				}
				switch e {
				case "EQ(" + a + "," + b + ")", "EQ(" + b + "," + a + ")":
					return pm(same)
				case "NE(" + a + "," + b + ")", "NE(" + b + "," + a + ")":
					return -pm(same)
				}
			}
			return 0
		}
		var bad []string
		outs := se.outcomes(f, []sval{sv("A"), sv("B")})
		for _, o := range outs {
			if o.ret != "CONST:true" {
				bad = append(bad, o.ret)
			}
		}
		good := len(bad) == 0 && len(outs) > 0
		c.R.Add(rule+"b", c.fk(f), "agree-in-kind-constraint-suffix-end/"+sc.name+"/ambiguous", c.P.Pos(f.Pos()), good, ifelse(good, fmt.Sprintf("every one of the %d evaluated outcomes is true", len(outs)), "two segments that accept the same texts and differ only in the name (or the '-' flag) are not always declared ambiguous (result "+strings.Join(bad, " | ")+"): a pattern identical up to parameter names to a live route can be registered"))
	}
}

func pm(b bool) int {
	if b {
		return 1
	}
	return -1
}

// ambiguousLengthIsDerived: every value stored into Segment.ambiguousLength is computed from constants, lengths and
// the fields ignoreName / rule / Suffix (and the running value of ambiguousLength itself) only — through module
// helpers whose results depend on nothing but their arguments.
func ambiguousLengthIsDerived(c *Ctx) bool {
	allowed := map[string]bool{"ignoreName": true, "rule": true, "Suffix": true, "ambiguousLength": true}
	var pure func(v ssa.Value, depth int, seen map[ssa.Value]bool) bool
	pure = func(v ssa.Value, depth int, seen map[ssa.Value]bool) bool {
		if seen[v] {
			return true
		}
		seen[v] = true
		switch x := v.(type) {
		case *ssa.Const:
			return true
		case *ssa.Parameter:
			return depth > 0 // bound to an argument that was checked at the call
		case *ssa.BinOp:
			return pure(x.X, depth, seen) && pure(x.Y, depth, seen)
		case *ssa.Convert:
			return pure(x.X, depth, seen)
		case *ssa.ChangeType:
			return pure(x.X, depth, seen)
		case *ssa.Phi:
			for _, e := range x.Edges {
				if !pure(e, depth, seen) {
					return false
				}
			}
			return true
		case *ssa.UnOp:
			if x.Op != token.MUL {
				return pure(x.X, depth, seen)
			}
			fa, ok := x.X.(*ssa.FieldAddr)
			return ok && isPtrToNamed(fa.X.Type(), c.A.SegmentT) && allowed[an.FieldName(fa.X.Type(), fa.Field)]
		case *ssa.Call:
			if _, isLen := builtinCall(x, "len"); isLen {
				return pure(x.Call.Args[0], depth, seen)
			}
			g := an.StaticCallee(&x.Call)
			if g == nil || !an.InModule(g) || len(g.Blocks) == 0 || depth > 2 {
				return false
			}
			for _, a := range an.CallArgs(&x.Call) {
				if isPtrToNamed(a.Type(), c.A.SegmentT) {
					continue // fields are checked where they are read
				}
				if !pure(a, depth, seen) {
					return false
				}
			}
			for _, r := range an.Returns(g) {
				for _, res := range r.Results {
					if !pure(res, depth+1, map[ssa.Value]bool{}) {
						return false
					}
				}
			}
			return true
		}
		return false
	}
	n, good := 0, true
	for _, f := range c.libFuncs() {
		an.AllInstrs(f, func(in ssa.Instruction) {
			st, ok := in.(*ssa.Store)
			if !ok {
				return
			}
			fa, ok := st.Addr.(*ssa.FieldAddr)
			if !ok || !isPtrToNamed(fa.X.Type(), c.A.SegmentT) || an.FieldName(fa.X.Type(), fa.Field) != "ambiguousLength" {
				return
			}
			n++
			if !pure(st.Val, 0, map[ssa.Value]bool{}) {
				good = false
			}
		})
	}
	return n > 0 && good
}

// ruleAmbiguitySearchSeesSplits is C17.R7: the tree stores a route as a chain of nodes that may cut a parameter's
// literal suffix in two ("{id}/a" + "uthor" once /posts/{id}/author and /posts/{id}/about are both registered), while
// the pattern being registered arrives as whole segments ("{key}/author"). The ambiguity search (the recursive
// function below Tree.Add whose verdict comes from Segment.IsAmbiguous) is evaluated symbolically for one generic
// child and the first segment of the remaining pattern, in three scenarios:
//
//	split   the child's segment agrees with the pattern's in kind and constraint, the names differ, and the child's
//	        suffix is a strict prefix of the pattern segment's suffix            → some path descends into the child
//	whole   as above with equal suffixes                                           → some path descends into the child
//	other   the constraints differ                                                 → no path descends into the child
//
// "Some path": the number of bytes to skip is arithmetic on lengths that the evaluation leaves open.
func ruleAmbiguitySearchSeesSplits(c *Ctx, rule string) {
	c.R.Rule(c.R.Property+"."+rule, 3, "the ambiguity search follows a live route through nodes that split a parameter's literal suffix: a pattern identical up to names is rejected whatever other routes shaped the tree")
	search := ambiguitySearch(c)
	if search == nil {
		c.R.Add(rule, c.fk(c.A.TreeAdd), "ambiguity-search/exists", c.P.Pos(c.A.TreeAdd.Pos()), false, "no recursive search below Tree.Add consults the segment ambiguity verdict any more")
		return
	}
	type scen struct {
		name                       string
		sameRule, sameSuffix, want bool
	}
	for _, sc := range []scen{{"split-suffix", true, false, true}, {"whole-segment", true, true, true}, {"other-constraint", false, true, false}} {
		se := &symEval{c: c}
		se.field = func(base, field string) string {
			switch {
			case base == "N" && field == c.A.FChildren:
				return "KIDS"
			case base == "C" && field == c.A.FSegment:
				return "SEG"
			}
			return ""
		}
		se.elem = func(coll string) string {
			switch coll {
			case "KIDS":
				return "C"
			case "SEGS":
				return "S0"
			}
			return ""
		}
		se.nonEmpty = func(coll string) bool { return coll == "KIDS" }
		pair := func(e, op, field string) bool {
			return e == op+"(SEG."+field+",S0."+field+")" || e == op+"(S0."+field+",SEG."+field+")"
		}
		se.truth = func(e string) int {
			switch e {
			case `EQ(PATTERN,CONST:"")`, "NE(NIL,NIL)", "HASPREFIX(PATTERN,SEG.Value)":
				return -1
			case `NE(PATTERN,CONST:"")`, "EQ(NIL,NIL)":
				return 1
			case "HASPREFIX(S0.Suffix,SEG.Suffix)":
				return 1
			case "HASPREFIX(SEG.Suffix,S0.Suffix)":
				return pm(sc.sameSuffix)
			case "GE(LEN(SEG.Suffix),LEN(S0.Suffix))", "LE(LEN(S0.Suffix),LEN(SEG.Suffix))":
				return pm(sc.sameSuffix)
			case "LT(LEN(SEG.Suffix),LEN(S0.Suffix))", "GT(LEN(S0.Suffix),LEN(SEG.Suffix))":
				return pm(!sc.sameSuffix)
			case "EQ(LEN(SEG.Suffix),LEN(S0.Suffix))", "EQ(LEN(S0.Suffix),LEN(SEG.Suffix))":
				return pm(sc.sameSuffix)
			}
			// kind: both are parameter segments of the same kind
			if strings.HasPrefix(e, "EQ(SEG.Type,CONST:") || strings.HasPrefix(e, "EQ(S0.Type,CONST:") {
				return -1 // not the literal kind (the only kind a constant comparison singles out here)
			}
			if strings.HasPrefix(e, "NE(SEG.Type,CONST:") || strings.HasPrefix(e, "NE(S0.Type,CONST:") {
				return 1
			}
			for _, f := range []struct {
				field string
				same  bool
			}{{"Type", true}, {"Endpoint", sc.sameSuffix}, {"rule", sc.sameRule}, {"Suffix", sc.sameSuffix}, {"ambiguousLength", sc.sameSuffix}, {"ignoreName", true}, {"Name", false}} {
				if pair(e, "EQ", f.field) {
					return pm(f.same)
				}
				if pair(e, "NE", f.field) {
					return pm(!f.same)
				}
			}
			return 0
		}
		se.model = func(se *symEval, name string, call *ssa.CallCommon, args []sval, st *sstate) ([]sval, bool) {
			switch {
			case name == "strings.HasPrefix" && len(args) == 2:
				return []sval{sv("HASPREFIX(" + args[0].e + "," + args[1].e + ")")}, true
			case name == "strings.CutPrefix" && len(args) == 2:
				return []sval{{e: "TUPLE", tuple: []sval{sv("CUT(" + args[0].e + "," + args[1].e + ")"), sv("HASPREFIX(" + args[0].e + "," + args[1].e + ")")}}}, true
			case name == "syntax.(*Interceptors).Split":
				return []sval{{e: "TUPLE", tuple: []sval{sv("SEGS"), sv("NIL")}}}, true
			case name == an.FuncKey(search):
				st.effects = append(st.effects, "DESCEND("+args[0].e+")")
				return []sval{{e: "TUPLE", tuple: []sval{sv("FOUND?"), sv("NONSTRING?"), sv("NIL")}}}, true
			}
			return nil, false
		}
		args := []sval{sv("N"), sv("PATTERN")}
		for range search.Params[2:] {
			args = append(args, sv("FLAG"))
		}
		outs := se.outcomes(search, args)
		descends, undecided := 0, ""
		for _, o := range outs {
			for _, e := range o.effects {
				if e == "DESCEND(C)" {
					descends++
				}
			}
			if strings.Contains(o.ret, "UNK:") {
				undecided = o.ret
			}
		}
		if len(outs) == 0 || (descends == 0 && undecided != "") {
			c.R.Note("%s: the ambiguity search could not be evaluated in scenario %s (%s)", rule, sc.name, undecided)
			continue
		}
		good := (descends > 0) == sc.want
		msg := ""
		switch {
		case good && sc.want:
			msg = fmt.Sprintf("the search descends into the child (%d of %d evaluated paths)", descends, len(outs))
		case good:
			msg = "no evaluated path descends into a child whose constraint differs"
		case sc.name == "split-suffix":
			msg = "a child that holds only the first part of the pattern segment's literal suffix (the tree split it: {id}/a + uthor) is not followed: after /posts/{id}/author and /posts/{id}/about, /posts/{key}/author is accepted although it differs from a live route only in a parameter name"
		case sc.want:
			msg = "a child identical to the pattern's segment up to the parameter name is not followed: patterns identical up to names are accepted"
		default:
			msg = "the search descends into a child whose constraint differs: a pattern that is not identical up to names to a live route can be rejected as ambiguous"
		}
		c.R.Add(rule, c.fk(search), "scenario:"+sc.name+"/"+ifelse(sc.want, "descends", "does-not-descend"), c.P.Pos(search.Pos()), good, msg)
	}
}

// ambiguitySearch: the recursive function below Tree.Add whose verdict comes from Segment.IsAmbiguous.
func ambiguitySearch(c *Ctx) *ssa.Function {
	verdict := c.P.MustFunc("syntax.(*Segment).IsAmbiguous")
	g := an.NewGraph(c.P)
	reach := g.Reach([]*ssa.Function{c.A.TreeAdd}, func(_ *ssa.Function, e an.Edge) bool { return e.Kind == "static" })
	var search *ssa.Function
	for _, f := range an.SortedFuncs(reach) {
		recursive, verdicts := false, false
		for _, e := range g.Callees(f) {
			if an.Origin(e.Callee) == an.Origin(f) {
				recursive = true
			}
		}
		for h := range g.Reach([]*ssa.Function{f}, func(from *ssa.Function, e an.Edge) bool {
			return e.Kind == "static" && strings.HasPrefix(an.FuncKey(e.Callee), "syntax.")
		}) {
			if an.Origin(h) == an.Origin(verdict) {
				verdicts = true
			}
		}
		if recursive && verdicts && len(f.Params) >= 2 {
			search = f
		}
	}
	return search
}

// ruleAmbiguitySearchDiscipline is C17.R8 / R9.
//
// R8: what one descent of the ambiguity search returns does not flow into the arguments of the next one — each
// sibling is examined with the state the search was entered with (a flag overwritten by a sibling that found nothing
// makes the siblings after it look like literal paths, and the conflict they would report is dropped).
// R9: every path of Tree.Add to the call that builds nodes runs the ambiguity search on the pattern first (no counter,
// flag or fast path decides to skip it).
func ruleAmbiguitySearchDiscipline(c *Ctx, rule8, rule9 string) {
	a := c.A
	c.R.Rule(c.R.Property+"."+rule8, 1, "siblings are examined independently by the ambiguity search")
	c.R.Rule(c.R.Property+"."+rule9, 1, "registration always runs the ambiguity search before it builds nodes")
	search := ambiguitySearch(c)
	if search == nil {
		return // reported by R7
	}
	isDescent := func(v ssa.Value) bool {
		ex, ok := v.(*ssa.Extract)
		if !ok {
			return false
		}
		call, ok := ex.Tuple.(*ssa.Call)
		if !ok {
			return false
		}
		g := an.StaticCallee(&call.Call)
		return g != nil && an.Origin(g) == an.Origin(search)
	}
	var tainted func(v ssa.Value, seen map[ssa.Value]bool) bool
	tainted = func(v ssa.Value, seen map[ssa.Value]bool) bool {
		if seen[v] {
			return false
		}
		seen[v] = true
		if isDescent(v) {
			return true
		}
		switch x := v.(type) {
		case *ssa.Phi:
			for _, e := range x.Edges {
				if tainted(e, seen) {
					return true
				}
			}
			// short-circuit forms (a || b): the value also depends on the condition that chose the edge
			for _, pred := range x.Block().Preds {
				if len(pred.Instrs) == 0 {
					continue
				}
				if ifi, ok := pred.Instrs[len(pred.Instrs)-1].(*ssa.If); ok && !strings.HasPrefix(pred.Comment, "range") && !strings.HasPrefix(pred.Comment, "for.") {
					if tainted(ifi.Cond, seen) {
						return true
					}
				}
			}
		case *ssa.BinOp:
			return tainted(x.X, seen) || tainted(x.Y, seen)
		case *ssa.UnOp:
			return tainted(x.X, seen)
		case *ssa.Slice:
			return tainted(x.X, seen)
		}
		return false
	}
	n := 0
	an.AllInstrs(search, func(in ssa.Instruction) {
		call, ok := in.(*ssa.Call)
		if !ok {
			return
		}
		g := an.StaticCallee(&call.Call)
		if g == nil || an.Origin(g) != an.Origin(search) {
			return
		}
		n++
		bad := ""
		for i, arg := range call.Call.Args {
			if i == 0 {
				continue // the child descended into
			}
			if tainted(arg, map[ssa.Value]bool{}) {
				bad = c.O.Of(arg).String()
			}
		}
		c.R.Add(rule8, c.fk(search), "descent/arguments-independent-of-earlier-descents", c.pos(in), bad == "", ifelse(bad == "", "the arguments derive from the function's own parameters and the current child", "an argument of the descent ("+bad+") carries the result of an earlier sibling's descent: after a sibling that found nothing, the conflict a later sibling would report is lost"))
	})
	// R9
	var entry *ssa.Function // the function of Tree.Add's cluster that starts the search
	g := an.NewGraph(c.P)
	startsSearch := func(in ssa.Instruction) bool {
		call := an.CallOf(in)
		if call == nil {
			return false
		}
		callee := an.StaticCallee(call)
		if callee == nil || !an.InModule(callee) {
			return false
		}
		_, reaches := g.Reach([]*ssa.Function{callee}, func(_ *ssa.Function, e an.Edge) bool { return e.Kind == "static" })[an.Origin(search)]
		return reaches
	}
	_ = entry
	var builders []ssa.Instruction
	an.AllInstrs(a.TreeAdd, func(in ssa.Instruction) {
		call, ok := in.(*ssa.Call)
		if !ok {
			return
		}
		for _, arg := range call.Call.Args {
			if sl, isSlice := arg.Type().Underlying().(*types.Slice); isSlice && isPtrToNamed(sl.Elem(), a.SegmentT) {
				if callee := an.StaticCallee(&call.Call); callee != nil && an.InModule(callee) && strings.HasPrefix(an.FuncKey(callee), a.TreePkg.Name()+".") {
					builders = append(builders, in)
				}
			}
		}
	})
	for _, b := range builders {
		b := b
		// the walk enters the helpers on the way (Tree.checkAmbiguous), so a shortcut inside them — a remembered verdict
		// for the pattern checked last — is a path that reaches the node building without the search
		isSearchCall := func(t ssa.Instruction) bool {
			call := an.CallOf(t)
			if call == nil {
				return false
			}
			callee := an.StaticCallee(call)
			return callee != nil && an.Origin(callee) == an.Origin(search)
		}
		path := (&an.Query{
			Target: func(t ssa.Instruction) bool { return t == b },
			Block:  isSearchCall,
			Deep:   deepDefault,
			Descend: func(g *ssa.Function) bool {
				return an.Origin(g) != an.Origin(search) && strings.HasPrefix(an.FuncKey(g), a.TreePkg.Name()+".")
			},
		}).Search(an.Entry(a.TreeAdd))
		if path == nil {
			// (coarse form kept as a cross-check: some call on every path reaches the search)
			path = (&an.Query{
				Target: func(t ssa.Instruction) bool { return t == b },
				Block:  startsSearch,
			}).Search(an.Entry(a.TreeAdd))
		}
		o := c.R.Add(rule9, c.fk(a.TreeAdd), "build-nodes/after-ambiguity-search", c.pos(b), path == nil, ifelse(path == nil, "every path to the node-building call ran the ambiguity search", "nodes can be built for a pattern without the ambiguity search having run (a counter, flag or fast path skips it): a pattern identical up to names to a live route is accepted when the shortcut misjudges"))
		if path != nil {
			o.Path = c.P.PathString(path)
		}
	}
	if len(builders) == 0 {
		c.R.Add(rule9, c.fk(a.TreeAdd), "build-nodes/after-ambiguity-search", c.P.Pos(a.TreeAdd.Pos()), false, "Tree.Add no longer hands parsed segments to a node-building function")
	}
}
