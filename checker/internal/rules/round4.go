package rules

import (
	"fmt"
	"go/token"
	"go/types"
	"regexp"
	"strconv"
	"strings"

	"golang.org/x/tools/go/ssa"

	"muxlint/internal/an"
)

// round4.go — rules written from the fourth round of seeded changes (PR-sized optimisations, features, "bug fixes",
// consolidations and representation changes). See DESIGN.md section 21.

// ruleRecoveryFieldOwnership — C16.R10: whether a Router / Group recovers is decided by its own options, once: the
// field holding the recovery function is written only while the object is being built (a store through a fresh
// allocation), with the value the option builder produced. Anything else (a group handing its function to the routers
// it adopts, a setter) makes a router swallow panics that its configuration says must pass through.
func ruleRecoveryFieldOwnership(c *Ctx, rule string) {
	c.R.Rule(c.R.Property+"."+rule, 2, "a router or group recovers exactly when its own options say so: the recovery function is installed at construction only")
	n := 0
	for _, f := range c.libFuncs() {
		an.AllInstrs(f, func(in ssa.Instruction) {
			st, ok := in.(*ssa.Store)
			if !ok {
				return
			}
			fa, ok := st.Addr.(*ssa.FieldAddr)
			if !ok {
				return
			}
			owner := namedStructOf(fa.X.Type())
			if owner == nil || an.FieldName(fa.X.Type(), fa.Field) != "recoverFunc" {
				return
			}
			switch owner.Obj().Name() {
			case "Router", "Group":
			default:
				return // the options object itself: written by the option closures
			}
			n++
			fresh := strings.HasPrefix(an.AP(fa.X), "alloc:")
			src := c.O.Of(st.Val).String()
			fromOptions := strings.Contains(src, "recoverFunc")
			good := fresh && fromOptions
			c.R.Add(rule, c.fk(f), "store:"+owner.Obj().Name()+".recoverFunc/at-construction-from-options", c.pos(in), good, ifelse(good, "installed while the object is built, from the built options ("+src+")", ifelse(!fresh, "the recovery function of an existing "+owner.Obj().Name()+" is overwritten ("+src+"): a router built without a recovery option starts swallowing panics (or one built with it stops)", "the recovery function installed is "+src+", not the one of the built options")))
		})
	}
	if n == 0 {
		c.R.Add(rule, "pkg:mux", "store:recoverFunc/exists", "-", false, "no constructor installs the recovery function any more")
	}
}

// ruleHasTraceIsNonNil — C18.R7 / C08.R9: "a TRACE handler is configured" means exactly "the trace argument of the
// tree constructor is not nil". The flag stored into the tree is that comparison (directly, or as a variable that is
// true exactly on the non-nil branch). A type assertion's ok, a reflect-based emptiness test or any other predicate
// silently drops handlers the option accepted (a zero-size struct handler, a value of another type).
func ruleHasTraceIsNonNil(c *Ctx, rule string) {
	a := c.A
	c.R.Rule(c.R.Property+"."+rule, 1, "a TRACE handler counts as configured exactly when the option value is not nil")
	f := a.TreeNew
	var tracePar *ssa.Parameter
	for _, p := range f.Params {
		if p.Name() == "trace" {
			tracePar = p
		}
	}
	if tracePar == nil {
		// the parameter of empty-interface type
		for _, p := range f.Params {
			if it, ok := p.Type().Underlying().(interface{ NumMethods() int }); ok && it.NumMethods() == 0 {
				tracePar = p
			}
		}
	}
	isNonNilTest := func(v ssa.Value) (pos bool, ok bool) {
		bo, isBO := v.(*ssa.BinOp)
		if !isBO || (bo.Op != token.NEQ && bo.Op != token.EQL) {
			return false, false
		}
		x, y := bo.X, bo.Y
		if _, isC := x.(*ssa.Const); isC {
			x, y = y, x
		}
		k, isC := y.(*ssa.Const)
		if !isC || k.Value != nil || x != ssa.Value(tracePar) {
			return false, false
		}
		return bo.Op == token.NEQ, true
	}
	n := 0
	an.AllInstrs(f, func(in ssa.Instruction) {
		base, field, val, ok := fieldStoreAny(in)
		if !ok || field != a.FHasTrace || !strings.HasPrefix(base, "alloc:") {
			return
		}
		n++
		good := false
		if tracePar != nil {
			if pos, ok := isNonNilTest(val); ok && pos {
				good = true
			} else if u, isNot := val.(*ssa.UnOp); isNot && u.Op == token.NOT {
				if pos, ok := isNonNilTest(u.X); ok && !pos {
					good = true
				}
			} else if phi, isPhi := val.(*ssa.Phi); isPhi {
				// true exactly over the non-nil edge
				good = len(phi.Edges) > 0
				for i, e := range phi.Edges {
					k, isC := e.(*ssa.Const)
					if !isC || k.Value == nil {
						good = false
						break
					}
					pred := phi.Block().Preds[i]
					wantTrue := k.Value.ExactString() == "true"
					onNonNil := an.DominatedByEdge(pred.Instrs[len(pred.Instrs)-1], func(b *ssa.BasicBlock, succ int) bool {
						cond, onTrue := an.EdgeCond(b, succ)
						if cond == nil {
							return false
						}
						v, neg := stripNot(cond)
						pos, ok := isNonNilTest(v)
						return ok && (pos != neg) == onTrue
					})
					if wantTrue != onNonNil {
						good = false
					}
				}
			}
		}
		c.R.Add(rule, c.fk(f), "store:"+a.FHasTrace+"=(trace-argument!=nil)", c.pos(in), good, ifelse(good, "the flag is the nil test of the constructor's trace argument", "the flag that says whether a TRACE handler is configured is "+c.O.Of(val).String()+", not `trace != nil`: an option value the predicate does not recognise is dropped silently — TRACE can then be registered by hand and is missing from every Allow set"))
	})
	if n == 0 {
		c.R.Add(rule, c.fk(f), "store:"+a.FHasTrace+"=(trace-argument!=nil)", c.P.Pos(f.Pos()), false, "the tree constructor no longer records whether a TRACE handler is configured")
	}
}

// ruleHostsVerdictIsLookup — C14.R10: Hosts.Match answers with the verdict of the lookup in its tree on every path:
// each return value is the found result of the Tree.Handler call (through helpers of the Hosts type). A constant
// verdict (an early rejection of "malformed" hosts, a hit in a memo of earlier answers) is an answer that does not
// come from the currently registered domains.
func ruleHostsVerdictIsLookup(c *Ctx, rule string) {
	a := c.A
	c.R.Rule(c.R.Property+"."+rule, 1, "Hosts.Match accepts iff the normalised host resolves in the tree of registered domains: its verdict is the lookup's verdict on every path")
	f := c.P.MustFunc("mux.(*Hosts).Match")
	var isLookupVerdict func(v ssa.Value, depth int) bool
	isLookupVerdict = func(v ssa.Value, depth int) bool {
		if depth > 3 {
			return false
		}
		switch x := v.(type) {
		case *ssa.Extract:
			call, ok := x.Tuple.(*ssa.Call)
			if !ok {
				return false
			}
			g := an.StaticCallee(&call.Call)
			if g == nil {
				return false
			}
			if an.Origin(g) == an.Origin(a.TreeHandler) {
				return x.Index == 2
			}
			if an.InModule(g) && len(g.Blocks) > 0 {
				for _, r := range an.Returns(g) {
					if x.Index >= len(r.Results) || !isLookupVerdict(r.Results[x.Index], depth+1) {
						return false
					}
				}
				return len(an.Returns(g)) > 0
			}
		case *ssa.Call:
			g := an.StaticCallee(&x.Call)
			if g != nil && an.InModule(g) && len(g.Blocks) > 0 && an.Origin(g) != an.Origin(f) {
				for _, r := range an.Returns(g) {
					if len(r.Results) != 1 || !isLookupVerdict(r.Results[0], depth+1) {
						return false
					}
				}
				return len(an.Returns(g)) > 0
			}
		case *ssa.Phi:
			for _, e := range x.Edges {
				if !isLookupVerdict(e, depth+1) {
					return false
				}
			}
			return len(x.Edges) > 0
		}
		return false
	}
	for i, r := range an.Returns(f) {
		good := len(r.Results) == 1 && isLookupVerdict(r.Results[0], 0)
		c.R.Add(rule, c.fk(f), fmt.Sprintf("return#%d/verdict=tree-lookup", i), c.pos(r), good, ifelse(good, "the verdict of the lookup among the registered domains", "Hosts.Match answers "+c.O.Of(r.Results[0]).String()+" on this path without (or regardless of) looking the host up among the registered domains"))
	}
}

// ruleHostsPatternsOnlyLowered — C14.R1b: the patterns Hosts.Add / Hosts.Delete hand to their tree are the caller's
// domains with the domain *name* lower-cased and nothing else:
//
//   - a request host is normalised (port, brackets), a configured domain pattern is not — stripping a "port" from a
//     pattern eats the last group of an unbracketed IPv6 literal or a regexp's `:`;
//   - the text inside {...} — parameter names, regexp rules, interceptor keys — is case-sensitive (`\D` is not `\d`,
//     the interceptor "Answer" is not "answer"): strings.ToLower is applied to the text before a '{' (a slice that
//     ends at IndexByte(text, '{')) or to text known to contain no '{', never to the whole pattern;
//   - Add and Delete normalise in the same way (otherwise Delete does not find what Add registered).
func ruleHostsPatternsOnlyLowered(c *Ctx, rule string) {
	c.R.Rule(c.R.Property+"."+rule, 2, "Add and Delete register / remove exactly the named domain, its name lower-cased, the text inside {} untouched")
	// derived: the caller's domain or a part of it (re-sliced in a loop)
	var derived func(v ssa.Value, seen map[ssa.Value]bool) bool
	derived = func(v ssa.Value, seen map[ssa.Value]bool) bool {
		if seen[v] {
			return true
		}
		seen[v] = true
		switch x := v.(type) {
		case *ssa.Parameter:
			return isStringType(x.Type())
		case *ssa.Phi:
			for _, e := range x.Edges {
				if !derived(e, seen) {
					return false
				}
			}
			return true
		case *ssa.Slice:
			return derived(x.X, seen)
		case *ssa.UnOp:
			// the loop variable of `for _, d := range domains`
			return x.Op == token.MUL && strings.HasPrefix(an.AP(x), "p:")
		case *ssa.Extract:
			return strings.HasPrefix(an.AP(x), "p:")
		}
		return strings.HasPrefix(an.AP(v), "p:") && isStringType(v.Type())
	}
	isBraceIndex := braceIndexCall
	noBraceEdge := func(text ssa.Value) func(b *ssa.BasicBlock, succ int) bool {
		return func(b *ssa.BasicBlock, succ int) bool {
			return edgeHas(b, succ, func(cond ssa.Value, truth bool) bool {
				if bo, ok := cond.(*ssa.BinOp); ok && isBraceIndex(bo.X, text) {
					kc, isK := bo.Y.(*ssa.Const)
					if !isK {
						return false
					}
					k := an.ConstKey(kc)
					switch {
					case bo.Op == token.LSS && k == "0", bo.Op == token.EQL && k == "-1":
						return truth
					case bo.Op == token.GEQ && k == "0", bo.Op == token.NEQ && k == "-1":
						return !truth
					}
				}
				if call, ok := cond.(*ssa.Call); ok {
					switch an.CalleeName(&call.Call) {
					case "strings.Contains":
						k, isS := strConst(call.Call.Args[1])
						return isS && k == "{" && call.Call.Args[0] == text && !truth
					case "strings.ContainsRune", "strings.ContainsAny":
						return call.Call.Args[0] == text && !truth && strings.Contains(c.O.Of(call.Call.Args[1]).String(), "123") || (call.Call.Args[0] == text && !truth && strings.Contains(c.O.Of(call.Call.Args[1]).String(), "{"))
					}
				}
				return false
			})
		}
	}
	forms := map[string]string{}
	for _, spec := range []struct{ key, target string }{{"mux.(*Hosts).Add", "tree.(*Tree).Add"}, {"mux.(*Hosts).Delete", "tree.(*Tree).Remove"}} {
		f := c.P.MustFunc(spec.key)
		n := 0
		for _, fn := range builderCluster(c, f) {
			if !strings.HasPrefix(an.FuncKey(fn), "mux.") {
				continue
			}
			an.AllInstrs(fn, func(in ssa.Instruction) {
				call := an.CallOf(in)
				if call == nil {
					return
				}
				g := an.StaticCallee(call)
				if g == nil {
					return
				}
				if an.CalleeName(call) == "strings.ToLower" && derived(call.Args[0], map[ssa.Value]bool{}) {
					arg := call.Args[0]
					ok := false
					if sl, isSl := arg.(*ssa.Slice); isSl && sl.Low == nil && sl.High != nil && isBraceIndex(sl.High, sl.X) {
						ok = true // the text before the '{'
					} else if an.DominatedByEdge(in, noBraceEdge(arg)) {
						ok = true // text without a '{'
					}
					c.R.Add(rule, c.fk(fn), "lower:"+c.O.Of(arg).String()+"/only-outside-braces", c.pos(in), ok, ifelse(ok, "lower-cased text is the part before a '{' or contains none", "a domain pattern is lower-cased as a whole, including the text inside {...}: a regexp rule `\\D+` becomes `\\d+`, an interceptor key \"Answer\" becomes \"answer\" (no interceptor, so a regexp), a parameter `Sub` is reported as `sub` — the registered domain is not the one the caller named"))
				}
				if an.FuncKey(g) != spec.target {
					return
				}
				n++
				t := c.O.Of(call.Args[1]).String()
				good := false
				switch {
				case strings.HasPrefix(t, "call<strings.ToLower>(") && strings.Count(t, "call<") == 1 && !strings.Contains(t, "slice"):
					good = true // (whether the whole pattern may be lower-cased is the obligation above)
				case strings.HasPrefix(t, "call<mux.") && strings.Count(t, "call<") == 1 && !strings.Contains(t, "slice"):
					// a normaliser of the module: what it returns is assembled from lower-cased parts and verbatim parts of its argument
					if nf := an.StaticCallee(an.CallOf(valueInstr(call.Args[1]))); nf != nil && len(nf.Params) == 1 {
						good = true
						an.AllInstrs(nf, func(w ssa.Instruction) {
							wc := an.CallOf(w)
							if wc == nil {
								return
							}
							switch an.CalleeName(wc) {
							case "strings.(*Builder).WriteString":
								x := wc.Args[1]
								if lc, isCall := x.(*ssa.Call); isCall && an.CalleeName(&lc.Call) == "strings.ToLower" {
									x = lc.Call.Args[0]
								}
								if !derived(x, map[ssa.Value]bool{}) {
									good = false
								}
							case "strings.(*Builder).WriteByte", "strings.(*Builder).WriteRune", "strings.(*Builder).Write":
								good = false
							}
						})
					}
				}
				forms[spec.key] = regexp.MustCompile(`(p:|param:)\w+(\[\])?`).ReplaceAllString(t, "domain")
				c.R.Add(rule, c.fk(fn), "call:"+spec.target+"/pattern=ToLower(domain)", c.pos(in), good, ifelse(good, t, "the pattern handed to the tree is "+t+": a configured domain is transformed by more than lower-casing its name"))
			})
		}
		if n == 0 {
			c.R.Add(rule, spec.key, "call:"+spec.target+"/pattern=ToLower(domain)", c.P.Pos(f.Pos()), false, spec.key+" no longer reaches "+spec.target)
		}
	}
	same := forms["mux.(*Hosts).Add"] == forms["mux.(*Hosts).Delete"]
	c.R.Add(rule, "mux.(*Hosts)", "Add/Delete/same-normalisation", "-", same, ifelse(same, "Add and Delete normalise the domain in the same way: "+forms["mux.(*Hosts).Add"], "Add registers "+forms["mux.(*Hosts).Add"]+" but Delete removes "+forms["mux.(*Hosts).Delete"]+": a domain registered with upper-case letters cannot be deleted"))
}

// braceIndexCall: v is the position of the first '{' in text (any text when text is nil).
func braceIndexCall(v ssa.Value, text ssa.Value) bool {
	call, ok := v.(*ssa.Call)
	if !ok {
		return false
	}
	switch an.CalleeName(&call.Call) {
	case "strings.IndexByte", "strings.IndexRune":
		k, isK := call.Call.Args[1].(*ssa.Const)
		return isK && k.Value != nil && k.Value.ExactString() == "123" && (text == nil || call.Call.Args[0] == text)
	case "strings.Index":
		k, isS := strConst(call.Call.Args[1])
		return isS && k == "{" && (text == nil || call.Call.Args[0] == text)
	}
	return false
}

// valueInstr: the instruction that defines v (nil for parameters and constants).
func valueInstr(v ssa.Value) ssa.Instruction {
	in, _ := v.(ssa.Instruction)
	return in
}

// rulePatternsEnterThroughTheParser — C05.R11: the segments from which Tree.Add builds nodes are, on every path, the
// result of the validating parser (Interceptors.Split) applied to the pattern it was given. A second way in (a fast
// path that wraps a "static" pattern into a literal segment itself) bypasses the parser's checks — empty pattern,
// length limit, stray braces — and what CheckSyntax rejects is registered all the same.
func rulePatternsEnterThroughTheParser(c *Ctx, rule string) {
	a := c.A
	c.R.Rule(c.R.Property+"."+rule, 1, "every pattern is parsed by the validating parser before nodes are built from it")
	split := c.P.MustFunc("syntax.(*Interceptors).Split")
	f := a.TreeAdd
	var patternPar *ssa.Parameter
	for _, p := range f.Params[1:] {
		if isStringType(p.Type()) && patternPar == nil {
			patternPar = p
		}
	}
	var fromParser func(v ssa.Value, depth int) bool
	fromParser = func(v ssa.Value, depth int) bool {
		if depth > 3 {
			return false
		}
		switch x := v.(type) {
		case *ssa.Extract:
			call, ok := x.Tuple.(*ssa.Call)
			if !ok || x.Index != 0 {
				return false
			}
			g := an.StaticCallee(&call.Call)
			return g != nil && an.Origin(g) == an.Origin(split) && len(call.Call.Args) == 2 && call.Call.Args[1] == ssa.Value(patternPar)
		case *ssa.Phi:
			for _, e := range x.Edges {
				if !fromParser(e, depth+1) {
					return false
				}
			}
			return len(x.Edges) > 0
		case *ssa.Slice:
			return false // a part of the parsed list is not the pattern
		}
		return false
	}
	n := 0
	an.AllInstrs(f, func(in ssa.Instruction) {
		call, ok := in.(*ssa.Call)
		if !ok {
			return
		}
		g := an.StaticCallee(&call.Call)
		if g == nil || !an.InModule(g) || an.Origin(g) == an.Origin(split) {
			return
		}
		for _, arg := range call.Call.Args {
			sl, isSlice := arg.Type().Underlying().(*types.Slice)
			if !isSlice || !isPtrToNamed(sl.Elem(), a.SegmentT) {
				continue
			}
			n++
			good := fromParser(arg, 0)
			c.R.Add(rule, c.fk(f), "call:"+an.FuncKey(g)+"/segments=Split(pattern)", c.pos(in), good, ifelse(good, "the segments are the parser's result for the pattern given", "nodes are built from segments that did not (on every path) come from the validating parser: "+c.O.Of(arg).String()+" — a pattern the parser rejects (empty, over-long, malformed) can be registered"))
		}
	})
	if n == 0 {
		c.R.Add(rule, c.fk(f), "call:structure-builder/segments=Split(pattern)", c.P.Pos(f.Pos()), false, "Tree.Add no longer hands parsed segments to a structure-building function")
	}
}

// ruleIndexedFieldsKeepValidatedText — C05.R12: a string field that is indexed at position 0 without a test of its
// own (Segment.Name in cleanName, Segment.Value when the first-byte index is built) relies on what was checked when
// the value was cut out of the pattern: the parser proved that piece non-empty. Every store into such a field
// therefore stores the piece as it was cut (a sub-slice of the text, the field's own tail, a parameter), not the
// result of a function that can shorten it (strings.Trim*, Replace*, Fields, …): "{ }" is a non-empty name until
// TrimSpace has seen it.
func ruleIndexedFieldsKeepValidatedText(c *Ctx, rule string) {
	c.R.Rule(c.R.Property+"."+rule, 0, "text that is indexed without a test of its own is stored exactly as the parser validated it")
	type fieldKey struct{ owner, field string }
	indexed := map[fieldKey]string{}
	for _, f := range c.libFuncs() {
		an.AllInstrs(f, func(in ssa.Instruction) {
			lk, ok := in.(*ssa.Index)
			if !ok || !isStringType(lk.X.Type()) {
				return
			}
			k, isC := lk.Index.(*ssa.Const)
			if !isC || k.Value == nil || k.Int64() != 0 {
				return
			}
			load, ok := lk.X.(*ssa.UnOp)
			if !ok {
				return
			}
			fa, ok := load.X.(*ssa.FieldAddr)
			if !ok {
				return
			}
			owner := namedStructOf(fa.X.Type())
			if owner == nil || owner.Obj().Pkg() == nil || !an.InModulePkg(owner.Obj().Pkg()) {
				return
			}
			ap := an.AP(lk.X)
			guarded := an.DominatedByEdge(in, func(b *ssa.BasicBlock, succ int) bool {
				return nonEmptyEdge(b, succ, ap)
			})
			if guarded {
				return
			}
			indexed[fieldKey{owner.Obj().Name(), an.FieldName(fa.X.Type(), fa.Field)}] = c.pos(in)
		})
	}
	shrinkers := []string{"strings.Trim", "strings.Replace", "strings.Fields", "strings.Split", "strings.Cut", "strings.Map", "strings.ToValidUTF8", "path.Clean", "path.Base", "url."}
	n := 0
	for _, f := range c.libFuncs() {
		an.AllInstrs(f, func(in ssa.Instruction) {
			st, ok := in.(*ssa.Store)
			if !ok {
				return
			}
			fa, ok := st.Addr.(*ssa.FieldAddr)
			if !ok {
				return
			}
			owner := namedStructOf(fa.X.Type())
			if owner == nil {
				return
			}
			fk := fieldKey{owner.Obj().Name(), an.FieldName(fa.X.Type(), fa.Field)}
			at, isIndexed := indexed[fk]
			if !isIndexed {
				return
			}
			n++
			t := c.O.Of(st.Val).String()
			bad := ""
			for _, s := range shrinkers {
				if strings.Contains(t, "call<"+s) {
					bad = s
				}
			}
			c.R.Add(rule, c.fk(f), "store:"+fk.owner+"."+fk.field+"/as-validated", c.pos(in), bad == "", ifelse(bad == "", "stored as cut from the validated text", fk.owner+"."+fk.field+" is indexed at "+at+" without an emptiness test, but here it receives "+t+": a value the parser accepted as non-empty can become empty — a runtime fault instead of a syntax error"))
		})
	}
	_ = n
}

// ruleInternalKeyIsNotAMethod — C11.R10 / C01.R14 / C04.R10: the handler map keeps the 405 handler under an internal
// key (the empty string). Tree.Handler answers "served" only for a request method that is not that key: every return
// with served == true lies behind an edge on which the method is known to differ from the internal key (tested
// against it, or equal to another constant). Otherwise a request whose method is the empty string is handed the 405
// handler as if it were a route handler — with CORS headers, HEAD wrapping and a served status.
func ruleInternalKeyIsNotAMethod(c *Ctx, rule string) {
	a := c.A
	c.R.Rule(c.R.Property+"."+rule, 1, "the internal 405 key is not a request method: a request carrying it is answered as not served")
	f := a.TreeHandler
	var method *ssa.Parameter
	for _, p := range f.Params[1:] {
		if isStringType(p.Type()) {
			method = p
		}
	}
	if method == nil {
		an.Fatalf("UNRESOLVED anchor: method parameter of %s", c.fk(f))
	}
	key, _ := strconv.Unquote(a.NotAllowedKey)
	differs := func(b *ssa.BasicBlock, succ int) bool {
		return edgeHas(b, succ, func(cond ssa.Value, truth bool) bool {
			x, k, eq, ok := an.CondAtom(cond)
			if !ok || x != ssa.Value(method) {
				return false
			}
			s, isStr := strConst(k)
			if !isStr {
				return false
			}
			if s == key {
				return eq != truth // method != key holds
			}
			return eq == truth // method == another constant
		})
	}
	n := 0
	for i, r := range an.Returns(f) {
		r := r
		if len(r.Results) < 3 {
			continue
		}
		served := an.ReturnValue(r, 2)
		if k, isC := served.(*ssa.Const); isC && k.Value != nil && k.Value.ExactString() == "false" {
			continue
		}
		n++
		// a flag that is itself (a conjunction ending in) `method != key` says "served" only when the method differs
		var impliesDiffers func(v ssa.Value, depth int) bool
		impliesDiffers = func(v ssa.Value, depth int) bool {
			if depth > 3 {
				return false
			}
			switch x := v.(type) {
			case *ssa.Const:
				return x.Value != nil && x.Value.ExactString() == "false"
			case *ssa.BinOp:
				if x.Op == token.NEQ && x.X == ssa.Value(method) {
					s, isStr := strConst(x.Y)
					return isStr && s == key
				}
			case *ssa.Phi:
				for _, e := range x.Edges {
					if !impliesDiffers(e, depth+1) {
						return false
					}
				}
				return len(x.Edges) > 0
			}
			return false
		}
		if impliesDiffers(served, 0) {
			c.R.Add(rule, c.fk(f), fmt.Sprintf("return#%d/served-only-for-a-method-other-than-the-405-key", i), c.pos(r), true, "the served flag is a conjunction that ends in `method != key`")
			continue
		}
		q := &an.Query{BlockEdge: differs, Target: func(in ssa.Instruction) bool { return in == ssa.Instruction(r) }}
		// a return whose served flag is decided by the path: only the paths that say "served"
		q.Target = nil
		q.TargetReturn = func(ret *ssa.Return, val func(ssa.Value) (bool, bool)) bool {
			if ret != r {
				return false
			}
			known, b := val(ret.Results[2])
			return !known || b
		}
		path := q.Search(an.Entry(f))
		o := c.R.Add(rule, c.fk(f), fmt.Sprintf("return#%d/served-only-for-a-method-other-than-the-405-key", i), c.pos(r), path == nil, ifelse(path == nil, "served == true only where the method is known to differ from the internal key", fmt.Sprintf("a request whose method is %q (the key under which the 405 handler is kept) is answered as served with that handler: the 405 response gets CORS grants, and the route's method-not-allowed answer counts as a match", key)))
		if path != nil {
			o.Path = c.P.PathString(path)
		}
	}
	if n == 0 {
		c.R.Add(rule, c.fk(f), "served-returns/exist", c.P.Pos(f.Pos()), false, "Tree.Handler never reports a request as served")
	}
}

// ruleListHeaderReadCompletely — C11.R11: Access-Control-Request-Headers is a list-valued header: a request may
// carry it on several lines, each a comma-separated list. The CORS decision reads all of them (Header.Values, or the
// map entry) — Header.Get returns the first line only, and a header outside the allowed list on a second line is
// never looked at.
func ruleListHeaderReadCompletely(c *Ctx, rule string) {
	handle, _, _ := corsFuncs(c)
	c.R.Rule(c.R.Property+"."+rule, 1, "every line of Access-Control-Request-Headers is checked against the allowed list")
	g := an.NewGraph(c.P)
	n := 0
	for _, f := range an.SortedFuncs(g.Reach([]*ssa.Function{handle}, nil)) {
		an.AllInstrs(f, func(in ssa.Instruction) {
			name, all, ok := requestHeaderRead(in)
			if !ok || name != hACRH {
				return
			}
			n++
			c.R.Add(rule, c.fk(f), "read:"+hACRH+"/all-lines", c.pos(in), all, ifelse(all, "read with Header.Values: every line is examined", "the requested headers are read with Header.Get, which returns only the first line: a preflight that names a header outside the allowed list on a second "+hACRH+" line is granted"))
		})
	}
	if n == 0 {
		c.R.Add(rule, c.fk(handle), "read:"+hACRH+"/all-lines", c.P.Pos(handle.Pos()), false, "the CORS decision no longer reads "+hACRH)
	}
}

// ruleInterceptorSelection — C02.R12 / C01.R15: which user function constrains a parameter, and what it is asked.
//
// (a) The function stored as a segment's matcher is the accept-all literal (named parameters) or the entry found by
//
//	an exact, comma-ok lookup of the rule text in the interceptor table — directly or through a helper all of whose
//	returns are that. A fallback search (case-folded, prefix, …) lets a regexp rule that merely resembles an
//	interceptor's key be taken over by that interceptor.
//
// (b) A module function that wraps the call of a segment's matcher returns the matcher's verdict on every path: a
//
//	pre-filter (empty values are never handed to the function) decides instead of the user's constraint.
func ruleInterceptorSelection(c *Ctx, rule string) {
	c.R.Rule(c.R.Property+"."+rule, 1, "a parameter is constrained by exactly the interceptor its rule text names, and that function alone decides")
	var fromExactLookup func(v ssa.Value, depth int) bool
	fromExactLookup = func(v ssa.Value, depth int) bool {
		if depth > 3 {
			return false
		}
		switch x := v.(type) {
		case *ssa.Const:
			return x.Value == nil
		case *ssa.Extract:
			switch t := x.Tuple.(type) {
			case *ssa.Lookup:
				if !t.CommaOk || x.Index != 0 {
					return false
				}
				_, _, ok := locationOf(t.X, 0)
				return ok && strings.HasSuffix(an.AP(t.X), ".funcs")
			case *ssa.Call:
				g := an.StaticCallee(&t.Call)
				if g == nil || !an.InModule(g) || len(g.Blocks) == 0 {
					return false
				}
				for _, r := range an.Returns(g) {
					if x.Index >= len(r.Results) || !fromExactLookup(r.Results[x.Index], depth+1) {
						return false
					}
				}
				return true
			}
		case *ssa.Phi:
			for _, e := range x.Edges {
				if !fromExactLookup(e, depth+1) {
					return false
				}
			}
			return len(x.Edges) > 0
		}
		return false
	}
	n := 0
	for _, f := range c.libFuncs() {
		if !strings.HasPrefix(an.FuncKey(f), "syntax.") {
			continue
		}
		an.AllInstrs(f, func(in ssa.Instruction) {
			st, ok := in.(*ssa.Store)
			if !ok {
				return
			}
			fa, ok := st.Addr.(*ssa.FieldAddr)
			if !ok || !isPtrToNamed(fa.X.Type(), c.A.SegmentT) || an.FieldName(fa.X.Type(), fa.Field) != "matcher" {
				return
			}
			n++
			v := st.Val
			if ct, isCT := v.(*ssa.ChangeType); isCT {
				v = ct.X
			}
			var okValue func(v ssa.Value, depth int) bool
			okValue = func(v ssa.Value, depth int) bool {
				if ct, isCT := v.(*ssa.ChangeType); isCT {
					v = ct.X
				}
				switch v.(type) {
				case *ssa.Function, *ssa.MakeClosure:
					return true // the accept-all literal of a named parameter
				case *ssa.Parameter:
					// a helper that installs what it is given: every call site hands it such a value
					args := argsOfParam(v)
					if len(args) == 0 || depth > 2 {
						return false
					}
					for _, a := range args {
						if !okValue(a, depth+1) {
							return false
						}
					}
					return true
				}
				return fromExactLookup(v, 0)
			}
			good := okValue(v, 0)
			c.R.Add(rule, c.fk(f), "store:Segment.matcher/exact-table-entry", c.pos(in), good, ifelse(good, "a function literal, or the table entry found by the exact lookup of the rule text", "the constraint function of a segment is "+c.O.Of(st.Val).String()+": not (on every path) the entry an exact lookup of the rule text finds — a rule that only resembles an interceptor's key is handed to that interceptor"))
		})
	}
	// (b) functions of the syntax package that take one candidate value and answer with a verdict (Valid, and any
	// wrapper around the call of the constraint function): evaluated for a segment of interceptor kind and for one of
	// named kind, every outcome is the verdict of the constraint function asked with exactly that value.
	for _, f := range c.libFuncs() {
		if !strings.HasPrefix(an.FuncKey(f), "syntax.") || f.Signature.Results().Len() != 1 || !isBoolType(f.Signature.Results().At(0).Type()) {
			continue
		}
		if len(f.Params) != 2 || !isStringType(f.Params[1].Type()) || !isPtrToNamed(f.Params[0].Type(), c.A.SegmentT) {
			continue
		}
		asks := false
		an.AllInstrs(f, func(in ssa.Instruction) {
			if call, ok := in.(*ssa.Call); ok && strings.HasPrefix(an.CalleeName(&call.Call), "dynamic:") && strings.HasSuffix(an.AP(call.Call.Value), ".matcher") {
				asks = true
			}
		})
		if !asks {
			continue
		}
		for _, kind := range []string{"Interceptor", "Named"} {
			kv := c.A.Kind(kind)
			se := &symEval{c: c}
			se.truth = func(e string) int {
				for _, pre := range []string{"EQ(SEG.Type,CONST:", "EQ(CONST:"} {
					if strings.HasPrefix(e, pre) && strings.Contains(e, "SEG.Type") {
						if strings.Contains(e, "CONST:"+kv+")") || strings.Contains(e, "CONST:"+kv+",") {
							return 1
						}
						return -1
					}
				}
				for _, pre := range []string{"NE(SEG.Type,CONST:", "NE(CONST:"} {
					if strings.HasPrefix(e, pre) && strings.Contains(e, "SEG.Type") {
						if strings.Contains(e, "CONST:"+kv+")") || strings.Contains(e, "CONST:"+kv+",") {
							return -1
						}
						return 1
					}
				}
				return 0
			}
			se.model = func(se *symEval, name string, call *ssa.CallCommon, args []sval, st *sstate) ([]sval, bool) {
				if strings.HasPrefix(name, "dynamic:") && strings.HasSuffix(an.AP(call.Value), ".matcher") {
					if len(args) == 1 {
						return []sval{sv("VERDICT(" + args[0].e + ")")}, true
					}
				}
				return nil, false
			}
			var bad []string
			for _, o := range se.outcomes(f, []sval{sv("SEG"), sv("VAL")}) {
				if o.ret == "VERDICT(VAL)" || (kind == "Named" && o.ret == "CONST:true") { // a named parameter accepts everything
					continue
				}
				bad = append(bad, o.ret)
			}
			c.R.Add(rule, c.fk(f), "kind:"+kind+"/verdict=constraint-function(value)", c.P.Pos(f.Pos()), len(bad) == 0, ifelse(len(bad) == 0, "for a segment of this kind the answer is the constraint function's verdict on the value", "for a "+kind+" segment the answer can be "+strings.Join(bad, " | ")+" instead of the constraint function's verdict on the value: a pre-filter or another test decides what the user's function was registered to decide"))
		}
	}
	if n == 0 {
		c.R.Add(rule, "pkg:syntax", "store:Segment.matcher/exists", "-", false, "no segment constructor installs a constraint function any more")
	}
}

// ruleReleasedObjectsStayInside — C07.R7: an object a function gives back to a pool (Context.Destroy, Pool.Put —
// called or deferred) is not handed out of that function and is not reachable from code that runs after the
// release:
//
//	(a) it is not returned — not as itself, not boxed into an interface, not as the result of one of its own methods
//	    that returns the receiver (Context.Params());
//	(b) when the release is deferred, no closure deferred *earlier* in the same function (it runs *later*) captures
//	    the object or a variable the object is assigned to.
//
// The next Get hands the same object to another request: what leaked is now that request's state.
func ruleReleasedObjectsStayInside(c *Ctx, rule string) {
	c.R.Rule(c.R.Property+"."+rule, 1, "an object given back to a pool is not returned and not used by code that runs after the release")
	unbox := func(v ssa.Value) ssa.Value {
		for i := 0; i < 4; i++ {
			switch x := v.(type) {
			case *ssa.MakeInterface:
				v = x.X
			case *ssa.ChangeInterface:
				v = x.X
			case *ssa.ChangeType:
				v = x.X
			case *ssa.TypeAssert:
				v = x.X
			default:
				return v
			}
		}
		return v
	}
	returnsReceiver := func(g *ssa.Function) bool {
		if g == nil || len(g.Blocks) == 0 || len(g.Params) == 0 || g.Signature.Recv() == nil {
			return false
		}
		rets := an.Returns(g)
		for _, r := range rets {
			if len(r.Results) != 1 || unbox(r.Results[0]) != ssa.Value(g.Params[0]) {
				return false
			}
		}
		return len(rets) > 0
	}
	n := 0
	for _, f := range c.libFuncs() {
		type release struct {
			in  ssa.Instruction
			obj ssa.Value
		}
		var rels []release
		an.AllInstrs(f, func(in ssa.Instruction) {
			call := an.CallOf(in)
			if call == nil {
				return
			}
			switch an.CalleeName(call) {
			case "types.(*Context).Destroy":
				rels = append(rels, release{in, unbox(call.Args[0])})
			case "sync.(*Pool).Put":
				if len(call.Args) == 2 {
					rels = append(rels, release{in, unbox(call.Args[1])})
				}
			}
		})
		for _, rel := range rels {
			obj := rel.obj
			if _, isParam := obj.(*ssa.Parameter); isParam {
				continue // the caller's object: the caller's obligation (Context.Destroy releases its receiver)
			}
			n++
			aliases := func(v ssa.Value) bool {
				v = unbox(v)
				if v == obj {
					return true
				}
				if call, ok := v.(*ssa.Call); ok {
					if g := an.StaticCallee(&call.Call); g != nil && an.InModule(g) && returnsReceiver(g) && len(call.Call.Args) > 0 && unbox(call.Call.Args[0]) == obj {
						return true
					}
				}
				return false
			}
			bad := ""
			for _, r := range an.Returns(f) {
				for i := range r.Results {
					if aliases(an.ReturnValue(r, i)) {
						bad = "it is returned at " + c.pos(r)
					}
				}
			}
			if _, isDefer := rel.in.(*ssa.Defer); isDefer && bad == "" {
				// cells the object is stored into
				cells := map[ssa.Value]bool{}
				an.AllInstrs(f, func(in ssa.Instruction) {
					if st, ok := in.(*ssa.Store); ok && aliases(st.Val) {
						cells[st.Addr] = true
					}
				})
				an.AllInstrs(f, func(in ssa.Instruction) {
					d, ok := in.(*ssa.Defer)
					if !ok || in == rel.in || bad != "" {
						return
					}
					// deferred earlier = runs later: d precedes the release on a path
					earlier := (&an.Query{Target: func(t ssa.Instruction) bool { return t == rel.in }}).Search(an.After(in)) != nil
					if !earlier {
						return
					}
					mc, isMC := d.Call.Value.(*ssa.MakeClosure)
					if !isMC {
						return
					}
					for _, b := range mc.Bindings {
						if aliases(b) || cells[b] {
							bad = "the closure deferred at " + c.pos(in) + " runs after the deferred release and still reaches it through " + an.AP(b)
						}
					}
				})
			}
			c.R.Add(rule, c.fk(f), "release:"+an.CalleeName(an.CallOf(rel.in))+"/object-stays-inside", c.pos(rel.in), bad == "", ifelse(bad == "", "the released object is neither returned nor reachable from code that runs after the release", "an object is given back to the pool here, but "+bad+": the next request that obtains it from the pool shares it with this one"))
		}
	}
	_ = n
}

// ruleNoSharingByStructCopy — C07.R8: a struct of the library that holds pointers (or maps) to objects that are
// written after their construction — the options object with its interceptor table and its CORS configuration — is
// never copied by value (`ret := *o`): the copy shares every one of those objects with the original, so what one
// router's option changes (an interceptor registered for it) shows up in its siblings.
func ruleNoSharingByStructCopy(c *Ctx, rule string) {
	c.R.Rule(c.R.Property+"."+rule, 0, "configuration objects are not duplicated by value: a copy would share the mutable objects they point to")
	mutated := mutatedStructTypes(c)
	holdsMutable := func(n *types.Named) (string, bool) {
		st, ok := n.Underlying().(*types.Struct)
		if !ok {
			return "", false
		}
		for i := 0; i < st.NumFields(); i++ {
			t := st.Field(i).Type()
			if p, isPtr := t.Underlying().(*types.Pointer); isPtr {
				if tn, isNamed := types.Unalias(p.Elem()).(*types.Named); isNamed && tn.Obj().Pkg() != nil && an.InModulePkg(tn.Obj().Pkg()) {
					if _, isMut := mutated[tn.Origin()]; isMut {
						return st.Field(i).Name(), true
					}
				}
			}
		}
		return "", false
	}
	for _, f := range c.libFuncs() {
		an.AllInstrs(f, func(in ssa.Instruction) {
			load, ok := in.(*ssa.UnOp)
			if !ok || load.Op != token.MUL {
				return
			}
			n, isNamed := types.Unalias(load.Type()).(*types.Named)
			if !isNamed || n.Obj().Pkg() == nil || !an.InModulePkg(n.Obj().Pkg()) {
				return
			}
			field, holds := holdsMutable(n)
			if !holds {
				return
			}
			if _, isLocal := load.X.(*ssa.Alloc); isLocal {
				return // reading back a local value
			}
			// the loaded struct value is stored somewhere else: a copy
			copied := false
			for _, ref := range *load.Referrers() {
				if st, ok := ref.(*ssa.Store); ok && st.Val == ssa.Value(load) {
					copied = true
				}
			}
			if !copied {
				return
			}
			c.R.Add(rule, c.fk(f), "copy-by-value:"+n.Obj().Name(), c.pos(in), false, "a "+n.Obj().Name()+" is copied by value: the copy shares the object its field "+field+" points to (which is written after construction) with the original — routers configured from the copy and from the original are no longer independent")
		})
	}
}

// ruleOnlyKnownConstantKeys — C04.R13 / C18.R10: the library itself puts exactly three constant keys into a handler
// map: HEAD (with GET), OPTIONS and the internal 405 key. Every other key comes from the caller's method list. A
// further constant key (the router-wide TRACE handler kept as a map entry of the root) is counted by the recount as
// a registered method and added to the summaries a second time.
func ruleOnlyKnownConstantKeys(c *Ctx, rule string) {
	a := c.A
	c.R.Rule(c.R.Property+"."+rule, 3, "the only constant keys the library installs in a handler map are HEAD, OPTIONS and the 405 key")
	key405, _ := strconv.Unquote(a.NotAllowedKey)
	allowed := map[string]bool{"HEAD": true, "OPTIONS": true, key405: true}
	n := 0
	for _, f := range c.libFuncs() {
		an.AllInstrs(f, func(in ssa.Instruction) {
			mu, ok := in.(*ssa.MapUpdate)
			if !ok {
				return
			}
			if _, isH := fieldLoadOf(mu.Map, a.NodeT, a.FHandlers); !isH {
				// a map literal that becomes a handler map (tree.New)
				mm, isMake := mu.Map.(*ssa.MakeMap)
				if !isMake {
					return
				}
				becomes := false
				for _, ref := range *mm.Referrers() {
					if st, ok := ref.(*ssa.Store); ok && st.Val == ssa.Value(mm) {
						if _, field, _, ok := fieldStore(st, a.NodeT); ok && field == a.FHandlers {
							becomes = true
						}
					}
				}
				if !becomes {
					return
				}
			}
			s, isC := strConst(mu.Key)
			if !isC {
				return
			}
			n++
			c.R.Add(rule, c.fk(f), "install:const"+strconv.Quote(s)+"/known-automatic-key", c.pos(in), allowed[s], ifelse(allowed[s], "one of the three automatic entries", "the library installs a handler under the constant key "+strconv.Quote(s)+": the recount and the Allow summaries treat it as a method the user registered on this node (for TRACE: the TRACE bit is added twice)"))
		})
	}
	_ = n
}

// ruleMemoListsAreCopied — C07.R9: the process-wide memo of rendered method sets is shared by every router; what
// Methods() and Routes() hand to the user is a copy of its lists (the obligations are those of C04.R5).
func ruleMemoListsAreCopied(c *Ctx, rule string) {
	sub := an.NewReport(c.R.Property)
	cc := &Ctx{P: c.P, A: c.A, R: sub, O: c.O}
	ruleSummaryRendering(cc, "X")
	c.R.Rule(c.R.Property+"."+rule, 2, "method lists handed to the user are copies of the process-wide memo")
	for _, o := range sub.Obls {
		if strings.Contains(o.Construct, "copy-of-memo-list") {
			c.R.Add(rule, o.Func, o.Construct, o.At, o.OK, o.Msg)
		}
	}
}

// ruleConstructorsOwnTheirLists — C15.R6 / C07.R10: the version matchers keep a list for as long as they live. It
// is a list of their own: the constructors neither write into the slice the caller passed (the variadic argument is
// the caller's slice when it is spread with `vs...`) nor keep that slice. Otherwise a second matcher built from the
// same list sees the first one's normalised "/v1/" forms, and a caller that reuses its slice changes what a
// finished matcher accepts.
func ruleConstructorsOwnTheirLists(c *Ctx, rule string) {
	c.R.Rule(c.R.Property+"."+rule, 2, "a matcher's version list is its own: the caller's slice is neither written nor kept")
	for _, key := range []string{"mux.NewPathVersion", "mux.NewHeaderVersion"} {
		f := c.P.MustFunc(key)
		var listPar *ssa.Parameter
		for _, p := range f.Params {
			if sl, ok := p.Type().Underlying().(*types.Slice); ok && isStringType(sl.Elem()) {
				listPar = p
			}
		}
		if listPar == nil {
			continue
		}
		writes, keeps := "", ""
		an.AllInstrs(f, func(in ssa.Instruction) {
			st, ok := in.(*ssa.Store)
			if !ok {
				return
			}
			if ia, isIA := st.Addr.(*ssa.IndexAddr); isIA && ia.X == ssa.Value(listPar) {
				writes = c.pos(in)
			}
			if _, isFA := st.Addr.(*ssa.FieldAddr); isFA && st.Val == ssa.Value(listPar) {
				keeps = c.pos(in)
			}
		})
		good := writes == "" && keeps == ""
		why := ""
		if writes != "" {
			why = "writes into the caller's slice at " + writes
		}
		if keeps != "" {
			why += ifelse(why == "", "", " and ") + "keeps the caller's slice at " + keeps
		}
		c.R.Add(rule, key, "version-list/own-copy", c.P.Pos(f.Pos()), good, ifelse(good, "the matcher fills / clones a slice of its own", "the constructor "+why+": a matcher built from the same list afterwards, or a caller that reuses the slice, changes which versions this matcher accepts"))
	}
}

// ruleHeaderVersionLookup — C15.R7: how the header-version matcher reads the parsed media type.
//
//	(a) mime.ParseMediaType returns parameter names in lower case: the key the matcher looks up is lower-cased when
//	    the matcher is built (or is the lower-case default) — a configured "Version" would otherwise never be found;
//	(b) the parameter is read with the comma-ok form: a media type without the parameter carries no version at all,
//	    it does not carry the version "".
func ruleHeaderVersionLookup(c *Ctx, rule string) {
	c.R.Rule(c.R.Property+"."+rule, 2, "the configured parameter is looked up the way ParseMediaType returns it: lower-cased name, present or absent")
	ctor := c.P.MustFunc("mux.NewHeaderVersion")
	n := 0
	an.AllInstrs(ctor, func(in ssa.Instruction) {
		_, field, val, ok := fieldStoreAny(in)
		if !ok || field != "acceptKey" {
			return
		}
		n++
		var lowered func(v ssa.Value, depth int) bool
		lowered = func(v ssa.Value, depth int) bool {
			if depth > 3 {
				return false
			}
			if s, isC := strConst(v); isC {
				return s == strings.ToLower(s)
			}
			switch x := v.(type) {
			case *ssa.Call:
				return an.CalleeName(&x.Call) == "strings.ToLower"
			case *ssa.Phi:
				for _, e := range x.Edges {
					if !lowered(e, depth+1) {
						return false
					}
				}
				return len(x.Edges) > 0
			}
			return false
		}
		good := lowered(val, 0)
		c.R.Add(rule, c.fk(ctor), "store:acceptKey/lower-cased", c.pos(in), good, ifelse(good, "the key is lower-cased (or the lower-case default)", "the key is stored as configured ("+c.O.Of(val).String()+"): ParseMediaType lower-cases parameter names, so a key with an upper-case letter never matches any request"))
	})
	if n == 0 {
		c.R.Add(rule, c.fk(ctor), "store:acceptKey/lower-cased", c.P.Pos(ctor.Pos()), false, "the constructor no longer stores the parameter key")
	}
	m := c.P.MustFunc("mux.(*headerVersion).Match")
	k := 0
	for _, fn := range builderCluster(c, m) {
		an.AllInstrs(fn, func(in ssa.Instruction) {
			lk, ok := in.(*ssa.Lookup)
			if !ok {
				return
			}
			if !strings.HasSuffix(an.AP(lk.Index), ".acceptKey") {
				return
			}
			k++
			c.R.Add(rule, c.fk(fn), "lookup:params[acceptKey]/comma-ok", c.pos(in), lk.CommaOk, ifelse(lk.CommaOk, "presence of the parameter is the comma-ok bit", "the parameter is read without the comma-ok bit: a media type that does not carry it is treated as version \"\" — accepted (and recorded) when \"\" is a listed version"))
		})
	}
	if k == 0 {
		c.R.Add(rule, c.fk(m), "lookup:params[acceptKey]/comma-ok", c.P.Pos(m.Pos()), false, "the matcher no longer looks the configured parameter up in the parsed media type")
	}
}
