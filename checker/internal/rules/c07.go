package rules

import (
	"fmt"
	"go/constant"
	"go/types"
	"os"
	"sort"
	"strings"

	"golang.org/x/tools/go/ssa"

	"muxlint/internal/an"
)

func init() {
	register(&Spec{
		ID: "C07",
		Explanation: "Decides: R1 no unsynchronised package-level mutable state — every package-level variable of the library packages is either written only during package initialisation, or safe for concurrent use by construction (*sync.Pool), or a pure memo whose every access is under one package-level mutex in the right mode; R2 package-level slices/maps are not handed out without a copy; R3 pool discipline — the pool is used only by NewContext (Get) and Destroy (Put), the value is reset on every path out of NewContext, Reset covers every field of Context, no use of a context after its release and no escape of it in the ServeHTTP methods. " +
			"R13 (= C16.R7) lists derived from a group's option slice are copies, not appends into its spare capacity. " +
			"R14 exported accessors hand out copies of the receiver's slices and maps. " +
			"Not decided: races inside user handlers; scheduling-dependent behaviour that does not go through shared state.",
		Assumptions: commonAssumptions,
		Run: func(c *Ctx) {
			ruleGlobals(c, "R1")
			ruleGlobalsDoNotEscape(c, "R2")
			ruleGlobalsNotSharedIntoInstances(c, "R2b")
			rulePackageMutexPairing(c, "R2c")
			ruleClosuresShareNothing(c, "R2d")
			rulePool(c, "R3")
			ruleConcatRank(c, "R4")
			ruleSummaryByBuilder(c, "R5")
			ruleReadersWriteNothing(c, "R6")
			ruleReleasedObjectsStayInside(c, "R7")
			ruleNoSharingByStructCopy(c, "R8")
			ruleMemoListsAreCopied(c, "R9")
			ruleConstructorsOwnTheirLists(c, "R10")
			ruleEntryConditionBelongsToTheGroup(c, "R11")
			ruleCallersSlicesAreNotRetained(c, "R12", "")
			ruleAppendDoesNotAlias(c, "R13", "mux.(*Group).New", "mux.NewGroup", "mux.NewRouter")
			ruleAccessorsHandOutCopies(c, "R14")
		},
	})
}

func isInitFunc(f *ssa.Function) bool {
	for f.Parent() != nil {
		f = f.Parent()
	}
	return f.Name() == "init" || strings.HasPrefix(f.Name(), "init#")
}

type globalAccess struct {
	f     *ssa.Function
	in    ssa.Instruction
	write bool
}

// globalOf: the package-level variable an address/value chain is rooted at
// (through loads, field and index selectors), or nil.
func globalOf(v ssa.Value) *ssa.Global {
	for i := 0; i < 20; i++ {
		switch x := v.(type) {
		case *ssa.Global:
			return x
		case *ssa.UnOp:
			v = x.X
		case *ssa.FieldAddr:
			v = x.X
		case *ssa.IndexAddr:
			v = x.X
		case *ssa.ChangeType:
			v = x.X
		case *ssa.Slice:
			v = x.X
		default:
			return nil
		}
	}
	return nil
}

// writesThroughRecv: functions that write through their receiver (directly or via static callees on the receiver).
func writesThroughRecv(c *Ctx) map[*ssa.Function]bool {
	out := map[*ssa.Function]bool{}
	for changed := true; changed; {
		changed = false
		for _, f := range c.libFuncs() {
			if out[f] || f.Signature.Recv() == nil {
				continue
			}
			an.AllInstrs(f, func(in ssa.Instruction) {
				if out[f] {
					return
				}
				var target ssa.Value
				switch x := in.(type) {
				case *ssa.Store:
					target = x.Addr
				case *ssa.MapUpdate:
					target = x.Map
				}
				if call := an.CallOf(in); call != nil {
					if b, ok := call.Value.(*ssa.Builtin); ok && (b.Name() == "delete" || b.Name() == "clear") {
						target = call.Args[0]
					}
					if g := an.StaticCallee(call); g != nil && out[g] && len(call.Args) > 0 && an.APHasPrefix(an.AP(call.Args[0]), "recv") {
						out[f] = true
						changed = true
					}
				}
				if target != nil && an.APHasPrefix(an.AP(target), "recv") && an.AP(target) != "recv" {
					out[f] = true
					changed = true
				}
			})
		}
	}
	return out
}

// ruleGlobals is C07.R1.
func ruleGlobals(c *Ctx, rule string) {
	c.R.Rule(c.R.Property+"."+rule, 5, "routers, hosts matchers and groups share no mutable state: package-level variables are init-only, concurrency-safe by type, or a mutex-protected pure memo")
	recvWriters := writesThroughRecv(c)
	type ginfo struct {
		g        *ssa.Global
		accesses []globalAccess
	}
	infos := map[*ssa.Global]*ginfo{}
	var order []*ssa.Global
	for _, pk := range c.P.Pkgs {
		sp := c.P.SPkgs[pk.PkgPath]
		if sp == nil {
			continue
		}
		rest := strings.TrimPrefix(pk.PkgPath, an.ModulePath)
		if strings.HasPrefix(rest, "/examples") || strings.HasPrefix(rest, "/routertest") {
			continue
		}
		var names []string
		for n, m := range sp.Members {
			if _, ok := m.(*ssa.Global); ok && !strings.HasPrefix(n, "init$") {
				names = append(names, n)
			}
		}
		sort.Strings(names)
		for _, n := range names {
			g := sp.Members[n].(*ssa.Global)
			infos[g] = &ginfo{g: g}
			order = append(order, g)
		}
	}
	for _, f := range c.libFuncs() {
		an.AllInstrs(f, func(in ssa.Instruction) {
			add := func(v ssa.Value, write bool) {
				if g := globalOf(v); g != nil && infos[g] != nil {
					infos[g].accesses = append(infos[g].accesses, globalAccess{f, in, write})
				}
			}
			switch x := in.(type) {
			case *ssa.Store:
				add(x.Addr, true)
			case *ssa.MapUpdate:
				add(x.Map, true)
			case *ssa.UnOp:
				add(x.X, false)
			case *ssa.Lookup:
				// the map value was loaded by a UnOp already
			}
			if call := an.CallOf(in); call != nil {
				if b, ok := call.Value.(*ssa.Builtin); ok && (b.Name() == "delete" || b.Name() == "clear") {
					add(call.Args[0], true)
				}
				if g := an.StaticCallee(call); g != nil && recvWriters[g] && len(call.Args) > 0 {
					add(call.Args[0], true)
				}
				for _, m := range inPlaceSliceMutators {
					if an.CalleeName(call) == m && len(call.Args) > 0 {
						add(call.Args[0], true)
					}
				}
			}
		})
	}
	for _, g := range order {
		info := infos[g]
		name := g.Pkg.Pkg.Name() + "." + g.Name()
		elem := g.Type().(*types.Pointer).Elem()
		var lateWrites []globalAccess
		for _, a := range info.accesses {
			if a.write && !isInitFunc(a.f) {
				lateWrites = append(lateWrites, a)
			}
		}
		if len(lateWrites) == 0 {
			c.R.Add(rule, "pkg:"+g.Pkg.Pkg.Name(), "global:"+name+"/init-only", c.P.Pos(g.Pos()), true, fmt.Sprintf("written only during package initialisation (%d accesses)", len(info.accesses)))
			continue
		}
		if isSyncSafeType(elem) {
			c.R.Add(rule, "pkg:"+g.Pkg.Pkg.Name(), "global:"+name+"/concurrency-safe-type", c.P.Pos(g.Pos()), true, "type "+shortTypeOf(elem)+" is safe for concurrent use by construction")
			continue
		}
		if isMutexType(elem) {
			c.R.Add(rule, "pkg:"+g.Pkg.Pkg.Name(), "global:"+name+"/mutex", c.P.Pos(g.Pos()), true, "a package-level mutex")
			continue
		}
		// mutable after init: must be a mutex-protected pure memo
		isLock := func(ap string) bool {
			if !strings.HasPrefix(ap, "global:"+g.Pkg.Pkg.Name()+".") {
				return false
			}
			m := g.Pkg.Members[strings.TrimPrefix(ap, "global:"+g.Pkg.Pkg.Name()+".")]
			mg, ok := m.(*ssa.Global)
			return ok && isMutexType(mg.Type().(*types.Pointer).Elem())
		}
		acc := func(f *ssa.Function) []lockAccess {
			var out []lockAccess
			if isInitFunc(f) {
				return nil
			}
			for _, a := range info.accesses {
				if a.f == f {
					out = append(out, lockAccess{in: a.in, what: name, write: a.write})
				}
			}
			return out
		}
		la := NewLockAnalysis(c, "package mutex", isLock, acc)
		// exposed(f): some chain from a top-level function reaches f without the mutex in the mode f needs
		exposed := map[*ssa.Function]string{}
		for _, f := range c.libFuncs() {
			if la.need[f] > lockNone && (isEntryPoint(f) || !hasModuleCaller(c, f)) {
				exposed[f] = c.fk(f)
			}
		}
		for changed := true; changed; {
			changed = false
			for _, f := range c.libFuncs() {
				chain, ok := exposed[f]
				if !ok {
					continue
				}
				an.AllInstrs(f, func(in ssa.Instruction) {
					for _, gg := range callTargets(in) {
						if _, had := exposed[gg]; !had && la.need[gg] > la.state[f][in] {
							exposed[gg] = chain + " → " + c.fk(gg)
							changed = true
						}
					}
				})
			}
		}
		for _, f := range c.libFuncs() {
			for _, a := range la.acc[f] {
				req := lockR
				if a.write {
					req = lockW
				}
				held := la.state[f][a.in]
				chain, isExposed := exposed[f]
				ok := held >= req || !isExposed
				construct := fmt.Sprintf("%s:%s/under-package-mutex", ifelse(a.write, "write", "read"), name)
				o := c.R.Add(rule, c.fk(f), construct, c.pos(a.in), ok, ifelse(ok, ifelse(held >= req, "held="+held.String(), "every calling chain holds the mutex"), fmt.Sprintf("%s the package-level %s without synchronisation (held=%s, needs %s): two independent instances doing this in parallel race on it (concurrent map read and map write)", ifelse(a.write, "writes", "reads"), name, held, req)))
				if !ok {
					o.Path = chain
				}
			}
		}
		// helpers whose unsynchronised access is reachable from some top-level function are reported by CheckEntry above through need();
		// purity of the stored values
		for _, a := range lateWrites {
			mu, ok := a.in.(*ssa.MapUpdate)
			if !ok {
				c.R.Add(rule, c.fk(a.f), "write:"+name+"/pure-memo", c.pos(a.in), false, "package-level variable "+name+" is written after initialisation by something that is not a memo insert: instances share mutable state")
				continue
			}
			t := c.O.Of(mu.Value)
			impure := ""
			t.Walk(func(x *an.Term) {
				switch x.Op {
				case "recv":
					impure = "receiver"
				case "load", "param":
					if ap, ok := x.APOf(); ok && (strings.HasPrefix(ap, "recv.") || strings.Contains(ap, "p:") && strings.Contains(ap, ".")) {
						impure = ap
					}
				case "global":
					if x.S != "global:"+name {
						// other globals must be init-only
						for _, og := range order {
							if "global:"+og.Pkg.Pkg.Name()+"."+og.Name() == x.S {
								for _, oa := range infos[og].accesses {
									if oa.write && !isInitFunc(oa.f) {
										impure = x.S + " (mutable)"
									}
								}
							}
						}
					}
				}
			})
			c.R.Add(rule, c.fk(a.f), "write:"+name+"/pure-memo", c.pos(a.in), impure == "", ifelse(impure == "", "stored value is a function of the key and of init-only tables", "the memo value depends on instance state ("+impure+"): one router's answers depend on what others did"))
		}
	}
}

func isSyncSafeType(t types.Type) bool {
	if p, ok := t.(*types.Pointer); ok {
		t = p.Elem()
	}
	n, ok := types.Unalias(t).(*types.Named)
	if !ok || n.Obj().Pkg() == nil {
		return false
	}
	full := n.Obj().Pkg().Path() + "." + n.Obj().Name()
	switch full {
	case "sync.Pool", "sync.Map", "sync.Once", "sync/atomic.Value", "sync/atomic.Int64", "sync/atomic.Int32", "sync/atomic.Bool":
		return true
	}
	return false
}

func isMutexType(t types.Type) bool {
	if p, ok := t.(*types.Pointer); ok {
		t = p.Elem()
	}
	n, ok := types.Unalias(t).(*types.Named)
	if !ok || n.Obj().Pkg() == nil {
		return false
	}
	full := n.Obj().Pkg().Path() + "." + n.Obj().Name()
	return full == "sync.Mutex" || full == "sync.RWMutex"
}

// ruleGlobalsDoNotEscape is C07.R2.
func ruleGlobalsDoNotEscape(c *Ctx, rule string) {
	c.R.Rule(c.R.Property+"."+rule, 2, "package-level slices and maps are never handed out without a copy")
	for _, f := range c.libFuncs() {
		if !isEntryPoint(f) {
			continue
		}
		for _, r := range an.Returns(f) {
			for i, v := range r.Results {
				switch v.Type().Underlying().(type) {
				case *types.Slice, *types.Map:
				default:
					continue
				}
				t := c.O.Of(v)
				leak := ""
				var walk func(x *an.Term)
				walk = func(x *an.Term) {
					if x.Op == "call" && (x.S == "slices.Clone" || x.S == "maps.Clone" || x.S == "builtin:append" && len(x.Args) > 0 && x.Args[0].Op == "const") {
						return // a copy
					}
					if x.Op == "global" {
						leak = x.S
					}
					if x.Op == "slice" || x.Op == "phi" {
						for _, a := range x.Args {
							walk(a)
						}
					}
				}
				walk(t)
				involves := false
				t.Walk(func(x *an.Term) {
					if x.Op == "global" {
						involves = true
					}
				})
				if !involves {
					continue
				}
				c.R.Add(rule, c.fk(f), fmt.Sprintf("return#%d:%s", i, t.String()), c.pos(r), leak == "", ifelse(leak == "", "returns a copy", "returns the package-level "+leak+" itself: a caller can mutate state shared by all instances"))
			}
		}
	}
}

// rulePool is C07.R3.
func rulePool(c *Ctx, rule string) {
	a := c.A
	c.R.Rule(c.R.Property+"."+rule+"a", 3, "the context pool has one owner (NewContext gets, Destroy puts the context itself)")
	c.R.Rule(c.R.Property+"."+rule+"b", 1, "a context obtained from the pool always starts empty: reset on every path out of NewContext")
	c.R.Rule(c.R.Property+"."+rule+"c", 2, "Reset covers every field of Context")
	c.R.Rule(c.R.Property+"."+rule+"d", 4, "no use of a context after its release and no escape of it in the ServeHTTP methods")
	c.R.Rule(c.R.Property+"."+rule+"e", 1, "nothing touches a context after it was put back into the pool")
	// find the pool variable
	var pool *ssa.Global
	tp := c.P.SPkgs[a.TypesPkg.Path()]
	for _, m := range tp.Members {
		if g, ok := m.(*ssa.Global); ok && isSyncSafeType(g.Type().(*types.Pointer).Elem()) {
			if pool != nil {
				an.Fatalf("UNRESOLVED anchor: two pools in package types")
			}
			pool = g
		}
	}
	if pool == nil {
		an.Fatalf("UNRESOLVED anchor: context pool")
	}
	c.R.Anchor("contextPool", "types."+pool.Name())
	newCtx := c.P.MustFunc("types.NewContext")
	destroy := c.P.MustFunc("types.(*Context).Destroy")
	reset := c.P.MustFunc("types.(*Context).Reset")
	// (a) ownership: the pool is only ever used as the receiver of Get / Put (wherever those sites are), and only
	// contexts are put into it
	isGetPut := func(in ssa.Instruction) (string, *ssa.CallCommon) {
		if call, ok := calleeNamed(in, "sync.(*Pool).Get"); ok {
			return "Get", call
		}
		if call, ok := calleeNamed(in, "sync.(*Pool).Put"); ok {
			return "Put", call
		}
		return "", nil
	}
	isPoolValue := func(v ssa.Value) bool {
		if v == ssa.Value(pool) {
			return true
		}
		if u, ok := v.(*ssa.UnOp); ok && u.X == ssa.Value(pool) {
			return true
		}
		return false
	}
	var getSites, putSites []ssa.Instruction
	for _, f := range c.libFuncs() {
		an.AllInstrs(f, func(in ssa.Instruction) {
			if kind, call := isGetPut(in); call != nil && len(call.Args) > 0 && isPoolValue(call.Args[0]) {
				if kind == "Get" {
					getSites = append(getSites, in)
				} else {
					putSites = append(putSites, in)
				}
				c.R.Add(rule+"a", c.fk(f), "uses:types."+pool.Name(), c.pos(in), true, "pool."+kind)
				return
			}
			if u, ok := in.(*ssa.UnOp); ok && u.X == ssa.Value(pool) {
				// the load itself: judged at its users
				for _, r := range *u.Referrers() {
					if _, call := isGetPut(r); call == nil || call.Args[0] != ssa.Value(u) {
						c.R.Add(rule+"a", c.fk(f), "uses:types."+pool.Name(), c.pos(r), isInitFunc(f), ifelse(isInitFunc(f), "initialisation", "the context pool itself is handed on or stored: Get/Put sites the analysis cannot see can hand out a context that is not reset or still in use"))
					}
				}
				return
			}
			for _, op := range in.Operands(nil) {
				if *op == ssa.Value(pool) {
					c.R.Add(rule+"a", c.fk(f), "uses:types."+pool.Name(), c.pos(in), isInitFunc(f), ifelse(isInitFunc(f), "initialisation", "the context pool variable is reassigned or its address taken outside initialisation"))
				}
			}
		})
	}
	putArg := func(in ssa.Instruction) ssa.Value {
		arg := an.CallOf(in).Args[1]
		if mi, isMI := arg.(*ssa.MakeInterface); isMI {
			arg = mi.X
		}
		return arg
	}
	for _, in := range putSites {
		arg := putArg(in)
		ok := isPtrToNamed(arg.Type(), a.ContextT)
		c.R.Add(rule+"a", c.fk(in.Parent()), "put:arg-is-context", c.pos(in), ok, ifelse(ok, "only a *Context is put back ("+an.AP(arg)+")", "a value that is not a *Context is put into the pool: the next NewContext panics on its type assertion"))
	}
	if len(getSites) == 0 || len(putSites) == 0 {
		an.Fatalf("UNRESOLVED anchor: the context pool has %d Get and %d Put sites", len(getSites), len(putSites))
	}
	// (b) reset after get, (c) the reset covers every field — through helpers: cleared(f, param) = the Context
	// fields f zeroes on that parameter in its entry block, directly or through a callee
	ctxS := a.ContextT.Underlying().(*types.Struct)
	var allFields []string
	for i := 0; i < ctxS.NumFields(); i++ {
		allFields = append(allFields, ctxS.Field(i).Name())
	}
	cleared := map[*ssa.Function]map[int]map[string]bool{}
	for changed := true; changed; {
		changed = false
		for _, f := range c.libFuncs() {
			if len(f.Blocks) == 0 {
				continue
			}
			for pi, par := range f.Params {
				if !isPtrToNamed(par.Type(), a.ContextT) {
					continue
				}
				pap := an.AP(par)
				set := map[string]bool{}
				// what an instruction clears: the fields of the parameter it zeroes, clears, or hands to a clearing callee
				clearsOf := func(in ssa.Instruction) []string {
					var out []string
					if st, ok := in.(*ssa.Store); ok {
						if fa, ok := st.Addr.(*ssa.FieldAddr); ok && an.AP(fa.X) == pap {
							if k, isConst := st.Val.(*ssa.Const); isConst && isZeroConst(k) {
								out = append(out, an.FieldName(fa.X.Type(), fa.Field))
							}
						}
					}
					if call, ok := builtinCall(in, "clear"); ok {
						if ap := an.AP(call.Args[0]); strings.HasPrefix(ap, pap+".") {
							out = append(out, strings.TrimPrefix(ap, pap+"."))
						}
					}
					if call, ok := in.(*ssa.Call); ok {
						if g := an.StaticCallee(&call.Call); g != nil {
							for ai, arg := range an.CallArgs(&call.Call) {
								if an.AP(arg) == pap {
									for fld := range cleared[g][ai] {
										out = append(out, fld)
									}
								}
							}
						}
					}
					return out
				}
				candidates := map[string]bool{}
				an.AllInstrs(f, func(in ssa.Instruction) {
					for _, fld := range clearsOf(in) {
						candidates[fld] = true
					}
				})
				for fld := range candidates {
					fld := fld
					// cleared on every path to a return; a path on which the field is known to be nil / empty already
					// (if ctx.params != nil { clear(ctx.params) }) needs no clearing
					path := (&an.Query{
						Target: func(t ssa.Instruction) bool { _, isRet := t.(*ssa.Return); return isRet },
						Block: func(t ssa.Instruction) bool {
							for _, x := range clearsOf(t) {
								if x == fld {
									return true
								}
							}
							return false
						},
						BlockEdge: func(b *ssa.BasicBlock, succ int) bool {
							return edgeHas(b, succ, func(cond ssa.Value, truth bool) bool {
								x, k, eq, ok := an.CondAtom(cond)
								if !ok || eq != truth {
									return false
								}
								if k.Value == nil {
									return an.AP(x) == pap+"."+fld
								}
								if k.Value.Kind() == constant.Int && k.Int64() == 0 {
									if lc, isCall := x.(*ssa.Call); isCall {
										if cc, isLen := builtinCall(lc, "len"); isLen {
											return an.AP(cc.Args[0]) == pap+"."+fld
										}
									}
								}
								return false
							})
						},
					}).Search(an.Entry(f))
					if path == nil {
						set[fld] = true
					}
				}
				if cleared[f] == nil {
					cleared[f] = map[int]map[string]bool{}
				}
				if len(set) > len(cleared[f][pi]) {
					cleared[f][pi] = set
					changed = true
				}
			}
		}
	}
	clearsAll := func(g *ssa.Function, pi int) bool {
		for _, fld := range allFields {
			if !cleared[g][pi][fld] {
				return false
			}
		}
		return true
	}
	// raw(f): f can return a pooled context that has not been completely reset
	resetBlock := func(ap string) func(t ssa.Instruction) bool {
		return func(t ssa.Instruction) bool {
			call, ok := t.(*ssa.Call)
			if !ok {
				return false
			}
			g := an.StaticCallee(&call.Call)
			if g == nil {
				return false
			}
			for ai, arg := range an.CallArgs(&call.Call) {
				if an.AP(arg) == ap && clearsAll(g, ai) {
					return true
				}
			}
			return false
		}
	}
	raw := map[*ssa.Function][]an.Point{} // witness path
	isSource := func(in ssa.Instruction) bool {
		if kind, call := isGetPut(in); call != nil && kind == "Get" && isPoolValue(call.Args[0]) {
			return true
		}
		if call, ok := in.(*ssa.Call); ok {
			if g := an.StaticCallee(&call.Call); g != nil && raw[g] != nil && isPtrToNamed(call.Type(), a.ContextT) {
				return true
			}
		}
		return false
	}
	for changed := true; changed; {
		changed = false
		for _, f := range c.libFuncs() {
			if raw[f] != nil || len(f.Blocks) == 0 {
				continue
			}
			an.AllInstrs(f, func(in ssa.Instruction) {
				if raw[f] != nil || !isSource(in) {
					return
				}
				got := an.AP(in.(ssa.Value))
				path := (&an.Query{
					Target: func(t ssa.Instruction) bool {
						r, ok := t.(*ssa.Return)
						if !ok {
							return false
						}
						for _, v := range r.Results {
							if an.AP(v) == got {
								return true
							}
						}
						return false
					},
					Block: resetBlock(got),
				}).Search(an.After(in))
				if path != nil {
					raw[f] = path
					changed = true
				}
			})
		}
	}
	callersOf := map[*ssa.Function][]*ssa.Function{}
	for _, f := range c.libFuncs() {
		an.AllInstrs(f, func(in ssa.Instruction) {
			if call := an.CallOf(in); call != nil {
				if g := an.StaticCallee(call); g != nil {
					callersOf[g] = append(callersOf[g], f)
				}
			}
		})
	}
	for _, in := range getSites {
		f := in.Parent()
		// exposed: some chain of raw functions starting here ends in an entry point
		var exposed *ssa.Function
		seen := map[*ssa.Function]bool{}
		var walk func(g *ssa.Function)
		walk = func(g *ssa.Function) {
			if seen[g] || raw[g] == nil || exposed != nil {
				return
			}
			seen[g] = true
			if isEntryPoint(g) || !hasModuleCaller(c, g) {
				exposed = g
				return
			}
			for _, caller := range callersOf[g] {
				walk(caller)
			}
		}
		walk(f)
		o := c.R.Add(rule+"b", c.fk(f), "get-then-reset", c.pos(in), exposed == nil, ifelse(exposed == nil, "every path from Get to the package boundary resets every field of the value", "a pooled context can be returned by "+c.fk(exposed)+" without a complete reset: a request starts with another request's parameters"))
		if exposed != nil {
			o.Path = c.P.PathString(raw[exposed])
		}
	}
	// (e) no use after release: once a context went back to the pool another goroutine may own it
	releases := map[*ssa.Function]map[int]bool{}
	var releaseEventAny func(in ssa.Instruction) (ssa.Value, bool)
	releaseEvent := func(in ssa.Instruction) (ssa.Value, bool) {
		if _, isDefer := in.(*ssa.Defer); isDefer {
			return nil, false
		}
		return releaseEventAny(in)
	}
	releaseEventAny = func(in ssa.Instruction) (ssa.Value, bool) {
		if kind, call := isGetPut(in); call != nil && kind == "Put" && isPoolValue(call.Args[0]) {
			return putArg(in), true
		}
		if call := an.CallOf(in); call != nil {
			if g := an.StaticCallee(call); g != nil {
				for ai, arg := range an.CallArgs(call) {
					if releases[g][ai] {
						return arg, true
					}
				}
			}
		}
		return nil, false
	}
	for changed := true; changed; {
		changed = false
		for _, f := range c.libFuncs() {
			an.AllInstrs(f, func(in ssa.Instruction) {
				v, ok := releaseEventAny(in)
				if !ok {
					return
				}
				for pi, par := range f.Params {
					if an.AP(par) == an.AP(v) && !releases[f][pi] {
						if releases[f] == nil {
							releases[f] = map[int]bool{}
						}
						releases[f][pi] = true
						changed = true
					}
				}
				// a closure (a deferred recovery function) that releases a captured variable: when the variable is a
				// parameter of the enclosing function, that function may release its parameter
				if parent := f.Parent(); parent != nil {
					for fi, fv := range f.FreeVars {
						if an.AP(fv) != an.AP(v) && ssa.Value(fv) != v {
							continue
						}
						an.AllInstrs(parent, func(pin ssa.Instruction) {
							mc, ok := pin.(*ssa.MakeClosure)
							if !ok || mc.Fn != ssa.Value(f) || fi >= len(mc.Bindings) {
								return
							}
							for pi, par := range parent.Params {
								b := mc.Bindings[fi]
								if (b == ssa.Value(par) || an.AP(b) == an.AP(par)) && !releases[parent][pi] {
									if releases[parent] == nil {
										releases[parent] = map[int]bool{}
									}
									releases[parent][pi] = true
									changed = true
								}
							}
						})
					}
				}
			})
		}
	}
	for _, f := range c.libFuncs() {
		an.AllInstrs(f, func(in ssa.Instruction) {
			v, ok := releaseEvent(in)
			if !ok {
				return
			}
			vap := an.AP(v)
			// released at most once: no second release of the same context on any path (a deferred one runs at exit)
			deferredToo := false
			an.AllInstrs(f, func(d ssa.Instruction) {
				if _, isDefer := d.(*ssa.Defer); isDefer {
					if dv, ok := releaseEventAny(d); ok && an.AP(dv) == vap {
						deferredToo = true
					}
				}
			})
			twice := (&an.Query{Target: func(t ssa.Instruction) bool {
				if t == in {
					return false
				}
				if _, isRD := t.(*ssa.RunDefers); isRD && deferredToo {
					return true
				}
				tv, ok := releaseEvent(t)
				return ok && an.AP(tv) == vap
			}}).Search(an.After(in))
			o2 := c.R.Add(rule+"e", c.fk(f), "release:"+an.CalleeName(an.CallOf(in))+"/at-most-once", c.pos(in), twice == nil, ifelse(twice == nil, "the context is released once", "the context is put back into the pool twice on one path (here and again later, possibly by a deferred call): two concurrent requests then receive the same context"))
			if twice != nil {
				o2.Path = c.P.PathString(twice)
			}
			// a deferred call on the context (defer ctx.Reset()) runs at the exit — after the release
			deferredUse := false
			an.AllInstrs(f, func(d ssa.Instruction) {
				df, isDefer := d.(*ssa.Defer)
				if !isDefer || d == in {
					return
				}
				if _, isRel := releaseEventAny(d); isRel {
					return
				}
				for _, arg := range df.Call.Args {
					if arg == v || (isPtrToNamed(arg.Type(), a.ContextT) && an.AP(arg) == vap) {
						deferredUse = true
					}
				}
			})
			path := (&an.Query{Target: func(t ssa.Instruction) bool {
				if t == in {
					return false
				}
				if _, isRD := t.(*ssa.RunDefers); isRD && deferredUse {
					return true
				}
				if _, isRet := t.(*ssa.Return); isRet {
					return false
				}
				for _, op := range t.Operands(nil) {
					if *op == nil {
						continue
					}
					if *op == v || (isPtrToNamed((*op).Type(), a.ContextT) && an.AP(*op) == vap) {
						return true
					}
				}
				return false
			}}).Search(an.After(in))
			o := c.R.Add(rule+"e", c.fk(f), "release:"+an.CalleeName(an.CallOf(in))+"/no-use-after", c.pos(in), path == nil, ifelse(path == nil, "nothing touches the context once it is back in the pool", "the context is touched after it was put back into the pool: a concurrent request that already took it from the pool loses its state (or races on it)"))
			if path != nil {
				o.Path = c.P.PathString(path)
			}
		})
	}
	for _, fn := range allFields {
		okF := cleared[reset][0][fn]
		var pos = c.P.Pos(reset.Pos())
		for i := 0; i < ctxS.NumFields(); i++ {
			if ctxS.Field(i).Name() == fn {
				pos = c.P.Pos(ctxS.Field(i).Pos())
			}
		}
		c.R.Add(rule+"c", c.fk(reset), "resets:Context."+fn, pos, okF, ifelse(okF, "field is zeroed or cleared on every Reset", "Context."+fn+" is not reset: it survives into the next request that gets this context from the pool"))
	}
	// (d) typestate in the ServeHTTP methods
	for _, k := range []string{"mux.(*Router).ServeHTTP", "mux.(*Group).ServeHTTP"} {
		f := c.P.MustFunc(k)
		var ctxVal ssa.Value
		an.AllInstrs(f, func(in ssa.Instruction) {
			if _, ok := calleeIs(in, newCtx); ok {
				ctxVal = in.(ssa.Value)
			}
		})
		if ctxVal == nil {
			an.Fatalf("UNRESOLVED anchor: %s does not obtain a context from NewContext", k)
		}
		an.AllInstrs(f, func(in ssa.Instruction) {
			call, ok := calleeIs(in, destroy)
			if !ok || call.Args[0] != ctxVal {
				return
			}
			if _, isDefer := in.(*ssa.Defer); isDefer {
				c.R.Add(rule+"d", k, "destroy:deferred", c.pos(in), true, "release is deferred: it runs at exit, after every use")
				return
			}
			path := (&an.Query{Target: func(t ssa.Instruction) bool {
				if t == in {
					return false
				}
				for _, op := range t.Operands(nil) {
					if *op == ctxVal {
						return true
					}
				}
				return false
			}}).Search(an.After(in))
			o := c.R.Add(rule+"d", k, "destroy:no-use-after", c.pos(in), path == nil, ifelse(path == nil, "no use of the context is reachable after its release", "the context is used after Destroy returned it to the pool: another request may already own it"))
			if path != nil {
				o.Path = c.P.PathString(path)
			}
		})
		// released on the normal path
		hasDestroy := len(an.Calls(f, func(name string, _ *ssa.CallCommon) bool { return name == an.FuncKey(destroy) })) > 0
		an.AllInstrs(f, func(in ssa.Instruction) {
			if v, ok := releaseEventAny(in); ok && an.AP(v) == an.AP(ctxVal) {
				hasDestroy = true // released by a callee
			}
		})
		c.R.Add(rule+"d", k, "destroy:present", c.P.Pos(f.Pos()), hasDestroy, ifelse(hasDestroy, "the context is released", "the context is never released (pool not reused; harmless but listed)"))
		// no escape: the context value is only passed to calls, never stored
		escapes := ""
		for _, r := range *ctxVal.Referrers() {
			switch x := r.(type) {
			case *ssa.Store:
				if x.Val == ctxVal {
					escapes = "stored at " + c.pos(x)
				}
			case *ssa.MapUpdate:
				escapes = "stored in a map at " + c.pos(x)
			case *ssa.Go:
				escapes = "passed to a goroutine at " + c.pos(x)
			case *ssa.MakeClosure:
				escapes = "captured by a closure at " + c.pos(x)
			}
		}
		c.R.Add(rule+"d", k, "context:no-escape", c.P.Pos(f.Pos()), escapes == "", ifelse(escapes == "", "the context is only passed down the call", "the pooled context outlives the request: "+escapes))
	}
}

func isZeroConst(k *ssa.Const) bool {
	if k.Value == nil {
		return true
	}
	return k.Value.ExactString() == `""` || k.Value.ExactString() == "0" || k.Value.ExactString() == "false"
}

// paramFate summarises what a module function does with parameter #i: it may
// write through it, or let it escape (store it, return it, capture it).
type paramFate struct{ writes, escapes bool }

func (c *Ctx) paramFates() map[*ssa.Function][]paramFate {
	out := map[*ssa.Function][]paramFate{}
	funcs := c.libFuncs()
	for _, f := range funcs {
		out[f] = make([]paramFate, len(f.Params))
	}
	derived := func(f *ssa.Function, i int) map[ssa.Value]bool {
		// values that alias the parameter (conversions, phis)
		set := map[ssa.Value]bool{f.Params[i]: true}
		for changed := true; changed; {
			changed = false
			an.AllInstrs(f, func(in ssa.Instruction) {
				v, ok := in.(ssa.Value)
				if !ok || set[v] {
					return
				}
				switch x := in.(type) {
				case *ssa.ChangeType:
					if set[x.X] {
						set[v], changed = true, true
					}
				case *ssa.MakeInterface:
					if set[x.X] {
						set[v], changed = true, true
					}
				case *ssa.Phi:
					for _, e := range x.Edges {
						if set[e] {
							set[v], changed = true, true
						}
					}
				}
			})
		}
		return set
	}
	for changed := true; changed; {
		changed = false
		for _, f := range funcs {
			for i := range f.Params {
				fate := out[f][i]
				set := derived(f, i)
				an.AllInstrs(f, func(in ssa.Instruction) {
					switch x := in.(type) {
					case *ssa.Store:
						if set[x.Val] && !localHolder(out, rootValue(x.Addr), 0) {
							fate.escapes = true
						}
						if g := rootValue(x.Addr); set[g] && x.Addr != g {
							fate.writes = true
						}
					case *ssa.MapUpdate:
						if set[rootValue(x.Map)] {
							fate.writes = true
						}
						if set[x.Value] || set[x.Key] {
							fate.escapes = true
						}
					case *ssa.Return:
						for _, r := range x.Results {
							if set[r] {
								fate.escapes = true
							}
						}
					case *ssa.MakeClosure:
						for _, b := range x.Bindings {
							if set[b] && !localHolder(out, x, 0) {
								fate.escapes = true
							}
						}
					}
					if call := an.CallOf(in); call != nil {
						if b, ok := call.Value.(*ssa.Builtin); ok && (b.Name() == "delete" || b.Name() == "clear") && set[rootValue(call.Args[0])] {
							fate.writes = true
						}
						g := an.StaticCallee(call)
						if _, isBuiltin := call.Value.(*ssa.Builtin); isBuiltin {
							return
						}
						for _, m := range inPlaceSliceMutators {
							if an.CalleeName(call) == m && len(call.Args) > 0 && set[rootValue(call.Args[0])] {
								fate.writes = true
							}
						}
						for ai, a := range an.CallArgs(call) {
							if !set[a] {
								continue
							}
							if g != nil && an.InModule(g) && len(out[g]) > ai {
								if out[g][ai].writes {
									fate.writes = true
								}
								if out[g][ai].escapes {
									fate.escapes = true
								}
							} else if g == nil {
								fate.escapes = true // passed to an unknown function value
							}
						}
					}
				})
				if fate != out[f][i] {
					if os.Getenv("MUXLINT_DEBUG_FATES") != "" {
						fmt.Println("fate", an.FuncKey(f), i, fate)
					}
					out[f][i] = fate
					changed = true
				}
			}
		}
	}
	return out
}

// rootValue strips field/index selectors and loads down to the base pointer value.
func rootValue(v ssa.Value) ssa.Value {
	for i := 0; i < 20; i++ {
		switch x := v.(type) {
		case *ssa.FieldAddr:
			v = x.X
		case *ssa.IndexAddr:
			v = x.X
		case *ssa.UnOp:
			if _, isGlobal := x.X.(*ssa.Global); isGlobal {
				return v
			}
			if _, isAlloc := x.X.(*ssa.Alloc); isAlloc {
				return v
			}
			v = x.X
		case *ssa.ChangeType:
			v = x.X
		default:
			return v
		}
	}
	return v
}

// ruleGlobalsNotSharedIntoInstances is C07.R2b: a package-level pointer/map/slice is
// never stored into an instance, captured, or handed to code that writes through it.
func ruleGlobalsNotSharedIntoInstances(c *Ctx, rule string) {
	c.R.Rule(c.R.Property+"."+rule, 2, "instances share no mutable state: a package-level pointer, map or slice is never built into an instance or handed to code that mutates it")
	fates := c.paramFates()
	for _, f := range c.libFuncs() {
		if isInitFunc(f) {
			continue
		}
		an.AllInstrs(f, func(in ssa.Instruction) {
			ld, ok := in.(*ssa.UnOp)
			if !ok {
				return
			}
			g, isG := ld.X.(*ssa.Global)
			if !isG || !strings.HasPrefix(g.Pkg.Pkg.Path(), an.ModulePath) {
				return
			}
			switch ld.Type().Underlying().(type) {
			case *types.Pointer, *types.Map, *types.Slice:
			default:
				return
			}
			if isSyncSafeType(ld.Type()) {
				return
			}
			name := g.Pkg.Pkg.Name() + "." + g.Name()
			bad := ""
			var follow func(v ssa.Value, depth int)
			follow = func(v ssa.Value, depth int) {
				if depth > 4 || v.Referrers() == nil {
					return
				}
				for _, r := range *v.Referrers() {
					switch x := r.(type) {
					case *ssa.Store:
						if x.Val == v {
							bad = "stored at " + c.pos(x)
						}
					case *ssa.MapUpdate:
						if x.Value == v {
							bad = "stored into a map at " + c.pos(x)
						}
					case *ssa.MakeClosure:
						bad = "captured by a closure at " + c.pos(x)
					case *ssa.MakeInterface:
						follow(x, depth+1)
					case *ssa.ChangeType:
						follow(x, depth+1)
					case *ssa.Phi:
						follow(x, depth+1)
					}
					if call := an.CallOf(r); call != nil {
						callee := an.StaticCallee(call)
						for ai, a := range an.CallArgs(call) {
							if a != v {
								continue
							}
							if callee != nil && an.InModule(callee) && ai < len(fates[callee]) {
								if fates[callee][ai].escapes {
									bad = "handed to " + an.FuncKey(callee) + ", which keeps it (" + c.pos(r) + ")"
								}
								if fates[callee][ai].writes {
									bad = "handed to " + an.FuncKey(callee) + ", which writes through it (" + c.pos(r) + ")"
								}
							}
						}
					}
				}
			}
			follow(ld, 0)
			c.R.Add(rule, c.fk(f), "use:"+name+"/not-shared-into-instances", c.pos(in), bad == "", ifelse(bad == "", "read-only, non-escaping use", "the package-level "+name+" is "+bad+": distinct instances now share (and mutate) one object"))
		})
	}
}

func isPtrToNamed(t types.Type, n *types.Named) bool {
	p, ok := t.(*types.Pointer)
	if !ok {
		return false
	}
	x, ok := types.Unalias(p.Elem()).(*types.Named)
	return ok && x.Origin() == n.Origin()
}

// mutatedStructTypes: module struct types some field of which is written through a value that is not a fresh
// allocation of the writing function (i.e. the object is mutated after its construction).
func mutatedStructTypes(c *Ctx) map[*types.Named]string {
	out := map[*types.Named]string{}
	for _, f := range c.libFuncs() {
		an.AllInstrs(f, func(in ssa.Instruction) {
			var target ssa.Value
			switch x := in.(type) {
			case *ssa.Store:
				target = x.Addr
			case *ssa.MapUpdate:
				target = x.Map
			}
			if target == nil {
				return
			}
			for {
				if ia, ok := target.(*ssa.IndexAddr); ok {
					target = ia.X
					continue
				}
				if u, ok := target.(*ssa.UnOp); ok {
					target = u.X
					continue
				}
				break
			}
			fa, ok := target.(*ssa.FieldAddr)
			if !ok || strings.HasPrefix(an.AP(fa.X), "alloc:") {
				return
			}
			if o := ownerOf(fa); o != nil {
				if _, had := out[o]; !had {
					out[o] = c.pos(in)
				}
			}
		})
	}
	return out
}

// ruleClosuresShareNothing is C07.R2d: a configuration closure (an Option) can be applied to any number of
// instances; what it stores into the instance it configures must not be a mutable object that was allocated once,
// outside the closure, when the Option value was made.
func ruleClosuresShareNothing(c *Ctx, rule string) {
	c.R.Rule(c.R.Property+"."+rule, 3, "configuration closures build fresh state per instance: nothing mutable allocated with the closure is stored into the instances it is applied to")
	mutated := mutatedStructTypes(c)
	for _, p := range c.libFuncs() {
		an.AllInstrs(p, func(in ssa.Instruction) {
			mc, ok := in.(*ssa.MakeClosure)
			if !ok {
				return
			}
			fn, ok := mc.Fn.(*ssa.Function)
			if !ok {
				return
			}
			fn = an.Origin(fn)
			for i, fv := range fn.FreeVars {
				if i >= len(mc.Bindings) {
					continue
				}
				// is (a load of) the free variable stored into a field reachable from a parameter of the closure?
				var site ssa.Instruction
				for _, r := range *fv.Referrers() {
					ld, ok := r.(*ssa.UnOp)
					if !ok {
						continue
					}
					for _, rr := range *ld.Referrers() {
						if st, ok := rr.(*ssa.Store); ok && st.Val == ssa.Value(ld) {
							if fa, ok := st.Addr.(*ssa.FieldAddr); ok && strings.HasPrefix(an.AP(fa.X), "p:") {
								site = st
							}
						}
					}
				}
				if site == nil {
					continue
				}
				// what does the captured cell hold?
				shared := ""
				if cell, ok := mc.Bindings[i].(*ssa.Alloc); ok {
					for _, r := range *cell.Referrers() {
						st, ok := r.(*ssa.Store)
						if !ok || st.Addr != ssa.Value(cell) {
							continue
						}
						if al, ok := st.Val.(*ssa.Alloc); ok {
							if n, ok := types.Unalias(al.Type().(*types.Pointer).Elem()).(*types.Named); ok {
								if where, isMut := mutated[n.Origin()]; isMut {
									shared = fmt.Sprintf("a %s allocated at %s, mutated after construction (%s)", n.Obj().Name(), c.pos(al), where)
								}
							}
						}
					}
				}
				c.R.Add(rule, c.fk(p), "closure-stores:"+fv.Name(), c.pos(site), shared == "", ifelse(shared == "", "the stored value is a parameter of the constructor or built inside the closure", "every instance configured with this closure receives the same object — "+shared+": instances built from one Option value share mutable state"))
			}
		})
	}
}

// rulePoolReleaseOnce re-exports the pool typestate obligations (C07.R3 d, e) under another property: a context that
// is released twice or touched after its release is shared by two concurrent requests.
func rulePoolReleaseOnce(c *Ctx, rule string) {
	sub := an.NewReport(c.R.Property)
	cc := &Ctx{P: c.P, A: c.A, R: sub, O: c.O}
	rulePool(cc, "X")
	c.R.Rule(c.R.Property+"."+rule, 3, "a request's context is its own: released exactly once, never used after the release")
	for _, o := range sub.Obls {
		if strings.HasSuffix(o.Rule, ".Xd") || strings.HasSuffix(o.Rule, ".Xe") || strings.HasSuffix(o.Rule, ".Xb") || strings.HasSuffix(o.Rule, ".Xc") {
			c.R.Add(rule, o.Func, o.Construct, o.At, o.OK, o.Msg)
		}
	}
}

// localHolder: v (a fresh allocation or a closure made in this function) never leaves the function: it is only
// read, written through, called, or handed to callees that do not keep the corresponding parameter. Storing a
// parameter into such a holder does not let the parameter escape.
func localHolder(fates map[*ssa.Function][]paramFate, v ssa.Value, depth int) bool {
	if depth > 3 {
		return false
	}
	switch v.(type) {
	case *ssa.Alloc, *ssa.MakeClosure:
	default:
		return false
	}
	refs := v.Referrers()
	if refs == nil {
		return false
	}
	var addrOK func(a ssa.Value, d int) bool
	addrOK = func(a ssa.Value, d int) bool {
		// an address derived from the holder: only loads, stores through it and further address computations
		if d > 4 || a.Referrers() == nil {
			return false
		}
		for _, r := range *a.Referrers() {
			switch x := r.(type) {
			case *ssa.UnOp:
			case *ssa.Store:
				if x.Val == a {
					return false
				}
			case *ssa.FieldAddr:
				if !addrOK(x, d+1) {
					return false
				}
			case *ssa.IndexAddr:
				if !addrOK(x, d+1) {
					return false
				}
			case *ssa.DebugRef:
			default:
				return false
			}
		}
		return true
	}
	for _, r := range *refs {
		switch x := r.(type) {
		case *ssa.UnOp, *ssa.DebugRef:
		case *ssa.Store:
			if x.Val == v {
				return false
			}
		case *ssa.FieldAddr:
			if !addrOK(x, 0) {
				return false
			}
		case *ssa.IndexAddr:
			if !addrOK(x, 0) {
				return false
			}
		case *ssa.Call:
			if x.Call.Value == v {
				continue // the closure is called
			}
			g := an.StaticCallee(&x.Call)
			if g == nil {
				return false
			}
			for ai, a := range an.CallArgs(&x.Call) {
				if a != v {
					continue
				}
				if an.InModule(g) {
					if ai >= len(fates[g]) || fates[g][ai].escapes {
						return false
					}
				}
				// a function of another module (standard library helpers such as slices.ContainsFunc, sort.Slice)
				// is assumed not to keep its arguments
			}
		case *ssa.Defer:
			if x.Call.Value != v {
				return false
			}
		case *ssa.MakeClosure:
			// a variable cell captured by a closure that itself stays local
			if !localHolder(fates, x, depth+1) {
				return false
			}
		default:
			return false
		}
	}
	return true
}
