package rules

import (
	"fmt"
	"go/token"
	"os"
	"sort"
	"strconv"
	"strings"

	"golang.org/x/tools/go/ssa"

	"muxlint/internal/an"
)

// symeval.go — an abstract evaluator over symbolic atoms with effects, for small procedures whose contract is
// "in scenario S the function returns R after exactly the effects E" (the version matchers of C15). Values are
// expression strings built from client-supplied atoms; branches are decided by the client's scenario (truth hook) or
// forked; module callees and function values are entered; stores to fields and modelled calls are recorded as
// effects. A `range` over a slice is evaluated for one generic element followed by the loop exit.
type sval struct {
	e     string // expression; "TUPLE", "FUNC", "CELL" are structural
	tuple []sval
	fn    *ssa.Function
	free  []sval
	cell  *scell
}

type scell struct{ v sval }

func sv(e string) sval { return sval{e: e} }

func (v sval) String() string {
	switch v.e {
	case "TUPLE":
		var p []string
		for _, x := range v.tuple {
			p = append(p, x.String())
		}
		return "(" + strings.Join(p, ", ") + ")"
	case "FUNC":
		return "FUNC:" + an.FuncKey(v.fn)
	}
	return v.e
}

type soutcome struct {
	ret     string
	effects []string
}

func (o soutcome) String() string { return o.ret + " after {" + strings.Join(o.effects, "; ") + "}" }

type sstate struct {
	env     map[ssa.Value]sval
	heap    map[string]sval
	effects []string
}

func (s *sstate) clone() *sstate {
	n := &sstate{env: make(map[ssa.Value]sval, len(s.env)), heap: make(map[string]sval, len(s.heap)), effects: append([]string(nil), s.effects...)}
	for k, v := range s.env {
		if v.e == "CELL" {
			v = sval{e: "CELL", cell: &scell{v: v.cell.v}}
		}
		n.env[k] = v
	}
	for k, v := range s.heap {
		n.heap[k] = v
	}
	return n
}

type symEval struct {
	c *Ctx
	// model of a call: ok=false leaves the call to the evaluator (module callees are entered, others become expressions)
	model func(se *symEval, name string, call *ssa.CallCommon, args []sval, st *sstate) (outs []sval, ok bool)
	truth func(e string) int              // +1 / -1 / 0 for a condition expression
	field func(base, field string) string // the value of base.field ("" = base.field)
	elem  func(slice string) string       // the generic element of a slice ("" = ELEM(slice))
	// elemAt: the element at a constant index (indexing loops over a probe string)
	elemAt func(coll string, idx int64) string
	norm   func(e string) string
	// nonEmpty: the collection a loop ranges over has at least one element (the zero-iteration path is not taken)
	nonEmpty func(coll string) bool
	// loopIters: how many generic elements a range loop is evaluated for (0 = one)
	loopIters int
	steps     int
}

func (se *symEval) n(e string) string {
	if se.norm != nil {
		return se.norm(e)
	}
	return e
}

type spathResult struct {
	ret []sval
	st  *sstate
	pan bool
}

// run evaluates f; every feasible path yields its results and the state (effects) it ended with.
func (se *symEval) run(f *ssa.Function, args []sval, free []sval, st0 *sstate, depth int) []spathResult {
	if depth > 6 || len(f.Blocks) == 0 {
		return []spathResult{{ret: []sval{sv("UNK:depth")}, st: st0}}
	}
	type state struct {
		b     *ssa.BasicBlock
		pred  *ssa.BasicBlock
		st    *sstate
		visit map[*ssa.BasicBlock]int
	}
	base := st0.clone()
	// the callee gets its own registers but shares heap and effects
	base.env = map[ssa.Value]sval{}
	for i, p := range f.Params {
		if i < len(args) {
			base.env[p] = args[i]
		} else {
			base.env[p] = sv("UNK:param")
		}
	}
	for i, fv := range f.FreeVars {
		if i < len(free) {
			base.env[fv] = free[i]
		} else {
			base.env[fv] = sv("UNK:free")
		}
	}
	var out []spathResult
	stack := []state{{b: f.Blocks[0], st: base, visit: map[*ssa.BasicBlock]int{}}}
	for len(stack) > 0 {
		cur := stack[len(stack)-1]
		stack = stack[:len(stack)-1]
		se.steps++
		if se.steps > 40000 {
			return []spathResult{{ret: []sval{sv("UNK:budget")}, st: st0}}
		}
		isLoopHdr := strings.HasPrefix(cur.b.Comment, "rangeindex.loop") || strings.HasPrefix(cur.b.Comment, "rangeiter.loop")
		limit := 2
		if se.loopIters > 1 {
			limit = se.loopIters + 1
		}
		if cur.visit[cur.b] >= limit {
			out = append(out, spathResult{ret: []sval{sv("UNK:loop")}, st: cur.st})
			continue
		}
		visit := map[*ssa.BasicBlock]int{}
		for k, v := range cur.visit {
			visit[k] = v
		}
		visit[cur.b]++
		sts := []*sstate{cur.st}
		var term ssa.Instruction
		for _, in := range cur.b.Instrs {
			var next []*sstate
			for _, st := range sts {
				switch x := in.(type) {
				case *ssa.If, *ssa.Jump, *ssa.Return, *ssa.Panic:
					term = in
					next = append(next, st)
				case *ssa.Phi:
					v := sv("UNK:phi")
					for i, p := range cur.b.Preds {
						if p == cur.pred {
							v = se.val(x.Edges[i], st)
						}
					}
					st.env[x] = v
					next = append(next, st)
				case *ssa.Call:
					for _, r := range se.call(&x.Call, st, depth) {
						ns := r.st
						if len(r.ret) == 1 {
							ns.env[x] = r.ret[0]
						} else {
							ns.env[x] = sval{e: "TUPLE", tuple: r.ret}
						}
						next = append(next, ns)
					}
				case *ssa.Store:
					a := se.val(x.Addr, st)
					v := se.val(x.Val, st)
					switch {
					case a.e == "CELL":
						a.cell.v = v
					case strings.HasPrefix(a.e, "ADDR:"):
						loc := a.e[5:]
						st.heap[loc] = v
						st.effects = append(st.effects, "STORE "+loc+" = "+v.String())
					default:
						st.effects = append(st.effects, "STORE ? = "+v.String())
					}
					next = append(next, st)
				case *ssa.MapUpdate:
					st.effects = append(st.effects, "MAPSET "+se.val(x.Map, st).String()+"["+se.val(x.Key, st).String()+"] = "+se.val(x.Value, st).String())
					next = append(next, st)
				case ssa.Value:
					st.env[x] = se.instr(x, st)
					next = append(next, st)
				default:
					next = append(next, st)
				}
			}
			sts = next
		}
		for _, st := range sts {
			switch t := term.(type) {
			case *ssa.Return:
				var tup []sval
				for _, r := range t.Results {
					tup = append(tup, se.val(r, st))
				}
				out = append(out, spathResult{ret: tup, st: st})
			case *ssa.Panic:
				out = append(out, spathResult{pan: true, st: st})
			case *ssa.Jump:
				stack = append(stack, state{b: cur.b.Succs[0], pred: cur.b, st: st.clone(), visit: visit})
			case *ssa.If:
				if isLoopHdr && visit[cur.b] == limit {
					// after the generic element: the loop is over
					stack = append(stack, state{b: cur.b.Succs[1], pred: cur.b, st: st.clone(), visit: visit})
					continue
				}
				cv := se.truthOf(se.val(t.Cond, st))
				if os.Getenv("MUXLINT_DEBUG_SYM") != "" {
					fmt.Fprintf(os.Stderr, "  sym %s b%d if %s => %s (%d)\n", f.Name(), cur.b.Index, t.Cond.String(), se.val(t.Cond, st).e, cv)
				}
				if isLoopHdr {
					cv = 0 // the list may be empty or not
					if se.nonEmpty != nil {
						if coll := loopCollection(cur.b); coll != nil && se.nonEmpty(se.val(coll, st).e) {
							cv = 1
						}
					}
				}
				if cv >= 0 {
					stack = append(stack, state{b: cur.b.Succs[0], pred: cur.b, st: st.clone(), visit: visit})
				}
				if cv <= 0 {
					stack = append(stack, state{b: cur.b.Succs[1], pred: cur.b, st: st.clone(), visit: visit})
				}
			}
		}
	}
	return out
}

func (se *symEval) truthOf(v sval) int {
	switch v.e {
	case "CONST:true":
		return 1
	case "CONST:false":
		return -1
	}
	if strings.HasPrefix(v.e, "NOT(") {
		return -se.truthOf(sv(v.e[4 : len(v.e)-1]))
	}
	if se.truth != nil {
		return se.truth(v.e)
	}
	return 0
}

func (se *symEval) val(v ssa.Value, st *sstate) sval {
	if a, ok := st.env[v]; ok {
		return a
	}
	switch x := v.(type) {
	case *ssa.Const:
		if x.Value == nil {
			return sv("NIL")
		}
		return sv("CONST:" + x.Value.ExactString())
	case *ssa.Function:
		return sval{e: "FUNC", fn: an.Origin(x)}
	case *ssa.Global:
		return sv("GLOBAL:" + x.Name())
	}
	return sv("UNK:value")
}

func (se *symEval) instr(x ssa.Value, st *sstate) sval {
	switch i := x.(type) {
	case *ssa.Alloc:
		return sval{e: "CELL", cell: &scell{v: sv("UNK:uninit")}}
	case *ssa.FieldAddr:
		b := se.val(i.X, st)
		if b.e == "CELL" {
			b = b.cell.v
		}
		return sv("ADDR:" + b.e + "." + an.FieldName(i.X.Type(), i.Field))
	case *ssa.Field:
		b := se.val(i.X, st)
		return se.load(b.e+"."+an.FieldName(i.X.Type(), i.Field), st)
	case *ssa.IndexAddr:
		b := se.val(i.X, st)
		return sv("ADDR:ELEM(" + b.e + ")")
	case *ssa.Index:
		if se.elemAt != nil {
			if n, ok := constInt(se.val(i.Index, st).e); ok {
				if e := se.elemAt(se.val(i.X, st).e, n); e != "" {
					return sv(e)
				}
			}
		}
		return se.load("ELEM("+se.val(i.X, st).e+")", st)
	case *ssa.UnOp:
		switch i.Op {
		case token.MUL:
			a := se.val(i.X, st)
			if a.e == "CELL" {
				return a.cell.v
			}
			if strings.HasPrefix(a.e, "ADDR:") {
				return se.load(a.e[5:], st)
			}
			if strings.HasPrefix(a.e, "GLOBAL:") {
				if v, ok := st.heap[a.e]; ok {
					return v
				}
				return sv(a.e) // the value of a package-level variable, named after it
			}
			return sv("UNK:load")
		case token.NOT:
			v := se.val(i.X, st)
			switch se.truthOf(v) {
			case 1:
				return sv("CONST:false")
			case -1:
				return sv("CONST:true")
			}
			return sv("NOT(" + v.e + ")")
		}
		return sv("UNK:unop")
	case *ssa.Lookup:
		m, k := se.val(i.X, st), se.val(i.Index, st)
		if isStringType(i.X.Type()) && !i.CommaOk {
			// a byte of a string
			if se.elemAt != nil {
				if n, ok := constInt(k.e); ok {
					if e := se.elemAt(m.e, n); e != "" {
						return sv(e)
					}
				}
			}
			return se.load("ELEM("+m.e+")", st)
		}
		e := se.n("LOOKUP(" + m.e + "," + k.e + ")")
		if i.CommaOk {
			return sval{e: "TUPLE", tuple: []sval{sv(e), sv("FOUND(" + m.e + "," + k.e + ")")}}
		}
		return sv(e)
	case *ssa.Range:
		return sv("ITER(" + se.val(i.X, st).e + ")")
	case *ssa.Next:
		it := se.val(i.Iter, st).e
		coll := strings.TrimSuffix(strings.TrimPrefix(it, "ITER("), ")")
		return sval{e: "TUPLE", tuple: []sval{sv("MORE(" + coll + ")"), sv("KEY(" + coll + ")"), se.load("ELEM("+coll+")", st)}}
	case *ssa.Extract:
		t := se.val(i.Tuple, st)
		if t.e == "TUPLE" && i.Index < len(t.tuple) {
			return t.tuple[i.Index]
		}
		return sv(fmt.Sprintf("%s#%d", t.e, i.Index))
	case *ssa.MakeClosure:
		fn, _ := i.Fn.(*ssa.Function)
		var free []sval
		for _, b := range i.Bindings {
			free = append(free, se.val(b, st))
		}
		return sval{e: "FUNC", fn: an.Origin(fn), free: free}
	case *ssa.Convert:
		return se.val(i.X, st)
	case *ssa.ChangeType:
		return se.val(i.X, st)
	case *ssa.MakeInterface:
		return se.val(i.X, st)
	case *ssa.ChangeInterface:
		return se.val(i.X, st)
	case *ssa.TypeAssert:
		return se.val(i.X, st)
	case *ssa.Slice:
		part := func(v ssa.Value) string {
			if v == nil {
				return "_"
			}
			return se.val(v, st).e
		}
		b := se.val(i.X, st)
		if b.e == "CELL" {
			b = b.cell.v
		}
		return sv(se.n("SLICE(" + b.e + "," + part(i.Low) + "," + part(i.High) + ")"))
	case *ssa.BinOp:
		a, b := se.val(i.X, st), se.val(i.Y, st)
		op := map[token.Token]string{token.ADD: "ADD", token.SUB: "SUB", token.EQL: "EQ", token.NEQ: "NE", token.LSS: "LT", token.LEQ: "LE", token.GTR: "GT", token.GEQ: "GE", token.AND: "AND", token.SHL: "SHL", token.OR: "OR"}[i.Op]
		if op == "" {
			return sv("UNK:binop")
		}
		if x, okx := constInt(a.e); okx {
			if y, oky := constInt(b.e); oky {
				switch op {
				case "LT":
					return sv(fmt.Sprintf("CONST:%v", x < y))
				case "LE":
					return sv(fmt.Sprintf("CONST:%v", x <= y))
				case "GT":
					return sv(fmt.Sprintf("CONST:%v", x > y))
				case "GE":
					return sv(fmt.Sprintf("CONST:%v", x >= y))
				case "ADD":
					return sv(fmt.Sprintf("CONST:%d", x+y))
				case "SUB":
					return sv(fmt.Sprintf("CONST:%d", x-y))
				}
			}
		}
		if op == "EQ" || op == "NE" {
			// comparison of two conditions whose truth is known (verdict == stop)
			isBool := func(v sval) bool { return v.e == "CONST:true" || v.e == "CONST:false" }
			if ta, tb := se.truthOf(a), se.truthOf(b); ta != 0 && tb != 0 && (isBool(a) || isBool(b)) {
				return sv(fmt.Sprintf("CONST:%v", (ta == tb) == (op == "EQ")))
			}
		}
		if strings.HasPrefix(a.e, "CONST:") && strings.HasPrefix(b.e, "CONST:") && (op == "EQ" || op == "NE") {
			if (a.e == b.e) == (op == "EQ") {
				return sv("CONST:true")
			}
			return sv("CONST:false")
		}
		e := se.n(op + "(" + a.e + "," + b.e + ")")
		switch se.truthOf(sv(e)) {
		case 1:
			if op != "ADD" && op != "SUB" && op != "AND" && op != "SHL" && op != "OR" {
				return sv("CONST:true")
			}
		case -1:
			if op != "ADD" && op != "SUB" && op != "AND" && op != "SHL" && op != "OR" {
				return sv("CONST:false")
			}
		}
		return sv(e)
	}
	return sv(fmt.Sprintf("UNK:%T", x))
}

func (se *symEval) load(loc string, st *sstate) sval {
	if v, ok := st.heap[loc]; ok {
		return v
	}
	if strings.HasPrefix(loc, "ELEM(") {
		s := loc[5 : len(loc)-1]
		if se.elem != nil {
			if e := se.elem(s); e != "" {
				return sv(e)
			}
		}
		return sv(loc)
	}
	if i := strings.LastIndexByte(loc, '.'); i > 0 && se.field != nil {
		if e := se.field(loc[:i], loc[i+1:]); e != "" {
			return sv(e)
		}
	}
	return sv(loc)
}

func (se *symEval) call(call *ssa.CallCommon, st *sstate, depth int) []spathResult {
	name := an.CalleeName(call)
	var args []sval
	for _, a := range an.CallArgs(call) {
		v := se.val(a, st)
		if v.e == "CELL" {
			v = v.cell.v
		}
		args = append(args, v)
	}
	if b, ok := call.Value.(*ssa.Builtin); ok {
		if b.Name() == "len" && len(args) == 1 {
			return []spathResult{{ret: []sval{sv(se.n("LEN(" + args[0].e + ")"))}, st: st}}
		}
		return []spathResult{{ret: []sval{sv("UNK:builtin:" + b.Name())}, st: st}}
	}
	// an interface method called on a known function value: the value was converted to a func-typed adapter
	// (MatcherFunc, http.HandlerFunc) whose method calls the function with the same arguments
	if call.IsInvoke() && len(args) > 0 && args[0].e == "FUNC" && args[0].fn != nil && len(args[0].fn.Params) == len(args)-1 && depth < 6 {
		var rs []spathResult
		for _, r := range se.run(args[0].fn, args[1:], args[0].free, st, depth+1) {
			if r.pan {
				continue
			}
			ns := &sstate{env: st.clone().env, heap: r.st.heap, effects: r.st.effects}
			rs = append(rs, spathResult{ret: r.ret, st: ns})
		}
		if len(rs) > 0 {
			return rs
		}
	}
	if se.model != nil {
		if outs, ok := se.model(se, name, call, args, st); ok {
			var rs []spathResult
			for i, o := range outs {
				ns := st
				if i > 0 {
					ns = st.clone()
				}
				rs = append(rs, spathResult{ret: []sval{o}, st: ns})
			}
			return rs
		}
	}
	var callee *ssa.Function
	var free []sval
	if g := an.StaticCallee(call); g != nil {
		callee = g
	} else if !call.IsInvoke() {
		fv := se.val(call.Value, st)
		if fv.e == "CELL" {
			fv = fv.cell.v
		}
		if fv.e == "FUNC" {
			callee, free = fv.fn, fv.free
		}
	}
	if callee != nil && an.InModule(callee) && len(callee.Blocks) > 0 {
		var rs []spathResult
		for _, r := range se.run(callee, args, free, st, depth+1) {
			if r.pan {
				continue // a panicking path of the callee does not return here
			}
			// the caller's registers continue, the callee's heap and effects are kept
			ns := &sstate{env: st.clone().env, heap: r.st.heap, effects: r.st.effects}
			rs = append(rs, spathResult{ret: r.ret, st: ns})
		}
		if len(rs) == 0 {
			rs = append(rs, spathResult{ret: []sval{sv("UNK:no-return")}, st: st})
		}
		return rs
	}
	var parts []string
	for _, a := range args {
		parts = append(parts, a.e)
	}
	return []spathResult{{ret: []sval{sv(se.n("CALL:" + name + "(" + strings.Join(parts, ",") + ")"))}, st: st}}
}

// outcomes runs f and renders every path as (results, sorted effects).
func (se *symEval) outcomes(f *ssa.Function, args []sval) []soutcome {
	st := &sstate{env: map[ssa.Value]sval{}, heap: map[string]sval{}}
	seen := map[string]bool{}
	var out []soutcome
	for _, r := range se.run(f, args, nil, st, 0) {
		o := soutcome{}
		if r.pan {
			o.ret = "PANIC"
		} else {
			var p []string
			for _, v := range r.ret {
				// a returned condition the scenario decides
				switch se.truthOf(v) {
				case 1:
					v = sv("CONST:true")
				case -1:
					v = sv("CONST:false")
				}
				p = append(p, v.String())
			}
			o.ret = strings.Join(p, ", ")
		}
		o.effects = append([]string(nil), r.st.effects...)
		sort.Strings(o.effects)
		if k := o.String(); !seen[k] {
			seen[k] = true
			out = append(out, o)
		}
	}
	sort.Slice(out, func(i, j int) bool { return out[i].String() < out[j].String() })
	return out
}

func constInt(e string) (int64, bool) {
	if !strings.HasPrefix(e, "CONST:") {
		return 0, false
	}
	n, err := strconv.ParseInt(e[6:], 10, 64)
	return n, err == nil
}

// loopCollection: the value a range loop iterates over, from its header block.
func loopCollection(b *ssa.BasicBlock) ssa.Value {
	for _, in := range b.Instrs {
		if nx, ok := in.(*ssa.Next); ok {
			if r, ok := nx.Iter.(*ssa.Range); ok {
				return r.X
			}
		}
	}
	if len(b.Instrs) > 0 {
		if ifi, ok := b.Instrs[len(b.Instrs)-1].(*ssa.If); ok {
			if bo, ok := ifi.Cond.(*ssa.BinOp); ok {
				if lc, ok := bo.Y.(*ssa.Call); ok {
					if bi, ok := lc.Call.Value.(*ssa.Builtin); ok && bi.Name() == "len" && len(lc.Call.Args) == 1 {
						return lc.Call.Args[0]
					}
				}
			}
		}
	}
	return nil
}
