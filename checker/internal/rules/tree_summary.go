package rules

import (
	"golang.org/x/tools/go/ssa"

	"muxlint/internal/an"
)

// handlerMapMutation decodes a change of the key set of X.handlers.
func (c *Ctx) handlerMapMutation(f *ssa.Function, in ssa.Instruction) (x, what string, ok bool) {
	a := c.A
	if mu, isMU := in.(*ssa.MapUpdate); isMU {
		base, isH := fieldLoadOf(mu.Map, a.NodeT, a.FHandlers)
		if !isH {
			return "", "", false
		}
		// exempt: update of key k while ranging over the same map yielding k
		if rangeKeyOf(mu.Key, base+"."+a.FHandlers) {
			return "", "", false
		}
		return base, "map-update:" + a.FHandlers, true
	}
	for _, b := range []string{"delete", "clear"} {
		if call, isB := builtinCall(in, b); isB {
			if base, isH := fieldLoadOf(call.Args[0], a.NodeT, a.FHandlers); isH {
				return base, b + ":" + a.FHandlers, true
			}
		}
	}
	if base, field, val, isSt := fieldStore(in, a.NodeT); isSt && field == a.FHandlers {
		// dropping the whole map: a node without handlers is neither matched nor listed (liveness is the
		// handler count, C03.R7), so its summary is unobservable until the next install rebuilds it
		if an.IsNilConst(val) {
			return "", "", false
		}
		// exempt: lazy allocation of an empty map under X.handlers == nil
		if _, isMake := val.(*ssa.MakeMap); isMake && !hasMapUpdates(val) {
			dom := an.DominatedByEdge(in, func(b *ssa.BasicBlock, succ int) bool {
				cond, onTrue := an.EdgeCond(b, succ)
				if cond == nil {
					return false
				}
				v, k, eq, ok := an.CondAtom(cond)
				if !ok || k.Value != nil {
					return false
				}
				hb, isH := fieldLoadOf(v, a.NodeT, a.FHandlers)
				return isH && hb == base && eq == onTrue
			})
			if dom {
				return "", "", false
			}
		}
		return base, "store:" + a.FHandlers, true
	}
	return "", "", false
}

func hasMapUpdates(m ssa.Value) bool {
	for _, r := range *m.Referrers() {
		if mu, ok := r.(*ssa.MapUpdate); ok && mu.Map == m {
			return true
		}
	}
	return false
}

// summaryRebuild decodes an effect that brings the summary of X up to date.
func (c *Ctx) summaryRebuild(f *ssa.Function, in ssa.Instruction) (string, bool) {
	a := c.A
	if _, isDefer := in.(*ssa.Defer); isDefer {
		return "", false
	}
	if call, ok := calleeIs(in, a.NodeSummaryBuilder); ok {
		return an.AP(call.Args[0]), true
	}
	if call, ok := calleeIs(in, a.TreeSummaryBuilder); ok {
		return an.AP(call.Args[0]) + "." + a.FRootNode, true
	}
	return "", false
}

// ruleSummaryRebuilt is C04.R1 (= C03.R3): every change of the key set of a
// handler map is followed by a rebuild of that node's method summary.
func ruleSummaryRebuilt(c *Ctx, rule string) {
	a := c.A
	c.R.Rule(c.R.Property+"."+rule, 4, "Allow / Methods() / Routes() read the method summary: it is rebuilt after every change of the handler map's key set")
	spec := &PairSpec{
		Rule: rule,
		IsA:  c.handlerMapMutation,
		IsB: func(f *ssa.Function, in ssa.Instruction) (string, bool) {
			if x, ok := c.summaryRebuild(f, in); ok {
				return x, true
			}
			// a store to the summary field of X (coherent copy) also counts; its legitimacy is C04.R3
			if base, field, _, ok := fieldStore(in, a.NodeT); ok && field == a.FSummary {
				return base, true
			}
			return "", false
		},
	}
	sites := c.RunPair(spec)
	c.reportPair(rule, sites, func(s *pairSite) string {
		return "handler map of " + s.x + " changes its key set (" + s.what + ") and a successful return is reachable without rebuilding its method summary: Allow, Methods() and Routes() keep naming the old set"
	})
}
