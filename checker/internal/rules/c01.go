package rules

import (
	"fmt"
	"go/constant"
	"go/token"
	"regexp"
	"sort"
	"strings"

	"golang.org/x/tools/go/ssa"

	"muxlint/internal/an"
)

func init() {
	register(&Spec{
		ID: "C01",
		Explanation: "Decides: R1 backtrack-undo pairing — after a child segment matched and its subtree search failed, every path to the next attempt / to giving up restores the remaining path from the value saved before the match and deletes exactly that child's capture (no other key); R2 capture discipline in the segment matcher (key = the segment's name, only when the name is not ignored, value = a prefix of the remaining path; every accepting exit of a parameter kind captured or ignores the name); R3 literal text spliced into a regexp is quoted; R4 handler lookup conformance of Tree.Handler (the handler returned is the lookup of the requested method — or of the 405 key — in the returned node's own map, 404 exactly with a nil node; the matcher returns only nil, its recursion result, or its receiver when the path is consumed and handlers exist); R5 only the segment matcher sets and only the backtracking matcher deletes request parameters below Tree.Handler; R6 first-byte index coherence (the index fast path deletes no capture because the index holds literal children only — that needs a coherent index, = C03.R1/R2); R7 Remove(pattern) drops every handler, so a removed pattern is never reported. " +
			"R19 (= C13.R10) the And/Or combinators, also with two members answering differently: the path put back is the one read before the first member. " +
			"R20 every capturing segment the parser builds is remembered for the duplicate-name test before the next piece is parsed. " +
			"R21 a parameter rule that contains '{' is refused; R22 the end-point flag is the emptiness of the suffix; R1 also: an abandoned capturing child's name gets back the value it held before the attempt. " +
			"R23 (= C02.R21) the split point of two segment texts, for all pairs of texts. " +
			"R24 a parameter name pasted into a regular expression as a group name holds no '>'. " +
			"Not decided: that captured text satisfies the regexp / interceptor constraint for all inputs (semantics of regexp and of user functions).",
		Assumptions: append([]string{"Segment.Match changes ctx.Path and the parameters only when it returns true (checked for captures by R2)"}, commonAssumptions...),
		Run: func(c *Ctx) {
			ruleBacktrackUndo(c, "R1")
			ruleCaptureDiscipline(c, "R2")
			ruleRegexpQuoting(c, "R3")
			ruleHandlerLookup(c, "R4")
			ruleParamWriters(c, "R5")
			ruleIndexRebuilt(c, "R6a")
			ruleIndexRebuildComplete(c, "R6b")
			ruleRemoveAllDropsEverything(c, "R7")
			ruleExhaustiveWalks(c, "R8", []*ssa.Function{c.A.TreeClean}, "a cleaned route is no longer reported: Clean visits every child")
			ruleCleanTestsEveryChild(c, "R8b")
			ruleInterceptorShorthands(c, "R9")
			ruleReportedRoute(c, "R13")
			ruleCharClasses(c, "R9b", "syntax.MatchDigit", "syntax.MatchWord")
			ruleRequestPathIsMatched(c, "R10")
			ruleGroupRejectionUndo(c, "R11")
			ruleStrictValidated(c, "R12")
			ruleInternalKeyIsNotAMethod(c, "R14")
			ruleInterceptorSelection(c, "R15")
			ruleSuffixSearchResumesAtNextByte(c, "R16")
			ruleRegexpSuffixComparedBytewise(c, "R17")
			ruleSegmentsAreBuiltFromParsedPieces(c, "R18")
			ruleCombinators(c, "R19")
			ruleParameterNamesAreRemembered(c, "R20")
			ruleRuleTextHasNoBraces(c, "R21")
			ruleEndpointIsAnEmptySuffix(c, "R22")
			ruleSplitPointAutomaton(c, "R23")
			ruleGroupNameIsNotCutShort(c, "R24")
			rulePoolReleaseOnce(c, "R16")
		},
	})
}

func isCtxPathField(c *Ctx, v ssa.Value) (base string, ok bool) {
	return fieldLoadOf(v, c.A.ContextT, "Path")
}

// attemptSite is one place where the depth-first search tries a child: the call of the segment matcher on the
// child's segment, or the call of a helper that does exactly that for the node it receives (matchSelf-style).
type attemptSite struct {
	f      *ssa.Function // the scanning function
	in     *ssa.Call     // the attempt (in f)
	child  ssa.Value     // the node whose segment is matched, in f's frame
	ctx    ssa.Value     // the context, in f's frame
	helper *ssa.Function // nil when the matcher is called directly
	inner  []*ssa.Call   // the matcher calls inside the helper
}

// nodeOfSegment: seg = load(FieldAddr(node, segment)) -> node
func nodeOfSegment(c *Ctx, seg ssa.Value) ssa.Value {
	if u, ok := seg.(*ssa.UnOp); ok {
		if fa, ok := u.X.(*ssa.FieldAddr); ok && an.FieldName(fa.X.Type(), fa.Field) == c.A.FSegment {
			return fa.X
		}
	}
	return nil
}

func attemptSites(c *Ctx) []attemptSite {
	a := c.A
	var out []attemptSite
	helpers := map[*ssa.Function][]*ssa.Call{}
	helperParam := map[*ssa.Function][2]int{} // index of the node parameter, of the context parameter
	for _, f := range a.Backtrackers {
		var direct []*ssa.Call
		an.AllInstrs(f, func(in ssa.Instruction) {
			if call, ok := in.(*ssa.Call); ok {
				if _, is := calleeIs(in, a.SegmentMatch); is {
					direct = append(direct, call)
				}
			}
		})
		// a helper: every matcher call is on the segment of one parameter node, and the function has module callers
		allOnParam := len(direct) > 0
		pn, pc := -1, -1
		for _, m := range direct {
			node := nodeOfSegment(c, m.Call.Args[0])
			par, isPar := node.(*ssa.Parameter)
			cpar, isCPar := m.Call.Args[1].(*ssa.Parameter)
			if !isPar || !isCPar {
				allOnParam = false
				break
			}
			for i, p := range f.Params {
				if p == par {
					pn = i
				}
				if p == cpar {
					pc = i
				}
			}
		}
		if allOnParam && pn >= 0 && pc >= 0 && len(callSitesOf[f]) > 0 {
			helpers[f] = direct
			helperParam[f] = [2]int{pn, pc}
			continue
		}
		for _, m := range direct {
			out = append(out, attemptSite{f: f, in: m, child: nodeOfSegment(c, m.Call.Args[0]), ctx: m.Call.Args[1]})
		}
	}
	for _, f := range c.libFuncs() {
		an.AllInstrs(f, func(in ssa.Instruction) {
			call, ok := in.(*ssa.Call)
			if !ok {
				return
			}
			h := an.StaticCallee(&call.Call)
			if h == nil || helpers[h] == nil || h == f {
				return
			}
			args := an.CallArgs(&call.Call)
			idx := helperParam[h]
			if idx[0] >= len(args) || idx[1] >= len(args) {
				return
			}
			out = append(out, attemptSite{f: f, in: call, child: args[idx[0]], ctx: args[idx[1]], helper: h, inner: helpers[h]})
		})
	}
	sort.SliceStable(out, func(i, j int) bool {
		if out[i].f != out[j].f {
			return an.FuncKey(out[i].f) < an.FuncKey(out[j].f)
		}
		return out[i].in.Pos() < out[j].in.Pos()
	})
	return out
}

// scanners: the functions that hold attempt sites (plus the helpers they go through) — the owners of backtracking.
func scanners(c *Ctx) map[*ssa.Function]bool {
	out := map[*ssa.Function]bool{}
	for _, s := range attemptSites(c) {
		out[s.f] = true
		if s.helper != nil {
			out[s.helper] = true
		}
	}
	for _, b := range c.A.Backtrackers {
		out[b] = true
	}
	return out
}

// nodeViaIndex: the node value was selected through the first-byte index (children[indexes[..]] or indexes[..]).
func nodeViaIndex(c *Ctx, node ssa.Value) bool {
	a := c.A
	cu, ok := node.(*ssa.UnOp)
	if !ok {
		if lk, isLk := node.(*ssa.Lookup); isLk {
			_, isIdx := fieldLoadOf(lk.X, a.NodeT, a.FIndexes)
			return isIdx
		}
		return false
	}
	ia, ok := cu.X.(*ssa.IndexAddr)
	if !ok {
		return false
	}
	lk, ok := ia.Index.(*ssa.Lookup)
	if !ok {
		return false
	}
	_, isIdx := fieldLoadOf(lk.X, a.NodeT, a.FIndexes)
	return isIdx
}

// ruleBacktrackUndo is C01.R1.
func ruleBacktrackUndo(c *Ctx, rule string) {
	a := c.A
	c.R.Rule(c.R.Property+"."+rule, 3, "the reported parameters are those of the finally matched path: none missing and none left over from abandoned alternatives")
	del := c.P.MustFunc("types.(*Context).Delete")
	owners := scanners(c)
	sites := attemptSites(c)
	isAttempt := map[ssa.Instruction]bool{}
	for _, s := range sites {
		isAttempt[s.in] = true
	}
	isMatchCall := func(v ssa.Value) bool {
		call, ok := v.(*ssa.Call)
		if !ok {
			return false
		}
		g := an.StaticCallee(&call.Call)
		return g != nil && g == an.Origin(a.SegmentMatch)
	}
	for _, s := range sites {
		s := s
		f, m := s.f, s.in
		childAP := an.AP(s.child)
		segAP := childAP + "." + a.FSegment
		viaIndex := nodeViaIndex(c, s.child)
		// the attempt instructions per function: a saved path must have been loaded before them
		attemptIn := map[*ssa.Function][]ssa.Instruction{f: {m}}
		wantKey := map[*ssa.Function]string{f: segAP + ".Name"}
		if s.helper != nil {
			for _, im := range s.inner {
				attemptIn[s.helper] = append(attemptIn[s.helper], im)
				wantKey[s.helper] = an.AP(im.Call.Args[0]) + ".Name"
			}
		}
		assume := func(cond ssa.Value) (bool, bool) {
			v, neg := stripNot(cond)
			if isMatchCall(v) {
				return !neg, true // the child's segment matched
			}
			return false, false
		}
		// the abandon region ends at the next attempt or at a return of the scanner that does not hand on a result
		// of the recursion
		isSuccessRet := func(in ssa.Instruction) bool {
			r, ok := in.(*ssa.Return)
			if !ok || in.Parent() != f {
				return false
			}
			return returnsRecursion(r, owners) && recursionResultTested(r)
		}
		target := func(in ssa.Instruction) bool {
			if in.Parent() == f && isAttempt[in] {
				return true
			}
			if r, ok := in.(*ssa.Return); ok && in.Parent() == f {
				return !returnsRecursion(r, owners) || !recursionResultTested(r)
			}
			return false
		}
		restore := func(in ssa.Instruction) bool {
			st, ok := in.(*ssa.Store)
			if !ok {
				return false
			}
			base, isPath := isCtxPathField(c, st.Addr)
			if !isPath {
				return false
			}
			ld, isLoad := st.Val.(*ssa.UnOp)
			if !isLoad || ld.Op != token.MUL {
				return false
			}
			lb, isPathLoad := isCtxPathField(c, ld)
			if !isPathLoad || lb != base {
				return false
			}
			for _, at := range attemptIn[in.Parent()] {
				if ld.Block().Dominates(at.Block()) && (ld.Block() != at.Block() || instrIndex(ld) < instrIndex(at)) {
					return true
				}
			}
			return false
		}
		start := an.After(m)
		skip := false
		if s.helper != nil {
			start = an.PointOf(m)
			skip = true
		}
		mk := func(block func(in ssa.Instruction) bool) *an.Query {
			return &an.Query{Assume: assume, Target: target, Block: block, Deep: deepDefault, SkipStart: skip, Facts: true,
				Descend: func(g *ssa.Function) bool { return g == s.helper }}
		}
		path := mk(func(in ssa.Instruction) bool { return restore(in) || isSuccessRet(in) }).Search(start)
		construct := fmt.Sprintf("match:%s/%s/abandon-restores:%s.Path", segAP, ifelse(viaIndex, "via-index", "scan"), an.AP(s.ctx))
		o := c.R.Add(rule, c.fk(f), construct, c.pos(m), path == nil, ifelse(path == nil, "after the child's subtree failed every path restores ctx.Path from the value saved before the match", "a child segment can match, its subtree fail, and the search go on without restoring the remaining path: later siblings are tried against a shortened path"))
		if path != nil {
			o.Path = c.P.PathString(path)
		}
		// (b) the abandoned child's capture is deleted (scan children only: the index holds literal children)
		isDelOf := func(in ssa.Instruction) (isDel bool, right bool) {
			call, ok := calleeIs(in, del)
			if !ok {
				return false, false
			}
			return true, an.AP(call.Args[1]) == wantKey[in.Parent()]
		}
		// an edge of a test of the child's segment: 0 = nothing known, 1 = "wrote nothing", 2 = "wrote its name"
		edgeKind := func(b *ssa.BasicBlock, succ int) int {
			if len(b.Instrs) == 0 {
				return 0
			}
			br, ok := b.Instrs[len(b.Instrs)-1].(*ssa.If)
			if !ok {
				return 0
			}
			key, has := wantKey[b.Parent()]
			if !has {
				return 0
			}
			no, yes := captureTest(c, br.Cond, strings.TrimSuffix(key, ".Name"))
			switch succ {
			case no:
				return 1
			case yes:
				return 2
			}
			return 0
		}
		// what the name held before the attempt: ctx.Get(name) in front of the attempt, in the scanning function
		getF := c.P.MustFunc("types.(*Context).Get")
		setF := c.P.MustFunc("types.(*Context).Set")
		var savedGets []*ssa.Call
		an.AllInstrs(f, func(in ssa.Instruction) {
			call, ok := in.(*ssa.Call)
			if !ok {
				return
			}
			if g := an.StaticCallee(&call.Call); g == nil || an.Origin(g) != an.Origin(getF) {
				return
			}
			if an.AP(call.Call.Args[1]) != wantKey[f] {
				return
			}
			// before the attempt on every path that reaches it through this call's block
			if call.Block().Dominates(m.Block()) || (&an.Query{Target: func(t ssa.Instruction) bool { return t == ssa.Instruction(m) }}).Search(an.After(call)) != nil {
				savedGets = append(savedGets, call)
			}
		})
		// v is component k of a saved lookup, directly or as the only non-constant edge of a phi
		var isSaved func(v ssa.Value, k int, depth int) bool
		isSaved = func(v ssa.Value, k int, depth int) bool {
			if depth > 3 {
				return false
			}
			switch x := v.(type) {
			case *ssa.Extract:
				if x.Index != k {
					return false
				}
				for _, g := range savedGets {
					if x.Tuple == ssa.Value(g) {
						return true
					}
				}
			case *ssa.Phi:
				hit := false
				for _, e := range x.Edges {
					if _, isK := e.(*ssa.Const); isK {
						continue
					}
					if !isSaved(e, k, depth+1) {
						return false
					}
					hit = true
				}
				return hit
			}
			return false
		}
		isRestoreSet := func(in ssa.Instruction) bool {
			call, ok := calleeIs(in, setF)
			return ok && an.AP(call.Args[1]) == wantKey[in.Parent()] && isSaved(call.Args[2], 0, 0)
		}
		notHadEdge := func(b *ssa.BasicBlock, succ int) bool {
			return edgeHas(b, succ, func(cond ssa.Value, truth bool) bool {
				bare, neg := stripNot(cond)
				return isSaved(bare, 1, 0) && truth == neg // the lookup found nothing
			})
		}
		// the lookup really happened on the way to d: every branch edge that guards a saved lookup also guards d (the
		// lookup and the undo sit behind the same `captures`); a "nothing found" that only means "not looked up" does
		// not license a Delete
		lookedUpBefore := func(d ssa.Instruction) bool {
			if !an.DominatedByEdge(d, notHadEdge) {
				return false
			}
			for _, g := range savedGets {
				ok := true
				for _, b := range f.Blocks {
					br, isIf := b.Instrs[len(b.Instrs)-1].(*ssa.If)
					if !isIf {
						continue
					}
					for succ := 0; succ < 2; succ++ {
						bb, ss := b, succ
						guardsGet := an.DominatedByEdge(g, func(x *ssa.BasicBlock, k int) bool { return x == bb && k == ss })
						if !guardsGet {
							continue
						}
						guardsDel := an.DominatedByEdge(d, func(x *ssa.BasicBlock, k int) bool {
							xi, isIf2 := x.Instrs[len(x.Instrs)-1].(*ssa.If)
							return isIf2 && xi.Cond == br.Cond && k == ss
						})
						if !guardsDel {
							ok = false
						}
					}
				}
				if ok {
					return true
				}
			}
			return false
		}
		if !viaIndex {
			qB := mk(func(in ssa.Instruction) bool {
				_, right := isDelOf(in)
				return right || isRestoreSet(in) || isSuccessRet(in)
			})
			qB.BlockEdge = func(b *ssa.BasicBlock, succ int) bool { return edgeKind(b, succ) == 1 }
			pathB := qB.Search(start)
			construct := fmt.Sprintf("match:%s/scan/abandon-deletes:%s", segAP, wantKey[f])
			o := c.R.Add(rule, c.fk(f), construct, c.pos(m), pathB == nil, ifelse(pathB == nil, "the abandoned child's capture is deleted on every path", "after a parameter child matched and its subtree failed, its capture stays in the context: the request reports a parameter of an abandoned alternative"))
			if pathB != nil {
				o.Path = c.P.PathString(pathB)
			}
		}
		// (b') the name is deleted only when the child wrote it: a segment whose name is ignored ({-name}) or a
		// literal one wrote nothing, and a parameter of that name recorded before the search (a matcher's) must stay
		if !viaIndex {
			qD := mk(func(in ssa.Instruction) bool { return target(in) || isSuccessRet(in) })
			// a Delete behind the edge "the name held nothing before the attempt" removes at most what the child wrote
			qD.Target = func(in ssa.Instruction) bool {
				_, right := isDelOf(in)
				return right && !lookedUpBefore(in)
			}
			qD.BlockEdge = func(b *ssa.BasicBlock, succ int) bool { return edgeKind(b, succ) == 2 }
			pathD := qD.Search(start)
			construct := fmt.Sprintf("match:%s/scan/abandon-deletes-only-what-it-wrote:%s", segAP, wantKey[f])
			o := c.R.Add(rule, c.fk(f), construct, c.pos(m), pathD == nil, ifelse(pathD == nil, "the abandoned child's name is deleted only behind a test (a predicate of the syntax package, false for literal and name-ignoring segments) that it wrote that name", "the abandoned child's name is deleted without knowing that the child wrote it: a child that ignores its name ({-name}) wrote nothing, and a parameter of the same name recorded before the search (by a matcher) is lost"))
			if pathD != nil {
				o.Path = c.P.PathString(pathD)
			}
		}
		// (b'') what the name held before the attempt is put back: a capturing child overwrites a parameter of the same
		// name that a Matcher recorded before the route search (a path version stored as "ver", a Hosts capture);
		// abandoning the child by deleting the name loses that value. The undo is a Set of the value looked up
		// before the attempt, or a Delete behind the edge on which that lookup found nothing.
		if !viaIndex {
			qR := mk(func(in ssa.Instruction) bool {
				if isRestoreSet(in) || isSuccessRet(in) {
					return true
				}
				if _, right := isDelOf(in); right {
					return lookedUpBefore(in)
				}
				return false
			})
			qR.BlockEdge = func(b *ssa.BasicBlock, succ int) bool { return edgeKind(b, succ) == 1 }
			pathR := qR.Search(start)
			construct := fmt.Sprintf("match:%s/scan/abandon-restores-what-the-name-held:%s", segAP, wantKey[f])
			o := c.R.Add(rule, c.fk(f), construct, c.pos(m), pathR == nil, ifelse(pathR == nil, "the value the name held before the attempt is put back (or the name is deleted when it held none)", "a capturing child that is abandoned has its name deleted whatever the name held before the attempt: a parameter of the same name recorded by a Matcher before the route search (the path version under \"ver\", a Hosts capture) is lost although the route finally served does not capture that name"))
			if pathR != nil {
				o.Path = c.P.PathString(pathR)
			}
		}
		// (c) no other key is deleted on the abandon paths
		var dels []ssa.Instruction
		for _, g := range []*ssa.Function{f, s.helper} {
			if g == nil {
				continue
			}
			an.AllInstrs(g, func(in ssa.Instruction) {
				if isDel, right := isDelOf(in); isDel && !right {
					dels = append(dels, in)
				}
			})
		}
		for _, in := range dels {
			in := in
			q := mk(func(t ssa.Instruction) bool { return t != in && (target(t) || isSuccessRet(t)) })
			q.Target = func(t ssa.Instruction) bool { return t == in }
			if q.Search(start) == nil {
				continue
			}
			construct := fmt.Sprintf("match:%s/abandon-deletes-foreign-key:%s", segAP, an.AP(an.CallOf(in).Args[1]))
			c.R.Add(rule, c.fk(f), construct, c.pos(in), false, "while undoing the abandoned child "+segAP+" the key "+an.AP(an.CallOf(in).Args[1])+" is deleted: that is the capture of a segment still on the path (a parameter goes missing)")
		}
	}
}

func returnsRecursion(r *ssa.Return, isBacktracker map[*ssa.Function]bool) bool {
	if len(r.Results) == 0 {
		return false
	}
	v := r.Results[0]
	if ex, ok := v.(*ssa.Extract); ok {
		v = ex.Tuple
	}
	call, ok := v.(*ssa.Call)
	if !ok {
		return false
	}
	g := an.StaticCallee(&call.Call)
	return g != nil && isBacktracker[g]
}

// recursionResultTested: the return hands on a result of the recursion that is known to be a find on this path —
// the return is behind the non-nil edge of a test of the result (or the true edge of its boolean companion). An
// untested result handed on may be nil: the child's subtree failed and the scanner gives up without undoing.
func recursionResultTested(r *ssa.Return) bool {
	v := r.Results[0]
	var call ssa.Value = v
	if ex, ok := v.(*ssa.Extract); ok {
		call = ex.Tuple
	}
	same := func(x ssa.Value) bool {
		if x == v || x == call {
			return true
		}
		ex, ok := x.(*ssa.Extract)
		return ok && ex.Tuple == call
	}
	return an.DominatedByEdge(r, func(b *ssa.BasicBlock, succ int) bool {
		return edgeHas(b, succ, func(cond ssa.Value, truth bool) bool {
			if bare, neg := stripNot(cond); same(bare) {
				return truth != neg // the boolean companion of the result
			}
			x, k, eq, ok := an.CondAtom(cond)
			if !ok || !same(x) {
				return false
			}
			if k.Value == nil { // compared with nil
				return eq != truth
			}
			if k.Value.Kind() == constant.Bool {
				return (constant.BoolVal(k.Value) == eq) == truth
			}
			return false
		})
	})
}

// childViaIndex: the segment belongs to a child selected through the first-byte index.
func childViaIndex(c *Ctx, seg ssa.Value) bool {
	a := c.A
	// seg = load (child.segment); child = load IndexAddr(children, Lookup(indexes, ..))
	u, ok := seg.(*ssa.UnOp)
	if !ok {
		return false
	}
	fa, ok := u.X.(*ssa.FieldAddr)
	if !ok {
		return false
	}
	cu, ok := fa.X.(*ssa.UnOp)
	if !ok {
		return false
	}
	ia, ok := cu.X.(*ssa.IndexAddr)
	if !ok {
		return false
	}
	lk, ok := ia.Index.(*ssa.Lookup)
	if !ok {
		return false
	}
	_, isIdx := fieldLoadOf(lk.X, a.NodeT, a.FIndexes)
	return isIdx
}

// matcherFamily: the segment matcher and the helpers it reaches by static calls inside its package.
func matcherFamily(c *Ctx) map[*ssa.Function]bool {
	g := an.NewGraph(c.P)
	fam := map[*ssa.Function]bool{}
	for fn := range g.Reach([]*ssa.Function{c.A.SegmentMatch}, func(_ *ssa.Function, e an.Edge) bool { return e.Kind == "static" }) {
		if strings.HasPrefix(an.FuncKey(fn), "syntax.") {
			fam[fn] = true
		}
	}
	return fam
}

// ruleCaptureDiscipline is C01.R2.
func ruleCaptureDiscipline(c *Ctx, rule string) {
	a := c.A
	f := a.SegmentMatch
	set := c.P.MustFunc("types.(*Context).Set")
	c.R.Rule(c.R.Property+"."+rule+"a", 1, "captures are exactly the pattern's capturing (non '-') parameters, keyed by the segment's name, valued with a prefix of the remaining path")
	c.R.Rule(c.R.Property+"."+rule+"b", 1, "every accepting exit of a parameter segment captured its value or ignores the name")
	fam := matcherFamily(c)
	ignoreEdge := func(b *ssa.BasicBlock, succ int, want bool) bool {
		return edgeHas(b, succ, func(cond ssa.Value, truth bool) bool {
			return an.AP(cond) == "recv.ignoreName" && truth == want
		})
	}
	isPathPrefix := func(v ssa.Value) bool {
		var judge func(v ssa.Value, depth int) bool
		judge = func(v ssa.Value, depth int) bool {
			if depth > 3 {
				return false
			}
			if args := argsOfParam(v); len(args) > 0 {
				for _, av := range args {
					if !judge(av, depth+1) {
						return false
					}
				}
				return true
			}
			if s, isC := strConst(v); isC && s == "" {
				return true // the empty text is a prefix of every path
			}
			t := c.O.Of(v)
			vs := t.String()
			if strings.HasSuffix(vs, ".Path") && (strings.HasPrefix(vs, "p:") || strings.HasPrefix(vs, "param:")) {
				return true
			}
			return t.Op == "slice" && len(t.Args) == 3 && strings.HasSuffix(t.Args[0].String(), ".Path") && t.Args[1].String() == "-"
		}
		return judge(v, 0)
	}
	var sets []ssa.Instruction
	for fn := range fam {
		fn := fn
		an.AllInstrs(fn, func(in ssa.Instruction) {
			call, ok := calleeIs(in, set)
			if !ok {
				return
			}
			sets = append(sets, in)
			key := an.AP(call.Args[1])
			okKey := key == "recv.Name"
			okDom := an.DominatedByEdgeDeep([]*ssa.Function{f}, in, func(b *ssa.BasicBlock, succ int) bool { return ignoreEdge(b, succ, false) }, deepDefault)
			okVal := isPathPrefix(call.Args[2])
			good := okKey && okDom && okVal
			var why []string
			if !okKey {
				why = append(why, "key is "+key+", not the segment's name")
			}
			if !okDom {
				why = append(why, "not behind the !ignoreName test")
			}
			if !okVal {
				why = append(why, "value "+c.O.Of(call.Args[2]).String()+" is not a prefix of the remaining path")
			}
			c.R.Add(rule+"a", c.fk(fn), "set:key="+key, c.pos(in), good, ifelse(good, "key is recv.Name, behind !ignoreName, value is a prefix of ctx.Path", "capture breaks the discipline: "+strings.Join(why, "; ")))
		})
	}
	// accepting exits of parameter kinds: from the matcher's entry, every path to a possibly-true return passed a
	// capture, the ignoreName edge, or the literal-kind edge
	strKind := a.Kind("String")
	isSet := func(in ssa.Instruction) bool {
		for _, s := range sets {
			if s == in {
				return true
			}
		}
		return false
	}
	path := (&an.Query{
		Deep:  deepDefault,
		Block: isSet,
		TargetReturn: func(r *ssa.Return, val func(ssa.Value) (bool, bool)) bool {
			known, v := val(r.Results[0])
			return !known || v
		},
		BlockEdge: func(b *ssa.BasicBlock, succ int) bool {
			if ignoreEdge(b, succ, true) {
				return true
			}
			cond, onTrue := an.EdgeCond(b, succ)
			if cond == nil {
				return false
			}
			x, kk, eq, ok := an.CondAtom(cond)
			return ok && an.AP(x) == "recv.Type" && an.ConstKey(kk) == strKind && eq == onTrue
		},
	}).Search(an.Entry(f))
	o := c.R.Add(rule+"b", c.fk(f), "accepting-exit/captured-or-ignored", c.P.Pos(f.Pos()), path == nil, ifelse(path == nil, "every accepting path went through a capture, the ignoreName edge, or the literal kind", "a parameter segment can accept without capturing its value: the parameter is missing from the request"))
	if path != nil {
		o.Path = c.P.PathString(path)
	}
}

// ruleRegexpQuoting is C01.R3 / C02.R6.
func ruleRegexpQuoting(c *Ctx, rule string) {
	c.R.Rule(c.R.Property+"."+rule, 1, "literal text next to a regexp parameter matches byte for byte: it is quoted before it is spliced into the expression")
	for _, f := range c.libFuncs() {
		an.AllInstrs(f, func(in ssa.Instruction) {
			call, ok := calleeNamed(in, "regexp.Compile", "regexp.MustCompile")
			if !ok {
				return
			}
			t := c.O.Of(call.Args[0])
			var bad []string
			seen := map[ssa.Value]bool{}
			var check func(v ssa.Value)
			check = func(v ssa.Value) {
				if seen[v] {
					return
				}
				seen[v] = true
				switch x := v.(type) {
				case *ssa.Const:
					return
				case *ssa.BinOp:
					if x.Op == token.ADD {
						check(x.X)
						check(x.Y)
						return
					}
				case *ssa.Phi:
					for _, e := range x.Edges {
						check(e)
					}
					return
				case *ssa.Call:
					if an.CalleeName(&x.Call) == "regexp.QuoteMeta" {
						return
					}
					// the text of a local strings.Builder or of a plain Sprintf: every piece of it
					if paths, isB := textPieces(x); isB {
						for _, p := range paths {
							for _, piece := range p {
								if !piece.isLit {
									check(piece.v)
								}
							}
						}
						return
					}
				case *ssa.UnOp:
					if fa, ok := x.X.(*ssa.FieldAddr); ok && x.Op == token.MUL {
						fn := an.FieldName(fa.X.Type(), fa.Field)
						if o := ownerOf(fa); o != nil && o == c.A.SegmentT.Origin() && (fn == "rule" || fn == "Name") {
							return // the user's expression and the group name are meant to be raw
						}
					}
				}
				bad = append(bad, an.AP(v))
			}
			check(call.Args[0])
			// the user's rule is enclosed in a group of its own, on every alternative of the construction:
			// (?:RULE)SUFFIX or (?P<NAME>RULE)SUFFIX — otherwise a top-level `|` in the rule swallows the suffix
			alts := regexpAlternatives(c, call.Args[0], 0)
			var ungrouped []string
			for _, a := range alts {
				if !regexpShape.MatchString(a) {
					ungrouped = append(ungrouped, strings.NewReplacer("\x00N", "NAME", "\x00R", "RULE", "\x00Q", "QUOTED", "\x00X", "?").Replace(a))
				}
			}
			if len(alts) > 0 {
				c.R.Add(rule, c.fk(f), "regexp-source/rule-enclosed-in-group", c.pos(in), len(ungrouped) == 0, ifelse(len(ungrouped) == 0, fmt.Sprintf("%d construction alternative(s), all of the form (?:RULE)SUFFIX or (?P<NAME>RULE)SUFFIX", len(alts)), "the expression can be built as "+strings.Join(ungrouped, " / ")+": the user's rule is not enclosed in a group of its own, so an alternation in the rule captures the literal suffix into its last branch (other branches no longer require the suffix)"))
			}
			// a regexp parameter without literal text after it ends its pattern (two parameters cannot be adjacent): it
			// takes the whole rest, so its expression is anchored at the end — otherwise the engine's preferred match
			// ("zh" for zh|zh-CN, one digit for \d+?) leaves text over and the route is a 404 for text its rule accepts
			if len(alts) > 0 && strings.HasPrefix(an.FuncKey(f), "syntax.") {
				anchored := false
				for _, a := range alts {
					if strings.HasSuffix(a, `\z`) || strings.HasSuffix(a, "$") {
						anchored = true
					}
				}
				guarded := false
				an.AllInstrs(f, func(t ssa.Instruction) {
					ph, isPhi := t.(*ssa.Phi)
					if !isPhi {
						return
					}
					for i, e := range ph.Edges {
						k, isS := strConst(e)
						if !isS || (k != `\z` && k != "$") {
							continue
						}
						pred := ph.Block().Preds[i]
						if len(pred.Instrs) == 0 {
							continue
						}
						if an.DominatedByEdge(pred.Instrs[len(pred.Instrs)-1], func(b *ssa.BasicBlock, succ int) bool {
							return edgeHas(b, succ, func(cond ssa.Value, truth bool) bool {
								x, kc, eq, ok := an.CondAtom(cond)
								if !ok || !strings.HasSuffix(an.AP(x), ".Suffix") {
									return false
								}
								sk, isStr := strConst(kc)
								return isStr && sk == "" && eq == truth
							})
						}) {
							guarded = true
						}
					}
				})
				if bs, isCall := call.Args[0].(*ssa.Call); isCall && !guarded {
					if paths, isB := builderPaths(bs); isB {
						for _, p := range paths {
							for _, piece := range p {
								if !piece.isLit || (piece.lit != `\z` && piece.lit != "$") {
									continue
								}
								if an.DominatedByEdge(piece.in, func(b *ssa.BasicBlock, succ int) bool {
									return edgeHas(b, succ, func(cond ssa.Value, truth bool) bool {
										x, kc, eq, ok := an.CondAtom(cond)
										if !ok || !strings.HasSuffix(an.AP(x), ".Suffix") {
											return false
										}
										sk, isStr := strConst(kc)
										return isStr && sk == "" && eq == truth
									})
								}) {
									guarded = true
								}
							}
						}
					}
				}
				good := anchored && guarded
				c.R.Add(rule, c.fk(f), "regexp-source/no-suffix⇒anchored-at-the-end", c.pos(in), good, ifelse(good, "without a literal suffix the expression ends with an end anchor", "a regexp parameter that ends its pattern (no literal suffix) is compiled without an end anchor: the engine's preferred match can be a proper prefix of the rest (\"zh\" for the rule zh|zh-CN, one digit for \\d+?), the left-over text fails the route and the request is a 404 although the rule accepts the whole rest"))
			}
			c.R.Add(rule, c.fk(f), "regexp-source/literal-text-quoted", c.pos(in), len(bad) == 0, ifelse(len(bad) == 0, "every non-constant part is the user's rule, the parameter name, or quoted text: "+t.String(), "pattern text "+strings.Join(bad, ", ")+" is spliced into a regular expression unquoted: its metacharacters ('.', '+', …) match other bytes than themselves"))
		})
	}
}

var regexpShape = regexp.MustCompile("^\\(\\?(:|P<\x00N>)\x00R\\)(\x00Q|\\\\z|\\$)?$")

// regexpAlternatives expands the construction of a regexp source into its
// alternatives (phi edges), with placeholders for the rule, the name, quoted text and anything else.
func regexpAlternatives(c *Ctx, v ssa.Value, depth int) []string {
	if depth > 8 {
		return []string{"\x00X"}
	}
	switch x := v.(type) {
	case *ssa.Const:
		if s, ok := strConst(x); ok {
			return []string{s}
		}
	case *ssa.BinOp:
		if x.Op == token.ADD {
			var out []string
			for _, l := range regexpAlternatives(c, x.X, depth+1) {
				for _, r := range regexpAlternatives(c, x.Y, depth+1) {
					out = append(out, l+r)
				}
			}
			return out
		}
	case *ssa.Phi:
		var out []string
		for _, e := range x.Edges {
			out = append(out, regexpAlternatives(c, e, depth+1)...)
		}
		return out
	case *ssa.Call:
		if an.CalleeName(&x.Call) == "regexp.QuoteMeta" {
			return []string{"\x00Q"}
		}
		if paths, isB := textPieces(x); isB {
			var out []string
			for _, p := range paths {
				alts := []string{""}
				for _, piece := range p {
					parts := []string{piece.lit}
					if !piece.isLit {
						parts = regexpAlternatives(c, piece.v, depth+1)
					}
					var next []string
					for _, l := range alts {
						for _, r := range parts {
							next = append(next, l+r)
						}
					}
					alts = next
					if len(alts) > 1024 {
						return []string{"\x00X"}
					}
				}
				out = append(out, alts...)
			}
			sort.Strings(out)
			return dedupStrings(out)
		}
	case *ssa.UnOp:
		if fa, ok := x.X.(*ssa.FieldAddr); ok && x.Op == token.MUL {
			if o := ownerOf(fa); o != nil && o == c.A.SegmentT.Origin() {
				switch an.FieldName(fa.X.Type(), fa.Field) {
				case "rule":
					return []string{"\x00R"}
				case "Name":
					return []string{"\x00N"}
				}
			}
		}
	}
	return []string{"\x00X"}
}

// ruleHandlerLookup is C01.R4.
func ruleHandlerLookup(c *Ctx, rule string) {
	a := c.A
	f := a.TreeHandler
	c.R.Rule(c.R.Property+"."+rule, 4, "the handler handed out is the one stored for the matched node and the requested method (405 entry / 404 handler otherwise)")
	var methodP *ssa.Parameter
	for _, p := range f.Params[1:] {
		if b, ok := p.Type().Underlying().(interface{ Kind() int }); ok {
			_ = b
		}
		if p.Type().String() == "string" {
			methodP = p
		}
	}
	if methodP == nil {
		an.Fatalf("UNRESOLVED anchor: method parameter of %s", c.fk(f))
	}
	for _, r := range an.Returns(f) {
		if len(r.Results) != 3 {
			continue
		}
		node, h, okv := an.ReturnValue(r, 0), an.ReturnValue(r, 1), an.ReturnValue(r, 2)
		nodeT := c.O.Of(node)
		hT := c.O.Of(h)
		okC, isConst := okv.(*ssa.Const)
		if !isConst {
			// single tail: `h, found := node.handlers[method]; if !found { h = node.handlers[405] }; return node, h, found`
			good, why := false, "the served flag is "+c.O.Of(okv).String()
			// the flag may be a conjunction: found && method != <405 key>
			flag := okv
			foundV := okv
			if phi, isPhi := okv.(*ssa.Phi); isPhi {
				var last ssa.Value
				okShape := true
				for i, e := range phi.Edges {
					if k, isC := e.(*ssa.Const); isC && k.Value != nil && k.Value.ExactString() == "false" {
						// the edge on which an earlier conjunct failed
						pb := phi.Block().Preds[i]
						if ifi, isIf := pb.Instrs[len(pb.Instrs)-1].(*ssa.If); isIf {
							if ex2, isEx2 := ifi.Cond.(*ssa.Extract); isEx2 && ex2.Index == 1 {
								foundV = ex2
								continue
							}
						}
						okShape = false
						continue
					}
					if last != nil {
						okShape = false
					}
					last = e
				}
				if okShape && last != nil {
					if bo, isBO := last.(*ssa.BinOp); isBO && bo.Op == token.NEQ && bo.X == ssa.Value(methodP) {
						if kc, isC := bo.Y.(*ssa.Const); isC && an.ConstKey(kc) == a.NotAllowedKey && foundV != okv {
							okv = foundV // the remaining conjunct is the found bit; the other one excludes the internal key
						}
					}
				}
			}
			if ex, isEx := okv.(*ssa.Extract); isEx && ex.Index == 1 {
				if lk, isLk := ex.Tuple.(*ssa.Lookup); isLk && lk.CommaOk {
					base, isH := fieldLoadOf(lk.X, a.NodeT, a.FHandlers)
					if isH && base == an.AP(node) && lk.Index == ssa.Value(methodP) {
						good, why = true, ""
						// the handler: the found value on the found edge, the node's 405 entry otherwise
						phi, isPhi := h.(*ssa.Phi)
						if !isPhi {
							good, why = false, "the handler is not selected by the found flag"
						} else {
							for i, e := range phi.Edges {
								pb := phi.Block().Preds[i]
								foundEdge := false
								for si := range pb.Succs {
									if pb.Succs[si] == phi.Block() && commaOkEdge(pb, si, func(m, k ssa.Value) bool { return m == lk.X && k == lk.Index }) {
										foundEdge = true
									}
									// selected by the returned flag itself
									if cond, onTrue := an.EdgeCond(pb, si); cond != nil && pb.Succs[si] == phi.Block() {
										if v, neg := stripNot(cond); v == flag && onTrue != neg {
											foundEdge = true
										}
									}
								}
								switch x := e.(type) {
								case *ssa.Extract:
									if x.Tuple != ssa.Value(lk) || x.Index != 0 {
										good, why = false, "a handler of another lookup is returned"
									}
									// arrives from the block of the lookup (found) — the other edge overrides it
								case *ssa.Lookup:
									b2, isH2 := fieldLoadOf(x.X, a.NodeT, a.FHandlers)
									kc, isC := x.Index.(*ssa.Const)
									if !(isH2 && b2 == base && isC && an.ConstKey(kc) == a.NotAllowedKey) || foundEdge {
										good, why = false, "the fallback is not the 405 entry of the matched node on the not-found edge"
									}
								default:
									good, why = false, "unexpected handler alternative "+c.O.Of(e).String()
								}
							}
						}
					}
				}
			}
			c.R.Add(rule, c.fk(f), "return:tail/served=found(node.handlers,method)", c.pos(r), good, ifelse(good, "served flag is the found bit of the requested method in the returned node's map; handler is that entry, or the node's 405 entry when not found", "the tail return of Tree.Handler does not relate flag, handler and node: "+why))
			continue
		}
		served := okC.Value.ExactString() == "true"
		// node value: strip MakeInterface
		nodeAP := an.AP(node)
		switch {
		case served && strings.HasSuffix(hT.String(), "."+a.FTrace):
			dom := an.DominatedByEdge(r, func(b *ssa.BasicBlock, succ int) bool {
				cond, onTrue := an.EdgeCond(b, succ)
				if cond == nil {
					return false
				}
				x, k, eq, ok := an.CondAtom(cond)
				return ok && x == ssa.Value(methodP) && an.ConstKey(k) == `"TRACE"` && eq == onTrue
			}) && an.DominatedByEdge(r, func(b *ssa.BasicBlock, succ int) bool {
				cond, onTrue := an.EdgeCond(b, succ)
				if cond == nil {
					return false
				}
				v, neg := stripNot(cond)
				return strings.HasSuffix(an.AP(v), "."+a.FHasTrace) && onTrue != neg
			})
			good := dom && nodeAP == "recv."+a.FRootNode
			c.R.Add(rule, c.fk(f), "return:trace-short-circuit", c.pos(r), good, ifelse(good, "TRACE handler with the root node, only behind hasTrace && method == TRACE", "the TRACE handler is returned outside the hasTrace && method == TRACE guard or with another node"))
		case served:
			// h = Extract#0 of commaok lookup in <node>.handlers[method]; return behind the found edge
			good, why := false, "handler is "+hT.String()
			if ex, ok := h.(*ssa.Extract); ok && ex.Index == 0 {
				if lk, ok := ex.Tuple.(*ssa.Lookup); ok && lk.CommaOk {
					base, isH := fieldLoadOf(lk.X, a.NodeT, a.FHandlers)
					if isH && base == nodeAP && lk.Index == ssa.Value(methodP) {
						dom := an.DominatedByEdge(r, func(b *ssa.BasicBlock, succ int) bool {
							return commaOkEdge(b, succ, func(m, k ssa.Value) bool { return m == lk.X && k == lk.Index })
						})
						good = dom
						if !dom {
							why = "served return is not behind the found edge of the lookup"
						}
					} else {
						why = fmt.Sprintf("lookup is %s[%s], returned node is %s", an.AP(lk.X), an.AP(lk.Index), nodeAP)
					}
				}
			}
			c.R.Add(rule, c.fk(f), "return:served/handler=lookup(node.handlers,method)", c.pos(r), good, ifelse(good, "handler is the found entry of the requested method in the returned node's own map", "served return hands out something else than the requested method's entry of the matched node: "+why))
		case an.IsNilConst(node):
			good := strings.HasSuffix(hT.String(), "."+a.FNotFound) && strings.HasPrefix(hT.String(), "recv.")
			c.R.Add(rule, c.fk(f), "return:404/handler=notFound", c.pos(r), good, ifelse(good, "nil node with the tree's not-found handler", "a nil node is returned with "+hT.String()+" instead of the not-found handler"))
		default:
			good := false
			if lk, ok := h.(*ssa.Lookup); ok && !lk.CommaOk {
				base, isH := fieldLoadOf(lk.X, a.NodeT, a.FHandlers)
				kc, isC := lk.Index.(*ssa.Const)
				good = isH && base == nodeAP && isC && an.ConstKey(kc) == a.NotAllowedKey
			}
			c.R.Add(rule, c.fk(f), "return:405/handler=lookup(node.handlers,405-key)", c.pos(r), good, ifelse(good, "405 entry of the returned node's own map", "the not-served return hands out "+hT.String()+" instead of the 405 entry of the matched node"))
		}
		_ = nodeT
	}
	// the backtracking matcher returns nil, its recursion result, or its receiver when the path is consumed and handlers exist
	isBacktracker := map[*ssa.Function]bool{}
	for _, b := range a.Backtrackers {
		isBacktracker[b] = true
	}
	for _, b := range a.Backtrackers {
		for _, r := range an.Returns(b) {
			if len(r.Results) != 1 {
				continue
			}
			v := r.Results[0]
			switch {
			case an.IsNilConst(v):
				c.R.Add(rule, c.fk(b), "matcher-return:nil", c.pos(r), true, "no route")
			case returnsRecursion(r, isBacktracker):
				c.R.Add(rule, c.fk(b), "matcher-return:recursion", c.pos(r), true, "result of the search below the matched child")
			case an.AP(v) == "recv":
				domEmpty := an.DominatedByEdge(r, func(bb *ssa.BasicBlock, succ int) bool {
					cond, onTrue := an.EdgeCond(bb, succ)
					if cond == nil {
						return false
					}
					x, k, eq, ok := an.CondAtom(cond)
					if !ok {
						return false
					}
					t := c.O.Of(x).String()
					return (t == "call<builtin:len>(p:ctx.Path)" || t == "call<builtin:len>(param:ctx.Path)" || strings.HasPrefix(t, "call<builtin:len>(") && strings.HasSuffix(t, ".Path)")) && an.ConstKey(k) == "0" && eq == onTrue
				})
				domSize := an.DominatedByEdge(r, func(bb *ssa.BasicBlock, succ int) bool {
					return lenPositiveTermEdge(c, bb, succ, "recv."+a.FHandlers)
				})
				good := domEmpty && domSize
				c.R.Add(rule, c.fk(b), "matcher-return:receiver/path-consumed-and-has-handlers", c.pos(r), good, ifelse(good, "the receiver is a match only when the path is consumed and it has handlers (a registered pattern)", "the matcher can report a node that is not a registered pattern or with path left over"))
			default:
				c.R.Add(rule, c.fk(b), "matcher-return:"+an.AP(v), c.pos(r), false, "the matcher returns "+an.AP(v)+": neither nil, nor the recursion result, nor its receiver")
			}
		}
	}
}

// lenPositiveTermEdge: edge establishes len(<ap>) > 0 where the length may be computed by an inlined helper (size()).
func lenPositiveTermEdge(c *Ctx, b *ssa.BasicBlock, succ int, ap string) bool {
	cond, onTrue := an.EdgeCond(b, succ)
	if cond == nil {
		return false
	}
	v, neg := stripNot(cond)
	bo, ok := v.(*ssa.BinOp)
	if !ok {
		return false
	}
	holds := onTrue != neg
	k, ok := bo.Y.(*ssa.Const)
	if !ok || k.Value == nil {
		return false
	}
	if c.O.Of(bo.X).String() != "call<builtin:len>("+ap+")" {
		return false
	}
	n := k.Int64()
	switch bo.Op {
	case token.GTR:
		return holds && n >= 0
	case token.GEQ:
		return holds && n >= 1
	case token.NEQ:
		return holds && n == 0
	case token.EQL:
		return !holds && n == 0
	}
	return false
}

// ruleParamWriters is C01.R5.
func ruleParamWriters(c *Ctx, rule string) {
	a := c.A
	c.R.Rule(c.R.Property+"."+rule, 2, "nothing but the matcher writes request parameters while a request is resolved")
	g := an.NewGraph(c.P)
	reach := g.Reach([]*ssa.Function{a.TreeHandler}, nil)
	isBacktracker := scanners(c)
	fam := matcherFamily(c)
	writers := map[string]string{"types.(*Context).Set": "set", "types.(*Context).Delete": "delete", "types.(*Context).Reset": "reset"}
	// and every other method of the context that writes the parameter map, classified by what it does to it
	// (a new ResetParams() that clears it is a reset)
	for changed := true; changed; {
		changed = false
		for _, m := range c.libFuncs() {
			k := an.FuncKey(m)
			if !strings.HasPrefix(k, "types.(*Context).") || writers[k] != "" {
				continue
			}
			kind := ""
			an.AllInstrs(m, func(in ssa.Instruction) {
				if mu, ok := in.(*ssa.MapUpdate); ok && an.AP(mu.Map) == "recv.params" {
					kind = "set"
				}
				if call := an.CallOf(in); call != nil {
					if b, isB := call.Value.(*ssa.Builtin); isB && len(call.Args) >= 1 && an.AP(call.Args[0]) == "recv.params" {
						switch b.Name() {
						case "delete":
							kind = "delete"
						case "clear":
							kind = "reset"
						}
					}
					if w := writers[an.CalleeName(call)]; w != "" && len(call.Args) > 0 && an.AP(call.Args[0]) == "recv" && kind == "" {
						kind = w
					}
				}
				if base, field, val, ok := fieldStoreAny(in); ok && base == "recv" && field == "params" {
					// lazily creating the map when there is none removes nothing
					_, fresh := val.(*ssa.MakeMap)
					lazy := fresh && an.DominatedByEdge(in, func(b *ssa.BasicBlock, succ int) bool {
						return edgeHas(b, succ, func(cond ssa.Value, truth bool) bool {
							x, k, eq, okA := an.CondAtom(cond)
							return okA && k.Value == nil && an.AP(x) == "recv.params" && eq == truth
						})
					})
					if !lazy {
						kind = "reset"
					}
				}
			})
			if kind != "" {
				writers[k] = kind
				changed = true
			}
		}
	}
	for _, f := range an.SortedFuncs(reach) {
		an.AllInstrs(f, func(in ssa.Instruction) {
			call := an.CallOf(in)
			if call == nil {
				return
			}
			kind, ok := writers[an.CalleeName(call)]
			if !ok {
				return
			}
			good := (kind == "set" && fam[f]) || (kind == "delete" && isBacktracker[f])
			// the backtracking matcher may put back what a name held before the attempt it abandons
			if !good && kind == "set" && isBacktracker[f] && len(call.Args) == 3 && putsBackLookedUpValue(c, call) {
				good = true
			}
			c.R.Add(rule, c.fk(f), "param-"+kind, c.pos(in), good, ifelse(good, "owner of this kind of write", "request parameters are written ("+kind+") below Tree.Handler outside the matcher: "+an.Chain(reach, f)))
		})
	}
}

// putsBackLookedUpValue: Set(ctx, key, v) where v is the value component of ctx.Get(key) for the same key (directly
// or as the only non-constant edge of a phi).
func putsBackLookedUpValue(c *Ctx, set *ssa.CallCommon) bool {
	getF := c.P.MustFunc("types.(*Context).Get")
	var trace func(v ssa.Value, depth int) bool
	trace = func(v ssa.Value, depth int) bool {
		if depth > 3 {
			return false
		}
		switch x := v.(type) {
		case *ssa.Extract:
			gc, ok := x.Tuple.(*ssa.Call)
			if !ok || x.Index != 0 {
				return false
			}
			g := an.StaticCallee(&gc.Call)
			return g != nil && an.Origin(g) == an.Origin(getF) && an.AP(gc.Call.Args[1]) == an.AP(set.Args[1]) && an.AP(gc.Call.Args[0]) == an.AP(set.Args[0])
		case *ssa.Phi:
			hit := false
			for _, e := range x.Edges {
				if _, isK := e.(*ssa.Const); isK {
					continue
				}
				if !trace(e, depth+1) {
					return false
				}
				hit = true
			}
			return hit
		}
		return false
	}
	return trace(set.Args[2], 0)
}

func instrIndex(in ssa.Instruction) int {
	for i, x := range in.Block().Instrs {
		if x == in {
			return i
		}
	}
	return -1
}
