package rules

import (
	"fmt"
	"go/constant"
	"go/token"
	"go/types"
	"os"
	"strings"

	"golang.org/x/tools/go/ssa"

	"muxlint/internal/an"
)

var indexFuncs = map[string]bool{
	"strings.Index": true, "strings.IndexByte": true, "strings.LastIndex": true, "strings.LastIndexByte": true,
	"strings.IndexRune": true, "strings.IndexAny": true, "strings.LastIndexAny": true, "strings.IndexFunc": true,
	"bytes.Index": true, "bytes.IndexByte": true, "slices.Index": true, "slices.IndexFunc": true,
}

var findIndexFuncs = map[string]bool{
	"regexp.(*Regexp).FindStringIndex": true, "regexp.(*Regexp).FindStringSubmatchIndex": true,
	"regexp.(*Regexp).FindIndex": true, "regexp.(*Regexp).FindSubmatchIndex": true,
}

// boundLeaves collects the SSA leaves of an integer bound expression.
func boundLeaves(v ssa.Value, seen map[ssa.Value]bool, out *[]ssa.Value) {
	if v == nil || seen[v] {
		return
	}
	seen[v] = true
	switch x := v.(type) {
	case *ssa.BinOp:
		if x.Op == token.ADD || x.Op == token.SUB {
			boundLeaves(x.X, seen, out)
			boundLeaves(x.Y, seen, out)
			return
		}
	case *ssa.Phi:
		for _, e := range x.Edges {
			boundLeaves(e, seen, out)
		}
		return
	case *ssa.Convert:
		boundLeaves(x.X, seen, out)
		return
	case *ssa.ChangeType:
		boundLeaves(x.X, seen, out)
		return
	}
	*out = append(*out, v)
}

// nonNegEdge: the edge establishes leaf >= 0 (leaf != -1 for index results).
func nonNegEdge(b *ssa.BasicBlock, succ int, leaf ssa.Value) bool {
	cond, onTrue := an.EdgeCond(b, succ)
	if cond == nil {
		return false
	}
	v, neg := stripNot(cond)
	bo, ok := v.(*ssa.BinOp)
	if !ok {
		return false
	}
	holds := onTrue != neg // the comparison holds on this edge
	k, isConst := bo.Y.(*ssa.Const)
	if !isConst || k.Value == nil {
		return false
	}
	if bo.X != leaf {
		phi, isPhi := bo.X.(*ssa.Phi)
		if !isPhi {
			return false
		}
		has := false
		for _, e := range phi.Edges {
			if e == leaf {
				has = true
			}
		}
		if !has {
			return false
		}
	}
	c := k.Int64()
	switch bo.Op {
	case token.GEQ: // leaf >= c
		return holds && c >= 0
	case token.GTR: // leaf > c
		return holds && c >= -1
	case token.LSS: // leaf < c  → on the false edge leaf >= c
		return !holds && c >= 0
	case token.LEQ:
		return !holds && c >= -1
	case token.NEQ: // leaf != -1
		return holds && c == -1
	case token.EQL:
		return !holds && c == -1
	}
	return false
}

var servingScope = []string{
	"syntax.(*Segment).Match", "tree.(*node).matchChildren", "mux.(*Hosts).Match", "mux.validOptionalPort",
	"mux.(*pathVersion).Match", "mux.(*headerVersion).Match", "mux.(*cors).handle", "mux.(*cors).headerIsAllowed",
	"tree.(*Tree).Handler", "mux.(*Router).serveContext", "mux.(*Router).ServeHTTP", "mux.(*Group).ServeHTTP",
}

// ruleGuardedIndexing is C05.R4: slice/index expressions whose bound is derived
// from data (a search result, the length of another string, a regexp location,
// the first-byte index, a first-element access) are reachable only through the
// guard that makes them safe.  Other provenances are out of scope and counted.
func ruleGuardedIndexing(c *Ctx, rule string) {
	a := c.A
	if os.Getenv("MUXLINT_DEBUG_SITES") != "" {
		debugIndexSites(c)
	}
	c.R.Rule(c.R.Property+"."+rule, 8, "data-derived slice bounds and indexes on the serving path are guarded (no index out of range / slice bounds fault for any request)")
	inServing := map[string]bool{}
	for _, k := range servingScope {
		inServing[k] = true
	}
	// helpers extracted from the serving-path functions (same package, reached by static calls) belong to the scope
	{
		g := an.NewGraph(c.P)
		var roots []*ssa.Function
		for _, k := range servingScope {
			if fn := c.P.Func(k); fn != nil {
				roots = append(roots, fn)
			}
		}
		for fn := range g.Reach(roots, func(_ *ssa.Function, e an.Edge) bool { return e.Kind == "static" }) {
			if strings.HasPrefix(an.FuncKey(fn), "mux.") || strings.HasPrefix(an.FuncKey(fn), "syntax.(*Segment).") {
				inServing[an.FuncKey(fn)] = true
			}
		}
	}
	outOfScope := 0
	for _, f := range c.libFuncs() {
		fk := c.fk(f)
		an.AllInstrs(f, func(in ssa.Instruction) {
			switch x := in.(type) {
			case *ssa.Slice:
				xt := x.X.Type().Underlying()
				if _, isPtr := xt.(*types.Pointer); isPtr {
					return // slicing an array (varargs)
				}
				for bi, bound := range []ssa.Value{x.Low, x.High} {
					if bound == nil {
						continue
					}
					bname := []string{"low", "high"}[bi]
					// (1) pure len(p) of another string as low bound
					if call, ok := bound.(*ssa.Call); ok && bi == 0 {
						if _, isLen := builtinCall(call, "len"); isLen && an.AP(call.Call.Args[0]) != an.AP(x.X) {
							p := an.AP(call.Call.Args[0])
							dom := an.DominatedByEdgeDeep(c.rootsOf(f, 2), in, func(b *ssa.BasicBlock, succ int) bool {
								if prefixFoundByIndexFunc(b, succ, x.X, call.Call.Args[0]) {
									return true
								}
								cond, onTrue := an.EdgeCond(b, succ)
								v, neg := stripNot(cond)
								hc, ok := v.(*ssa.Call)
								if !ok || an.CalleeName(&hc.Call) != "strings.HasPrefix" {
									return false
								}
								if onTrue == neg || an.AP(hc.Call.Args[0]) != an.AP(x.X) {
									return false
								}
								q := an.AP(hc.Call.Args[1])
								// the tested prefix is p itself, or p is a leading slice of it (HasPrefix(s, q) implies HasPrefix(s, q[:k]))
								return q == p || p == "slice("+q+")" && isLeadingSlice(call.Call.Args[0])
							}, deepDefault)
							c.R.Add(rule, fk, fmt.Sprintf("slice:%s[len(%s):]/requires:HasPrefix", an.AP(x.X), p), c.pos(in), dom, ifelse(dom, "dominated by strings.HasPrefix on the same operands", "slicing past len("+p+") without a dominating HasPrefix("+an.AP(x.X)+", "+p+"): slice bounds out of range for a shorter string"))
							continue
						}
					}
					// (2) leaves that are search results
					var leaves []ssa.Value
					boundLeaves(bound, map[ssa.Value]bool{}, &leaves)
					scoped := false
					for _, leaf := range leaves {
						// (2b) bounds of a capture group in a submatch location slice: -1 when the group did not participate
						if u, ok := leaf.(*ssa.UnOp); ok && u.Op == token.MUL {
							if ia, ok := u.X.(*ssa.IndexAddr); ok {
								if lc, ok := ia.X.(*ssa.Call); ok && strings.Contains(an.CalleeName(&lc.Call), "SubmatchIndex") {
									if k, isC := ia.Index.(*ssa.Const); isC && k.Value != nil && k.Int64() >= 2 {
										scoped = true
										idx := k.Int64()
										path := (&an.Query{
											Target: func(t ssa.Instruction) bool { return t == in },
											BlockEdge: func(b *ssa.BasicBlock, succ int) bool {
												cond, onTrue := an.EdgeCond(b, succ)
												if cond == nil {
													return false
												}
												v, neg := stripNot(cond)
												bo, ok := v.(*ssa.BinOp)
												if !ok {
													return false
												}
												holds := onTrue != neg
												lu, ok := bo.X.(*ssa.UnOp)
												if !ok {
													return false
												}
												lia, ok := lu.X.(*ssa.IndexAddr)
												if !ok || lia.X != ia.X {
													return false
												}
												lk, ok := lia.Index.(*ssa.Const)
												if !ok || lk.Value == nil || lk.Int64()/2 != idx/2 {
													return false
												}
												kc, ok := bo.Y.(*ssa.Const)
												if !ok || kc.Value == nil {
													return false
												}
												n := kc.Int64()
												switch bo.Op {
												case token.GEQ:
													return holds && n >= 0
												case token.GTR:
													return holds && n >= -1
												case token.LSS:
													return !holds && n >= 0
												case token.NEQ:
													return holds && n == -1
												case token.EQL:
													return !holds && n == -1
												}
												return false
											},
										}).Search(an.After(lc))
										o := c.R.Add(rule, fk, fmt.Sprintf("slice:%s/%s-from:submatch-group[%d]/requires:participated", an.AP(x.X), bname, idx), c.pos(in), path == nil, ifelse(path == nil, "the capture group's bound is used only after its >= 0 test", "a capture-group bound of FindStringSubmatchIndex is used as a slice bound without testing that the group took part in the match: it is -1 otherwise (for example when the user's rule closes the wrapping group early, `{id:a)|(b}`), and the request panics with slice bounds out of range"))
										if path != nil {
											o.Path = c.P.PathString(path)
										}
										continue
									}
								}
							}
						}
						call, ok := leaf.(*ssa.Call)
						if !ok || !indexFuncs[an.CalleeName(&call.Call)] {
							continue
						}
						scoped = true
						leaf := leaf
						// result + k with k >= 1 is never negative (the result is -1 at worst): `LastIndexByte(s, c) + 1`
						if bo, isBin := bound.(*ssa.BinOp); isBin && bo.Op == token.ADD {
							atLeast1 := func(v ssa.Value) bool {
								k, isK := v.(*ssa.Const)
								if !isK || k.Value == nil {
									return false
								}
								n, exact := constant.Int64Val(constant.ToInt(k.Value))
								return exact && n >= 1
							}
							if (bo.X == leaf && atLeast1(bo.Y)) || (bo.Y == leaf && atLeast1(bo.X)) {
								continue
							}
						}
						// the guard must stand between the search and the first instruction that consumes its raw
						// result on the way to the bound (the slice itself, or the arithmetic / loop variable it
						// flows into): a value derived in an earlier, guarded iteration is not this iteration's -1
						onWay := map[ssa.Value]bool{}
						boundLeaves(bound, onWay, new([]ssa.Value))
						consumers := map[ssa.Instruction]bool{}
						// loop variables that carry the raw result (phis) are the result itself: their guard comes
						// after them
						alias := map[ssa.Value]bool{leaf: true}
						for changed := true; changed; {
							changed = false
							for v := range onWay {
								phi, isPhi := v.(*ssa.Phi)
								if !isPhi || alias[v] {
									continue
								}
								for _, e := range phi.Edges {
									if alias[e] {
										alias[v] = true
										changed = true
									}
								}
							}
						}
						if alias[bound] {
							consumers[in] = true
						}
						for v := range onWay {
							vi, isInstr := v.(ssa.Instruction)
							if !isInstr || alias[v] {
								continue
							}
							for _, op := range vi.Operands(nil) {
								if alias[*op] {
									consumers[vi] = true
								}
							}
						}
						if len(consumers) == 0 {
							consumers[in] = true
						}
						path := (&an.Query{
							Target:    func(t ssa.Instruction) bool { return consumers[t] },
							Block:     func(t ssa.Instruction) bool { return t == ssa.Instruction(call) },
							BlockEdge: func(b *ssa.BasicBlock, succ int) bool { return nonNegEdge(b, succ, leaf) },
						}).Search(an.After(call))
						construct := fmt.Sprintf("slice:%s/%s-from:%s:%s/requires:nonneg", an.AP(x.X), bname, shortCallee(an.CalleeName(&call.Call)), callArgsAP(&call.Call))
						o := c.R.Add(rule, fk, construct, c.pos(in), path == nil, ifelse(path == nil, "every path from the search to the slice passes its >= 0 / != -1 test", "a search result (possibly -1) reaches a slice bound unchecked: slice bounds out of range when the text is absent"))
						if path != nil {
							o.Path = c.P.PathString(path)
						}
					}
					if !scoped {
						outOfScope++
					}
				}
			case *ssa.IndexAddr, *ssa.Index:
				var base, idx ssa.Value
				if ia, ok := x.(*ssa.IndexAddr); ok {
					base, idx = ia.X, ia.Index
				} else {
					ix := x.(*ssa.Index)
					base, idx = ix.X, ix.Index
				}
				if _, isPtr := base.Type().Underlying().(*types.Pointer); isPtr {
					return // array element (varargs packing)
				}
				// (3) regexp location slices
				if call, ok := base.(*ssa.Call); ok && findIndexFuncs[an.CalleeName(&call.Call)] {
					path := (&an.Query{
						Target: func(t ssa.Instruction) bool { return t == in },
						BlockEdge: func(b *ssa.BasicBlock, succ int) bool {
							cond, onTrue := an.EdgeCond(b, succ)
							if cond == nil {
								return false
							}
							if lenPositiveEdge(b, succ, an.AP(call)) {
								return true // len(loc) > 0 says the same as loc != nil
							}
							v, k, eq, ok := an.CondAtom(cond)
							return ok && v == ssa.Value(call) && k.Value == nil && eq != onTrue
						},
					}).Search(an.After(call))
					o := c.R.Add(rule, fk, fmt.Sprintf("index:loc-of:%s/requires:non-nil", shortCallee(an.CalleeName(&call.Call))), c.pos(in), path == nil, ifelse(path == nil, "location slice indexed only behind its != nil test", "a regexp location slice is indexed without a nil test: index out of range when the expression does not match"))
					if path != nil {
						o.Path = c.P.PathString(path)
					}
					return
				}
				// (5) children[indexes[b]]
				if lk, ok := idx.(*ssa.Lookup); ok {
					if ib, isIdx := fieldLoadOf(lk.X, a.NodeT, a.FIndexes); isIdx {
						if cb, isCh := fieldLoadOf(base, a.NodeT, a.FChildren); isCh && cb == ib {
							dom := an.DominatedByEdgeDeep(c.rootsOf(f, 2), in, func(b *ssa.BasicBlock, succ int) bool {
								return lenPositiveEdge(b, succ, ib+"."+a.FIndexes)
							}, deepDefault)
							c.R.Add(rule, fk, fmt.Sprintf("index:%s.%s[%s.%s[..]]/requires:index-non-empty", cb, a.FChildren, ib, a.FIndexes), c.pos(in), dom, ifelse(dom, "dominated by len(indexes) > 0 (coherence of the index itself: R2)", "children indexed through the first-byte map without checking that the map is in use: an absent byte yields position 0"))
							return
						}
					}
				}
				// (4) first element
				if k, ok := idx.(*ssa.Const); ok && k.Value != nil && k.Int64() == 0 && inServing[fk] {
					s := an.AP(base)
					dom := an.DominatedByEdgeDeep(c.rootsOf(f, 2), in, func(b *ssa.BasicBlock, succ int) bool { return nonEmptyEdge(b, succ, s) }, deepDefault)
					c.R.Add(rule, fk, fmt.Sprintf("index:%s[0]/requires:non-empty", s), c.pos(in), dom, ifelse(dom, "dominated by a non-emptiness test of "+s, "first element of "+s+" read without a non-emptiness test: index out of range on empty input"))
					return
				}
				outOfScope++
			}
		})
	}
	c.R.Note("%s: %d slice/index expressions with other provenance are out of scope (not reported)", rule, outOfScope)
}

func callArgsAP(call *ssa.CallCommon) string {
	var parts []string
	for _, a := range call.Args {
		parts = append(parts, an.AP(a))
	}
	return strings.Join(parts, ",")
}

// lenPositiveEdge: edge establishes len(X) > 0 for the value with access path ap.
func lenPositiveEdge(b *ssa.BasicBlock, succ int, ap string) bool {
	cond, onTrue := an.EdgeCond(b, succ)
	if cond == nil {
		return false
	}
	v, neg := stripNot(cond)
	bo, ok := v.(*ssa.BinOp)
	if !ok {
		return false
	}
	holds := onTrue != neg
	call, ok := bo.X.(*ssa.Call)
	if !ok {
		return false
	}
	if _, isLen := builtinCall(call, "len"); !isLen || an.AP(call.Call.Args[0]) != ap {
		return false
	}
	k, ok := bo.Y.(*ssa.Const)
	if !ok || k.Value == nil {
		return false
	}
	c := k.Int64()
	switch bo.Op {
	case token.GTR:
		return holds && c >= 0
	case token.GEQ:
		return holds && c >= 1
	case token.NEQ:
		return holds && c == 0
	case token.EQL:
		return !holds && c == 0
	case token.LEQ:
		return !holds && c >= 0
	case token.LSS:
		return !holds && c >= 1
	}
	return false
}

// nonEmptyEdge: edge establishes that the string/slice with access path ap is not empty.
func nonEmptyEdge(b *ssa.BasicBlock, succ int, ap string) bool {
	if lenPositiveEdge(b, succ, ap) {
		return true
	}
	cond, onTrue := an.EdgeCond(b, succ)
	if cond == nil {
		return false
	}
	if x, k, eq, ok := an.CondAtom(cond); ok && an.AP(x) == ap {
		if s, isStr := strConst(k); isStr && s == "" {
			return eq != onTrue // x != "" holds
		}
	}
	v, neg := stripNot(cond)
	if hc, ok := v.(*ssa.Call); ok && (an.CalleeName(&hc.Call) == "strings.HasPrefix" || an.CalleeName(&hc.Call) == "strings.HasSuffix") {
		if s, isStr := strConst(hc.Call.Args[1]); isStr && s != "" && an.AP(hc.Call.Args[0]) == ap {
			return onTrue != neg
		}
	}
	return false
}

// isLeadingSlice: v is q[:k] (no low bound).
func isLeadingSlice(v ssa.Value) bool {
	sl, ok := v.(*ssa.Slice)
	return ok && sl.Low == nil
}

// prefixFoundByIndexFunc: the edge establishes `i >= 0` for i = slices.IndexFunc(list, func(e) bool { return
// strings.HasPrefix(s, e) }) and the prefix whose length is sliced off is (a leading slice of) list[i].
func prefixFoundByIndexFunc(b *ssa.BasicBlock, succ int, s ssa.Value, prefix ssa.Value) bool {
	cond, _ := an.EdgeCond(b, succ)
	if cond == nil {
		return false
	}
	v, _ := stripNot(cond)
	bo, ok := v.(*ssa.BinOp)
	if !ok {
		return false
	}
	idx, ok := bo.X.(*ssa.Call)
	if !ok || an.CalleeName(&idx.Call) != "slices.IndexFunc" || !nonNegEdge(b, succ, idx) {
		return false
	}
	mc, ok := idx.Call.Args[1].(*ssa.MakeClosure)
	if !ok {
		return false
	}
	fn, _ := mc.Fn.(*ssa.Function)
	if fn == nil || len(fn.Params) != 1 {
		return false
	}
	bare := func(ap string) string {
		if i := strings.IndexByte(ap, ':'); i >= 0 {
			return ap[i+1:]
		}
		return ap
	}
	for _, r := range an.Returns(fn) {
		hc, ok := r.Results[0].(*ssa.Call)
		if !ok || an.CalleeName(&hc.Call) != "strings.HasPrefix" || hc.Call.Args[1] != ssa.Value(fn.Params[0]) {
			return false
		}
		if bare(an.AP(hc.Call.Args[0])) != bare(an.AP(s)) {
			return false
		}
	}
	// the prefix derives from list[i]
	pap := an.AP(prefix)
	lap := an.AP(idx.Call.Args[0]) + "[]"
	return pap == lap || pap == "slice("+lap+")"
}
