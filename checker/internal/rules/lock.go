package rules

import (
	"fmt"
	"go/token"
	"go/types"
	"sort"
	"strings"

	"golang.org/x/tools/go/ssa"

	"muxlint/internal/an"
)

type lockMode int

const (
	lockNone lockMode = iota
	lockR
	lockW
)

func (m lockMode) String() string { return [...]string{"none", "R", "W"}[m] }

// lockAccess is one access to shared state.
type lockAccess struct {
	in    ssa.Instruction
	what  string // owner.field
	write bool
}

// LockAnalysis is the LOCK primitive for one lock (identified by access path)
// and one set of shared locations.
type LockAnalysis struct {
	c        *Ctx
	name     string
	isLock   func(ap string) bool
	isFlag   func(ap string) bool // optional: the boolean that says the lock is in use
	accesses func(f *ssa.Function) []lockAccess
	funcs    []*ssa.Function

	acquires map[*ssa.Function]lockMode                     // lock helpers: the mode the function leaves held on every return
	releases map[*ssa.Function]string                       // release helpers: every path through the function releases the lock (the value is the operation, Unlock or RUnlock), none acquires it
	state    map[*ssa.Function]map[ssa.Instruction]lockMode // lock mode held locally before each instruction
	acc      map[*ssa.Function][]lockAccess
	need     map[*ssa.Function]lockMode
	why      map[*ssa.Function]string // witness for need: "callee chain → access"
}

// lockCall decodes a call (or deferred call) on the analysed lock.
func (la *LockAnalysis) lockCall(in ssa.Instruction) (op string, deferred bool, ok bool) {
	call := an.CallOf(in)
	if call == nil {
		return "", false, false
	}
	name := an.CalleeName(call)
	var opn string
	switch name {
	case "sync.(*RWMutex).Lock", "sync.(*Mutex).Lock":
		opn = "Lock"
	case "sync.(*RWMutex).RLock":
		opn = "RLock"
	case "sync.(*RWMutex).Unlock", "sync.(*Mutex).Unlock":
		opn = "Unlock"
	case "sync.(*RWMutex).RUnlock":
		opn = "RUnlock"
	default:
		return "", false, false
	}
	if len(call.Args) == 0 || !la.isLock(an.AP(call.Args[0])) {
		return "", false, false
	}
	_, isDefer := in.(*ssa.Defer)
	return opn, isDefer, true
}

// prunedEdge: under the assumption "the lock exists" the edge on which the lock pointer is nil is not taken.
func (la *LockAnalysis) prunedEdge(b *ssa.BasicBlock, succ int) bool {
	cond, onTrue := an.EdgeCond(b, succ)
	if cond == nil {
		return false
	}
	if la.isFlag != nil {
		// a mutex value behind an "enabled" flag: the edge on which the flag is false
		v, neg := stripNot(cond)
		if la.isFlag(an.AP(v)) {
			return onTrue == neg
		}
	}
	x, k, eq, ok := an.CondAtom(cond)
	if !ok || k.Value != nil || !la.isLock(an.AP(x)) {
		return false
	}
	// the edge on which x == nil holds
	return eq == onTrue
}

func (la *LockAnalysis) computeStates(f *ssa.Function) {
	st := map[ssa.Instruction]lockMode{}
	la.state[f] = st
	if len(f.Blocks) == 0 {
		return
	}
	// deferred releases run at RunDefers
	deferredRelease := false
	an.AllInstrs(f, func(x ssa.Instruction) {
		d, ok := x.(*ssa.Defer)
		if !ok {
			return
		}
		if op, _, isLock := la.lockCall(x); isLock && (op == "Unlock" || op == "RUnlock") {
			deferredRelease = true
		}
		if hc, isCall := d.Call.Value.(*ssa.Call); isCall {
			if g := an.StaticCallee(&hc.Call); g != nil && la.acquires[g] > lockNone {
				deferredRelease = true
			}
		}
		if g := an.StaticCallee(&d.Call); g != nil && la.releases[an.Origin(g)] != "" {
			deferredRelease = true
		}
	})
	in := map[*ssa.BasicBlock]lockMode{}
	seen := map[*ssa.BasicBlock]bool{}
	work := []*ssa.BasicBlock{f.Blocks[0]}
	in[f.Blocks[0]] = lockNone
	seen[f.Blocks[0]] = true
	for len(work) > 0 {
		b := work[0]
		work = work[1:]
		cur := in[b]
		for _, ins := range b.Instrs {
			st[ins] = cur
			if _, isRD := ins.(*ssa.RunDefers); isRD && deferredRelease {
				cur = lockNone
			}
			if op, deferred, ok := la.lockCall(ins); ok && !deferred {
				switch op {
				case "Lock":
					cur = lockW
				case "RLock":
					if cur < lockR {
						cur = lockR
					}
				case "Unlock", "RUnlock":
					cur = lockNone
				}
			}
			// a lock helper (takes the lock and returns, typically handing back the unlock function)
			if call, isCall := ins.(*ssa.Call); isCall {
				if g := an.StaticCallee(&call.Call); g != nil && la.acquires[g] > cur {
					cur = la.acquires[g]
				}
				if g := an.StaticCallee(&call.Call); g != nil && la.releases[an.Origin(g)] != "" {
					cur = lockNone
				}
			}
		}
		for si, s := range b.Succs {
			if la.prunedEdge(b, si) {
				continue
			}
			if !seen[s] {
				seen[s] = true
				in[s] = cur
				work = append(work, s)
			} else if cur < in[s] {
				in[s] = cur
				work = append(work, s)
			}
		}
	}
	// unreachable (pruned) blocks: mark their instructions as W so they never raise obligations
	for _, b := range f.Blocks {
		if !seen[b] {
			for _, ins := range b.Instrs {
				st[ins] = lockW
			}
		}
	}
}

// callTargets: module functions that run at this instruction (static callee, closures created here).
func callTargets(in ssa.Instruction) []*ssa.Function {
	var out []*ssa.Function
	if mc, ok := in.(*ssa.MakeClosure); ok {
		if fn, ok := mc.Fn.(*ssa.Function); ok {
			out = append(out, an.Origin(fn))
		}
	}
	if call := an.CallOf(in); call != nil {
		if g := an.StaticCallee(call); g != nil && an.InModule(g) {
			out = append(out, g)
		}
	}
	return out
}

func NewLockAnalysis(c *Ctx, name string, isLock func(string) bool, accesses func(*ssa.Function) []lockAccess) *LockAnalysis {
	la := &LockAnalysis{c: c, name: name, isLock: isLock, accesses: accesses, funcs: c.libFuncs(),
		state: map[*ssa.Function]map[ssa.Instruction]lockMode{}, acc: map[*ssa.Function][]lockAccess{},
		need: map[*ssa.Function]lockMode{}, why: map[*ssa.Function]string{}}
	if name == "tree lock" && lockFlagSuffix != "" {
		suffix := lockFlagSuffix
		la.isFlag = func(ap string) bool { return strings.HasSuffix(ap, suffix) }
	}
	la.acquires = map[*ssa.Function]lockMode{}
	la.releases = map[*ssa.Function]string{}
	for _, f := range la.funcs {
		if len(f.Blocks) == 0 {
			continue
		}
		nRel, nAcq := 0, 0
		relOps := map[string]bool{}
		an.AllInstrs(f, func(in ssa.Instruction) {
			if op, _, ok := la.lockCall(in); ok {
				if op == "Unlock" || op == "RUnlock" {
					nRel++
					relOps[op] = true
				} else {
					nAcq++
				}
			}
		})
		if nRel == 0 || nAcq > 0 || len(relOps) != 1 {
			continue
		}
		path := (&an.Query{
			Target: func(t ssa.Instruction) bool { _, ok := t.(*ssa.Return); return ok },
			Block: func(t ssa.Instruction) bool {
				op, _, ok := la.lockCall(t)
				return ok && (op == "Unlock" || op == "RUnlock")
			},
			BlockEdge: la.prunedEdge,
		}).Search(an.Entry(f))
		if path == nil {
			for op := range relOps {
				la.releases[an.Origin(f)] = op
			}
		}
	}
	for iter := 0; iter < 4; iter++ {
		for _, f := range la.funcs {
			la.computeStates(f)
		}
		changed := false
		for _, f := range la.funcs {
			if len(f.Blocks) == 0 {
				continue
			}
			m := lockW
			n := 0
			for _, r := range an.Returns(f) {
				n++
				if s := la.state[f][r]; s < m {
					m = s
				}
			}
			if n == 0 {
				m = lockNone
			}
			// only functions that themselves contain an acquisition (or call a helper) and no release count
			if m > lockNone && la.acquires[f] != m {
				la.acquires[f] = m
				changed = true
			}
		}
		if !changed {
			break
		}
	}
	for _, f := range la.funcs {
		la.acc[f] = accesses(f)
	}
	// need() fixpoint
	for changed := true; changed; {
		changed = false
		for _, f := range la.funcs {
			n, why := la.needOf(f)
			if n > la.need[f] {
				la.need[f] = n
				la.why[f] = why
				changed = true
			}
		}
	}
	return la
}

func (la *LockAnalysis) needOf(f *ssa.Function) (lockMode, string) {
	best := lockNone
	why := ""
	for _, a := range la.acc[f] {
		req := lockR
		if a.write {
			req = lockW
		}
		if la.state[f][a.in] < req && req > best {
			best = req
			why = fmt.Sprintf("%s %s at %s", ifelse(a.write, "writes", "reads"), a.what, la.c.pos(a.in))
		}
	}
	an.AllInstrs(f, func(in ssa.Instruction) {
		for _, g := range callTargets(in) {
			if n := la.need[g]; n > la.state[f][in] && n > best {
				best = n
				why = an.FuncKey(g) + " → " + la.why[g]
			}
		}
	})
	return best, why
}

// CheckEntry raises the obligations of one entry point (called with no lock held).
func (la *LockAnalysis) CheckEntry(rule string, f *ssa.Function) {
	c := la.c
	fk := c.fk(f)
	n := 0
	for _, a := range la.acc[f] {
		req := lockR
		if a.write {
			req = lockW
		}
		held := la.state[f][a.in]
		construct := fmt.Sprintf("%s:%s/need=%s", ifelse(a.write, "write", "read"), a.what, req)
		ok := held >= req
		n++
		c.R.Add(rule, fk, construct, c.pos(a.in), ok, ifelse(ok, "held="+held.String(), fmt.Sprintf("%s %s holding %s of the %s (needs %s): data race with a concurrent writer", ifelse(a.write, "writes", "reads"), a.what, held, la.name, req)))
	}
	an.AllInstrs(f, func(in ssa.Instruction) {
		for _, g := range callTargets(in) {
			need := la.need[g]
			if need == lockNone {
				continue
			}
			held := la.state[f][in]
			ok := held >= need
			n++
			construct := fmt.Sprintf("call:%s/need=%s", an.FuncKey(g), need)
			o := c.R.Add(rule, fk, construct, c.pos(in), ok, ifelse(ok, "held="+held.String(), fmt.Sprintf("calls %s holding %s of the %s, but it needs %s: %s", an.FuncKey(g), held, la.name, need, la.why[g])))
			if !ok {
				o.Path = fk + " → " + an.FuncKey(g) + " → " + la.why[g]
			}
		}
	})
	if n == 0 {
		c.R.Add(rule, fk, "no-shared-access", c.P.Pos(f.Pos()), true, "entry point touches no shared state")
	}
}

// CheckPairing is C06.R2: every acquisition is released on every path, and the
// lock is never acquired while already held.
func (la *LockAnalysis) CheckPairing(rule string, entries []*ssa.Function) {
	c := la.c
	// heldIn: strongest mode possibly held when f is entered, propagated from the entry points
	heldIn := map[*ssa.Function]lockMode{}
	reached := map[*ssa.Function]bool{}
	var work []*ssa.Function
	for _, e := range entries {
		reached[e] = true
		work = append(work, e)
	}
	for len(work) > 0 {
		f := work[0]
		work = work[1:]
		an.AllInstrs(f, func(in ssa.Instruction) {
			for _, g := range callTargets(in) {
				h := la.state[f][in]
				if heldIn[f] > h {
					h = heldIn[f]
				}
				if !reached[g] || h > heldIn[g] {
					reached[g] = true
					if h > heldIn[g] {
						heldIn[g] = h
					}
					work = append(work, g)
				}
			}
		})
	}
	// the obligation to release is handed from an acquire helper to its callers; it cannot be handed to the user:
	// an exported function never returns with the lock held
	for _, f := range la.funcs {
		if la.acquires[f] > lockNone && token.IsExported(f.Name()) && f.Parent() == nil {
			c.R.Add(rule, c.fk(f), "exported/returns-with-lock-released", c.P.Pos(f.Pos()), false, "the exported function returns with "+la.acquires[f].String()+" of the "+la.name+" still held on every path: every later operation blocks forever")
		}
	}
	for _, f := range la.funcs {
		an.AllInstrs(f, func(in ssa.Instruction) {
			// call of a lock helper: its result (the unlock function) must be deferred or called on every path
			if call, isCall := in.(*ssa.Call); isCall {
				if g := an.StaticCallee(&call.Call); g != nil && la.acquires[g] > lockNone {
					released := func(t ssa.Instruction) bool {
						tc := an.CallOf(t)
						if tc == nil {
							return false
						}
						if rg := an.StaticCallee(tc); rg != nil && la.releases[an.Origin(rg)] == ifelse(la.acquires[g] == lockW, "Unlock", "RUnlock") {
							return true // the matching release helper, called or deferred
						}
						return tc.Value == ssa.Value(call)
					}
					path := (&an.Query{
						Target: func(t ssa.Instruction) bool {
							switch t.(type) {
							case *ssa.Return, *ssa.Panic:
								return true
							}
							return false
						},
						Block: released,
					}).Search(an.After(in))
					// an acquire helper calling another one hands the obligation on
					if la.acquires[f] > lockNone {
						path = nil
					}
					o := c.R.Add(rule, c.fk(f), fmt.Sprintf("lock-helper:%s/result-deferred-or-called", an.FuncKey(g)), c.pos(in), path == nil, ifelse(path == nil, "the unlock function the helper returns is deferred or called on every path", "the lock helper's unlock function is dropped on some path: the lock stays held"))
					if path != nil {
						o.Path = c.P.PathString(path)
					}
					if reached[f] {
						held := la.state[f][in]
						if heldIn[f] > held {
							held = heldIn[f]
						}
						c.R.Add(rule, c.fk(f), fmt.Sprintf("lock-helper:%s/not-reentrant", an.FuncKey(g)), c.pos(in), held == lockNone, ifelse(held == lockNone, "never acquired while already held", "acquired while "+held.String()+" may already be held on a calling path"))
					}
					return
				}
			}
			op, deferred, ok := la.lockCall(in)
			if !ok || deferred || (op != "Lock" && op != "RLock") {
				return
			}
			if la.acquires[f] > lockNone {
				return // a lock helper: the release is its callers' obligation (checked at the call sites)
			}
			rel := "Unlock"
			if op == "RLock" {
				rel = "RUnlock"
			}
			lockAP := an.AP(an.CallOf(in).Args[0])
			path := (&an.Query{
				Target: func(t ssa.Instruction) bool {
					switch t.(type) {
					case *ssa.Return, *ssa.Panic:
						return true
					}
					return false
				},
				Block: func(t ssa.Instruction) bool {
					o2, _, ok := la.lockCall(t)
					return ok && o2 == rel && an.AP(an.CallOf(t).Args[0]) == lockAP
				},
				BlockEdge: la.prunedEdge,
			}).Search(an.After(in))
			o := c.R.Add(rule, c.fk(f), fmt.Sprintf("%s:%s/released-by:%s", op, lockAP, rel), c.pos(in), path == nil, ifelse(path == nil, "released (deferred or explicit) on every path to every exit", "the lock can stay held on return: every later operation blocks forever"))
			if path != nil {
				o.Path = c.P.PathString(path)
			}
			// a lock held across user code must be released by a defer: a panic in that code (recovered further up
			// by the configured recovery) would otherwise leave it held for ever
			hasDeferredRelease := false
			an.AllInstrs(f, func(t ssa.Instruction) {
				o2, isDef, ok := la.lockCall(t)
				if ok && isDef && o2 == rel && an.AP(an.CallOf(t).Args[0]) == lockAP {
					hasDeferredRelease = true
				}
			})
			if !hasDeferredRelease {
				g := an.NewGraph(c.P)
				var user string
				(&an.Query{
					Target: func(t ssa.Instruction) bool {
						o2, _, ok := la.lockCall(t)
						if ok && o2 == rel {
							return false
						}
						call := an.CallOf(t)
						if call == nil {
							return false
						}
						if boundaryCall(call) {
							user = c.pos(t)
							return true
						}
						if callee := an.StaticCallee(call); callee != nil && an.InModule(callee) {
							for h := range g.Reach([]*ssa.Function{callee}, nil) {
								found := false
								an.AllInstrs(h, func(x ssa.Instruction) {
									if cc := an.CallOf(x); cc != nil && boundaryCall(cc) && !found {
										found = true
										user = c.pos(x) + " via " + an.FuncKey(callee)
									}
								})
								if found {
									return true
								}
							}
						}
						return false
					},
					Block: func(t ssa.Instruction) bool {
						o2, _, ok := la.lockCall(t)
						return ok && o2 == rel && an.AP(an.CallOf(t).Args[0]) == lockAP
					},
					BlockEdge: la.prunedEdge,
				}).Search(an.After(in))
				c.R.Add(rule, c.fk(f), fmt.Sprintf("%s:%s/deferred-release-across-user-code", op, lockAP), c.pos(in), user == "", ifelse(user == "", "no user-supplied function runs between the acquisition and its explicit release", "the lock is released explicitly, not by defer, but user-supplied code runs while it is held ("+user+"): if that code panics the lock stays held and every later operation on the router blocks"))
			}
			if reached[f] {
				held := la.state[f][in]
				if heldIn[f] > held {
					held = heldIn[f]
				}
				okRe := held == lockNone
				c.R.Add(rule, c.fk(f), fmt.Sprintf("%s:%s/not-reentrant", op, lockAP), c.pos(in), okRe, ifelse(okRe, "never acquired while already held", "acquired while "+held.String()+" may already be held on a calling path: sync.RWMutex is not reentrant (deadlock with a waiting writer)"))
			}
		})
	}
}

// treeLockAnalysis builds the analysis for the tree lock and the shared tree state.
func treeLockAnalysis(c *Ctx) (*LockAnalysis, []string) {
	a := c.A
	shared := sharedTreeFields(c)
	var names []string
	for k := range shared {
		names = append(names, k)
	}
	sort.Strings(names)
	isLock := func(ap string) bool { return strings.HasSuffix(ap, "."+a.FLocker) }
	acc := func(f *ssa.Function) []lockAccess {
		var out []lockAccess
		an.AllInstrs(f, func(in ssa.Instruction) {
			for _, x := range treeAccesses(c, in) {
				if shared[x.what] && !strings.HasPrefix(x.base, "alloc:") {
					out = append(out, lockAccess{in: in, what: x.what, write: x.write})
				}
			}
		})
		return out
	}
	if a.LockIsValue && a.FLockFlag != "" {
		lockFlagSuffix = "." + a.FLockFlag
	} else {
		lockFlagSuffix = ""
	}
	return NewLockAnalysis(c, "tree lock", isLock, acc), names
}

// lockFlagSuffix: set by treeLockAnalysis when the tree lock is a mutex value behind a flag field.
var lockFlagSuffix string

type rawAccess struct {
	what    string
	base    string
	write   bool
	baseVal ssa.Value
}

// fieldOfShared resolves v (an address or loaded value chain) to owner.field of node/Tree.
func sharedField(c *Ctx, v ssa.Value) (what, base string, ok bool) {
	for {
		switch x := v.(type) {
		case *ssa.UnOp:
			v = x.X
			continue
		case *ssa.ChangeType:
			v = x.X
			continue
		case *ssa.FieldAddr:
			o := ownerOf(x)
			if o == nil {
				return "", "", false
			}
			switch o {
			case c.A.NodeT.Origin():
				return "node." + an.FieldName(x.X.Type(), x.Field), an.AP(x.X), true
			case c.A.TreeT.Origin():
				return "Tree." + an.FieldName(x.X.Type(), x.Field), an.AP(x.X), true
			}
			// any other struct type of the module: objects hanging off the tree (segments, …) are shared with it;
			// whether a field is shared state is decided by who writes it (sharedTreeFields)
			if treeReachableTypes(c)[o] {
				return o.Obj().Name() + "." + an.FieldName(x.X.Type(), x.Field), an.AP(x.X), true
			}
			return "", "", false
		}
		return "", "", false
	}
}

// sharedBase returns the object (ssa value) whose field v addresses.
func sharedBase(v ssa.Value) ssa.Value {
	for {
		switch x := v.(type) {
		case *ssa.UnOp:
			v = x.X
			continue
		case *ssa.ChangeType:
			v = x.X
			continue
		case *ssa.IndexAddr:
			v = x.X
			continue
		case *ssa.FieldAddr:
			return x.X
		}
		return nil
	}
}

// constructionOnly: the object written is a parameter (or receiver) that is a fresh allocation at every call site
// of the function — the write belongs to the construction of the object (helpers of a constructor).
func constructionOnly(base ssa.Value, depth int) bool {
	if base == nil || depth > 3 {
		return false
	}
	if strings.HasPrefix(an.AP(base), "alloc:") {
		return true
	}
	par, ok := base.(*ssa.Parameter)
	if !ok {
		return false
	}
	args := argsOfParam(par)
	if len(args) == 0 {
		return false
	}
	for _, a := range args {
		if !constructionOnly(a, depth+1) {
			return false
		}
	}
	return true
}

// treeAccesses lists the accesses to node/Tree fields performed by one instruction.
func treeAccesses(c *Ctx, in ssa.Instruction) []rawAccess {
	var out []rawAccess
	switch x := in.(type) {
	case *ssa.UnOp:
		if fa, ok := x.X.(*ssa.FieldAddr); ok {
			if what, base, ok := sharedField(c, fa); ok {
				out = append(out, rawAccess{what, base, false, sharedBase(fa)})
			}
		}
	case *ssa.Store:
		if fa, ok := x.Addr.(*ssa.FieldAddr); ok {
			if what, base, ok := sharedField(c, fa); ok {
				out = append(out, rawAccess{what, base, true, sharedBase(fa)})
			}
		}
		if ia, ok := x.Addr.(*ssa.IndexAddr); ok {
			if what, base, ok := sharedField(c, ia.X); ok {
				out = append(out, rawAccess{what, base, true, sharedBase(ia.X)})
			}
		}
	case *ssa.MapUpdate:
		if what, base, ok := sharedField(c, x.Map); ok {
			out = append(out, rawAccess{what, base, true, sharedBase(x.Map)})
		}
	}
	if call := an.CallOf(in); call != nil {
		if b, ok := call.Value.(*ssa.Builtin); ok && (b.Name() == "delete" || b.Name() == "clear") {
			if what, base, ok := sharedField(c, call.Args[0]); ok {
				out = append(out, rawAccess{what, base, true, sharedBase(call.Args[0])})
			}
		}
		name := an.CalleeName(call)
		for _, m := range inPlaceSliceMutators {
			if name == m && len(call.Args) > 0 {
				if what, base, ok := sharedField(c, call.Args[0]); ok {
					out = append(out, rawAccess{what, base, true, sharedBase(call.Args[0])})
				}
			}
		}
	}
	return out
}

// sharedTreeFields: fields of node/Tree written (outside construction) by code
// reachable from the writer operations Tree.{Add,Remove,Clean}.
func sharedTreeFields(c *Ctx) map[string]bool {
	a := c.A
	g := an.NewGraph(c.P)
	reach := g.Reach([]*ssa.Function{a.TreeAdd, a.TreeRemove, a.TreeClean}, func(_ *ssa.Function, e an.Edge) bool { return e.Kind != "invoke" })
	shared := map[string]bool{}
	for f := range reach {
		an.AllInstrs(f, func(in ssa.Instruction) {
			for _, x := range treeAccesses(c, in) {
				if x.write && !strings.HasPrefix(x.base, "alloc:") && !constructionOnly(x.baseVal, 0) {
					shared[x.what] = true
				}
			}
		})
	}
	return shared
}

// boundaryCall: a call of a user-supplied function value or of an interface method implemented outside the module.
func boundaryCall(call *ssa.CallCommon) bool {
	if call.IsInvoke() {
		return true
	}
	switch call.Value.(type) {
	case *ssa.Function, *ssa.Builtin, *ssa.MakeClosure:
		return false
	}
	return true
}

// CheckSingleSection is C06.R4: an operation is one critical section. On no path does a function reachable from the
// entry points acquire the lock again after it (or a callee) released it: what was read or validated in the first
// section may no longer hold in the second (check-then-act), so the operation would not be atomic.
func (la *LockAnalysis) CheckSingleSection(rule string, entries []*ssa.Function) {
	c := la.c
	g := an.NewGraph(c.P)
	reach := g.Reach(entries, func(_ *ssa.Function, e an.Edge) bool { return e.Kind != "invoke" })
	// hasSection: the function (transitively) acquires the lock
	hasSection := map[*ssa.Function]bool{}
	for changed := true; changed; {
		changed = false
		for _, f := range la.funcs {
			if hasSection[f] {
				continue
			}
			an.AllInstrs(f, func(in ssa.Instruction) {
				if hasSection[f] {
					return
				}
				if op, deferred, ok := la.lockCall(in); ok && !deferred && (op == "Lock" || op == "RLock") {
					hasSection[f] = true
					changed = true
					return
				}
				if _, isClosure := in.(*ssa.MakeClosure); isClosure {
					return
				}
				for _, callee := range callTargets(in) {
					if hasSection[callee] {
						hasSection[f] = true
						changed = true
					}
				}
			})
		}
	}
	var fs []*ssa.Function
	for f := range reach {
		if hasSection[f] && len(f.Blocks) > 0 && an.IsLibrary(f) {
			fs = append(fs, f)
		}
	}
	sort.Slice(fs, func(i, j int) bool { return an.FuncKey(fs[i]) < an.FuncKey(fs[j]) })
	for _, f := range fs {
		deferredRelease := false
		an.AllInstrs(f, func(x ssa.Instruction) {
			d, ok := x.(*ssa.Defer)
			if !ok {
				return
			}
			if op, _, isLock := la.lockCall(x); isLock && (op == "Unlock" || op == "RUnlock") {
				deferredRelease = true
			}
			if hc, isCall := d.Call.Value.(*ssa.Call); isCall {
				if h := an.StaticCallee(&hc.Call); h != nil && la.acquires[h] > lockNone {
					deferredRelease = true
				}
			}
		})
		const (
			never = iota
			held
			released
		)
		in := map[*ssa.BasicBlock]int{f.Blocks[0]: never}
		seen := map[*ssa.BasicBlock]bool{f.Blocks[0]: true}
		work := []*ssa.BasicBlock{f.Blocks[0]}
		var second ssa.Instruction
		for len(work) > 0 {
			b := work[0]
			work = work[1:]
			cur := in[b]
			for _, ins := range b.Instrs {
				acquire := false
				release := false
				if op, deferred, ok := la.lockCall(ins); ok && !deferred {
					if op == "Lock" || op == "RLock" {
						acquire = true
					} else {
						release = true
					}
				}
				if _, isRD := ins.(*ssa.RunDefers); isRD && deferredRelease && cur == held {
					release = true
				}
				if call, isCall := ins.(*ssa.Call); isCall {
					if h := an.StaticCallee(&call.Call); h != nil && an.InModule(h) {
						if la.acquires[h] > lockNone {
							acquire = true
						} else if hasSection[h] {
							// a complete section inside the callee
							if cur == released && second == nil {
								second = ins
							}
							if cur == never {
								cur = released
							}
						}
					}
				}
				if acquire {
					if cur == released && second == nil {
						second = ins
					}
					cur = held
				}
				if release {
					cur = released
				}
			}
			for si, s := range b.Succs {
				if la.prunedEdge(b, si) {
					continue
				}
				if !seen[s] {
					seen[s] = true
					in[s] = cur
					work = append(work, s)
				} else if cur > in[s] {
					in[s] = cur
					work = append(work, s)
				}
			}
		}
		ok := second == nil
		at := c.P.Pos(f.Pos())
		if !ok {
			at = c.pos(second)
		}
		c.R.Add(rule, c.fk(f), "one-critical-section", at, ok, ifelse(ok, "the lock is never taken again after it was released", "the "+la.name+" is released and then acquired again within one operation: what the first section read or validated can be changed by another goroutine before the second section acts on it (two registrations that each pass the ambiguity check can both be applied)"))
	}
}

var treeTypesCache = map[*an.Prog]map[*types.Named]bool{}

// treeReachableTypes: the named struct types of the module that hang off a Tree (reachable from Tree / node through
// fields, pointers, slices, arrays and map elements): objects of these types are shared with the tree.
func treeReachableTypes(c *Ctx) map[*types.Named]bool {
	if m, ok := treeTypesCache[c.P]; ok {
		return m
	}
	out := map[*types.Named]bool{}
	var visit func(t types.Type, depth int)
	visit = func(t types.Type, depth int) {
		if depth > 12 {
			return
		}
		switch x := types.Unalias(t).(type) {
		case *types.Pointer:
			visit(x.Elem(), depth+1)
		case *types.Slice:
			visit(x.Elem(), depth+1)
		case *types.Array:
			visit(x.Elem(), depth+1)
		case *types.Map:
			visit(x.Elem(), depth+1)
		case *types.Named:
			o := x.Origin()
			if out[o] || o.Obj().Pkg() == nil || !strings.HasPrefix(o.Obj().Pkg().Path(), an.ModulePath) {
				return
			}
			st, ok := o.Underlying().(*types.Struct)
			if !ok {
				return
			}
			out[o] = true
			for i := 0; i < st.NumFields(); i++ {
				visit(st.Field(i).Type(), depth+1)
			}
		}
	}
	visit(c.A.TreeT, 0)
	visit(c.A.NodeT, 0)
	delete(out, c.A.ContextT.Origin())
	treeTypesCache[c.P] = out
	return out
}
