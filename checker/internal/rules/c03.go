package rules

import "golang.org/x/tools/go/ssa"

func init() {
	register(&Spec{
		ID: "C03",
		Explanation: "Decides structural necessary conditions of the route-table lifecycle: R1 every mutation of a child list is followed by a rebuild of that node's first-byte index on every successful path (interprocedural, helpers summarised as dirty/cleaning); R2 the index builder resets the map before refilling and inserts literal children only; R3 (= C04.R1) the method summary Routes() reads is rebuilt after every handler-map mutation; R4 the clean and routes walks visit every child (no early exit); R8 node.clean tests every child against the prefix; R9 (= C02.R3) every change of a child list that is not an order-preserving removal (append, swap-remove, …) is followed by the stable sort by kind priority, so that removals never change which live candidate wins; R5 Remove(pattern) without methods drops the whole handler map; R6 the Remove/Clean facades of Router, Prefix and Resource are pure forwarders (subset of C19). " +
			"R17 the sort key of a node reads only its segment (K9 while priority() reads the child list). " +
			"R18 a split stores the new head into the element that held the node; R19 (= C01.R22) end point = empty suffix. " +
			"R20 every registration adds the methods it installed to the tree-wide counters; R21 (= C02.R21) the split point of two segment texts, for all pairs of texts. " +
			"R22 (= C17.R11) the regexp split point is a character boundary; R23 two literal segments are compared byte for byte. " +
			"Not decided: that every live route is still served and that the winner is the priority winner for all histories (needs an executable reference model — a different technique).",
		Assumptions: commonAssumptions,
		Run: func(c *Ctx) {
			ruleIndexRebuilt(c, "R1")
			ruleIndexRebuildComplete(c, "R2")
			ruleSummaryRebuilt(c, "R3")
			ruleCleanTestsEveryChild(c, "R8")
			ruleExhaustiveWalks(c, "R4", []*ssa.Function{c.A.TreeClean, c.A.TreeRoutes}, "Clean removes every route under the prefix and Routes() lists every live pattern: the walks visit every child")
			ruleRemoveAllDropsEverything(c, "R5")
			ruleFacadeRemovals(c, "R6")
			ruleRoutesLiveness(c, "R7")
			ruleSummaryIsNotLiveness(c, "R7b")
			ruleSortAfterInsert(c, "R9")
			ruleGuardedIndexing(c, "R11")
			ruleIndexResetOnEveryPath(c, "R2c")
			ruleReservedKeysNotDeletable(c, "R12", []string{"", "OPTIONS"}, "removing methods by name never removes the 405 / OPTIONS entries a later request needs (no nil handler after Remove)")
			ruleSearchTriesEverySibling(c, "R10", []*ssa.Function{c.A.TreeRemove}, "a removed pattern is gone: the lookup of the node to remove tries every sibling")
			ruleReadersWriteNothing(c, "R13", "tree", "router")
			ruleExhaustedPathPrefersTheNode(c, "R14")
			ruleRootMappedPathsAreNotPatterns(c, "R15")
			ruleSummaryReadOnlyOfLiveNodes(c, "R16")
			ruleSortKeyIsFixedAtInsertion(c, "R17")
			ruleSplitKeepsThePosition(c, "R18")
			ruleEndpointIsAnEmptySuffix(c, "R19")
			ruleInstallsAreCounted(c, "R20")
			ruleSplitPointAutomaton(c, "R21")
			ruleRegexpSplitOnRuneBoundary(c, "R22")
			ruleLiteralSegmentsSplitBytewise(c, "R23")
		},
	})
}
