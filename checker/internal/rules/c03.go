package rules

func init() {
	register(&Spec{
		ID: "C03",
		Explanation: "Decides structural necessary conditions of the route-table lifecycle: R1 every mutation of a child list is followed by a rebuild of that node's first-byte index on every successful path (interprocedural, helpers summarised as dirty/cleaning); R2 the index builder resets the map before refilling and inserts literal children only; R3 (= C04.R1) the method summary Routes() reads is rebuilt after every handler-map mutation. " +
			"Not decided: that every live route is still served and that the winner is the priority winner for all histories (needs an executable reference model — a different technique).",
		Assumptions: commonAssumptions,
		Run: func(c *Ctx) {
			ruleIndexRebuilt(c, "R1")
			ruleIndexRebuildComplete(c, "R2")
			ruleSummaryRebuilt(c, "R3")
		},
	})
}
