package rules

import (
	"go/constant"
	"go/token"
	"go/types"
	"strings"

	"golang.org/x/tools/go/ssa"

	"muxlint/internal/an"
)

// ownerOf returns the named struct type that owns the field addressed by fa.
func ownerOf(fa *ssa.FieldAddr) *types.Named {
	// a promoted field belongs to the struct that embeds its holder
	if outer, ok := fa.X.(*ssa.FieldAddr); ok {
		if st, isSt := derefStruct(outer.X.Type()); isSt && outer.Field < st.NumFields() && st.Field(outer.Field).Embedded() {
			return ownerOf(outer)
		}
	}
	t := fa.X.Type()
	if p, ok := t.Underlying().(*types.Pointer); ok {
		t = p.Elem()
	}
	n, _ := types.Unalias(t).(*types.Named)
	if n == nil {
		return nil
	}
	return n.Origin()
}

// fieldStore decodes `X.f = v` for a field of the named struct type owner.
func fieldStore(in ssa.Instruction, owner *types.Named) (base string, field string, val ssa.Value, ok bool) {
	st, isStore := in.(*ssa.Store)
	if !isStore {
		return "", "", nil, false
	}
	fa, isFA := st.Addr.(*ssa.FieldAddr)
	if !isFA {
		return "", "", nil, false
	}
	if o := ownerOf(fa); o == nil || o != owner.Origin() {
		return "", "", nil, false
	}
	return an.AP(fa.X), an.FieldName(fa.X.Type(), fa.Field), st.Val, true
}

// fieldLoadOf reports whether v is (a load of) field `field` of owner, returning the base AP.
func fieldLoadOf(v ssa.Value, owner *types.Named, field string) (base string, ok bool) {
	for {
		switch x := v.(type) {
		case *ssa.UnOp:
			if x.Op != token.MUL {
				return "", false
			}
			v = x.X
			continue
		case *ssa.ChangeType:
			v = x.X
			continue
		case *ssa.FieldAddr:
			if o := ownerOf(x); o != nil && o == owner.Origin() && an.FieldName(x.X.Type(), x.Field) == field {
				return an.AP(x.X), true
			}
			return "", false
		}
		return "", false
	}
}

// builtinCall matches a call of the builtin `name`.
func builtinCall(in ssa.Instruction, name string) (*ssa.CallCommon, bool) {
	c := an.CallOf(in)
	if c == nil {
		return nil, false
	}
	b, ok := c.Value.(*ssa.Builtin)
	if !ok || b.Name() != name {
		return nil, false
	}
	return c, true
}

// strConst returns the value of a string constant.
func strConst(v ssa.Value) (string, bool) {
	c, ok := v.(*ssa.Const)
	if !ok || c.Value == nil || c.Value.Kind() != constant.String {
		return "", false
	}
	return constant.StringVal(c.Value), true
}

// calleeIs reports whether the call instruction statically calls f.
func calleeIs(in ssa.Instruction, f *ssa.Function) (*ssa.CallCommon, bool) {
	c := an.CallOf(in)
	if c == nil || f == nil {
		return nil, false
	}
	g := an.StaticCallee(c)
	if g == nil || g != an.Origin(f) {
		return nil, false
	}
	return c, true
}

// calleeNamed reports whether the call's callee name equals one of names.
func calleeNamed(in ssa.Instruction, names ...string) (*ssa.CallCommon, bool) {
	c := an.CallOf(in)
	if c == nil {
		return nil, false
	}
	n := an.CalleeName(c)
	for _, x := range names {
		if n == x {
			return c, true
		}
	}
	return nil, false
}

// canonAlloc renames an access path rooted at a fresh allocation that was
// stored into a field of another object: alloc:tN -> <AP of that field>.
func canonAlloc(f *ssa.Function, ap string) string {
	if !strings.HasPrefix(ap, "alloc:") {
		return ap
	}
	root := ap
	rest := ""
	if i := strings.IndexAny(ap[6:], ".["); i >= 0 {
		root = ap[:6+i]
		rest = ap[6+i:]
	}
	var out string
	an.AllInstrs(f, func(in ssa.Instruction) {
		st, ok := in.(*ssa.Store)
		if !ok {
			return
		}
		if an.AP(st.Val) == root {
			if fa, ok := st.Addr.(*ssa.FieldAddr); ok && !an.APHasPrefix(an.AP(fa), root) {
				out = an.AP(fa) + rest
			}
		}
	})
	if out != "" {
		return out
	}
	return ap
}

// rangeKeyOf reports whether v is the key produced by ranging over the map
// with access path mapAP (for k, _ := range m).
func rangeKeyOf(v ssa.Value, mapAP string) bool {
	ex, ok := v.(*ssa.Extract)
	if !ok || ex.Index != 1 {
		return false
	}
	nx, ok := ex.Tuple.(*ssa.Next)
	if !ok {
		return false
	}
	rg, ok := nx.Iter.(*ssa.Range)
	if !ok {
		return false
	}
	return an.AP(rg.X) == mapAP
}

// commaOkEdge reports whether edge b->succ is the found==true edge of a
// comma-ok lookup satisfying pred(mapValue, key).
func commaOkEdge(b *ssa.BasicBlock, succ int, pred func(m, k ssa.Value) bool) bool {
	cond, onTrue := an.EdgeCond(b, succ)
	if cond == nil {
		return false
	}
	neg := false
	for {
		u, ok := cond.(*ssa.UnOp)
		if !ok || u.Op != token.NOT {
			break
		}
		neg = !neg
		cond = u.X
	}
	ex, ok := cond.(*ssa.Extract)
	if !ok || ex.Index != 1 {
		return false
	}
	lk, ok := ex.Tuple.(*ssa.Lookup)
	if !ok || !lk.CommaOk {
		return false
	}
	if !pred(lk.X, lk.Index) {
		return false
	}
	return onTrue != neg
}

func constOf(s string) constant.Value { return constant.MakeString(s) }

func ifaceNumMethods(t types.Type) int {
	if i, ok := t.(*types.Interface); ok {
		return i.NumMethods()
	}
	return 0
}

func ifaceMethodName(t types.Type, i int) string {
	return t.(*types.Interface).Method(i).Name()
}

// rootsOf: the entry functions (exported, or without module callers) from which f is reached through at most
// `up` static calls; f itself when it has no callers.
func (c *Ctx) rootsOf(f *ssa.Function, up int) []*ssa.Function {
	callers := map[*ssa.Function][]*ssa.Function{}
	for _, g := range c.libFuncs() {
		an.AllInstrs(g, func(in ssa.Instruction) {
			if call := an.CallOf(in); call != nil {
				if callee := an.StaticCallee(call); callee != nil && callee != g {
					callers[callee] = append(callers[callee], g)
				}
			}
		})
	}
	// a recursive function is its own root: what a first caller established need not hold for the recursive calls
	for _, cg := range callers[an.Origin(f)] {
		if cg == an.Origin(f) {
			return []*ssa.Function{f}
		}
	}
	for _, call := range callSitesByCaller[an.Origin(f)] {
		if g := an.StaticCallee(call); g == an.Origin(f) {
			return []*ssa.Function{f}
		}
	}
	seen := map[*ssa.Function]bool{}
	var roots []*ssa.Function
	var walk func(g *ssa.Function, d int)
	walk = func(g *ssa.Function, d int) {
		if seen[g] {
			return
		}
		seen[g] = true
		if len(callers[g]) == 0 || d >= up || (isEntryPoint(g) && g != f) {
			roots = append(roots, g)
			return
		}
		for _, cg := range callers[g] {
			walk(cg, d+1)
		}
	}
	walk(an.Origin(f), 0)
	return roots
}

const deepDefault = 4

// isRangeFuncPanic: the panic is one of the compiler's own checks of the range-over-func protocol (go/ssa emits them
// in "rangefunc.*" blocks and in the synthetic yield function), not a panic written in the source.
func isRangeFuncPanic(in ssa.Instruction) bool {
	p, ok := in.(*ssa.Panic)
	if !ok {
		return false
	}
	if strings.HasPrefix(in.Block().Comment, "rangefunc") || in.Block().Comment == "yield-invalid" {
		return true
	}
	if mi, ok := p.X.(*ssa.MakeInterface); ok {
		if k, ok := mi.X.(*ssa.Const); ok && k.Value != nil {
			s := k.Value.ExactString()
			if strings.Contains(s, "range function continued iteration") || strings.Contains(s, "iterator call did not preserve panic") || strings.Contains(s, "yield function called after range loop exit") {
				return true
			}
		}
	}
	return false
}

func derefStruct(t types.Type) (*types.Struct, bool) {
	if p, ok := t.Underlying().(*types.Pointer); ok {
		t = p.Elem()
	}
	st, ok := types.Unalias(t).Underlying().(*types.Struct)
	return st, ok
}

// headerSetLike: the instruction sets a header to exactly one value — h.Set(name, v), or the direct map form
// h[name] = []string{v} on a value of type net/http.Header (equivalent when name is in canonical form).
func headerSetLike(in ssa.Instruction) (name ssa.Value, val ssa.Value, ok bool) {
	if call, isCall := calleeNamed(in, "net/http.Header.Set"); isCall {
		return call.Args[1], call.Args[2], true
	}
	mu, isMU := in.(*ssa.MapUpdate)
	if !isMU {
		return nil, nil, false
	}
	n, isNamed := types.Unalias(mu.Map.Type()).(*types.Named)
	if !isNamed || n.Obj().Pkg() == nil || n.Obj().Pkg().Path() != "net/http" || n.Obj().Name() != "Header" {
		return nil, nil, false
	}
	sl, isSl := mu.Value.(*ssa.Slice)
	if !isSl {
		return nil, nil, false
	}
	al, isAl := sl.X.(*ssa.Alloc)
	if !isAl {
		return nil, nil, false
	}
	arr, isArr := al.Type().Underlying().(*types.Pointer).Elem().Underlying().(*types.Array)
	if !isArr || arr.Len() != 1 {
		return nil, nil, false
	}
	for _, r := range *al.Referrers() {
		if ia, isIA := r.(*ssa.IndexAddr); isIA {
			for _, r2 := range *ia.Referrers() {
				if st, isSt := r2.(*ssa.Store); isSt {
					return mu.Key, st.Val, true
				}
			}
		}
	}
	return nil, nil, false
}
