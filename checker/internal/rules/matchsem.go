package rules

import (
	"fmt"
	"strings"

	"golang.org/x/tools/go/ssa"

	"muxlint/internal/an"
)

// matchsem.go — the two version matchers evaluated with symeval.go (C15.R1, C15.R3).
//
// Atoms: PATH the request path on entry, VERS the matcher's version list, VER its generic element, VV = VER without
// its trailing '/', CUT = PATH without the prefix VV, PNAME the configured parameter name, HDR(Accept) the header,
// PS / PERR the result of mime.ParseMediaType, PVER = PS[acceptKey].

type verScenario struct {
	match    bool // path: PATH begins with VER       header: PVER is a listed version
	named    bool // a parameter name is configured
	noHeader bool // header: no Accept header
	parseErr bool // header: the media type does not parse
}

func (s verScenario) String() string {
	return fmt.Sprintf("match=%v, parameter name configured=%v, Accept header empty=%v, parse error=%v", s.match, s.named, s.noHeader, s.parseErr)
}

func versionEvaluator(c *Ctx, sc verScenario, header bool) *symEval {
	se := &symEval{c: c}
	se.field = func(base, field string) string {
		switch {
		case base == "V" && field == "versions":
			return "VERS"
		case base == "V" && field == "paramName":
			return "PNAME"
		case base == "V" && field == "acceptKey":
			return "KEY"
		case base == "V" && field == "errlog":
			return "ERRLOG"
		case base == "R" && field == "URL":
			return "URL"
		case base == "R" && field == "Header":
			return "RHDR"
		case base == "URL" && field == "Path":
			return "PATH"
		}
		return ""
	}
	se.elem = func(slice string) string {
		if slice == "VERS" {
			return "VER"
		}
		return ""
	}
	// in a scenario in which a listed version matches the list is not empty (the generic element is that version)
	se.nonEmpty = func(coll string) bool { return coll == "VERS" && sc.match }
	se.norm = func(e string) string {
		switch e {
		case "SLICE(VER,_,SUB(LEN(VER),CONST:1))":
			return "VV"
		case "SLICE(PATH,LEN(VV),_)", "CALL:strings.TrimPrefix(PATH,VV)":
			return "CUT"
		case "LOOKUP(PS,KEY)":
			return "PVER"
		}
		return e
	}
	isNameTest := func(e string) (bool, bool) {
		switch e {
		case `NE(PNAME,CONST:"")`, `NE(CONST:"",PNAME)`:
			return true, true
		case `EQ(PNAME,CONST:"")`, `EQ(CONST:"",PNAME)`:
			return true, false
		}
		return false, false
	}
	se.truth = func(e string) int {
		b := func(v bool) int {
			if v {
				return 1
			}
			return -1
		}
		if is, pos := isNameTest(e); is {
			return b(sc.named == pos)
		}
		// a helper's parameter that received the name
		// every stored version begins with '/' (the constructor sees to it), so a path that begins with a version is not
		// empty and begins with '/': pre-filters on exactly that are implied by the contract
		if sc.match {
			switch e {
			case "EQ(LEN(PATH),CONST:0)", `EQ(PATH,CONST:"")`, "NE(ELEM(PATH),CONST:47)", "LT(LEN(PATH),CONST:1)":
				return -1
			case "NE(LEN(PATH),CONST:0)", "GT(LEN(PATH),CONST:0)", `NE(PATH,CONST:"")`, "EQ(ELEM(PATH),CONST:47)", "GE(LEN(PATH),CONST:1)":
				return 1
			}
		}
		switch e {
		case "HASPREFIX(PATH,VER)":
			return b(sc.match)
		case "CONTAINS(VERS,PVER)", "EQ(VER,PVER)", "EQ(PVER,VER)":
			return b(sc.match)
		case "NE(VER,PVER)", "NE(PVER,VER)":
			return b(!sc.match)
		case `EQ(HDR(Accept),CONST:"")`:
			return b(sc.noHeader)
		case `NE(HDR(Accept),CONST:"")`:
			return b(!sc.noHeader)
		case "FOUND(PS,KEY)":
			if sc.match {
				return 1 // the parsed media type carries a listed version: the parameter is present
			}
			return 0
		case "NE(PERR,NIL)":
			return b(sc.parseErr)
		case "EQ(PERR,NIL)":
			return b(!sc.parseErr)
		}
		// index of the first element satisfying a condition: >= 0 iff the condition holds for the generic element
		if strings.HasPrefix(e, "LT(IDX<") && strings.HasSuffix(e, ">,CONST:0)") {
			return -se.truthOf(sv(e[7 : len(e)-10]))
		}
		if strings.HasPrefix(e, "GE(IDX<") && strings.HasSuffix(e, ">,CONST:0)") {
			return se.truthOf(sv(e[7 : len(e)-10]))
		}
		if strings.HasPrefix(e, "EQ(IDX<") && strings.HasSuffix(e, ">,CONST:-1)") {
			return -se.truthOf(sv(e[7 : len(e)-11]))
		}
		if strings.HasPrefix(e, "NE(IDX<") && strings.HasSuffix(e, ">,CONST:-1)") {
			return se.truthOf(sv(e[7 : len(e)-11]))
		}
		return 0
	}
	se.model = func(se *symEval, name string, call *ssa.CallCommon, args []sval, st *sstate) ([]sval, bool) {
		switch name {
		case "strings.HasPrefix":
			return []sval{sv("HASPREFIX(" + args[0].e + "," + args[1].e + ")")}, true
		case "types.(*Context).Set":
			st.effects = append(st.effects, "SET("+args[1].e+","+args[2].e+")")
			return []sval{sv("VOID")}, true
		case "net/http.Header.Get":
			if s, ok := strConst(call.Args[1]); ok {
				return []sval{sv("HDR(" + s + ")")}, true
			}
		case "mime.ParseMediaType":
			if args[0].e != "HDR(Accept)" {
				// what is parsed is not the (single) Accept header value
				return []sval{{e: "TUPLE", tuple: []sval{sv("MT?"), sv("PS?"), sv("PERR?")}}}, true
			}
			return []sval{{e: "TUPLE", tuple: []sval{sv("MT"), sv("PS"), sv("PERR")}}}, true
		case "slices.Contains":
			return []sval{sv("CONTAINS(" + args[0].e + "," + args[1].e + ")")}, true
		case "slices.IndexFunc", "slices.ContainsFunc":
			// evaluate the predicate on the generic element
			if args[1].e == "FUNC" && se.elem != nil {
				el := se.elem(args[0].e)
				if el == "" {
					break
				}
				res := se.run(args[1].fn, []sval{sv(el)}, args[1].free, st, 1)
				if len(res) == 1 && len(res[0].ret) == 1 {
					cond := res[0].ret[0].e
					if name == "slices.ContainsFunc" {
						return []sval{sv(cond)}, true
					}
					return []sval{sv("IDX<" + cond + ">")}, true
				}
			}
		case "slices.Index":
			return []sval{sv("IDX<CONTAINS(" + args[0].e + "," + args[1].e + ")>")}, true
		}
		if strings.HasPrefix(name, "dynamic:") {
			// the error logger (a configured function value): an effect that is not part of the contract
			v := se.val(call.Value, st)
			if v.e == "ERRLOG" {
				st.effects = append(st.effects, "LOG")
				return []sval{sv("VOID")}, true
			}
		}
		return nil, false
	}
	_ = header
	return se
}

// an element selected by the index of the first match is the generic matching element
func normaliseEffects(effs []string, header bool) []string {
	var out []string
	for _, e := range effs {
		if e == "LOG" {
			continue
		}
		if header {
			e = strings.ReplaceAll(e, ",VER)", ",PVER)")
		}
		out = append(out, e)
	}
	return out
}

// ruleVersionMatcherSemantics evaluates both matchers in every scenario.
func ruleVersionMatcherSemantics(c *Ctx, rulePath, ruleHeader string) {
	type spec struct {
		rule, key string
		header    bool
		scs       []verScenario
		accept    func(sc verScenario) []string // the effects of an accepting path
	}
	specs := []spec{
		{rulePath, "mux.(*pathVersion).Match", false,
			[]verScenario{{match: true, named: true}, {match: true}, {named: true}, {}},
			func(sc verScenario) []string {
				e := []string{"STORE URL.Path = CUT"}
				if sc.named {
					e = append([]string{"SET(PNAME,VV)"}, e...)
				}
				return e
			}},
		{ruleHeader, "mux.(*headerVersion).Match", true,
			[]verScenario{{match: true, named: true}, {match: true}, {named: true}, {noHeader: true, named: true}, {noHeader: true, match: true, named: true}, {parseErr: true, named: true}, {parseErr: true, match: true, named: true}},
			func(sc verScenario) []string {
				if sc.named {
					return []string{"SET(PNAME,PVER)"}
				}
				return nil
			}},
	}
	c.R.Rule(c.R.Property+"."+ruleHeader, 1, "a header-version matcher accepts iff the Accept header parses as a media type whose configured parameter equals one of its versions, and records it")
	for _, sp := range specs {
		f := c.P.MustFunc(sp.key)
		var bad []string
		for _, sc := range sp.scs {
			se := versionEvaluator(c, sc, sp.header)
			args := []sval{sv("V"), sv("R"), sv("CTX")}
			outs := se.outcomes(f, args)
			shouldAccept := sc.match && !sc.noHeader && !sc.parseErr
			accepts := 0
			for _, o := range outs {
				effs := normaliseEffects(o.effects, sp.header)
				switch o.ret {
				case "CONST:true":
					accepts++
					if !shouldAccept {
						bad = append(bad, fmt.Sprintf("with %s it can accept", sc))
						continue
					}
					want := sp.accept(sc)
					if strings.Join(effs, "; ") != strings.Join(want, "; ") {
						bad = append(bad, fmt.Sprintf("with %s it accepts after {%s}, expected {%s}", sc, strings.Join(effs, "; "), strings.Join(want, "; ")))
					}
				case "CONST:false":
					if shouldAccept {
						bad = append(bad, fmt.Sprintf("with %s it can reject: some path to a rejection depends on a condition the contract does not mention (an extra pre-filter on the request)", sc))
					}
					if len(effs) > 0 {
						bad = append(bad, fmt.Sprintf("with %s it rejects after {%s}: a rejecting matcher must leave the request and the parameters untouched", sc, strings.Join(effs, "; ")))
					}
				default:
					bad = append(bad, fmt.Sprintf("with %s the result %s is not decided by the matcher's inputs", sc, o.ret))
				}
			}
			if shouldAccept && accepts == 0 {
				bad = append(bad, fmt.Sprintf("with %s it never accepts", sc))
			}
		}
		// distinct messages only
		seen := map[string]bool{}
		var msgs []string
		for _, b := range bad {
			if !seen[b] {
				seen[b] = true
				msgs = append(msgs, b)
			}
		}
		what := "accepts iff the path begins with a listed '/<version>/', then stores the path without '/<version>' and records '/<version>' under the configured name; rejects without touching anything"
		if sp.header {
			what = "accepts iff the Accept header parses and its configured parameter is a listed version, recording it under the configured name; rejects without touching anything"
		}
		c.R.Add(sp.rule, sp.key, "semantics:accept/rewrite/record", c.P.Pos(f.Pos()), len(msgs) == 0, ifelse(len(msgs) == 0, what+fmt.Sprintf(" (%d scenarios evaluated)", len(sp.scs)), "the matcher breaks its contract: "+strings.Join(msgs, " ; ")))
	}
}

var _ = an.FuncKey
