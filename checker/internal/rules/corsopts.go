package rules

import (
	"fmt"
	"go/token"
	"go/types"
	"sort"
	"strings"

	"golang.org/x/tools/go/ssa"

	"muxlint/internal/an"
)

// corsopts.go — C11.R9 / C12.R10: the CORS options hand the configuration to the decision procedure unchanged.
//
// WithCORS(origin, allowHeaders, exposedHeaders, maxAge, allowCredentials) is public API: the positions are fixed.
// The option it returns stores a cors value whose fields Origins / AllowHeaders / ExposedHeaders / MaxAge /
// AllowCredentials receive exactly those arguments (three of them have the same type, two more are int / bool next
// to each other in other signatures: a swap compiles). WithDenyCORS configures no origin and no credentials,
// WithAllowedCORS the origin list {"*"}, the header list {"*"}, its own max-age and no credentials.
func ruleCORSOptionPlumbing(c *Ctx, rule string) {
	c.R.Rule(c.R.Property+"."+rule, 3, "the CORS options store every argument in the configuration field it documents; the deny / allow-all shorthands configure exactly nothing / everything without credentials")
	with := c.P.MustFunc("mux.WithCORS")
	want := map[string]int{"Origins": 0, "AllowHeaders": 1, "ExposedHeaders": 2, "MaxAge": 3, "AllowCredentials": 4}
	got := map[string]string{}
	var at ssa.Instruction
	// the function that builds the option: WithCORS itself, or the helper it hands its arguments to in order
	impl := with
	for h := range ctorFamily(with) {
		if h != with {
			impl = h
		}
	}
	an.AllInstrs(impl, func(in ssa.Instruction) {
		mc, ok := in.(*ssa.MakeClosure)
		if !ok {
			return
		}
		fn, _ := mc.Fn.(*ssa.Function)
		if fn == nil {
			return
		}
		an.AllInstrs(fn, func(x ssa.Instruction) {
			st, ok := x.(*ssa.Store)
			if !ok {
				return
			}
			fa, ok := st.Addr.(*ssa.FieldAddr)
			if !ok || !isPtrToNamedStruct(fa.X.Type(), "cors") {
				return
			}
			field := an.FieldName(fa.X.Type(), fa.Field)
			src := "?" + c.O.Of(st.Val).String()
			val := st.Val
			if u, isLoad := val.(*ssa.UnOp); isLoad && u.Op == token.MUL {
				val = u.X // a captured variable is read through its address
			}
			if fv, isFV := val.(*ssa.FreeVar); isFV {
				for i, v := range fn.FreeVars {
					if v != fv || i >= len(mc.Bindings) {
						continue
					}
					b := mc.Bindings[i]
					if al, isAlloc := b.(*ssa.Alloc); isAlloc {
						// the captured variable: written once, with the parameter
						if par := cellParam(al); par != nil {
							b = par
						}
					}
					if par, isPar := b.(*ssa.Parameter); isPar {
						for pi, p := range impl.Params {
							if p == par {
								src = fmt.Sprintf("arg%d", pi)
							}
						}
					}
				}
			}
			got[field] = src
			at = x
		})
	})
	var bad []string
	for f, i := range want {
		if got[f] != fmt.Sprintf("arg%d", i) {
			bad = append(bad, fmt.Sprintf("%s receives %s instead of argument %d (%s)", f, ifelse(got[f] == "", "nothing", got[f]), i+1, with.Params[min(i, len(with.Params)-1)].Name()))
		}
	}
	sort.Strings(bad)
	pos := c.P.Pos(with.Pos())
	if at != nil {
		pos = c.pos(at)
	}
	c.R.Add(rule, c.fk(with), "stores:each-argument-in-its-field", pos, len(bad) == 0, ifelse(len(bad) == 0, "Origins, AllowHeaders, ExposedHeaders, MaxAge, AllowCredentials = arguments 1..5", "the configuration handed to the CORS decision is not the one given: "+strings.Join(bad, "; ")))
	for _, sh := range []struct{ key, want, name, what string }{
		{"mux.WithDenyCORS", `call<mux.WithCORS>(nil, nil, nil, 0, false)`, "nothing", "no origins, no headers, no max-age, no credentials"},
		{"mux.WithAllowedCORS", `call<mux.WithCORS>(list("*"), list("*"), nil, param:maxAge, false)`, "any-origin-any-header-no-credentials", `origins {"*"}, headers {"*"}, nothing exposed, its own max-age, no credentials`},
	} {
		f := c.P.MustFunc(sh.key)
		good := true
		g := ""
		for _, r := range an.Returns(f) {
			g = c.O.Of(r.Results[0]).String()
			for h := range ctorFamily(with) {
				if h != with {
					g = strings.Replace(g, "call<"+an.FuncKey(h)+">", "call<mux.WithCORS>", 1)
				}
			}
			if g != sh.want {
				good = false
			}
		}
		c.R.Add(rule, sh.key, "configures:"+sh.name, c.P.Pos(f.Pos()), good, ifelse(good, g, "builds "+g+", documented is "+sh.want+" ("+sh.what+")"))
	}
}

func isPtrToNamedStruct(t types.Type, name string) bool {
	p, ok := t.Underlying().(*types.Pointer)
	if !ok {
		return false
	}
	n, ok := types.Unalias(p.Elem()).(*types.Named)
	return ok && n.Obj().Name() == name
}

// cellParam: the captured variable holds a parameter of the enclosing function — it is written once, with the
// parameter, or with the parameter and then with copies of its own content (`xs = slices.Clone(xs)`).
func cellParam(al *ssa.Alloc) *ssa.Parameter {
	var par *ssa.Parameter
	n := 0
	for _, ref := range *al.Referrers() {
		s2, ok := ref.(*ssa.Store)
		if !ok || s2.Addr != ssa.Value(al) {
			continue
		}
		n++
		var q *ssa.Parameter
		switch y := s2.Val.(type) {
		case *ssa.Parameter:
			q = y
		case *ssa.Call:
			if strings.HasPrefix(an.CalleeName(&y.Call), "slices.Clone") && len(y.Call.Args) == 1 {
				a := y.Call.Args[0]
				if ld, isLd := a.(*ssa.UnOp); isLd && ld.Op == token.MUL && ld.X == ssa.Value(al) {
					continue // a copy of what the cell holds
				}
				q, _ = a.(*ssa.Parameter)
			}
		}
		if q == nil || (par != nil && par != q) {
			return nil
		}
		par = q
	}
	if n == 0 {
		return nil
	}
	return par
}

// capturedParam: v, read inside the closure fn created by mc, is a parameter of the enclosing function — captured
// directly, or through a captured variable that is written exactly once, with the parameter.
func capturedParam(mc *ssa.MakeClosure, fn *ssa.Function, v ssa.Value) *ssa.Parameter {
	if u, isLoad := v.(*ssa.UnOp); isLoad && u.Op == token.MUL {
		v = u.X
	}
	fv, isFV := v.(*ssa.FreeVar)
	if !isFV {
		return nil
	}
	for i, x := range fn.FreeVars {
		if x != fv || i >= len(mc.Bindings) {
			continue
		}
		b := mc.Bindings[i]
		if al, isAlloc := b.(*ssa.Alloc); isAlloc {
			if par := cellParam(al); par != nil {
				b = par
			}
		}
		if par, isPar := b.(*ssa.Parameter); isPar {
			return par
		}
	}
	return nil
}

// ruleRecoveryShorthands — C16.R9: WithStatusRecovery / WithWriteRecovery / WithLogRecovery / WithSLogRecovery
// configure a recovery: each returns WithRecovery of a function value (never nil) that answers with the status it
// was given on every path, hands the panic value it received to its log call, and does not panic itself.
func ruleRecoveryShorthands(c *Ctx, rule string) {
	c.R.Rule(c.R.Property+"."+rule, 4, "the recovery shorthands configure a recovery function that writes the given status, reports the panic value it received and does not panic again")
	with := c.P.MustFunc("mux.WithRecovery")
	for _, f := range c.libFuncs() {
		k := an.FuncKey(f)
		if !strings.HasPrefix(k, "mux.With") || !strings.HasSuffix(k, "Recovery") || f == with || f.Parent() != nil || len(f.Params) == 0 {
			continue
		}
		var mc *ssa.MakeClosure
		good := true
		why := ""
		for _, r := range an.Returns(f) {
			call, ok := r.Results[0].(*ssa.Call)
			if !ok || an.StaticCallee(&call.Call) == nil || an.Origin(an.StaticCallee(&call.Call)) != an.Origin(with) {
				good, why = false, "does not return WithRecovery(...)"
				continue
			}
			m, ok := call.Call.Args[0].(*ssa.MakeClosure)
			if !ok {
				good, why = false, "hands "+c.O.Of(call.Call.Args[0]).String()+" to WithRecovery, not a function literal: no recovery is configured"
				continue
			}
			mc = m
		}
		c.R.Add(rule, k, "returns:WithRecovery(function)", c.P.Pos(f.Pos()), good && mc != nil, ifelse(good && mc != nil, "a recovery function is configured on every path", ifelse(why != "", why, "no return")))
		if mc == nil {
			continue
		}
		fn := mc.Fn.(*ssa.Function)
		// status: http.Error(w, _, status) on every path, status being the shorthand's own parameter
		var errCalls []ssa.Instruction
		statusOK := true
		an.AllInstrs(fn, func(in ssa.Instruction) {
			w, status, ok := statusWrite(in, 0)
			if !ok {
				return
			}
			errCalls = append(errCalls, in)
			par := capturedParam(mc, fn, status)
			if par == nil || par != f.Params[0] || len(fn.Params) == 0 || w != ssa.Value(fn.Params[0]) {
				statusOK = false
			}
		})
		path := (&an.Query{
			Target: func(t ssa.Instruction) bool { _, ok := t.(*ssa.Return); return ok },
			Block: func(t ssa.Instruction) bool {
				for _, e := range errCalls {
					if e == t {
						return true
					}
				}
				return false
			},
		}).Search(an.Entry(fn))
		okStatus := len(errCalls) > 0 && statusOK && path == nil
		c.R.Add(rule, k, "recovery/writes-given-status-on-every-path", c.P.Pos(fn.Pos()), okStatus, ifelse(okStatus, "http.Error(w, …, status) with the shorthand's status, to the writer it received", "the recovery function does not answer with the status it was configured with on every path (or not to the writer it received)"))
		// no panic of its own
		panics := false
		an.AllInstrs(fn, func(in ssa.Instruction) {
			if _, ok := in.(*ssa.Panic); ok {
				panics = true
			}
		})
		c.R.Add(rule, k, "recovery/does-not-panic", c.P.Pos(fn.Pos()), !panics, ifelse(!panics, "no panic statement", "the recovery function panics itself: the panic escapes ServeHTTP although a recovery is configured"))
		// the panic value: when anything besides the status is reported, the received value is part of it
		if len(fn.Params) >= 2 {
			msg := fn.Params[1]
			nCalls, uses := 0, 0
			an.AllInstrs(fn, func(in ssa.Instruction) {
				call := an.CallOf(in)
				if call == nil {
					return
				}
				if n := an.CalleeName(call); n == "net/http.Error" || n == "net/http.StatusText" {
					return
				}
				if _, _, isStatus := statusWrite(in, 0); isStatus {
					return
				}
				nCalls++
				for _, a := range an.CallArgs(call) {
					if reachesValue(a, msg, 0) {
						uses++
					}
				}
			})
			if nCalls > 0 {
				c.R.Add(rule, k, "recovery/reports-received-value", c.P.Pos(fn.Pos()), uses > 0, ifelse(uses > 0, "the panic value received is handed to the report", "the recovery function reports something, but not the panic value it received"))
			}
		}
	}
}

// reachesValue: v is x or is built from x (conversions, interface boxing, variadic slices).
func reachesValue(v, x ssa.Value, depth int) bool {
	if v == x {
		return true
	}
	if depth > 4 {
		return false
	}
	switch y := v.(type) {
	case *ssa.MakeInterface:
		return reachesValue(y.X, x, depth+1)
	case *ssa.ChangeType:
		return reachesValue(y.X, x, depth+1)
	case *ssa.ChangeInterface:
		return reachesValue(y.X, x, depth+1)
	case *ssa.Call:
		for _, a := range an.CallArgs(&y.Call) {
			if reachesValue(a, x, depth+1) {
				return true
			}
		}
	case *ssa.Slice:
		// a variadic argument list: new array, elements stored
		if al, ok := y.X.(*ssa.Alloc); ok {
			for _, ref := range *al.Referrers() {
				if ia, ok := ref.(*ssa.IndexAddr); ok {
					for _, r2 := range *ia.Referrers() {
						if st, ok := r2.(*ssa.Store); ok && reachesValue(st.Val, x, depth+1) {
							return true
						}
					}
				}
			}
		}
	}
	return false
}

// statusWrite: the instruction answers with a status — http.Error(w, _, status), w.WriteHeader(status), or a call
// of a module helper that does so on every path with its own parameters (mapped back to the arguments here).
func statusWrite(in ssa.Instruction, depth int) (w, status ssa.Value, ok bool) {
	call := an.CallOf(in)
	if call == nil {
		return nil, nil, false
	}
	if _, isDefer := in.(*ssa.Defer); isDefer {
		return nil, nil, false
	}
	switch {
	case an.CalleeName(call) == "net/http.Error" && len(call.Args) == 3:
		return call.Args[0], call.Args[2], true
	case call.IsInvoke() && call.Method.Name() == "WriteHeader" && len(call.Args) == 1:
		return call.Value, call.Args[0], true
	}
	g := an.StaticCallee(call)
	if g == nil || !an.InModule(g) || len(g.Blocks) == 0 || depth > 2 {
		return nil, nil, false
	}
	args := an.CallArgs(call)
	var inner []ssa.Instruction
	wi, si := -1, -1
	consistent := true
	an.AllInstrs(g, func(x ssa.Instruction) {
		iw, is, ok := statusWrite(x, depth+1)
		if !ok {
			return
		}
		a, b := -1, -1
		for i, p := range g.Params {
			if iw == ssa.Value(p) {
				a = i
			}
			if is == ssa.Value(p) {
				b = i
			}
		}
		if a < 0 || b < 0 || (wi >= 0 && (wi != a || si != b)) {
			consistent = false
			return
		}
		wi, si = a, b
		inner = append(inner, x)
	})
	if !consistent || wi < 0 || wi >= len(args) || si >= len(args) {
		return nil, nil, false
	}
	path := (&an.Query{
		Target: func(t ssa.Instruction) bool { _, ok := t.(*ssa.Return); return ok },
		Block: func(t ssa.Instruction) bool {
			for _, e := range inner {
				if e == t {
					return true
				}
			}
			return false
		},
	}).Search(an.Entry(g))
	if path != nil {
		return nil, nil, false
	}
	return args[wi], args[si], true
}

// ctorFamily: base and the module helper it forwards to — base's only return is H(a1, …, an) with ai its i-th
// parameter, or a copy of it (slices.Clone). The shorthands of an option may call either.
func ctorFamily(base *ssa.Function) map[*ssa.Function]bool {
	fam := map[*ssa.Function]bool{base: true}
	if base == nil {
		return fam
	}
	fromParam := func(v ssa.Value, p *ssa.Parameter) bool {
		for i := 0; i < 3; i++ {
			switch x := v.(type) {
			case *ssa.Parameter:
				return x == p
			case *ssa.Call:
				if strings.HasPrefix(an.CalleeName(&x.Call), "slices.Clone") && len(x.Call.Args) == 1 {
					v = x.Call.Args[0]
					continue
				}
				return false
			case *ssa.UnOp:
				if al, ok := x.X.(*ssa.Alloc); ok && x.Op == token.MUL {
					return cellParam(al) == p
				}
				return false
			case *ssa.Slice:
				v = x.X // a variadic list re-sliced whole
				continue
			default:
				return false
			}
		}
		return false
	}
	for _, r := range an.Returns(base) {
		if len(r.Results) != 1 {
			return fam
		}
		v := an.ReturnValue(r, 0)
		if ct, ok := v.(*ssa.ChangeType); ok {
			v = ct.X
		}
		call, ok := v.(*ssa.Call)
		if !ok {
			return fam
		}
		h := an.StaticCallee(&call.Call)
		if h == nil || !an.InModule(h) || len(call.Call.Args) != len(base.Params) {
			return fam
		}
		for i, a := range call.Call.Args {
			if !fromParam(a, base.Params[i]) {
				return fam
			}
		}
		fam[h] = true
	}
	return fam
}
