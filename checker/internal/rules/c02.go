package rules

import (
	"fmt"
	"go/constant"
	"go/token"
	"go/types"
	"strings"

	"golang.org/x/tools/go/ssa"

	"muxlint/internal/an"
)

func init() {
	register(&Spec{
		ID: "C02",
		Explanation: "Decides the kind-order pipeline behind 'literal before interceptor before regexp before named, each alternative tried at most once, never widening an earlier capture': R1 the constant order String < Interceptor < Regexp < Named; R2 the sort key is K·kind + b with 0 ≤ b < K on every path (strictly monotone in the kind); R3 every append to a child list is followed by a stable sort of that node's child list whose comparator returns priority(a) − priority(b); R4 ordered scan — the matcher visits the first-byte index first, then children by an index that starts at len(index) and only increases by one, a failed child is left by moving to the next one; R5 the index holds literal children only and is coherent (= C03.R1/R2); R6 literal text next to a regexp parameter is quoted and the rule is enclosed in its own group (= C01.R3); R7 an alternative is given up by restoring the remaining path and falling back to the next child (= C01.R1). " +
			"R19 (= C01.R21) no '{' in a rule; R20 (= C01.R22) end point = empty suffix. " +
			"R21 the split point of two segment texts agrees with the reference rule (never inside a parameter, never directly behind one) for all pairs of texts — abstract interpretation of longestPrefix over the brace alphabet (DESIGN section 33). " +
			"R22 two literal segments are compared byte for byte (the brace rules are for parameter segments); R23 (= C01.R24) no '>' in a group name. " +
			"Not decided: shortest-capture and shared-suffix semantics of Segment.Match, and '404 exactly when the procedure finds no route' — those need an executable reference resolver (a different technique).",
		Assumptions: commonAssumptions,
		Run: func(c *Ctx) {
			ruleKindOrder(c, "R1")
			rulePriorityMonotone(c, "R2")
			ruleSortAfterInsert(c, "R3")
			ruleOrderedScan(c, "R4")
			ruleIndexRebuilt(c, "R5a")
			ruleIndexRebuildComplete(c, "R5b")
			ruleRegexpQuoting(c, "R6")
			ruleBacktrackUndo(c, "R7")
			ruleIndexGuardExact(c, "R8")
			ruleDigitPredicates(c, "R9", "syntax.MatchDigit")
			ruleCharClasses(c, "R9b", "syntax.MatchDigit", "syntax.MatchWord")
			ruleRequestPathIsMatched(c, "R10")
			ruleStrictValidated(c, "R11")
			ruleIndexResetOnEveryPath(c, "R5c")
			ruleInterceptorSelection(c, "R12")
			ruleConfiguredInterceptorsUsed(c, "R13")
			ruleSuffixSearchResumesAtNextByte(c, "R14")
			ruleRegexpSuffixComparedBytewise(c, "R15")
			ruleExhaustedPathPrefersTheNode(c, "R16")
			ruleRegexpSplitOnRuneBoundary(c, "R17")
			ruleInterceptorShorthands(c, "R18")
			ruleRuleTextHasNoBraces(c, "R19")
			ruleEndpointIsAnEmptySuffix(c, "R20")
			ruleSplitPointAutomaton(c, "R21")
			ruleLiteralSegmentsSplitBytewise(c, "R22")
			ruleGroupNameIsNotCutShort(c, "R23")
		},
	})
}

// ruleKindOrder is C02.R1.
func ruleKindOrder(c *Ctx, rule string) {
	a := c.A
	c.R.Rule(c.R.Property+"."+rule, 3, "literal text is tried before interceptor, then regexp, then named parameters")
	order := []string{"String", "Interceptor", "Regexp", "Named"}
	for i := 0; i+1 < len(order); i++ {
		x, _ := constant.Int64Val(constant.MakeFromLiteral(a.Kind(order[i]), token.INT, 0))
		y, _ := constant.Int64Val(constant.MakeFromLiteral(a.Kind(order[i+1]), token.INT, 0))
		obj := a.SyntaxPkg.Scope().Lookup(order[i])
		c.R.Add(rule, "pkg:syntax", order[i]+"<"+order[i+1], c.P.Pos(obj.Pos()), x < y, ifelse(x < y, fmt.Sprintf("%d < %d", x, y), fmt.Sprintf("the kind constants are out of the documented order: %s=%d, %s=%d", order[i], x, order[i+1], y)))
	}
}

type lin struct {
	k      int64 // coefficient of int(kind)
	lo, hi int64
	ok     bool
}

func evalPriority(c *Ctx, v ssa.Value, seen map[ssa.Value]bool) lin {
	if seen[v] {
		return lin{ok: false}
	}
	seen[v] = true
	defer delete(seen, v)
	switch x := v.(type) {
	case *ssa.Const:
		if x.Value != nil && x.Value.Kind() == constant.Int {
			n := x.Int64()
			return lin{0, n, n, true}
		}
	case *ssa.Convert:
		if strings.HasSuffix(an.AP(x.X), "."+c.A.FSegment+".Type") {
			return lin{1, 0, 0, true}
		}
	case *ssa.BinOp:
		l, r := evalPriority(c, x.X, seen), evalPriority(c, x.Y, seen)
		if !l.ok || !r.ok {
			return lin{}
		}
		switch x.Op {
		case token.ADD:
			return lin{l.k + r.k, l.lo + r.lo, l.hi + r.hi, true}
		case token.MUL:
			if r.k == 0 && r.lo == r.hi && l.lo == 0 && l.hi == 0 {
				return lin{l.k * r.lo, 0, 0, true}
			}
			if l.k == 0 && l.lo == l.hi && r.lo == 0 && r.hi == 0 {
				return lin{r.k * l.lo, 0, 0, true}
			}
		}
	case *ssa.Phi:
		var out lin
		first := true
		for _, e := range x.Edges {
			le := evalPriority(c, e, seen)
			if !le.ok {
				return lin{}
			}
			if first {
				out, first = le, false
				continue
			}
			if le.k != out.k {
				return lin{}
			}
			if le.lo < out.lo {
				out.lo = le.lo
			}
			if le.hi > out.hi {
				out.hi = le.hi
			}
		}
		return out
	}
	return lin{}
}

// priorityFunc: the sort key of a node — by its role: the node method without parameters and with an integer result
// that a two-parameter comparator of the tree package calls on both of its operands (by name when that search finds
// nothing). nil when the tree has no such function (the key became a stored field).
func priorityFunc(c *Ctx) *ssa.Function {
	a := c.A
	count := map[*ssa.Function]int{}
	for _, f := range c.libFuncs() {
		if !strings.HasPrefix(an.FuncKey(f), a.TreePkg.Name()+".") || len(f.Params)+len(f.FreeVars) < 2 || len(f.Params) != 2 {
			continue
		}
		if !isPtrToNamed(f.Params[0].Type(), a.NodeT) || !isPtrToNamed(f.Params[1].Type(), a.NodeT) {
			continue
		}
		seen := map[*ssa.Function]map[ssa.Value]bool{}
		an.AllInstrs(f, func(in ssa.Instruction) {
			call := an.CallOf(in)
			if call == nil || len(call.Args) != 1 {
				return
			}
			g := an.StaticCallee(call)
			if g == nil || g.Signature.Recv() == nil || !isPtrToNamed(g.Signature.Recv().Type(), a.NodeT) || g.Signature.Results().Len() != 1 {
				return
			}
			if b, ok := g.Signature.Results().At(0).Type().Underlying().(*types.Basic); !ok || b.Info()&types.IsInteger == 0 {
				return
			}
			if seen[g] == nil {
				seen[g] = map[ssa.Value]bool{}
			}
			seen[g][call.Args[0]] = true
		})
		for g, ops := range seen {
			if ops[f.Params[0]] && ops[f.Params[1]] {
				count[an.Origin(g)]++
			}
		}
	}
	var best *ssa.Function
	for g, n := range count {
		if best == nil || n > count[best] || (n == count[best] && an.FuncKey(g) < an.FuncKey(best)) {
			best = g
		}
	}
	if best != nil {
		return best
	}
	return c.P.Func("tree.(*node).priority")
}

// rulePriorityMonotone is C02.R2.
func rulePriorityMonotone(c *Ctx, rule string) {
	f := priorityFunc(c)
	c.R.Rule(c.R.Property+"."+rule, 1, "the sort key is strictly monotone in the kind: no weighting inside a kind can overtake the next kind")
	if f == nil {
		c.R.Add(rule, "pkg:tree", "sort-key/function", "-", false, "no function computes a node's sort key from its kind any more (the key is stored, and refreshed by hand wherever a node's kind or leaf-ness changes): that every node is sorted by its current kind cannot be established")
		return
	}
	for _, r := range an.Returns(f) {
		l := evalPriority(c, r.Results[0], map[ssa.Value]bool{})
		good := l.ok && l.k > 0 && l.lo >= 0 && l.hi < l.k
		c.R.Add(rule, c.fk(f), "return=K*kind+b,0<=b<K", c.pos(r), good, ifelse(good, fmt.Sprintf("K=%d, b in [%d,%d]", l.k, l.lo, l.hi), ifelse(l.ok, fmt.Sprintf("the sort key is %d·kind + [%d,%d]: a weighted child of one kind can sort after a child of the next kind", l.k, l.lo, l.hi), "the sort key is not an affine function of the kind with bounded weights (cannot evaluate)")))
	}
}

// ruleSortAfterInsert is C02.R3.
func ruleSortAfterInsert(c *Ctx, rule string) {
	a := c.A
	c.R.Rule(c.R.Property+"."+rule, 2, "children are kept sorted by kind so that depth-first search realises the priority")
	prio := priorityFunc(c)
	if prio == nil {
		c.R.Add(rule, "pkg:tree", "sort-key/function", "-", false, "no function computes a node's sort key: the comparator of the child-list sort cannot be related to the kind order")
		return
	}
	// cmpOrder: +1 when fn(x, y) has the sign of priority(x) − priority(y), −1 for the reverse, 0 when undecided.
	// Accepted bodies: the subtraction, cmp.Compare of the two keys, or a forwarding call of another comparator
	// (a method expression's thunk, a named comparator) with the two parameters in either order.
	var cmpOrder func(fn *ssa.Function, depth int) int
	cmpOrder = func(fn *ssa.Function, depth int) int {
		if fn == nil || len(fn.Params) != 2 || depth > 3 || len(fn.Blocks) == 0 {
			return 0
		}
		which := func(v ssa.Value) int { // the parameter whose priority v is
			call, ok := v.(*ssa.Call)
			if !ok || an.StaticCallee(&call.Call) == nil || an.Origin(an.StaticCallee(&call.Call)) != an.Origin(prio) || len(call.Call.Args) != 1 {
				return -1
			}
			for i, p := range fn.Params {
				if call.Call.Args[0] == ssa.Value(p) {
					return i
				}
			}
			return -1
		}
		pair := func(x, y ssa.Value) int {
			switch i, j := which(x), which(y); {
			case i == 0 && j == 1:
				return 1
			case i == 1 && j == 0:
				return -1
			}
			return 0
		}
		total := 0
		for n, r := range an.Returns(fn) {
			if len(r.Results) != 1 {
				return 0
			}
			o := 0
			switch v := r.Results[0].(type) {
			case *ssa.BinOp:
				if v.Op == token.SUB {
					o = pair(v.X, v.Y)
				}
			case *ssa.Call:
				args := an.CallArgs(&v.Call)
				if len(args) != 2 {
					return 0
				}
				if an.CalleeName(&v.Call) == "cmp.Compare" {
					o = pair(args[0], args[1])
				} else if g := an.StaticCallee(&v.Call); g != nil && an.InModule(g) {
					i, j := -1, -1
					for k, p := range fn.Params {
						if args[0] == ssa.Value(p) {
							i = k
						}
						if args[1] == ssa.Value(p) {
							j = k
						}
					}
					switch {
					case i == 0 && j == 1:
						o = cmpOrder(an.Origin(g), depth+1)
					case i == 1 && j == 0:
						o = -cmpOrder(an.Origin(g), depth+1)
					}
				}
			}
			if o == 0 || (n > 0 && o != total) {
				return 0
			}
			total = o
		}
		return total
	}
	goodCmp := func(v ssa.Value) bool {
		var fn *ssa.Function
		if mc, ok := v.(*ssa.MakeClosure); ok {
			fn = mc.Fn.(*ssa.Function)
		} else if f, isF := v.(*ssa.Function); isF {
			fn = f
		}
		return cmpOrder(fn, 0) == 1
	}
	spec := &PairSpec{
		Rule: rule,
		IsA: func(f *ssa.Function, in ssa.Instruction) (string, string, bool) {
			// an element replaced by another node (a split puts the new head where the old node stood): the new
			// element may rank differently
			if st, isSt := in.(*ssa.Store); isSt {
				if ia, isIA := st.Addr.(*ssa.IndexAddr); isIA {
					if b, isCh := fieldLoadOf(ia.X, a.NodeT, a.FChildren); isCh {
						return b, "elem-store:" + a.FChildren, true
					}
				}
			}
			base, field, val, ok := fieldStore(in, a.NodeT)
			if !ok || field != a.FChildren {
				return "", "", false
			}
			t := c.O.Of(val)
			if t.Op == "call" && t.S == "builtin:append" {
				return base, "append:" + a.FChildren, true
			}
			// any other new value of the list must be an order-preserving derivation of the old one (a sub-sequence):
			// a removal that moves elements (swap-remove) breaks the kind order just like an insertion
			if !orderPreserving(val, base+"."+a.FChildren, 0) {
				return base, "reorder:" + a.FChildren, true
			}
			return "", "", false
		},
		IsB: func(f *ssa.Function, in ssa.Instruction) (string, bool) {
			call, ok := calleeNamed(in, "slices.SortStableFunc")
			if !ok {
				return "", false
			}
			base, isCh := fieldLoadOf(call.Args[0], a.NodeT, a.FChildren)
			if !isCh || !goodCmp(call.Args[1]) {
				return "", false
			}
			return base, true
		},
	}
	sites := c.RunPair(spec)
	c.reportPair(rule, sites, func(s *pairSite) string {
		return "the child list of " + s.x + " is extended or rearranged (" + s.what + ") and a successful return is reachable without a stable sort of its children by priority(a) − priority(b): a parameter child can precede a literal one"
	})
	// the comparator itself
	n := 0
	for _, f := range c.libFuncs() {
		an.AllInstrs(f, func(in ssa.Instruction) {
			call, ok := calleeNamed(in, "slices.SortStableFunc", "slices.SortFunc", "sort.Slice", "sort.SliceStable")
			if !ok {
				return
			}
			if _, isCh := fieldLoadOf(call.Args[0], a.NodeT, a.FChildren); !isCh {
				return
			}
			n++
			stable := an.CalleeName(call) == "slices.SortStableFunc"
			good := stable && goodCmp(call.Args[1])
			c.R.Add(rule, c.fk(f), "sort:stable,cmp=priority(a)-priority(b)", c.pos(in), good, ifelse(good, "stable sort ascending by priority", "the child list is sorted "+ifelse(stable, "", "unstably ")+"with a comparator that is not priority(a) − priority(b): the kind order (or the registration order inside a kind) is lost"))
		})
	}
	if n == 0 {
		c.R.Add(rule, "pkg:tree", "sort:exists", "-", false, "no sort of a child list exists")
	}
}

// ruleOrderedScan is C02.R4.
func ruleOrderedScan(c *Ctx, rule string) {
	a := c.A
	c.R.Rule(c.R.Property+"."+rule, 3, "alternatives are tried in list order, each at most once; an alternative is given up only by falling back to the next one")
	sites := attemptSites(c)
	for _, s := range sites {
		f, in := s.f, ssa.Instruction(s.in)
		if nodeViaIndex(c, s.child) {
			continue // index branch: before the scan
		}
		// child = load IndexAddr(children, i)
		var idx ssa.Value
		if cu, ok := s.child.(*ssa.UnOp); ok {
			if ia, ok := cu.X.(*ssa.IndexAddr); ok {
				if _, isCh := fieldLoadOf(ia.X, a.NodeT, a.FChildren); isCh {
					idx = ia.Index
				}
			}
		}
		phi, isPhi := idx.(*ssa.Phi)
		if !isPhi {
			// a range loop: index is phi+1 (rangeindex)
			if bo, ok := idx.(*ssa.BinOp); ok && bo.Op == token.ADD {
				if p2, ok := bo.X.(*ssa.Phi); ok && strings.Contains(p2.Comment, "rangeindex") {
					c.R.Add(rule, c.fk(f), "scan:range-over-children", c.pos(in), false, "the ordered scan ranges over all children from position 0: literal children reached through the first-byte index are tried a second time")
					continue
				}
			}
			c.R.Add(rule, c.fk(f), "scan:index", c.pos(in), false, "the scanned child is not children[i] for a loop counter i")
			continue
		}
		startOK, stepOK := false, true
		for _, e := range phi.Edges {
			t := c.O.Of(e).String()
			switch {
			case t == "call<builtin:len>(recv."+a.FIndexes+")":
				startOK = true
			case isPlusOne(e, phi):
			default:
				stepOK = false
			}
		}
		c.R.Add(rule, c.fk(f), "scan:starts-at-len(index)", c.pos(in), startOK, ifelse(startOK, "the scan starts right after the indexed literal children", "the ordered scan does not start at len(indexes): indexed literal children are retried or parameter children skipped"))
		c.R.Add(rule, c.fk(f), "scan:i=i+1", c.pos(in), stepOK, ifelse(stepOK, "the counter only moves forward by one: each child is tried once, in list order", "the scan counter is updated other than by +1: children are skipped, revisited or visited out of order"))
		// loop bound is len(children)
		hb := phi.Block()
		okBound := false
		if ifi, ok := hb.Instrs[len(hb.Instrs)-1].(*ssa.If); ok {
			if bo, ok := ifi.Cond.(*ssa.BinOp); ok && bo.Op == token.LSS && bo.X == ssa.Value(phi) {
				okBound = c.O.Of(bo.Y).String() == "call<builtin:len>(recv."+a.FChildren+")"
			}
		}
		c.R.Add(rule, c.fk(f), "scan:until-len(children)", c.pos(in), okBound, ifelse(okBound, "the scan covers every remaining child", "the ordered scan does not run up to len(children)"))
	}
	// the index branch precedes the scan: no path from a scan attempt back to the index attempt
	for _, s := range sites {
		if !nodeViaIndex(c, s.child) {
			continue
		}
		back := false
		for _, s2 := range sites {
			if s2.f != s.f || nodeViaIndex(c, s2.child) {
				continue
			}
			if (&an.Query{Target: func(t ssa.Instruction) bool { return t == ssa.Instruction(s.in) }}).Search(an.After(s2.in)) != nil {
				back = true
			}
		}
		c.R.Add(rule, c.fk(s.f), "index-branch-before-scan", c.pos(s.in), !back, ifelse(!back, "the indexed literal child is tried first, once", "the indexed literal child can be tried again after the scan started"))
	}
}

func isPlusOne(v ssa.Value, phi *ssa.Phi) bool {
	bo, ok := v.(*ssa.BinOp)
	if !ok || bo.Op != token.ADD || bo.X != ssa.Value(phi) {
		return false
	}
	k, ok := bo.Y.(*ssa.Const)
	return ok && k.Value != nil && k.Int64() == 1
}

var _ = types.Typ

// orderPreserving: v is a sub-sequence (same relative order) of the list with access path src: the list itself, a
// sub-slice, nil / a fresh empty slice, slices.Delete / DeleteFunc / Clone / Clip / Grow of such a value, or the result
// of a module function that returns only such derivations of the parameter receiving it and never stores into its
// elements.
func orderPreserving(v ssa.Value, src string, depth int) bool {
	if depth > 4 {
		return false
	}
	if an.AP(v) == src {
		return true
	}
	switch x := v.(type) {
	case *ssa.Const:
		return x.Value == nil
	case *ssa.MakeSlice:
		return true
	case *ssa.Slice:
		return orderPreserving(x.X, src, depth+1)
	case *ssa.ChangeType:
		return orderPreserving(x.X, src, depth+1)
	case *ssa.Phi:
		for _, e := range x.Edges {
			if !orderPreserving(e, src, depth+1) {
				return false
			}
		}
		return true
	case *ssa.Call:
		switch an.CalleeName(&x.Call) {
		case "slices.Delete", "slices.DeleteFunc", "slices.Clone", "slices.Clip", "slices.Grow", "slices.Compact", "slices.CompactFunc":
			return len(x.Call.Args) > 0 && orderPreserving(x.Call.Args[0], src, depth+1)
		}
		g := an.StaticCallee(&x.Call)
		if g == nil || !an.InModule(g) || len(g.Blocks) == 0 {
			return false
		}
		args := an.CallArgs(&x.Call)
		for pi, par := range g.Params {
			if pi >= len(args) || !orderPreserving(args[pi], src, depth+1) {
				continue
			}
			if _, isSlice := par.Type().Underlying().(*types.Slice); !isSlice {
				continue
			}
			pap := an.AP(par)
			ok := true
			an.AllInstrs(g, func(in ssa.Instruction) {
				if st, isStore := in.(*ssa.Store); isStore {
					if ia, isIA := st.Addr.(*ssa.IndexAddr); isIA && an.AP(ia.X) == pap {
						ok = false // writes an element in place
					}
				}
				if call := an.CallOf(in); call != nil && len(call.Args) > 0 && an.AP(call.Args[0]) == pap {
					switch an.CalleeName(call) {
					case "slices.SortStableFunc", "slices.SortFunc", "slices.Sort", "slices.Reverse", "slices.Insert", "sort.Slice", "sort.SliceStable", "builtin:copy":
						ok = false
					}
					if b, isB := call.Value.(*ssa.Builtin); isB && b.Name() == "copy" {
						ok = false
					}
				}
			})
			for _, r := range an.Returns(g) {
				for _, res := range r.Results {
					if _, isSlice := res.Type().Underlying().(*types.Slice); isSlice && !orderPreserving(res, pap, depth+1) {
						ok = false
					}
				}
			}
			return ok
		}
		return false
	}
	return false
}
