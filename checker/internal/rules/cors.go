package rules

import (
	"fmt"
	"go/constant"
	"go/token"
	"go/types"
	"sort"
	"strings"

	"golang.org/x/tools/go/ssa"

	"muxlint/internal/an"
)

const (
	hACAO = "Access-Control-Allow-Origin"
	hACAC = "Access-Control-Allow-Credentials"
	hACAM = "Access-Control-Allow-Methods"
	hACAH = "Access-Control-Allow-Headers"
	hACEH = "Access-Control-Expose-Headers"
	hACMA = "Access-Control-Max-Age"
	hACRM = "Access-Control-Request-Method"
	hACRH = "Access-Control-Request-Headers"
	hVary = "Vary"
	hOrig = "Origin"
)

func init() {
	register(&Spec{
		ID:          "C11",
		Explanation: "Decides (the decision procedure is loop-free; all rules are path/dominance queries, the header-write census is module-wide): R1 every write of Access-Control-Allow-Origin writes either the constant '*' arriving only over the any-origin edge, or the request's Origin value arriving only through the success edge of a membership test of that very value in the configured list; R2 Allow-Credentials is the constant 'true', only after an origin grant on the same header map and under the configured flag, and '*'+credentials is rejected by sanitize with an error that is propagated up to a panic in NewRouter/NewGroup; R3 every CORS header write is behind the false edge of deny, and deny = (len(Origins)==0); R4 cors.handle is called only on the served edge of Tree.Handler (404/405 never reach it); R5 on a preflight no path reaches the origin grant without the success edges of the method test and of the requested-header test; (A case-sensitive header-name comparison refuses more, not less: it is reported by C12.R1, not here.) R16 two named same-typed values are not handed to each other's slots (OPTIONS builder / 405 builder).",
		Assumptions: commonAssumptions,
		Run: func(c *Ctx) {
			ruleOriginGrant(c, "R1")
			ruleCredentials(c, "R2")
			ruleDeny(c, "R3")
			ruleCorsOnlyServed(c, "R4")
			ruleRefusedPreflights(c, "R5")
			ruleSummaryRebuilt(c, "R6")
			ruleHeaderShortcut(c, "R7")
			ruleGroupOptionOrder(c, "R8")
			ruleSummaryByBuilder(c, "R6b")
			ruleCORSOptionPlumbing(c, "R9")
			ruleInternalKeyIsNotAMethod(c, "R10")
			ruleListHeaderReadCompletely(c, "R11")
			rulePreflightNotAgainstRootUnion(c, "R12")
			ruleResponseHeadersAreNotWiped(c, "R13")
			ruleReadersWriteNothing(c, "R14", "router")
			ruleCallersSlicesAreNotRetained(c, "R15", "WithCORS|NewGroup")
			ruleSameTypedSlotsAreNotCrossed(c, "R16")
			ruleHeaderNameCase(c, "R12")
		},
	})
	register(&Spec{
		ID: "C12",
		Explanation: "Decides: R1 no case-sensitive comparison has an operand derived from Access-Control-Request-Headers (taint from the header read through trimming, splitting, ranging and closure capture), and a case-insensitive comparison exists; R2 the constants added to Vary are exactly the request header names the CORS decision reads; R3 Allow-Methods, Allow-Headers and Max-Age are written only behind the preflight condition, Allow-Origin / Allow-Credentials / Expose-Headers are not; R4 value provenance: Allow-Methods is AllowHeader() of the node whose Methods() was tested, Allow-Headers / Expose-Headers / Max-Age are the strings sanitize derives by Join/Itoa from the configured lists and number, each guarded by its own non-emptiness; R6 completeness: under the assumptions enabled / origin listed / method served / requested headers allowed / own configured value present, every path through the procedure writes each header (Allow-Methods, Allow-Headers, Max-Age, Vary: Access-Control-Request-Method / -Headers on preflights; Allow-Origin, Allow-Credentials, Expose-Headers, Vary: Origin when the origin is picked from the list). " +
			"Not decided: that a browser accepts the result.",
		Assumptions: commonAssumptions,
		Run: func(c *Ctx) {
			ruleHeaderNameCase(c, "R1")
			ruleVary(c, "R2")
			rulePreflightOnly(c, "R3")
			ruleCorsProvenance(c, "R4")
			ruleCorsAlwaysOnServed(c, "R5")
			ruleGrantComplete(c, "R6")
			ruleSummaryRebuilt(c, "R7")
			ruleGroupOptionOrder(c, "R8")
			ruleCredentials(c, "R9")
			ruleSummaryByBuilder(c, "R7b")
			ruleCORSOptionPlumbing(c, "R10")
			ruleEmptyListElementsIgnored(c, "R11")
			ruleNodeMethodSetReadOnce(c, "R12")
			ruleResponseHeadersAreNotWiped(c, "R13")
			ruleReadersWriteNothing(c, "R14", "router")
			ruleCallersSlicesAreNotRetained(c, "R15", "WithCORS|NewGroup")
		},
	})
}

type headerWrite struct {
	f    *ssa.Function
	in   ssa.Instruction
	op   string // Set Add Del map
	name string // constant header name, "" if not constant
	hmap ssa.Value
	val  ssa.Value
	// a write performed by a helper on behalf of its caller (setNonEmpty(h, name, value)): inner is the helper's own
	// write, valParam the helper's parameter that carries the value
	inner    *headerWrite
	valParam *ssa.Parameter
	// generic: the write of a helper whose value is one of its parameters; it is represented by the synthetic writes
	// at the helper's call sites
	generic bool
}

// headerWrites is the module-wide census of response/request header writes.
func (c *Ctx) headerWrites() []*headerWrite {
	var out []*headerWrite
	for _, f := range c.libFuncs() {
		an.AllInstrs(f, func(in ssa.Instruction) {
			if call := an.CallOf(in); call != nil {
				n := an.CalleeName(call)
				for _, op := range []string{"Set", "Add", "Del"} {
					if n == "net/http.Header."+op && len(call.Args) >= 2 {
						hw := &headerWrite{f: f, in: in, op: op, hmap: call.Args[0]}
						if s, ok := strConst(call.Args[1]); ok {
							hw.name = s
						}
						if len(call.Args) > 2 {
							hw.val = call.Args[2]
						}
						out = append(out, hw)
					}
				}
			}
			if mu, ok := in.(*ssa.MapUpdate); ok {
				if isHTTPHeader(mu.Map.Type()) {
					hw := &headerWrite{f: f, in: in, op: "map", hmap: mu.Map, val: mu.Value}
					if s, ok := strConst(mu.Key); ok {
						hw.name = s
					}
					out = append(out, hw)
				}
			}
		})
	}
	// writes through a helper that receives the header map and the header name: every call of the helper with a
	// constant name is a write of that header in the caller
	var synth []*headerWrite
	for _, hw := range out {
		if hw.name != "" && hw.op != "map" {
			// constant name, value handed in: setWithVary(h, key, val, vary) { h.Set(key, val); h.Add("Vary", vary) }
			valPar, isVP := hw.val.(*ssa.Parameter)
			mapPar, isMP := hw.hmap.(*ssa.Parameter)
			if !isVP || !isMP || valPar.Parent() != hw.f || mapPar.Parent() != hw.f {
				continue
			}
			vi, mi := -1, -1
			for i, q := range hw.f.Params {
				if q == valPar {
					vi = i
				}
				if q == mapPar {
					mi = i
				}
			}
			n := 0
			for _, f := range c.libFuncs() {
				an.AllInstrs(f, func(in ssa.Instruction) {
					cc := an.CallOf(in)
					if cc == nil || an.StaticCallee(cc) != hw.f {
						return
					}
					args := an.CallArgs(cc)
					if vi < 0 || mi < 0 || vi >= len(args) || mi >= len(args) {
						return
					}
					n++
					synth = append(synth, &headerWrite{f: f, in: in, op: hw.op, name: hw.name, hmap: args[mi], val: args[vi], inner: hw, valParam: valPar})
				})
			}
			if n > 0 {
				hw.generic = true
			}
			continue
		}
		if hw.name != "" || hw.op == "map" {
			continue
		}
		call := an.CallOf(hw.in)
		namePar, isNP := call.Args[1].(*ssa.Parameter)
		mapPar, isMP := hw.hmap.(*ssa.Parameter)
		if !isNP || !isMP {
			continue
		}
		idx := func(p *ssa.Parameter) int {
			for i, q := range hw.f.Params {
				if q == p {
					return i
				}
			}
			return -1
		}
		ni, mi, vi := idx(namePar), idx(mapPar), -1
		var valPar *ssa.Parameter
		if vp, ok := hw.val.(*ssa.Parameter); ok {
			vi, valPar = idx(vp), vp
		}
		for _, f := range c.libFuncs() {
			an.AllInstrs(f, func(in ssa.Instruction) {
				cc := an.CallOf(in)
				if cc == nil || an.StaticCallee(cc) != hw.f {
					return
				}
				args := an.CallArgs(cc)
				if ni >= len(args) || mi >= len(args) {
					return
				}
				name, isConst := strConst(args[ni])
				if !isConst {
					return
				}
				w := &headerWrite{f: f, in: in, op: hw.op, name: name, hmap: args[mi], inner: hw, valParam: valPar}
				if vi >= 0 && vi < len(args) {
					w.val = args[vi]
				}
				synth = append(synth, w)
			})
		}
	}
	var all []*headerWrite
	for _, hw := range out {
		if !hw.generic {
			all = append(all, hw)
		}
	}
	return append(all, synth...)
}

func isHTTPHeader(t types.Type) bool {
	n, ok := types.Unalias(t).(*types.Named)
	return ok && n.Obj().Pkg() != nil && n.Obj().Pkg().Path() == "net/http" && n.Obj().Name() == "Header"
}

func corsFuncs(c *Ctx) (handle, headerOK, sanitize *ssa.Function) {
	return c.P.MustFunc("mux.(*cors).handle"), c.P.MustFunc("mux.(*cors).headerIsAllowed"), c.P.MustFunc("mux.(*cors).sanitize")
}

// edgeAtoms lists the (condition, truth) facts that hold on edge b->succ:
// the plain condition, or all conjuncts of a short-circuit `&&` phi on its
// true edge (all disjuncts of `||` on its false edge).
func edgeAtoms(b *ssa.BasicBlock, succ int) []struct {
	Cond  ssa.Value
	Truth bool
} {
	type atom = struct {
		Cond  ssa.Value
		Truth bool
	}
	if len(b.Instrs) == 0 {
		return nil
	}
	ifi, ok := b.Instrs[len(b.Instrs)-1].(*ssa.If)
	if !ok {
		return nil
	}
	return valueAtoms(ifi.Cond, succ == 0, 0)
}

// valueAtoms: the facts implied by the boolean value v having the given truth. A phi that merges one computed value
// with constants of the opposite truth (the compiler's `a && b`, `a || b`, or a variable that is preset and assigned
// under a condition: `ok := false; if c { ok = x }`) is true only if that value is, and only if the branch
// conditions that lead around the constant edges were taken.
func valueAtoms(v ssa.Value, truth bool, depth int) []struct {
	Cond  ssa.Value
	Truth bool
} {
	type atom = struct {
		Cond  ssa.Value
		Truth bool
	}
	cv, neg := stripNot(v)
	if neg {
		truth = !truth
	}
	phi, isPhi := cv.(*ssa.Phi)
	if !isPhi || depth > 4 || !isBoolType(phi.Type()) {
		return []atom{{cv, truth}}
	}
	want := "false" // other edges are the constant of the opposite truth
	if !truth {
		want = "true"
	}
	var out []atom
	var computed []ssa.Value
	for i, e := range phi.Edges {
		k, isC := e.(*ssa.Const)
		if !isC || k.Value == nil {
			computed = append(computed, e)
			continue
		}
		if k.Value.ExactString() != want {
			return []atom{{cv, truth}} // not a pure conjunction (disjunction) in this direction
		}
		// the branch that led to this constant was not taken
		pb := phi.Block().Preds[i]
		if len(pb.Instrs) == 0 {
			continue
		}
		if pif, ok := pb.Instrs[len(pb.Instrs)-1].(*ssa.If); ok && len(pb.Succs) == 2 {
			pv, pneg := stripNot(pif.Cond)
			switch phi.Block() {
			case pb.Succs[1]: // the constant arrives over the false edge: the condition held on the other path
				out = append(out, valueAtoms(pv, !pneg, depth+1)...)
			case pb.Succs[0]:
				out = append(out, valueAtoms(pv, pneg, depth+1)...)
			}
		}
	}
	if len(computed) != 1 {
		return []atom{{cv, truth}}
	}
	return append(out, valueAtoms(computed[0], truth, depth+1)...)
}

// edgeHas reports whether the edge establishes a fact accepted by pred.
func edgeHas(b *ssa.BasicBlock, succ int, pred func(cond ssa.Value, truth bool) bool) bool {
	for _, a := range edgeAtoms(b, succ) {
		if pred(a.Cond, a.Truth) {
			return true
		}
	}
	return false
}

// membershipSuccess: the fact (cond,truth) says "v is an element of the list with access path listAP".
func membershipSuccess(cond ssa.Value, truth bool, v ssa.Value, listAP string) bool {
	// the list kept as a set (a map filled from every element of the list): a comma-ok lookup of v, directly or
	// through a method of the same object that returns it
	if setLookupOf(cond, v, listAP, 0) {
		return truth
	}
	if call, ok := cond.(*ssa.Call); ok {
		n := an.CalleeName(&call.Call)
		if n == "slices.Contains" && len(call.Call.Args) == 2 && an.AP(call.Call.Args[0]) == listAP && call.Call.Args[1] == v {
			return truth
		}
		return false
	}
	bo, ok := cond.(*ssa.BinOp)
	if !ok {
		return false
	}
	call, ok := bo.X.(*ssa.Call)
	if !ok || an.CalleeName(&call.Call) != "slices.Index" || len(call.Call.Args) != 2 {
		return false
	}
	if an.AP(call.Call.Args[0]) != listAP || call.Call.Args[1] != v {
		return false
	}
	k, ok := bo.Y.(*ssa.Const)
	if !ok || k.Value == nil {
		return false
	}
	n := k.Int64()
	switch bo.Op {
	case token.LSS: // idx < 0 : member on the false edge
		return !truth && n == 0
	case token.GEQ:
		return truth && n == 0
	case token.GTR:
		return truth && n == -1
	case token.NEQ:
		return truth && n == -1
	case token.EQL:
		return !truth && n == -1
	}
	return false
}

func isHeaderGet(v ssa.Value, name string) bool {
	// a parameter that receives the header value at every call site
	if args := argsOfParam(v); len(args) > 0 {
		for _, a := range args {
			if a == v || !isHeaderGet(a, name) {
				return false
			}
		}
		return true
	}
	// a variable that holds the header value or its "not read" default, the empty string
	if phi, ok := v.(*ssa.Phi); ok {
		n := 0
		for _, e := range phi.Edges {
			if s, isC := strConst(e); isC && s == "" {
				continue
			}
			if e == v || !isHeaderGet(e, name) {
				return false
			}
			n++
		}
		return n > 0
	}
	// a result of a module function that returns the header value on every path
	idx := 0
	if ex, isEx := v.(*ssa.Extract); isEx {
		idx = ex.Index
		v = ex.Tuple
	}
	call, ok := v.(*ssa.Call)
	if !ok {
		return false
	}
	if g := an.StaticCallee(&call.Call); g != nil && an.InModule(g) && len(g.Blocks) > 0 {
		rets := an.Returns(g)
		if len(rets) == 0 {
			return false
		}
		for _, r := range rets {
			if idx >= len(r.Results) || !isHeaderGet(an.ReturnValue(r, idx), name) {
				return false
			}
		}
		return true
	}
	if n := an.CalleeName(&call.Call); n != "net/http.Header.Get" && n != "net/http.Header.Values" {
		return false
	}
	s, ok := strConst(call.Call.Args[1])
	return ok && s == name
}

// requestHeaderRead: the instruction reads a request header by constant name (Get: first line, Values: all lines).
func requestHeaderRead(in ssa.Instruction) (name string, all bool, ok bool) {
	call, isCall := in.(*ssa.Call)
	if !isCall {
		return "", false, false
	}
	n := an.CalleeName(&call.Call)
	if n != "net/http.Header.Get" && n != "net/http.Header.Values" {
		return "", false, false
	}
	s, isC := strConst(call.Call.Args[1])
	if !isC || isResponseHeaderMap(call.Call.Args[0]) {
		return "", false, false
	}
	return s, n == "net/http.Header.Values", true
}

// ruleOriginGrant is C11.R1.
func ruleOriginGrant(c *Ctx, rule string) {
	c.R.Rule(c.R.Property+"."+rule, 1, "Access-Control-Allow-Origin is only ever '*' (when configured) or the request's own Origin when exactly that origin is in the configured list")
	for _, hw := range c.headerWrites() {
		if hw.name != hACAO || hw.op == "Del" {
			continue
		}
		hw := hw
		type leaf struct {
			v    ssa.Value
			edge func(b *ssa.BasicBlock, succ int) bool // nil: the write itself
		}
		var leaves []leaf
		if phi, ok := hw.val.(*ssa.Phi); ok {
			for i, e := range phi.Edges {
				pb := phi.Block().Preds[i]
				leaves = append(leaves, leaf{e, func(b *ssa.BasicBlock, succ int) bool { return b == pb && b.Succs[succ] == phi.Block() }})
			}
		} else {
			leaves = append(leaves, leaf{hw.val, nil})
		}
		for _, lf := range leaves {
			lf := lf
			var guard func(b *ssa.BasicBlock, succ int) bool
			desc := ""
			if done := originGrantThroughHelper(c, rule, hw, lf.v, lf.edge); done {
				continue
			}
			if s, ok := strConst(lf.v); ok && s == "*" {
				desc = "const:*"
				guard = func(b *ssa.BasicBlock, succ int) bool {
					return edgeHas(b, succ, func(cond ssa.Value, truth bool) bool { return an.AP(cond) == "recv.anyOrigins" && truth })
				}
			} else if isHeaderGet(lf.v, hOrig) {
				desc = "request-origin"
				guard = func(b *ssa.BasicBlock, succ int) bool {
					return edgeHas(b, succ, func(cond ssa.Value, truth bool) bool { return membershipSuccess(cond, truth, lf.v, "recv.Origins") })
				}
			} else {
				c.R.Add(rule, c.fk(hw.f), "write:"+hACAO+"/value:"+an.AP(lf.v), c.pos(hw.in), false, "Access-Control-Allow-Origin is written with a value that is neither the constant '*' nor the request's Origin header: "+c.O.Of(lf.v).String())
				continue
			}
			q := &an.Query{BlockEdge: guard, Deep: deepDefault}
			if lf.edge != nil {
				q.TargetEdge = lf.edge
			} else {
				q.Target = func(in ssa.Instruction) bool { return in == hw.in }
			}
			root := hw.f
			if h, _, _ := corsFuncs(c); h != hw.f {
				if _, reach := an.NewGraph(c.P).Reach([]*ssa.Function{h}, nil)[hw.f]; reach {
					root = h
				}
			}
			path := q.Search(an.Entry(root))
			o := c.R.Add(rule, c.fk(hw.f), "write:"+hACAO+"/value:"+desc, c.pos(hw.in), path == nil, ifelse(path == nil, ifelse(desc == "const:*", "'*' arrives only over the any-origin edge", "the request's Origin arrives only through the success edge of its membership test in the configured list"), ifelse(desc == "const:*", "'*' can be granted although '*' was not configured", "the request's Origin can be echoed without having passed the membership test in the configured list")))
			if path != nil {
				o.Path = c.P.PathString(path)
			}
		}
	}
}

// originGrantThroughHelper: the granted value is one result of a helper with several results — `v, ok := c.allowed(r)`.
// Every return of the helper is a leaf: it is skipped when a boolean sibling result that the caller requires to be
// true before the write is the constant false there; '*' must be returned only over the any-origin edge inside the
// helper; the request's Origin only behind its membership test, inside the helper or as that required sibling.
func originGrantThroughHelper(c *Ctx, rule string, hw *headerWrite, v ssa.Value, edge func(b *ssa.BasicBlock, succ int) bool) bool {
	ex, ok := v.(*ssa.Extract)
	if !ok {
		return false
	}
	call, ok := ex.Tuple.(*ssa.Call)
	if !ok {
		return false
	}
	g := an.StaticCallee(&call.Call)
	if g == nil || !an.InModule(g) || len(g.Blocks) == 0 || call.Parent() != hw.f {
		return false
	}
	g = an.Origin(g)
	// sibling results the caller requires to be true
	required := map[int]bool{}
	for _, ref := range *call.Referrers() {
		sib, ok := ref.(*ssa.Extract)
		if !ok || sib.Index == ex.Index || !isBoolType(sib.Type()) {
			continue
		}
		q := &an.Query{BlockEdge: func(b *ssa.BasicBlock, succ int) bool {
			return edgeHas(b, succ, func(cond ssa.Value, truth bool) bool { return cond == ssa.Value(sib) && truth })
		}}
		if edge != nil {
			q.TargetEdge = edge
		} else {
			q.Target = func(in ssa.Instruction) bool { return in == hw.in }
		}
		if q.Search(an.After(call)) == nil {
			required[sib.Index] = true
		}
	}
	for ri, r := range an.Returns(g) {
		r := r
		if ex.Index >= len(r.Results) {
			return false
		}
		dead := false
		for j := range required {
			if k, isC := r.Results[j].(*ssa.Const); isC && k.Value != nil && k.Value.ExactString() == "false" {
				dead = true
			}
		}
		if dead {
			continue
		}
		rv := r.Results[ex.Index]
		within := func(guard func(b *ssa.BasicBlock, succ int) bool) []an.Point {
			return (&an.Query{BlockEdge: guard, Target: func(in ssa.Instruction) bool { return in == ssa.Instruction(r) }}).Search(an.Entry(g))
		}
		construct := fmt.Sprintf("write:%s/value:result-of:%s/return#%d", hACAO, an.FuncKey(g), ri)
		switch {
		case func() bool { s, ok := strConst(rv); return ok && s == "*" }():
			path := within(func(b *ssa.BasicBlock, succ int) bool {
				return edgeHas(b, succ, func(cond ssa.Value, truth bool) bool { return an.AP(cond) == "recv.anyOrigins" && truth })
			})
			o := c.R.Add(rule, c.fk(hw.f), construct+"/const:*", c.pos(hw.in), path == nil, ifelse(path == nil, "'*' is returned only over the any-origin edge", "'*' can be granted although '*' was not configured"))
			if path != nil {
				o.Path = c.P.PathString(path)
			}
		case isHeaderGet(rv, hOrig):
			good := false
			for j := range required {
				if membershipSuccess(r.Results[j], true, rv, "recv.Origins") {
					good = true
				}
			}
			var path []an.Point
			if !good {
				path = within(func(b *ssa.BasicBlock, succ int) bool {
					return edgeHas(b, succ, func(cond ssa.Value, truth bool) bool { return membershipSuccess(cond, truth, rv, "recv.Origins") })
				})
				good = path == nil
			}
			o := c.R.Add(rule, c.fk(hw.f), construct+"/request-origin", c.pos(hw.in), good, ifelse(good, "the request's Origin is handed out only together with (or behind) its membership test in the configured list, which the caller requires", "the request's Origin can be echoed without having passed the membership test in the configured list"))
			if path != nil {
				o.Path = c.P.PathString(path)
			}
		default:
			c.R.Add(rule, c.fk(hw.f), construct, c.pos(hw.in), false, "Access-Control-Allow-Origin is written with a value that is neither the constant '*' nor the request's Origin header: "+c.O.Of(rv).String())
		}
	}
	return true
}

// errorPropagated: every path from the call to a successful return passes the err == nil edge.
func errorPropagated(c *Ctx, f *ssa.Function, call *ssa.Call) (bool, string) {
	errAP := an.AP(call)
	// tuple results: find the error Extract
	var errVals []ssa.Value
	if _, isTuple := call.Type().(*types.Tuple); isTuple {
		for _, r := range *call.Referrers() {
			if ex, ok := r.(*ssa.Extract); ok && types.Identical(ex.Type(), types.Universe.Lookup("error").Type()) {
				errVals = append(errVals, ex)
			}
		}
		if len(errVals) == 0 {
			return false, "error result is discarded"
		}
	} else {
		errVals = append(errVals, call)
	}
	_ = errAP
	path := (&an.Query{
		Target: func(t ssa.Instruction) bool {
			r, ok := t.(*ssa.Return)
			return ok && (an.ErrorResultIndex(f) < 0 || an.IsSuccessReturn(r))
		},
		BlockEdge: func(b *ssa.BasicBlock, succ int) bool {
			cond, onTrue := an.EdgeCond(b, succ)
			if cond == nil {
				return false
			}
			x, k, eq, ok := an.CondAtom(cond)
			if !ok || k.Value != nil {
				return false
			}
			for _, ev := range errVals {
				if x == ev {
					return eq == onTrue
				}
			}
			return false
		},
	}).Search(an.After(call))
	if path != nil {
		return false, "a successful return is reachable without the err == nil edge: " + c.P.PathString(path)
	}
	return true, ""
}

// ruleCredentials is C11.R2.
func ruleCredentials(c *Ctx, rule string) {
	handle, _, sanitize := corsFuncs(c)
	_ = handle
	c.R.Rule(c.R.Property+"."+rule+"a", 1, "Access-Control-Allow-Credentials: true only ever accompanies an echoed, listed origin")
	c.R.Rule(c.R.Property+"."+rule+"b", 4, "'*' with credentials is rejected at configuration time and the rejection cannot be ignored")
	writes := c.headerWrites()
	for _, hw := range writes {
		if hw.name != hACAC || hw.op == "Del" {
			continue
		}
		s, isConst := strConst(hw.val)
		okVal := isConst && s == "true"
		roots := c.corsRootsFor(hw.f)
		domOrigin := an.DominatedByInstrDeep(roots, hw.in, func(x ssa.Instruction) bool {
			for _, w := range writes {
				if w.in == x && w.name == hACAO && w.op != "Del" {
					return true
				}
			}
			return false
		}, deepDefault)
		domFlag := an.DominatedByEdgeDeep(roots, hw.in, func(b *ssa.BasicBlock, succ int) bool {
			return edgeHas(b, succ, func(cond ssa.Value, truth bool) bool { return an.AP(cond) == "recv.AllowCredentials" && truth })
		}, deepDefault)
		good := okVal && domOrigin && domFlag
		var why []string
		if !okVal {
			why = append(why, "value is not the constant \"true\"")
		}
		if !domOrigin {
			why = append(why, "not preceded by an origin grant on the same header map on every path")
		}
		if !domFlag {
			why = append(why, "not behind the configured AllowCredentials flag")
		}
		c.R.Add(rule+"a", c.fk(hw.f), "write:"+hACAC, c.pos(hw.in), good, ifelse(good, "constant \"true\", after the origin grant, behind the flag", "credentials can be granted "+strings.Join(why, "; ")))
	}
	// sanitize rejects '*' + credentials
	assume := func(cond ssa.Value) (bool, bool) {
		v, neg := stripNot(cond)
		if ap := an.AP(v); ap == "recv.anyOrigins" || ap == "recv.AllowCredentials" {
			return !neg, true
		}
		return false, false
	}
	path := (&an.Query{Assume: assume, Deep: deepDefault, Target: func(t ssa.Instruction) bool {
		r, ok := t.(*ssa.Return)
		return ok && t.Parent() == sanitize && an.IsSuccessReturn(r)
	}}).Search(an.Entry(sanitize))
	o := c.R.Add(rule+"b", c.fk(sanitize), "anyOrigins&&AllowCredentials/returns-error", c.P.Pos(sanitize.Pos()), path == nil, ifelse(path == nil, "with any-origin and credentials no successful return is reachable", "a configuration with origin '*' and credentials is accepted"))
	if path != nil {
		o.Path = c.P.PathString(path)
	}
	// anyOrigins is set whenever '*' is in the list: the store of true is behind Contains(Origins, "*") only, and nothing resets it
	setOK := false
	sanitizeInstrs(c, sanitize, func(in ssa.Instruction) {
		if base, field, val, ok := fieldStoreAny(in); ok && base == "recv" && field == "anyOrigins" {
			k, isC := val.(*ssa.Const)
			if isC && k.Value != nil && k.Value.ExactString() == "true" {
				dom := an.DominatedByEdge(in, func(b *ssa.BasicBlock, succ int) bool {
					return edgeHas(b, succ, func(cond ssa.Value, truth bool) bool {
						call, ok := cond.(*ssa.Call)
						if !ok {
							return false
						}
						// membership of the constant "*" in the set kept for the list
						if len(call.Call.Args) == 2 {
							if s, isS := strConst(call.Call.Args[1]); isS && s == "*" && setLookupOf(cond, call.Call.Args[1], "recv.Origins", 0) {
								return truth
							}
						}
						if an.CalleeName(&call.Call) != "slices.Contains" {
							return false
						}
						s, isS := strConst(call.Call.Args[1])
						return truth && isS && s == "*" && an.AP(call.Call.Args[0]) == "recv.Origins"
					})
				})
				// and every path on which '*' is contained sets it: no path from that true edge to a return avoiding the store
				setOK = dom
			} else {
				setOK = false
			}
		}
	})
	c.R.Add(rule+"b", c.fk(sanitize), "anyOrigins=Contains(Origins,*)", c.P.Pos(sanitize.Pos()), setOK, ifelse(setOK, "the any-origin flag is set exactly behind Contains(Origins, \"*\")", "the any-origin flag is not derived from the presence of '*' in the configured origins"))
	// propagation of the error up to a panic: every caller of an error-returning function of the chain continues
	// only on err == nil; callers that return an error themselves extend the chain; the constructors end it
	chain := []*ssa.Function{sanitize}
	seenFn := map[*ssa.Function]bool{sanitize: true}
	reached := map[string]bool{}
	for len(chain) > 0 {
		g := chain[0]
		chain = chain[1:]
		for _, f := range c.libFuncs() {
			an.AllInstrs(f, func(in ssa.Instruction) {
				call, ok := in.(*ssa.Call)
				if !ok {
					return
				}
				if _, is := calleeIs(in, g); !is {
					return
				}
				ok2, why := errorPropagated(c, f, call)
				c.R.Add(rule+"b", c.fk(f), "call:"+an.FuncKey(g)+"/error-not-dropped", c.pos(in), ok2, ifelse(ok2, "continues only on err == nil (returns or panics with the error otherwise)", "the configuration error can be dropped: "+why))
				reached[c.fk(f)] = true
				if an.ErrorResultIndex(f) >= 0 && !seenFn[f] {
					seenFn[f] = true
					chain = append(chain, f)
				}
			})
		}
	}
	// a function without an error result that went through the chain (it panics with the error) covers its callers
	for changed := true; changed; {
		changed = false
		for _, f := range c.libFuncs() {
			if reached[c.fk(f)] {
				continue
			}
			an.AllInstrs(f, func(in ssa.Instruction) {
				if call := an.CallOf(in); call != nil {
					if g := an.StaticCallee(call); g != nil && reached[an.FuncKey(g)] && an.ErrorResultIndex(g) < 0 && !reached[c.fk(f)] {
						reached[c.fk(f)] = true
						changed = true
					}
				}
			})
		}
	}
	for _, ctor := range []string{"mux.NewRouter", "mux.NewGroup"} {
		c.R.Add(rule+"b", ctor, "configuration-validated", c.P.Pos(c.P.MustFunc(ctor).Pos()), reached[ctor], ifelse(reached[ctor], "the constructor runs the validated option builder", ctor+" no longer goes through the validation of the CORS configuration: '*' with credentials is accepted"))
	}
}

// fieldStoreAny decodes X.f = v for any struct.
func fieldStoreAny(in ssa.Instruction) (base, field string, val ssa.Value, ok bool) {
	st, isStore := in.(*ssa.Store)
	if !isStore {
		return "", "", nil, false
	}
	fa, isFA := st.Addr.(*ssa.FieldAddr)
	if !isFA {
		return "", "", nil, false
	}
	return an.AP(fa.X), an.FieldName(fa.X.Type(), fa.Field), st.Val, true
}

func isCorsHeader(name string) bool {
	return strings.HasPrefix(name, "Access-Control-") || name == hVary
}

// ruleDeny is C11.R3.
func ruleDeny(c *Ctx, rule string) {
	handle, headerOK, sanitize := corsFuncs(c)
	c.R.Rule(c.R.Property+"."+rule, 6, "a router without configured origins never sends CORS headers")
	g := an.NewGraph(c.P)
	reach := g.Reach([]*ssa.Function{handle}, nil)
	_ = headerOK
	for _, hw := range c.headerWrites() {
		if _, in := reach[hw.f]; !in || !isCorsHeader(hw.name) {
			continue
		}
		dom := an.DominatedByEdgeDeep([]*ssa.Function{handle}, hw.in, func(b *ssa.BasicBlock, succ int) bool {
			return edgeHas(b, succ, func(cond ssa.Value, truth bool) bool { return an.AP(cond) == "recv.deny" && !truth })
		}, deepDefault)
		c.R.Add(rule, c.fk(hw.f), "write:"+hw.name+"/behind:!deny", c.pos(hw.in), dom, ifelse(dom, "dominated by the false edge of deny", "a CORS header can be written although no origin is configured (deny)"))
	}
	// CORS headers are written nowhere else
	for _, hw := range c.headerWrites() {
		if _, in := reach[hw.f]; in || !strings.HasPrefix(hw.name, "Access-Control-") {
			continue
		}
		c.R.Add(rule, c.fk(hw.f), "write:"+hw.name+"/outside-cors", c.pos(hw.in), false, "a CORS response header is written outside the CORS decision procedure: it bypasses deny, the origin test and the preflight tests")
	}
	okDeny := false
	sanitizeInstrs(c, sanitize, func(in ssa.Instruction) {
		if base, field, val, ok := fieldStoreAny(in); ok && base == "recv" && field == "deny" {
			t := c.O.Of(val).String()
			okDeny = t == "binop<==>(call<builtin:len>(recv.Origins), 0)"
			for setAP, listAP := range derivedSets {
				// the set has an element iff the list has one
				if listAP == "recv.Origins" && t == "binop<==>(call<builtin:len>("+setAP+"), 0)" {
					okDeny = true
				}
			}
		}
	})
	c.R.Add(rule, c.fk(sanitize), "deny=len(Origins)==0", c.P.Pos(sanitize.Pos()), okDeny, ifelse(okDeny, "deny is stored as len(Origins) == 0", "deny is not derived from the emptiness of the configured origins"))
}

// ruleCorsOnlyServed is C11.R4.
func ruleCorsOnlyServed(c *Ctx, rule string) {
	handle, _, _ := corsFuncs(c)
	c.R.Rule(c.R.Property+"."+rule, 1, "404 and 405 responses never carry Access-Control-Allow-Origin: CORS is applied only when a handler for the method exists")
	for _, f := range c.libFuncs() {
		an.AllInstrs(f, func(in ssa.Instruction) {
			if _, ok := calleeIs(in, handle); !ok {
				return
			}
			dom := an.DominatedByEdgeDeep(c.rootsOf(f, 3), in, func(b *ssa.BasicBlock, succ int) bool {
				return edgeHas(b, succ, func(cond ssa.Value, truth bool) bool {
					ex, ok := cond.(*ssa.Extract)
					if !ok || !truth {
						return false
					}
					call, ok := ex.Tuple.(*ssa.Call)
					if !ok {
						return false
					}
					g := an.StaticCallee(&call.Call)
					return g == c.A.TreeHandler && ex.Index == 2
				})
			}, deepDefault)
			c.R.Add(rule, c.fk(f), "call:"+an.FuncKey(handle)+"/behind:served", c.pos(in), dom, ifelse(dom, "dominated by the true edge of Tree.Handler's served flag", "the CORS procedure runs for 404/405 responses too"))
		})
	}
}

func preflightAssume(cond ssa.Value) (bool, bool) {
	v, neg := stripNot(cond)
	bo, ok := v.(*ssa.BinOp)
	if !ok || (bo.Op != token.EQL && bo.Op != token.NEQ) {
		return false, false
	}
	k, isC := bo.Y.(*ssa.Const)
	if !isC {
		return false, false
	}
	s, isS := strConst(k)
	if !isS {
		return false, false
	}
	holdsIfEq := func(eq bool) (bool, bool) {
		val := (bo.Op == token.EQL) == eq
		return val != neg, true
	}
	switch {
	case strings.HasSuffix(an.AP(bo.X), ".Method") && s == "OPTIONS":
		return holdsIfEq(true) // method is OPTIONS
	case isHeaderGet(bo.X, hACRM) && s == "":
		return holdsIfEq(false) // request method header not empty
	case strings.HasSuffix(an.AP(bo.X), ".URL.Path") && (s == "*" || s == ""):
		return holdsIfEq(false) // path is not * (nor the empty path, which the tree maps to the same node)
	}
	return false, false
}

// ruleRefusedPreflights is C11.R5.
func ruleRefusedPreflights(c *Ctx, rule string) {
	handle, headerOK, _ := corsFuncs(c)
	c.R.Rule(c.R.Property+"."+rule, 2, "a preflight for a method the route does not serve, or asking for a header outside the allowed list, never carries Access-Control-Allow-Origin")
	var grants []ssa.Instruction
	reachH := an.NewGraph(c.P).Reach([]*ssa.Function{handle}, nil)
	for _, hw := range c.headerWrites() {
		if _, in := reachH[hw.f]; in && hw.name == hACAO && hw.op != "Del" {
			grants = append(grants, hw.in)
		}
	}
	if len(grants) == 0 {
		an.Fatalf("UNRESOLVED anchor: no Access-Control-Allow-Origin write in %s", c.fk(handle))
	}
	isGrant := func(in ssa.Instruction) bool {
		for _, g := range grants {
			if g == in {
				return true
			}
		}
		return false
	}
	tests := []struct {
		name  string
		guard func(cond ssa.Value, truth bool) bool
		bad   string
	}{
		{"method-test", func(cond ssa.Value, truth bool) bool {
			// reqMethod ∈ node.Methods()
			var list, v ssa.Value
			if call, ok := cond.(*ssa.Call); ok && an.CalleeName(&call.Call) == "slices.Contains" {
				list, v = call.Call.Args[0], call.Call.Args[1]
			} else if bo, ok := cond.(*ssa.BinOp); ok {
				if call, ok := bo.X.(*ssa.Call); ok && an.CalleeName(&call.Call) == "slices.Index" {
					list, v = call.Call.Args[0], call.Call.Args[1]
				}
			}
			if list == nil || !isHeaderGet(v, hACRM) {
				return false
			}
			lc, ok := list.(*ssa.Call)
			if !ok || an.CalleeName(&lc.Call) != "invoke:types.Node.Methods" {
				return false
			}
			return membershipSuccess(cond, truth, v, an.AP(list))
		}, "a preflight for a method the route does not serve still reaches the origin grant"},
		{"requested-headers-test", func(cond ssa.Value, truth bool) bool {
			call, ok := cond.(*ssa.Call)
			if !ok {
				return false
			}
			g := an.StaticCallee(&call.Call)
			return g == headerOK && truth
		}, "a preflight asking for a header outside the allowed list still reaches the origin grant"},
	}
	for _, t := range tests {
		t := t
		path := (&an.Query{
			Assume:    preflightAssume,
			Target:    isGrant,
			BlockEdge: func(b *ssa.BasicBlock, succ int) bool { return edgeHas(b, succ, t.guard) },
			Deep:      deepDefault,
		}).Search(an.Entry(handle))
		o := c.R.Add(rule, c.fk(handle), "preflight/grant-requires:"+t.name, c.P.Pos(handle.Pos()), path == nil, ifelse(path == nil, "on a preflight the origin grant is reachable only through the success edge of the "+t.name, t.bad))
		if path != nil {
			o.Path = c.P.PathString(path)
		}
	}
}

// ---- C12 ----

var caseNormalisers = map[string]bool{"strings.ToLower": true, "strings.ToUpper": true, "net/http.CanonicalHeaderKey": true, "net/textproto.CanonicalMIMEHeaderKey": true}
var caseInsensitiveCmp = map[string]bool{"strings.EqualFold": true}
var caseSensitiveCmp = map[string]bool{"slices.Index": true, "slices.Contains": true, "strings.Contains": true, "strings.HasPrefix": true, "strings.HasSuffix": true, "strings.Compare": true, "slices.BinarySearch": true}

// ruleHeaderNameCase is C12.R1 / C11.R6.
func ruleHeaderNameCase(c *Ctx, rule string) {
	handle, _, _ := corsFuncs(c)
	c.R.Rule(c.R.Property+"."+rule, 1, "requested header names are compared case-insensitively")
	g := an.NewGraph(c.P)
	reach := g.Reach([]*ssa.Function{handle}, nil)
	tainted := map[ssa.Value]bool{}
	normal := map[ssa.Value]bool{}
	untrimmed := map[ssa.Value]bool{} // items of a split list that did not pass TrimSpace yet
	funcs := an.SortedFuncs(reach)
	// a local variable (cell) that is re-assigned (`v = strings.TrimSpace(v)`): at a use it holds an untrimmed item iff
	// an untrimmed store reaches the use without a trimmed store to the same cell in between
	cellUntrimmedAt := func(cell *ssa.Alloc, use ssa.Instruction) bool {
		for _, ref := range *cell.Referrers() {
			st, ok := ref.(*ssa.Store)
			if !ok || st.Addr != ssa.Value(cell) || !untrimmed[st.Val] {
				continue
			}
			path := (&an.Query{
				Target: func(t ssa.Instruction) bool { return t == use },
				Block: func(t ssa.Instruction) bool {
					s2, ok := t.(*ssa.Store)
					return ok && s2.Addr == ssa.Value(cell) && !untrimmed[s2.Val]
				},
			}).Search(an.After(st))
			if path != nil {
				return true
			}
		}
		return false
	}
	for changed := true; changed; {
		changed = false
		mark := func(m map[ssa.Value]bool, v ssa.Value) {
			if !m[v] {
				m[v] = true
				changed = true
			}
		}
		for _, f := range funcs {
			an.AllInstrs(f, func(in ssa.Instruction) {
				v, isVal := in.(ssa.Value)
				if !isVal {
					return
				}
				if isHeaderGet(v, hACRH) {
					mark(tainted, v)
					return
				}
				anyT, allN := false, true
				for _, op := range in.Operands(nil) {
					if *op == nil {
						continue
					}
					if tainted[*op] {
						anyT = true
						if !normal[*op] {
							allN = false
						}
					}
				}
				if !anyT {
					return
				}
				switch x := in.(type) {
				case *ssa.Call:
					n := an.CalleeName(&x.Call)
					if g := an.StaticCallee(&x.Call); g != nil && an.InModule(g) {
						// the callee's parameters inherit the arguments' marks
						for ai, arg := range an.CallArgs(&x.Call) {
							if ai < len(g.Params) && tainted[arg] {
								mark(tainted, g.Params[ai])
								if normal[arg] {
									mark(normal, g.Params[ai])
								}
								if untrimmed[arg] {
									mark(untrimmed, g.Params[ai])
								}
							}
						}
						// boolean helpers comparing names: their result is not a name
						if b, ok := x.Type().Underlying().(*types.Basic); ok && b.Kind() == types.Bool {
							return
						}
					}
					if n == "builtin:len" || caseInsensitiveCmp[n] || caseSensitiveCmp[n] {
						return
					}
					mark(tainted, v)
					if caseNormalisers[n] || allN {
						mark(normal, v)
					}
					switch n {
					case "strings.Split", "strings.SplitN", "strings.SplitAfter":
						mark(untrimmed, v)
					case "strings.TrimSpace", "strings.Trim", "strings.Fields", "net/textproto.TrimString":
					default:
						for _, op := range x.Call.Args {
							if untrimmed[op] {
								mark(untrimmed, v)
							}
						}
					}
				case *ssa.MakeClosure:
					fn := x.Fn.(*ssa.Function)
					for i, b := range x.Bindings {
						if tainted[b] && i < len(fn.FreeVars) {
							mark(tainted, fn.FreeVars[i])
							if normal[b] {
								mark(normal, fn.FreeVars[i])
							}
							if cell, isCell := b.(*ssa.Alloc); isCell {
								if cellUntrimmedAt(cell, in) {
									mark(untrimmed, fn.FreeVars[i])
								}
							} else if untrimmed[b] {
								mark(untrimmed, fn.FreeVars[i])
							}
						}
					}
				case *ssa.BinOp:
					if x.Op == token.ADD {
						mark(tainted, v)
					}
				case *ssa.Store:
				default:
					mark(tainted, v)
					if allN {
						mark(normal, v)
					}
					if ld, isLoad := in.(*ssa.UnOp); isLoad && ld.Op == token.MUL {
						if cell, isCell := ld.X.(*ssa.Alloc); isCell {
							if cellUntrimmedAt(cell, in) {
								mark(untrimmed, v)
							}
							return
						}
					}
					for _, op := range in.Operands(nil) {
						if *op != nil && untrimmed[*op] {
							mark(untrimmed, v)
						}
					}
				}
			})
			// stores into cells: a tainted value stored into an Alloc taints the cell
			an.AllInstrs(f, func(in ssa.Instruction) {
				if st, ok := in.(*ssa.Store); ok && tainted[st.Val] {
					mark(tainted, st.Addr)
					if normal[st.Val] {
						mark(normal, st.Addr)
					}
					if untrimmed[st.Val] {
						mark(untrimmed, st.Addr)
					}
				}
			})
		}
	}
	insensitive := 0
	for _, f := range funcs {
		an.AllInstrs(f, func(in ssa.Instruction) {
			var operands []ssa.Value
			kind := ""
			switch x := in.(type) {
			case *ssa.Call:
				n := an.CalleeName(&x.Call)
				if caseInsensitiveCmp[n] {
					for _, a := range x.Call.Args {
						if tainted[a] {
							insensitive++
							c.R.Add(rule, c.fk(f), "compare:"+shortCallee(n), c.pos(in), !untrimmed[a], ifelse(!untrimmed[a], "case-insensitive comparison of a trimmed requested header name", "an item of the comma-separated Access-Control-Request-Headers list is compared without trimming it: browsers send 'a, b' with a space after the comma, so the second name never matches"))
							return
						}
					}
					return
				}
				if !caseSensitiveCmp[n] {
					return
				}
				operands, kind = x.Call.Args, shortCallee(n)
			case *ssa.BinOp:
				if x.Op != token.EQL && x.Op != token.NEQ {
					return
				}
				if b, ok := x.X.Type().Underlying().(*types.Basic); !ok || b.Info()&types.IsString == 0 {
					return
				}
				// emptiness tests are not name comparisons
				if s, ok := strConst(x.Y); ok && s == "" {
					return
				}
				if s, ok := strConst(x.X); ok && s == "" {
					return
				}
				operands, kind = []ssa.Value{x.X, x.Y}, x.Op.String()
			case *ssa.Lookup:
				if _, isMap := x.X.Type().Underlying().(*types.Map); !isMap {
					return
				}
				operands, kind = []ssa.Value{x.Index}, "map-lookup"
			default:
				return
			}
			var bad ssa.Value
			anyT := false
			for _, op := range operands {
				if tainted[op] {
					anyT = true
					if !normal[op] {
						bad = op
					}
				}
			}
			if !anyT {
				return
			}
			if bad == nil {
				insensitive++
			}
			c.R.Add(rule, c.fk(f), "compare:"+kind, c.pos(in), bad == nil, ifelse(bad == nil, "operands are case-normalised first", "a header name taken from Access-Control-Request-Headers is compared case-sensitively ("+kind+"): a browser's lower-case 'content-type' is refused against a configured 'Content-Type'"))
		})
	}
	failing := false
	for _, o := range c.R.Obls {
		if o.Rule == c.R.Property+"."+rule && !o.OK {
			failing = true
		}
	}
	if insensitive == 0 && !failing {
		c.R.Add(rule, c.fk(handle), "case-insensitive-comparison-exists", c.P.Pos(handle.Pos()), false, "no case-insensitive comparison of the requested header names exists in the CORS decision procedure")
	}
}

// ruleVary is C12.R2.
func ruleVary(c *Ctx, rule string) {
	handle, _, _ := corsFuncs(c)
	c.R.Rule(c.R.Property+"."+rule, 3, "Vary names the request headers the answer depended on")
	g := an.NewGraph(c.P)
	reach := g.Reach([]*ssa.Function{handle}, nil)
	reads := map[string]string{}
	for _, f := range an.SortedFuncs(reach) {
		an.AllInstrs(f, func(in ssa.Instruction) {
			if s, _, ok := requestHeaderRead(in); ok {
				reads[s] = c.pos(in)
			}
		})
	}
	varied := map[string]bool{}
	for _, hw := range c.headerWrites() {
		if _, in := reach[hw.f]; !in || hw.name != hVary {
			continue
		}
		if hw.op != "Add" {
			c.R.Add(rule, c.fk(hw.f), "vary:"+hw.op, c.pos(hw.in), false, "Vary is written with "+hw.op+" instead of Add: the names added earlier on the same response (Access-Control-Request-Method / -Headers on a preflight, or an application's own Vary) are overwritten")
			continue
		}
		s, isC := strConst(hw.val)
		if !isC {
			c.R.Add(rule, c.fk(hw.f), "vary:non-constant", c.pos(hw.in), false, "Vary is extended with a non-constant value")
			continue
		}
		varied[s] = true
		_, isRead := reads[s]
		c.R.Add(rule, c.fk(hw.f), "vary:"+s+"/is-a-consulted-request-header", c.pos(hw.in), isRead, ifelse(isRead, "request header read at "+reads[s], "Vary names '"+s+"', which is not a request header the CORS decision reads (it reads "+strings.Join(sortedKeys(reads), ", ")+"): caches key the response on the wrong header and may replay one origin's grant to another"))
	}
	for _, name := range sortedKeys(reads) {
		c.R.Add(rule, c.fk(handle), "read:"+name+"/named-in-vary", reads[name], varied[name], ifelse(varied[name], "Vary names it", "the CORS answer depends on request header '"+name+"' but Vary never names it"))
	}
}

func isResponseHeaderMap(v ssa.Value) bool {
	_, isParam := v.(*ssa.Parameter)
	return isParam
}

func sortedKeys(m map[string]string) []string {
	var out []string
	for k := range m {
		out = append(out, k)
	}
	sort.Strings(out)
	return out
}

func isPreflightEdge(b *ssa.BasicBlock, succ int) bool {
	hasMethod, hasReq := false, false
	for _, a := range edgeAtoms(b, succ) {
		val, ok := preflightAssume(a.Cond)
		if !ok || val != a.Truth {
			continue
		}
		bo := a.Cond.(*ssa.BinOp)
		if strings.HasSuffix(an.AP(bo.X), ".Method") {
			hasMethod = true
		}
		if isHeaderGet(bo.X, hACRM) {
			hasReq = true
		}
	}
	return hasMethod && hasReq
}

// dominatedByPreflight: every path to `in` passes edges establishing both
// "method is OPTIONS" and "Access-Control-Request-Method is not empty".
func dominatedByPreflight(roots []*ssa.Function, in ssa.Instruction) bool {
	if an.DominatedByEdgeDeep(roots, in, isPreflightEdge, deepDefault) {
		return true
	}
	atom := func(which string) func(b *ssa.BasicBlock, succ int) bool {
		return func(b *ssa.BasicBlock, succ int) bool {
			for _, a := range edgeAtoms(b, succ) {
				val, ok := preflightAssume(a.Cond)
				if !ok || val != a.Truth {
					continue
				}
				bo := a.Cond.(*ssa.BinOp)
				if which == "method" && strings.HasSuffix(an.AP(bo.X), ".Method") {
					return true
				}
				if which == "req" && isHeaderGet(bo.X, hACRM) {
					return true
				}
			}
			return false
		}
	}
	return an.DominatedByEdgeDeep(roots, in, atom("method"), deepDefault) && an.DominatedByEdgeDeep(roots, in, atom("req"), deepDefault)
}

// rulePreflightOnly is C12.R3.
func rulePreflightOnly(c *Ctx, rule string) {
	handle, _, _ := corsFuncs(c)
	c.R.Rule(c.R.Property+"."+rule, 5, "requests that are not preflights never carry the preflight-only headers; origin, credentials and exposed headers are granted to simple requests too")
	preOnly := map[string]bool{hACAM: true, hACAH: true, hACMA: true}
	always := map[string]bool{hACAO: true, hACAC: true, hACEH: true}
	reachH := an.NewGraph(c.P).Reach([]*ssa.Function{handle}, nil)
	for _, hw := range c.headerWrites() {
		if _, in := reachH[hw.f]; !in || hw.op == "Del" {
			continue
		}
		dom := dominatedByPreflight([]*ssa.Function{handle}, hw.in)
		switch {
		case preOnly[hw.name]:
			c.R.Add(rule, c.fk(hw.f), "write:"+hw.name+"/preflight-only", c.pos(hw.in), dom, ifelse(dom, "dominated by the preflight condition", "a preflight-only header can be sent on a request that is not a preflight"))
		case always[hw.name]:
			c.R.Add(rule, c.fk(hw.f), "write:"+hw.name+"/also-simple-requests", c.pos(hw.in), !dom, ifelse(!dom, "not restricted to preflights", "'"+hw.name+"' is only granted on preflights: simple cross-origin requests from an allowed origin are refused by the browser"))
		}
	}
}

// ruleCorsProvenance is C12.R4.
func ruleCorsProvenance(c *Ctx, rule string) {
	handle, _, sanitize := corsFuncs(c)
	c.R.Rule(c.R.Property+"."+rule, 6, "the granted values are exactly what was configured")
	fieldOf := map[string]string{hACAH: "recv.allowHeadersString", hACEH: "recv.exposedHeadersString", hACMA: "recv.maxAgeString"}
	reachH := an.NewGraph(c.P).Reach([]*ssa.Function{handle}, nil)
	for _, hw := range c.headerWrites() {
		if _, in := reachH[hw.f]; !in || hw.op == "Del" {
			continue
		}
		switch hw.name {
		case hACAM:
			t := c.O.Of(hw.val).String()
			// the node whose Methods() was tested
			tested := ""
			for fn := range reachH {
				an.AllInstrs(fn, func(in ssa.Instruction) {
					if call, ok := in.(*ssa.Call); ok && an.CalleeName(&call.Call) == "invoke:types.Node.Methods" {
						tested = an.AP(call.Call.Value)
					}
				})
			}
			node := strings.Replace(tested, "p:", "param:", 1)
			// AllowHeader() of that node, or the tested list itself joined the way AllowHeader joins it
			good := tested != "" && (t == "call<invoke:types.Node.AllowHeader>("+node+")" || t == "call<strings.Join>(call<invoke:types.Node.Methods>("+node+"), \", \")")
			c.R.Add(rule, c.fk(hw.f), "write:"+hACAM+"/value=AllowHeader(tested-node)", c.pos(hw.in), good, ifelse(good, "Allow-Methods is the Allow set of the node whose methods were tested", "Access-Control-Allow-Methods is "+t+", not the Allow set (AllowHeader(), or Methods() joined by \", \") of the matched node"))
		case hACAH, hACEH, hACMA:
			want := fieldOf[hw.name]
			t := c.O.Of(hw.val).String()
			good := t == want
			guard := an.DominatedByEdge(hw.in, func(b *ssa.BasicBlock, succ int) bool {
				return edgeHas(b, succ, func(cond ssa.Value, truth bool) bool {
					x, k, eq, ok := an.CondAtom(cond)
					if !ok {
						return false
					}
					s, isS := strConst(k)
					return isS && s == "" && an.AP(x) == want && eq != truth
				})
			})
			if !guard && hw.inner != nil && hw.valParam != nil {
				// the helper tests the value it was given
				guard = an.DominatedByEdge(hw.inner.in, func(b *ssa.BasicBlock, succ int) bool {
					return edgeHas(b, succ, func(cond ssa.Value, truth bool) bool {
						x, k, eq, ok := an.CondAtom(cond)
						if !ok {
							return false
						}
						s, isS := strConst(k)
						return isS && s == "" && x == ssa.Value(hw.valParam) && eq != truth
					})
				})
			}
			c.R.Add(rule, c.fk(hw.f), "write:"+hw.name+"/value="+want, c.pos(hw.in), good && guard, ifelse(good && guard, "the configured string, behind its own non-emptiness", ifelse(!good, "'"+hw.name+"' is written with "+t+" instead of the configured "+want, "'"+hw.name+"' is not guarded by the non-emptiness of its own configured value")))
		}
	}
	// sanitize derives the strings from the configured lists
	wantStore := map[string]string{
		"exposedHeadersString": `call<strings.Join>(recv.ExposedHeaders, ",")`,
		"maxAgeString":         `call<strconv.Itoa>(recv.MaxAge)`,
	}
	got := map[string][]string{}
	// a store of the zero value that no other store of the field can precede only spells out the state of a fresh
	// object ("c.maxAgeString = \"\"" at the top of sanitize): it derives nothing
	var fieldStores []ssa.Instruction
	sanitizeInstrs(c, sanitize, func(in ssa.Instruction) {
		if base, _, _, ok := fieldStoreAny(in); ok && base == "recv" {
			fieldStores = append(fieldStores, in)
		}
	})
	spellsOutZero := func(in ssa.Instruction, field string, val ssa.Value) bool {
		k, isK := val.(*ssa.Const)
		if !isK {
			return false
		}
		if k.Value != nil {
			switch k.Value.Kind() {
			case constant.String:
				if constant.StringVal(k.Value) != "" {
					return false
				}
			case constant.Bool:
				if constant.BoolVal(k.Value) {
					return false
				}
			case constant.Int:
				if k.Int64() != 0 {
					return false
				}
			default:
				return false
			}
		}
		for _, other := range fieldStores {
			if other == in || other.Parent() != in.Parent() {
				continue
			}
			if _, f2, _, _ := fieldStoreAny(other); f2 != field {
				continue
			}
			if (&an.Query{Target: func(t ssa.Instruction) bool { return t == in }}).Search(an.After(other)) != nil {
				return false
			}
		}
		return true
	}
	sanitizeInstrs(c, sanitize, func(in ssa.Instruction) {
		if base, field, val, ok := fieldStoreAny(in); ok && base == "recv" && !spellsOutZero(in, field, val) {
			got[field] = append(got[field], c.O.Of(val).String())
		}
		// a helper that fills the field through a pointer: joinHeaders(&c.allowHeadersString, c.AllowHeaders)
		call := an.CallOf(in)
		if call == nil {
			return
		}
		g := an.StaticCallee(call)
		if g == nil || !an.InModule(g) || len(g.Blocks) == 0 {
			return
		}
		for i, arg := range call.Args {
			fa, isFA := arg.(*ssa.FieldAddr)
			if !isFA || an.AP(fa.X) != "recv" || i >= len(g.Params) {
				continue
			}
			field := an.FieldName(fa.X.Type(), fa.Field)
			an.AllInstrs(g, func(w ssa.Instruction) {
				st, isSt := w.(*ssa.Store)
				if !isSt || st.Addr != ssa.Value(g.Params[i]) {
					return
				}
				t := c.O.Of(st.Val).String()
				for j, p := range g.Params {
					if j < len(call.Args) {
						t = strings.ReplaceAll(t, "param:"+p.Name(), c.O.Of(call.Args[j]).String())
					}
				}
				got[field] = append(got[field], t)
			})
		}
	})
	for _, f := range []string{"exposedHeadersString", "maxAgeString"} {
		good := len(got[f]) == 1 && got[f][0] == wantStore[f]
		c.R.Add(rule, c.fk(sanitize), "derive:"+f, c.P.Pos(sanitize.Pos()), good, ifelse(good, "= "+wantStore[f], fmt.Sprintf("%s is derived as %v, expected %s", f, got[f], wantStore[f])))
	}
	ah := got["allowHeadersString"]
	goodAH := len(ah) == 2
	if goodAH {
		j := 0
		for _, s := range ah {
			if s == `call<strings.Join>(recv.AllowHeaders, ",")` {
				j++
			}
			if strings.HasPrefix(s, `"*,`) || strings.HasPrefix(s, `concat("*,"`) {
				j++
			}
		}
		goodAH = j == 2
	}
	// a list of one element is a list: the Join of a configured list is not behind a length test that a single
	// element fails (len(list) > 1)
	sanitizeInstrs(c, sanitize, func(in ssa.Instruction) {
		base, field, val, ok := fieldStoreAny(in)
		if !ok || base != "recv" {
			return
		}
		t := c.O.Of(val)
		if t.Op != "call" || t.S != "strings.Join" || len(t.Args) == 0 {
			return
		}
		listTerm := t.Args[0].String()
		skipsOne := an.DominatedByEdge(in, func(b *ssa.BasicBlock, succ int) bool {
			return edgeHas(b, succ, func(cond ssa.Value, truth bool) bool {
				bare, neg := stripNot(cond)
				bo, isB := bare.(*ssa.BinOp)
				if !isB {
					return false
				}
				holds := truth != neg
				for _, v := range []ssa.Value{bo.X, bo.Y} {
					if c.O.Of(v).String() != "call<builtin:len>("+listTerm+")" {
						continue
					}
					if at1, ok1 := cmpWithConst(bo, v, 1); ok1 && at1 != holds {
						return true
					}
				}
				return false
			})
		})
		c.R.Add(rule, c.fk(sanitize), "derive:"+field+"/single-element-list-is-joined", c.pos(in), !skipsOne, ifelse(!skipsOne, "no length test in front of the Join excludes a list of one element", "the configured list "+listTerm+" is joined only when it has more than one element: with exactly one configured header the string stays empty and the response header (Access-Control-Allow-Headers / -Expose-Headers) is never written although the configuration names it"))
	})
	c.R.Add(rule, c.fk(sanitize), "derive:allowHeadersString", c.P.Pos(sanitize.Pos()), goodAH, ifelse(goodAH, "= Join(AllowHeaders, \",\") or the '*' form", fmt.Sprintf("allowHeadersString is derived as %v", ah)))
}

// membershipAssume: every membership test (slices.Contains / slices.Index against 0 or -1) succeeds.
func membershipAssume(cond ssa.Value) (bool, bool) {
	v, neg := stripNot(cond)
	// a lookup in a set derived from a configured list, directly or through a method
	if ex, ok := v.(*ssa.Extract); ok && ex.Index == 1 {
		if lk, isLk := ex.Tuple.(*ssa.Lookup); isLk && lk.CommaOk && derivedSets[an.AP(lk.X)] != "" {
			return !neg, true
		}
	}
	if call, ok := v.(*ssa.Call); ok && len(call.Call.Args) == 2 {
		for _, listAP := range derivedSets {
			if setLookupOf(v, call.Call.Args[1], strings.Replace(listAP, "recv", an.AP(call.Call.Args[0]), 1), 0) {
				return !neg, true
			}
		}
	}
	if call, ok := v.(*ssa.Call); ok {
		if n := an.CalleeName(&call.Call); n == "slices.Contains" || n == "slices.ContainsFunc" {
			return !neg, true
		}
		return false, false
	}
	bo, ok := v.(*ssa.BinOp)
	if !ok {
		return false, false
	}
	call, ok := bo.X.(*ssa.Call)
	if ok {
		// a list that has the member tested for is not empty: len(node.Methods()) == 0 is false
		if cc, isLen := builtinCall(call, "len"); isLen {
			if mc, isCall := cc.Args[0].(*ssa.Call); isCall && an.CalleeName(&mc.Call) == "invoke:types.Node.Methods" {
				if kc, isK := bo.Y.(*ssa.Const); isK && an.ConstKey(kc) == "0" {
					switch bo.Op {
					case token.EQL, token.LEQ:
						return neg, true
					case token.NEQ, token.GTR:
						return !neg, true
					}
				}
			}
			return false, false
		}
	}
	if !ok || (an.CalleeName(&call.Call) != "slices.Index" && an.CalleeName(&call.Call) != "slices.IndexFunc") {
		return false, false
	}
	k, ok := bo.Y.(*ssa.Const)
	if !ok || k.Value == nil {
		return false, false
	}
	n := k.Int64()
	var val bool
	switch {
	case bo.Op == token.LSS && n == 0, bo.Op == token.EQL && n == -1, bo.Op == token.LEQ && n == -1:
		val = false
	case bo.Op == token.GEQ && n == 0, bo.Op == token.GTR && n == -1, bo.Op == token.NEQ && n == -1:
		val = true
	default:
		return false, false
	}
	return val != neg, true
}

// ruleGrantComplete is C12.R6: a request that is granted receives everything that was configured. For each CORS
// response header: assuming the procedure is enabled, every membership test succeeds (origin listed, method served),
// the requested headers are allowed and the header's own configured value is present, every path through the
// procedure writes the header. An extra condition in front of a write (another setting being empty, more than one
// configured origin, …) leaves a path to the exit that avoids it.
func ruleGrantComplete(c *Ctx, rule string) {
	handle, isAllowed, _ := corsFuncs(c)
	c.R.Rule(c.R.Property+"."+rule, 7, "an allowed request carries every configured header: no write of a CORS response header is gated by anything but the request being granted and its own configured value")
	reachH := an.NewGraph(c.P).Reach([]*ssa.Function{handle}, nil)
	type want struct {
		name, vary string
		field      string // configured string that must be non-empty
		boolField  string // configured flag that must be set
		preflight  bool
		listed     bool // the origin is picked from the list (anyOrigins false)
	}
	wants := []want{
		{name: hACAM, preflight: true},
		{name: hACAH, field: "allowHeadersString", preflight: true},
		{name: hACMA, field: "maxAgeString", preflight: true},
		{name: hVary, vary: hACRM, preflight: true},
		{name: hVary, vary: hACRH, field: "allowHeadersString", preflight: true},
		{name: hACAO},
		{name: hACAC, boolField: "AllowCredentials"},
		{name: hACEH, field: "exposedHeadersString"},
		{name: hVary, vary: "Origin", listed: true},
	}
	for _, w := range wants {
		w := w
		writes := map[ssa.Instruction]bool{}
		for _, hw := range c.headerWrites() {
			if _, in := reachH[hw.f]; !in || hw.name != w.name || hw.op == "Del" {
				continue
			}
			if w.vary != "" {
				if s, ok := strConst(hw.val); !ok || s != w.vary {
					continue
				}
			}
			writes[hw.in] = true
		}
		label := w.name
		if w.vary != "" {
			label = "Vary:" + w.vary
		}
		if len(writes) == 0 {
			c.R.Add(rule, c.fk(handle), "grant-carries:"+label, c.P.Pos(handle.Pos()), false, "the CORS procedure never writes "+label)
			continue
		}
		assume := func(cond ssa.Value) (bool, bool) {
			v, neg := stripNot(cond)
			if u, ok := v.(*ssa.UnOp); ok && u.Op == token.MUL {
				switch an.AP(u.X) {
				case "recv.deny":
					return neg, true // enabled
				case "recv." + w.boolField:
					return !neg, true
				case "recv.anyOrigins":
					if w.listed {
						return neg, true
					}
				}
			}
			if call, ok := v.(*ssa.Call); ok && an.StaticCallee(&call.Call) == isAllowed {
				return !neg, true
			}
			// the receiver and the parameters are what the router hands in: none of them is nil
			if x, k, eq, okA := an.CondAtom(cond); okA && k.Value == nil {
				if _, isPar := x.(*ssa.Parameter); isPar {
					return !eq, true
				}
			}
			if val, ok := membershipAssume(cond); ok {
				return val, true
			}
			if w.preflight {
				if val, ok := preflightAssume(cond); ok {
					return val, true
				}
			}
			// the request names an address (a preflight on the empty path, which the tree answers with the root node, is refused)
			if x, k, eq, okA := an.CondAtom(cond); okA {
				if s, isS := strConst(k); isS && s == "" && strings.HasSuffix(an.AP(x), ".URL.Path") {
					return !eq, true
				}
			}
			return false, false
		}
		q := &an.Query{
			Assume: assume, Facts: true, Deep: deepDefault,
			Descend: func(g *ssa.Function) bool { return g != isAllowed },
			Block:   func(in ssa.Instruction) bool { return writes[in] },
			Target: func(in ssa.Instruction) bool {
				_, isRet := in.(*ssa.Return)
				return isRet && in.Parent() == handle
			},
		}
		if w.field != "" {
			q.InitNeq = map[string][]string{"recv." + w.field: {`""`}}
		}
		path := q.Search(an.Entry(handle))
		var at string
		for in := range writes {
			at = c.pos(in)
		}
		o := c.R.Add(rule, c.fk(handle), "grant-carries:"+label, at, path == nil, ifelse(path == nil, "written on every granted path", "a granted request can leave the CORS procedure without "+label+" although it is configured: something other than the grant and its own value gates the write"))
		if path != nil {
			o.Path = c.P.PathString(path)
		}
	}
}

// corsRootsFor: the CORS decision entry when f belongs to it, else f.
func (c *Ctx) corsRootsFor(f *ssa.Function) []*ssa.Function {
	handle, _, _ := corsFuncs(c)
	if f == handle {
		return []*ssa.Function{handle}
	}
	if _, ok := an.NewGraph(c.P).Reach([]*ssa.Function{handle}, nil)[f]; ok {
		return []*ssa.Function{handle}
	}
	return []*ssa.Function{f}
}

// sanitizeInstrs visits the instructions of the configuration validator and of the helpers it calls on its own
// receiver (sanitizeOrigins(), sanitizeHeaders(), … — the receiver keeps the access path "recv" there).
func sanitizeInstrs(c *Ctx, sanitize *ssa.Function, visit func(in ssa.Instruction)) {
	seen := map[*ssa.Function]bool{}
	var walk func(f *ssa.Function, depth int)
	walk = func(f *ssa.Function, depth int) {
		if seen[f] || depth > 3 {
			return
		}
		seen[f] = true
		an.AllInstrs(f, func(in ssa.Instruction) {
			visit(in)
			if call := an.CallOf(in); call != nil {
				if g := an.StaticCallee(call); g != nil && an.InModule(g) && g.Signature.Recv() != nil && len(call.Args) > 0 && an.AP(call.Args[0]) == "recv" {
					walk(g, depth+1)
				}
			}
		})
	}
	walk(sanitize, 0)
}

func isBoolType(t types.Type) bool {
	b, ok := t.Underlying().(*types.Basic)
	return ok && b.Info()&types.IsBoolean != 0
}

// derivedSets: access path of a map field -> access path of the list field it is filled from (recv.originSet ->
// recv.Origins): in some method of the object a range loop over the list stores every element as a key of the map,
// unconditionally. Indexed once per program by indexDerivedSets.
var derivedSets = map[string]string{}

func indexDerivedSets(p *an.Prog) {
	derivedSets = map[string]string{}
	for _, f := range p.Funcs {
		if !an.IsLibrary(f) || f.Signature.Recv() == nil {
			continue
		}
		for _, l := range rangeLoops(f) {
			listAP := an.AP(l.slice)
			if !strings.HasPrefix(listAP, "recv.") {
				continue
			}
			elem := map[ssa.Value]bool{}
			for _, e := range l.elems {
				if v, ok := e.(ssa.Value); ok {
					elem[v] = true
				}
			}
			hb := l.hdr.Block()
			body := hb.Succs[0]
			for _, in := range body.Instrs {
				mu, ok := in.(*ssa.MapUpdate)
				if !ok || !elem[mu.Key] {
					continue
				}
				setAP := an.AP(mu.Map)
				// the body is one block that goes straight back to the header: every element is inserted
				if strings.HasPrefix(setAP, "recv.") && len(body.Succs) == 1 && body.Succs[0] == hb {
					derivedSets[setAP] = listAP
				}
			}
		}
	}
}

// setLookupOf: cond is "v is a key of the set derived from listAP" — the found flag of a comma-ok lookup, or the
// result of a method whose every return is such a flag for its own parameter.
func setLookupOf(cond ssa.Value, v ssa.Value, listAP string, depth int) bool {
	if depth > 2 {
		return false
	}
	if ex, ok := cond.(*ssa.Extract); ok && ex.Index == 1 {
		if lk, isLk := ex.Tuple.(*ssa.Lookup); isLk && lk.CommaOk && lk.Index == v && derivedSets[an.AP(lk.X)] == listAP {
			return true
		}
	}
	call, ok := cond.(*ssa.Call)
	if !ok {
		return false
	}
	g := an.StaticCallee(&call.Call)
	if g == nil || !an.InModule(g) || g.Signature.Recv() == nil || len(g.Params) != 2 || len(call.Call.Args) != 2 || len(g.Blocks) == 0 {
		return false
	}
	if call.Call.Args[1] != v || !strings.HasPrefix(listAP, an.AP(call.Call.Args[0])+".") {
		return false
	}
	inner := "recv." + strings.TrimPrefix(listAP, an.AP(call.Call.Args[0])+".")
	rets := an.Returns(g)
	for _, r := range rets {
		if len(r.Results) != 1 || !setLookupOf(an.ReturnValue(r, 0), g.Params[1], inner, depth+1) {
			return false
		}
	}
	return len(rets) > 0
}
