package rules

import (
	"strings"

	"golang.org/x/tools/go/ssa"

	"muxlint/internal/an"
)

// facade_expand.go — the documented desugaring of a facade method, expanded through the documented desugaring of
// its target: Prefix.Remove = Router.Remove(router, pattern ++ p, methods) = Tree.Remove(router.tree, pattern ++ p,
// methods). A facade method that makes the expanded call directly (or through a helper) does the same thing as one
// that goes through the Router method, provided an error result of the expanded call is treated as the Router
// method treats it (see forwardsThroughExpansion).

type sterm struct {
	head string // name, including a <...> part
	args []*sterm
	call bool // has an argument list
}

func (t *sterm) String() string {
	if !t.call {
		return t.head
	}
	parts := make([]string, len(t.args))
	for i, a := range t.args {
		parts[i] = a.String()
	}
	return t.head + "(" + strings.Join(parts, ", ") + ")"
}

func parseSTerm(s string) (*sterm, bool) {
	t, rest, ok := parseSTermAt(s)
	return t, ok && strings.TrimSpace(rest) == ""
}

func parseSTermAt(s string) (*sterm, string, bool) {
	s = strings.TrimLeft(s, " ")
	i := 0
	for i < len(s) {
		switch s[i] {
		case '<':
			depth := 0
			for ; i < len(s); i++ {
				if s[i] == '<' {
					depth++
				} else if s[i] == '>' {
					depth--
					if depth == 0 {
						break
					}
				}
			}
			if i >= len(s) {
				return nil, "", false
			}
			i++
			continue
		case '"':
			j := i + 1
			for j < len(s) && s[j] != '"' {
				if s[j] == '\\' {
					j++
				}
				j++
			}
			if j >= len(s) {
				return nil, "", false
			}
			i = j + 1
			continue
		case '(':
			t := &sterm{head: s[:i], call: true}
			rest := s[i+1:]
			if strings.HasPrefix(strings.TrimLeft(rest, " "), ")") {
				return t, strings.TrimLeft(rest, " ")[1:], true
			}
			for {
				a, r, ok := parseSTermAt(rest)
				if !ok {
					return nil, "", false
				}
				t.args = append(t.args, a)
				r = strings.TrimLeft(r, " ")
				if strings.HasPrefix(r, ",") {
					rest = r[1:]
					continue
				}
				if strings.HasPrefix(r, ")") {
					return t, r[1:], true
				}
				return nil, "", false
			}
		case ',', ')':
			return &sterm{head: s[:i]}, s[i:], i > 0
		}
		i++
	}
	return &sterm{head: s}, "", len(s) > 0
}

// substS replaces recv / param:x (also as the root of a field path) and flattens nested @LIST.
func substS(t *sterm, bind map[string]*sterm) *sterm {
	if !t.call {
		root, rest := t.head, ""
		if i := strings.IndexByte(t.head, '.'); i >= 0 && !strings.HasPrefix(t.head, "\"") {
			root, rest = t.head[:i], t.head[i:]
		}
		if b, ok := bind[root]; ok {
			if rest == "" {
				return b
			}
			if !b.call {
				return &sterm{head: b.head + rest}
			}
			return &sterm{head: b.String() + rest}
		}
		return t
	}
	out := &sterm{head: t.head, call: true}
	for _, a := range t.args {
		sa := substS(a, bind)
		if t.head == "@LIST" && sa.call && sa.head == "@LIST" {
			out.args = append(out.args, sa.args...)
			continue
		}
		out.args = append(out.args, sa)
	}
	return out
}

// expansions: the successive expansions of a documented call through the forwarder table, with the functions whose
// expected call was substituted at each step.
func (c *Ctx) expansions(call string) (forms []string, through [][]*ssa.Function) {
	table := map[string]fwdExpect{}
	for _, e := range forwarderTable() {
		table[e.fn] = e
	}
	cur := call
	var via []*ssa.Function
	for depth := 0; depth < 3; depth++ {
		t, ok := parseSTerm(cur)
		if !ok || !t.call || !strings.HasPrefix(t.head, "call<") {
			return
		}
		target := t.head[5 : len(t.head)-1]
		te, ok := table[target]
		g := c.P.Func(target)
		if !ok || te.call == "" || g == nil || len(g.Params) != len(t.args) {
			return
		}
		inner, ok := parseSTerm(te.call)
		if !ok {
			return
		}
		bind := map[string]*sterm{}
		for i, p := range g.Params {
			name := "param:" + p.Name()
			if i == 0 && g.Signature.Recv() != nil {
				name = "recv"
			}
			bind[name] = t.args[i]
		}
		cur = substS(inner, bind).String()
		via = append(append([]*ssa.Function{}, via...), g)
		forms = append(forms, cur)
		through = append(through, via)
	}
	return
}

// forwardsThroughExpansion: the call made is an expansion of the documented one. When the functions skipped have
// no result but the call made returns an error, the error must be treated as they treat it: no return is
// reachable from the call unless the error is nil (the skipped Router method panics on it).
func (c *Ctx) forwardsThroughExpansion(f *ssa.Function, made *ssa.Call, madeTerm, documented string) (bool, string) {
	forms, through := c.expansions(documented)
	for i, form := range forms {
		if form != madeTerm {
			continue
		}
		bottom := innermostCall(c, made)
		g := an.StaticCallee(&bottom.Call)
		if g != nil && an.ErrorResultIndex(g) >= 0 {
			skippedPropagates := false
			for _, s := range through[i] {
				if an.ErrorResultIndex(s) >= 0 {
					skippedPropagates = true
				}
			}
			if !skippedPropagates {
				if ok, why := errorPropagated(c, bottom.Parent(), bottom); !ok {
					return false, "the call is the expansion of the documented one, but its error is not treated as " + an.FuncKey(through[i][0]) + " treats it: " + why
				}
			}
		}
		return true, "the documented desugaring with " + an.FuncKey(through[i][len(through[i])-1]) + " expanded: " + form
	}
	return false, ""
}

// innermostCall: the helper's own effectful call when callString substituted it.
func innermostCall(c *Ctx, call *ssa.Call) *ssa.Call {
	if g := an.StaticCallee(&call.Call); g != nil && !forwardTargets()[an.FuncKey(g)] && an.InModule(g) && len(g.Blocks) > 0 {
		if inner := c.effectfulCalls(g); len(inner) == 1 {
			return inner[0]
		}
	}
	return call
}
