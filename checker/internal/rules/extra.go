package rules

import (
	"fmt"
	"go/constant"
	"go/token"
	"go/types"
	"sort"
	"strings"

	"golang.org/x/tools/go/ssa"

	"muxlint/internal/an"
)

// ruleExhaustiveWalks: the recursive walks over the tree visit every child —
// no early exit from a range over a node's children (other than returning).
func ruleExhaustiveWalks(c *Ctx, rule string, roots []*ssa.Function, why string) {
	a := c.A
	c.R.Rule(c.R.Property+"."+rule, 1, why)
	g := an.NewGraph(c.P)
	reach := g.Reach(roots, func(_ *ssa.Function, e an.Edge) bool { return e.Kind == "static" || e.Kind == "closure" })
	n := 0
	for _, f := range an.SortedFuncs(reach) {
		if !an.IsLibrary(f) || len(f.Blocks) == 0 {
			continue
		}
		k := c.fk(f)
		for _, l := range rangeLoops(f) {
			if _, isCh := fieldLoadOf(l.slice, a.NodeT, a.FChildren); !isCh {
				continue
			}
			hb := l.hdr.Block()
			for _, e := range l.elems {
				// from the element, the only way to an instruction after the loop is the header's exit edge
				path := (&an.Query{
					Block:     func(in ssa.Instruction) bool { return in == e },
					BlockEdge: func(b *ssa.BasicBlock, succ int) bool { return b == hb && succ == 1 },
					Target: func(in ssa.Instruction) bool {
						if _, isRet := in.(*ssa.Return); isRet {
							// a walk that returns nothing has no reason to stop: returning from inside the loop skips
							// the remaining children just like a break
							return f.Signature.Results().Len() == 0
						}
						// an instruction outside the loop: its block is not dominated by the loop body... approximate:
						// reachable only after leaving through the header; with that edge blocked, reaching the
						// header's exit successor means a break
						return in.Block() == hb.Succs[1] || exitDominated(hb.Succs[1], in.Block())
					},
				}).Search(an.After(e))
				o := c.R.Add(rule, k, "range("+an.AP(l.slice)+")/no-early-exit", c.pos(e), path == nil, ifelse(path == nil, "every child is visited: the loop is left only through its header", "the walk over the children can stop early (break or return inside the loop): later children are not visited"))
				if path != nil {
					o.Path = c.P.PathString(path)
				}
				n++
			}
		}
	}
	if n == 0 {
		c.R.Add(rule, c.fk(roots[0]), "walk:no-range-over-children", c.P.Pos(roots[0].Pos()), true, "no range loop over a node's children below the entry point (the walk is an explicit stack or an iterator: nothing to leave early)")
	}
}

func exitDominated(exit, b *ssa.BasicBlock) bool {
	return exit.Dominates(b)
}

// ruleRemoveAllDropsEverything: Remove(pattern) without methods removes every handler of the node.
func ruleRemoveAllDropsEverything(c *Ctx, rule string) {
	a := c.A
	f := a.TreeRemove
	c.R.Rule(c.R.Property+"."+rule, 1, "a removed pattern is no longer served: Remove(pattern) without a method list drops every handler of the node")
	var methodsP *ssa.Parameter
	for _, p := range f.Params {
		if sl, ok := p.Type().Underlying().(*types.Slice); ok {
			if b, ok := sl.Elem().(*types.Basic); ok && b.Kind() == types.String {
				methodsP = p
			}
		}
	}
	if methodsP == nil {
		an.Fatalf("UNRESOLVED anchor: methods parameter of %s", c.fk(f))
	}
	// the looked-up node
	var found *ssa.Call
	an.AllInstrs(f, func(in ssa.Instruction) {
		if call, ok := in.(*ssa.Call); ok {
			if g := an.StaticCallee(&call.Call); g != nil && an.FuncKey(g) == "tree.(*Tree).Find" {
				found = call
			}
		}
	})
	if found == nil {
		c.R.Add(rule, c.fk(f), "len(methods)==0/drops-whole-handler-map", c.P.Pos(f.Pos()), false, "Tree.Remove no longer finds the node with Tree.Find (a side table answers instead): that the node it empties is the node the pattern resolves to in the current tree cannot be established — a stale entry of the side table makes Remove work on a detached node")
		return
	}
	assume := func(cond ssa.Value) (bool, bool) {
		// the node found is a node below the root: it is not the root and it has a parent
		if v, neg := stripNot(cond); v != nil {
			if bo, isBin := v.(*ssa.BinOp); isBin && (bo.Op == token.EQL || bo.Op == token.NEQ) {
				for _, pair := range [][2]ssa.Value{{bo.X, bo.Y}, {bo.Y, bo.X}} {
					if pair[0] == ssa.Value(found) && an.AP(pair[1]) == "recv."+a.FRootNode {
						return (bo.Op == token.NEQ) != neg, true
					}
				}
			}
		}
		x, k, eq, ok := an.CondAtom(cond)
		if !ok {
			return false, false
		}
		if k.Value == nil && an.AP(x) == an.AP(found)+"."+a.FParent {
			return !eq, true
		}
		if lc, isCall := x.(*ssa.Call); isCall {
			if _, isLen := builtinCall(lc, "len"); isLen && an.ConstKey(k) == "0" {
				// the method list itself, or a helper's parameter that receives it
				arg := lc.Call.Args[0]
				if arg == ssa.Value(methodsP) {
					return eq, true // len(methods) == 0
				}
				if as := argsOfParam(arg); len(as) > 0 {
					all := true
					for _, av := range as {
						if av != ssa.Value(methodsP) {
							all = false
						}
					}
					if all {
						return eq, true
					}
				}
			}
		}
		if x == ssa.Value(found) && k.Value == nil {
			return !eq, true // the node exists
		}
		return false, false
	}
	isNode := func(in ssa.Instruction, base string) bool {
		// in Remove itself: the looked-up node; in a helper: its receiver / the parameter that receives the node
		if in.Parent() == f {
			return base == an.AP(found)
		}
		return base == "recv" || strings.HasPrefix(base, "p:")
	}
	dropsAll := func(in ssa.Instruction) bool {
		if base, field, val, ok := fieldStore(in, a.NodeT); ok && field == a.FHandlers && isNode(in, base) {
			_, isMake := val.(*ssa.MakeMap)
			return an.IsNilConst(val) || (isMake && !hasMapUpdates(val))
		}
		if call, ok := builtinCall(in, "clear"); ok {
			if base, isH := fieldLoadOf(call.Args[0], a.NodeT, a.FHandlers); isH && isNode(in, base) {
				return true
			}
		}
		return false
	}
	path := (&an.Query{Assume: assume, Facts: true, Deep: deepDefault, Target: func(in ssa.Instruction) bool { _, ok := in.(*ssa.Return); return ok }, Block: dropsAll}).Search(an.After(found))
	o := c.R.Add(rule, c.fk(f), "len(methods)==0/drops-whole-handler-map", c.P.Pos(f.Pos()), path == nil, ifelse(path == nil, "with an empty method list every path drops the node's whole handler map", "Remove(pattern) without methods can return without dropping the node's whole handler map: handlers registered under methods outside the default list (an explicitly registered TRACE) stay served on a pattern that was removed"))
	if path != nil {
		o.Path = c.P.PathString(path)
	}
}

// constStringSlice evaluates a package-level []string whose value is fixed at
// initialisation: a composite literal of constants, or a constant reslice of another such variable.
func (c *Ctx) constStringSlice(g *ssa.Global, depth int) ([]string, bool) {
	if depth > 3 {
		return nil, false
	}
	initFn := g.Pkg.Func("init")
	if initFn == nil {
		return nil, false
	}
	var val ssa.Value
	n := 0
	an.AllInstrs(initFn, func(in ssa.Instruction) {
		if st, ok := in.(*ssa.Store); ok && st.Addr == ssa.Value(g) {
			val = st.Val
			n++
		}
	})
	if n != 1 {
		return nil, false
	}
	sl, ok := val.(*ssa.Slice)
	if !ok {
		return nil, false
	}
	var base []string
	switch x := sl.X.(type) {
	case *ssa.Alloc:
		arr, ok := x.Type().Underlying().(*types.Pointer).Elem().Underlying().(*types.Array)
		if !ok {
			return nil, false
		}
		base = make([]string, arr.Len())
		for _, r := range *x.Referrers() {
			ia, ok := r.(*ssa.IndexAddr)
			if !ok {
				continue
			}
			k, ok := ia.Index.(*ssa.Const)
			if !ok {
				return nil, false
			}
			for _, rr := range *ia.Referrers() {
				if st, ok := rr.(*ssa.Store); ok {
					s, isS := strConst(st.Val)
					if !isS {
						return nil, false
					}
					base[k.Int64()] = s
				}
			}
		}
	case *ssa.UnOp:
		og, ok := x.X.(*ssa.Global)
		if !ok {
			return nil, false
		}
		base, ok = c.constStringSlice(og, depth+1)
		if !ok {
			return nil, false
		}
	default:
		return nil, false
	}
	lo, hi := 0, len(base)
	evalBound := func(v ssa.Value) (int, bool) {
		if v == nil {
			return -1, true
		}
		if k, ok := v.(*ssa.Const); ok && k.Value != nil && k.Value.Kind() == constant.Int {
			return int(k.Int64()), true
		}
		if bo, ok := v.(*ssa.BinOp); ok && bo.Op == token.SUB {
			if lc, ok := bo.X.(*ssa.Call); ok {
				if _, isLen := builtinCall(lc, "len"); isLen {
					if k, ok := bo.Y.(*ssa.Const); ok && k.Value != nil {
						return len(base) - int(k.Int64()), true
					}
				}
			}
		}
		return 0, false
	}
	if l, ok := evalBound(sl.Low); ok {
		if l >= 0 {
			lo = l
		}
	} else {
		return nil, false
	}
	if h, ok := evalBound(sl.High); ok {
		if h >= 0 {
			hi = h
		}
	} else {
		return nil, false
	}
	if lo < 0 || hi > len(base) || lo > hi {
		return nil, false
	}
	return base[lo:hi], true
}

// ruleRecountFilter: the recount of the tree-wide counters counts exactly the
// registrable methods: every key of a handler map except the automatic ones (HEAD, OPTIONS, 405).
func ruleRecountFilter(c *Ctx, rule string) {
	a := c.A
	c.R.Rule(c.R.Property+"."+rule, 0, "OPTIONS * names exactly the methods registered on live routes: a recount counts every handler-map key except the automatic HEAD/OPTIONS/405 entries")
	tp := c.P.SPkgs[a.TreePkg.Path()]
	all, ok := c.constStringSlice(tp.Members["Methods"].(*ssa.Global), 0)
	if !ok {
		c.R.Note("%s: the method list is not a constant slice; rule not evaluated", rule)
		return
	}
	keys := append([]string{""}, all...)
	for _, f := range c.libFuncs() {
		an.AllInstrs(f, func(in ssa.Instruction) {
			mu, ok := in.(*ssa.MapUpdate)
			if !ok {
				return
			}
			// counters[key]++ where key ranges over a node's handler map
			mt, isMap := mu.Map.Type().Underlying().(*types.Map)
			if !isMap {
				return
			}
			if vb, ok := mt.Elem().(*types.Basic); !ok || vb.Kind() != types.Int {
				return
			}
			ex, isEx := mu.Key.(*ssa.Extract)
			if !isEx {
				return
			}
			nx, isNext := ex.Tuple.(*ssa.Next)
			if !isNext {
				return
			}
			rg, isR := nx.Iter.(*ssa.Range)
			if !isR {
				return
			}
			if _, isH := fieldLoadOf(rg.X, a.NodeT, a.FHandlers); !isH {
				return
			}
			for _, k := range keys {
				k := k
				want := !(k == "" || k == "HEAD" || k == "OPTIONS")
				assume := func(cond ssa.Value) (bool, bool) {
					v, neg := stripNot(cond)
					call, ok := v.(*ssa.Call)
					if !ok || an.CalleeName(&call.Call) != "slices.Contains" || call.Call.Args[1] != ssa.Value(ex) {
						return false, false
					}
					ld, ok := call.Call.Args[0].(*ssa.UnOp)
					if !ok {
						return false, false
					}
					g, ok := ld.X.(*ssa.Global)
					if !ok {
						return false, false
					}
					list, ok := c.constStringSlice(g, 0)
					if !ok {
						return false, false
					}
					has := false
					for _, s := range list {
						if s == k {
							has = true
						}
					}
					return has != neg, true
				}
				q := &an.Query{Facts: true, Assume: assume, InitEq: map[string]constant.Value{an.ValueKey(ex): constOf(k)},
					Target: func(t ssa.Instruction) bool { return t == in },
					Block:  func(t ssa.Instruction) bool { return t == ssa.Instruction(nx) }}
				reach := q.Search(an.After(ex)) != nil
				good := reach == want
				c.R.Add(rule, c.fk(f), fmt.Sprintf("recount/key=%q/%s", k, ifelse(want, "counted", "not-counted")), c.pos(in), good, ifelse(good, ifelse(want, "counted", "skipped"), ifelse(want, fmt.Sprintf("the recount skips %q although it is a registrable method: after a Remove or Clean elsewhere it disappears from OPTIONS * while routes still serve it", k), fmt.Sprintf("the recount counts the automatic entry %q", k))))
			}
		})
	}
}

// ruleParamLookupCommaOk (C10.R4): presence of a parameter is decided by the comma-ok bit, not by emptiness.
func ruleParamLookupCommaOk(c *Ctx, rule string) {
	for _, f := range urlBuilders(c) {
		an.AllInstrs(f, func(in ssa.Instruction) {
			lk, ok := in.(*ssa.Lookup)
			if !ok {
				return
			}
			if _, isParam := lk.X.(*ssa.Parameter); !isParam {
				return
			}
			if _, isMap := lk.X.Type().Underlying().(*types.Map); !isMap {
				return
			}
			c.R.Add(rule, c.fk(f), "param-lookup/comma-ok", c.pos(in), lk.CommaOk, ifelse(lk.CommaOk, "presence is the comma-ok bit of the lookup", "the parameter is looked up without the comma-ok bit: a present but empty value (which dispatch itself captures, e.g. for /posts/ on /posts/{id}) is treated as missing"))
		})
	}
}

// ruleFacadeRemovals: the removal facades are pure forwarders (subset of C19 for C03).
func ruleFacadeRemovals(c *Ctx, rule string) {
	sub := an.NewReport(c.R.Property)
	cc := &Ctx{P: c.P, A: c.A, R: sub, O: c.O}
	ruleForwarders(cc, "X")
	c.R.Rule(c.R.Property+"."+rule, 6, "removing or cleaning through Router, Prefix or Resource removes exactly what the corresponding tree call removes")
	for _, o := range sub.Obls {
		if strings.HasSuffix(o.Func, ".Remove") || strings.HasSuffix(o.Func, ".Clean") {
			c.R.Add(rule, o.Func, o.Construct, o.At, o.OK, o.Msg)
		}
	}
}

// ruleSummaryLockset (C04.R6): writes of the method summaries and counters happen under the write lock.
func ruleSummaryLockset(c *Ctx, rule string) {
	sub := an.NewReport(c.R.Property)
	cc := &Ctx{P: c.P, A: c.A, R: sub, O: c.O}
	ruleLockset(cc, "X1", "X2")
	c.R.Rule(c.R.Property+"."+rule, 2, "the method sets are accurate at every moment: summaries and counters are only updated under the write lock")
	for _, o := range sub.Obls {
		if !strings.HasSuffix(o.Rule, ".X1") {
			continue
		}
		if strings.Contains(o.Construct, "node."+c.A.FSummary) || strings.Contains(o.Construct, "Tree."+c.A.FCounters) ||
			strings.Contains(o.Construct, "buildMethods") || strings.Contains(o.Construct, "recountMethods") || strings.Contains(o.Construct, "countMethods") {
			c.R.Add(rule, o.Func, o.Construct, o.At, o.OK, o.Msg)
		}
	}
}

// ruleRoutesLiveness: Routes() lists a node exactly when it has handlers — the listing is guarded by the
// handler count, not by the method summary (which carries the TRACE bit even for an emptied node).
func ruleRoutesLiveness(c *Ctx, rule string) {
	a := c.A
	c.R.Rule(c.R.Property+"."+rule, 1, "Routes() lists exactly the live patterns")
	n := 0
	for _, mu := range routesListers(c) {
		in := ssa.Instruction(mu)
		f := mu.Parent()
		n++
		key := c.O.Of(mu.Key).String()
		node := strings.TrimSuffix(key, "."+a.FPattern)
		keyOK := node != key
		roots := []*ssa.Function{f}
		if f != a.TreeRoutes {
			roots = []*ssa.Function{a.TreeRoutes, f}
		}
		dom := false
		for _, r := range []*ssa.Function{f} {
			_ = r
			dom = an.DominatedByEdge(in, func(b *ssa.BasicBlock, succ int) bool {
				return lenPositiveTermEdge(c, b, succ, node+"."+a.FHandlers)
			})
		}
		_ = roots
		good := dom && keyOK
		c.R.Add(rule, c.fk(f), "list:routes[pattern]/iff:has-handlers", c.pos(in), good, ifelse(good, "a node is listed under its pattern exactly when its handler map is not empty", ifelse(!dom, "a node is listed in Routes() without testing that it has handlers: the method summary is not a liveness test (with a TRACE handler configured it is non-zero for a node whose handlers were all removed), so a removed pattern stays listed", "a node is listed under a key that is not its pattern")))
	}
	if n == 0 {
		c.R.Add(rule, c.fk(a.TreeRoutes), "list:routes[pattern]/iff:has-handlers", c.P.Pos(a.TreeRoutes.Pos()), false, "Tree.Routes no longer lists anything")
	}
}

// routesListers: the inserts into the map[string][]string that Tree.Routes hands out (in Tree.Routes or in the walk
// it calls).
func routesListers(c *Ctx) []*ssa.MapUpdate {
	g := an.NewGraph(c.P)
	reach := g.Reach([]*ssa.Function{c.A.TreeRoutes}, func(_ *ssa.Function, e an.Edge) bool { return e.Kind == "static" || e.Kind == "closure" })
	var out []*ssa.MapUpdate
	for _, f := range an.SortedFuncs(reach) {
		if !an.IsLibrary(f) {
			continue
		}
		an.AllInstrs(f, func(in ssa.Instruction) {
			mu, ok := in.(*ssa.MapUpdate)
			if !ok {
				return
			}
			m, ok := mu.Map.Type().Underlying().(*types.Map)
			if !ok {
				return
			}
			kb, ok1 := m.Key().Underlying().(*types.Basic)
			sl, ok2 := m.Elem().Underlying().(*types.Slice)
			if !ok1 || !ok2 || kb.Kind() != types.String {
				return
			}
			if eb, ok := sl.Elem().Underlying().(*types.Basic); !ok || eb.Kind() != types.String {
				return
			}
			if _, isConst := mu.Key.(*ssa.Const); isConst {
				return // the "*" entry
			}
			out = append(out, mu)
		})
	}
	return out
}

// removingInstr: the instruction itself removes handlers or children.
func removingInstr(c *Ctx, in ssa.Instruction) (string, bool) {
	a := c.A
	for _, b := range []string{"delete", "clear"} {
		if call, ok := builtinCall(in, b); ok {
			if _, isH := fieldLoadOf(call.Args[0], a.NodeT, a.FHandlers); isH {
				return b, true
			}
		}
	}
	if _, field, val, ok := fieldStore(in, a.NodeT); ok {
		if field == a.FHandlers && an.IsNilConst(val) {
			return "drop", true
		}
		if field == a.FChildren {
			t := c.O.Of(val).String()
			if strings.Contains(t, "slices.Delete") || strings.Contains(t, "call<tree.removeNodes>") || strings.HasPrefix(t, "slice(") {
				return "shrink", true
			}
		}
	}
	return "", false
}

// ruleCorsAlwaysOnServed (C12.R5): on the served edge every path to the user's CallFunc runs the CORS procedure.
func ruleCorsAlwaysOnServed(c *Ctx, rule string) {
	handle, _, _ := corsFuncs(c)
	f := c.P.MustFunc("mux.(*Router).serveContext")
	c.R.Rule(c.R.Property+"."+rule, 1, "a request from an allowed origin to a served method always gets the configured grant: nothing but the served flag gates the CORS procedure")
	var hcall *ssa.Call
	an.AllInstrs(f, func(in ssa.Instruction) {
		if call, ok := in.(*ssa.Call); ok {
			if g := an.StaticCallee(&call.Call); g == c.A.TreeHandler {
				hcall = call
			}
		}
	})
	if hcall == nil {
		an.Fatalf("UNRESOLVED anchor: Tree.Handler call in %s", c.fk(f))
	}
	assume := func(cond ssa.Value) (bool, bool) {
		v, neg := stripNot(cond)
		if ex, ok := v.(*ssa.Extract); ok && ex.Tuple == ssa.Value(hcall) && ex.Index == 2 {
			return !neg, true
		}
		return false, false
	}
	path := (&an.Query{Assume: assume, Deep: deepDefault,
		Target: func(t ssa.Instruction) bool {
			call, ok := t.(*ssa.Call)
			return ok && strings.HasPrefix(an.CalleeName(&call.Call), "dynamic:recv.call")
		},
		Block: func(t ssa.Instruction) bool { _, ok := calleeIs(t, handle); return ok },
	}).Search(an.After(hcall))
	o := c.R.Add(rule, c.fk(f), "served/always-runs:"+an.FuncKey(handle), c.P.Pos(f.Pos()), path == nil, ifelse(path == nil, "on the served edge every path to the handler call runs the CORS procedure", "on a served request the handler can be called without the CORS procedure having run (an extra condition gates it): requests the configuration allows get no grant"))
	if path != nil {
		o.Path = c.P.PathString(path)
	}
}

// ruleSummaryIsNotLiveness: the method summary is never compared with zero to decide whether a node is live
// (it carries the TRACE bit for an emptied node); liveness is the handler count.
func ruleSummaryIsNotLiveness(c *Ctx, rule string) {
	a := c.A
	c.R.Rule(c.R.Property+"."+rule, 0, "whether a pattern is live is decided by its handler count, never by its method summary")
	for _, f := range c.libFuncs() {
		if f == a.NodeSummaryBuilder || f == a.TreeSummaryBuilder {
			continue
		}
		an.AllInstrs(f, func(in ssa.Instruction) {
			bo, ok := in.(*ssa.BinOp)
			if !ok {
				return
			}
			switch bo.Op {
			case token.GTR, token.EQL, token.NEQ, token.LSS, token.GEQ, token.LEQ:
			default:
				return
			}
			isSummary := func(v ssa.Value) bool {
				_, ok := fieldLoadOf(v, a.NodeT, a.FSummary)
				return ok
			}
			isZero := func(v ssa.Value) bool {
				k, ok := v.(*ssa.Const)
				return ok && k.Value != nil && k.Value.Kind() == constant.Int && k.Int64() == 0
			}
			isMasked := func(v ssa.Value) bool {
				m, ok := v.(*ssa.BinOp)
				return ok && (m.Op == token.AND || m.Op == token.AND_NOT || m.Op == token.SHR) && (isSummary(m.X) || isSummary(m.Y))
			}
			if isMasked(bo.X) || isMasked(bo.Y) {
				c.R.Add(rule, c.fk(f), "summary-bit-tested", c.pos(in), false, "a bit of the method summary is tested to decide whether a node is live: the summary of a node whose handlers were all removed is not rebuilt on every path (and carries TRACE when configured), so a removed pattern is treated as registered")
				return
			}
			if (isSummary(bo.X) && isZero(bo.Y)) || (isSummary(bo.Y) && isZero(bo.X)) {
				c.R.Add(rule, c.fk(f), "summary-compared-with-zero", c.pos(in), false, "the method summary is compared with zero to decide whether a node is live: with a TRACE handler configured it is non-zero for a node whose handlers were all removed, so a removed pattern is treated as registered")
			}
		})
	}
}

// ruleLocksSurviveRecovery (C16.R5): a lock held while user code runs is released by a defer, so a recovered panic does not leave it held.
func ruleLocksSurviveRecovery(c *Ctx, rule string) {
	sub := an.NewReport(c.R.Property)
	cc := &Ctx{P: c.P, A: c.A, R: sub, O: c.O}
	ruleLockset(cc, "X1", "X2")
	c.R.Rule(c.R.Property+"."+rule, 5, "after a recovered panic later requests are served normally: no lock stays held")
	for _, o := range sub.Obls {
		if strings.HasSuffix(o.Rule, ".X2") && (strings.Contains(o.Construct, "released-by") || strings.Contains(o.Construct, "deferred-release") || strings.Contains(o.Construct, "result-deferred-or-called")) {
			c.R.Add(rule, o.Func, o.Construct, o.At, o.OK, o.Msg)
		}
	}
}

// ruleCleanTestsEveryChild: node.clean removes exactly the children whose text starts with the prefix — the test
// `HasPrefix(child text, prefix)` that decides the removal is evaluated for every child of the loop it sits in
// (a child that was descended into is still tested: the prefix can equal the child's text exactly).
func ruleCleanTestsEveryChild(c *Ctx, rule string) {
	a := c.A
	c.R.Rule(c.R.Property+"."+rule, 1, "Clean removes exactly the routes whose pattern starts with the prefix: every child is tested against the prefix")
	f := c.P.Func(a.TreePkg.Name() + ".(*" + a.NodeT.Obj().Name() + ").clean")
	if f == nil {
		// role: the node method with one string parameter that Tree.Clean calls
		an.AllInstrs(a.TreeClean, func(in ssa.Instruction) {
			if call := an.CallOf(in); call != nil {
				if g := an.StaticCallee(call); g != nil && g.Signature.Recv() != nil && isPtrToNamed(g.Signature.Recv().Type(), a.NodeT) && g.Signature.Params().Len() == 1 {
					f = g
				}
			}
		})
	}
	if f == nil {
		c.R.Add(rule, c.fk(a.TreeClean), "clean-walk", c.P.Pos(a.TreeClean.Pos()), false, "Tree.Clean no longer hands the prefix to a walk over the nodes")
		return
	}
	var prefix *ssa.Parameter
	for _, p := range f.Params {
		if b, ok := p.Type().Underlying().(*types.Basic); ok && b.Kind() == types.String {
			prefix = p
		}
	}
	if prefix == nil {
		an.Fatalf("UNRESOLVED anchor: prefix parameter of %s", c.fk(f))
	}
	isPrefixVal := func(v ssa.Value) bool { return an.AP(v) == an.AP(prefix) || an.AP(v) == "free:"+prefix.Name() }
	// the deciding tests: HasPrefix(<child text>, prefix) anywhere in clean or its closures
	isTest := func(in ssa.Instruction) bool {
		call, ok := calleeNamed(in, "strings.HasPrefix")
		return ok && isPrefixVal(call.Args[1]) && strings.Contains(an.AP(call.Args[0]), "."+a.FSegment+".")
	}
	total := 0
	fns := append([]*ssa.Function{f}, f.AnonFuncs...)
	for _, g := range fns {
		an.AllInstrs(g, func(in ssa.Instruction) {
			if isTest(in) {
				total++
			}
		})
	}
	if total == 0 {
		c.R.Add(rule, c.fk(f), "prefix-test", c.P.Pos(f.Pos()), false, "no child is compared with the prefix (strings.HasPrefix(child text, prefix)): Clean(prefix) cannot select the routes under the prefix")
		return
	}
	n := 0
	for _, l := range rangeLoops(f) {
		if _, isCh := fieldLoadOf(l.slice, a.NodeT, a.FChildren); !isCh {
			continue
		}
		inLoop := false
		hb := l.hdr.Block()
		an.AllInstrs(f, func(in ssa.Instruction) {
			if isTest(in) && hb.Dominates(in.Block()) && in.Block() != hb.Succs[1] && !hb.Succs[1].Dominates(in.Block()) {
				inLoop = true
			}
		})
		if !inLoop {
			continue
		}
		for _, e := range l.elems {
			n++
			elemVal, _ := e.(ssa.Value)
			path := (&an.Query{
				// the child list holds no nil entries (every writer appends a fresh or dereferenced node)
				Assume: func(cond ssa.Value) (bool, bool) {
					if x, k, eq, ok := an.CondAtom(cond); ok && k.Value == nil && elemVal != nil && x == elemVal {
						return !eq, true
					}
					return false, false
				},
				Block: func(in ssa.Instruction) bool { return isTest(in) },
				BlockEdge: func(b *ssa.BasicBlock, succ int) bool {
					// edges on which the test is known to be false: len(child text) < len(prefix)
					cond, onTrue := an.EdgeCond(b, succ)
					if bo, ok := cond.(*ssa.BinOp); ok && onTrue && bo.Op == token.LSS {
						lx, okx := bo.X.(*ssa.Call)
						ly, oky := bo.Y.(*ssa.Call)
						if okx && oky {
							if cx, ok := builtinCall(lx, "len"); ok {
								if cy, ok := builtinCall(ly, "len"); ok && isPrefixVal(cy.Args[0]) && strings.Contains(an.AP(cx.Args[0]), "."+a.FSegment+".") {
									return true
								}
							}
						}
					}
					return false
				},
				Target: func(in ssa.Instruction) bool {
					if in.Block() == hb && in == hb.Instrs[0] {
						return true // next iteration
					}
					_, isRet := in.(*ssa.Return)
					return isRet
				},
			}).Search(an.After(e))
			o := c.R.Add(rule, c.fk(f), "range("+an.AP(l.slice)+")/every-child-tested", c.pos(e), path == nil, ifelse(path == nil, "every child passes the removal test", "a child can go through the loop body without being tested against the prefix (for instance after being descended into): when the prefix equals its text exactly it is kept although its pattern starts with the prefix"))
			if path != nil {
				o.Path = c.P.PathString(path)
			}
		}
	}
	if n == 0 {
		c.R.Add(rule, c.fk(f), "removal-predicate", c.P.Pos(f.Pos()), true, "the removal test is a predicate applied to every element (slices.DeleteFunc or equivalent)")
	}
	// only: a child is marked for removal (appended to the list of removals) only behind the true edge of the test —
	// "its subtree became empty" is no reason: the child may be a live route itself
	testTrue := func(b *ssa.BasicBlock, succ int) bool {
		cond, onTrue := an.EdgeCond(b, succ)
		if cond == nil {
			return false
		}
		v, neg := stripNot(cond)
		call, ok := v.(*ssa.Call)
		if !ok {
			return false
		}
		cc, ok := calleeNamed(call, "strings.HasPrefix")
		return ok && isPrefixVal(cc.Args[1]) && strings.Contains(an.AP(cc.Args[0]), "."+a.FSegment+".") && onTrue != neg
	}
	// the child has no <field> entries: len(child.<field>) == 0, or its size helper == 0, on the edge taken
	emptyEdge := func(field string) func(b *ssa.BasicBlock, succ int) bool {
		return func(b *ssa.BasicBlock, succ int) bool {
			return edgeHas(b, succ, func(cond ssa.Value, truth bool) bool {
				x, k, eq, ok := an.CondAtom(cond)
				if !ok || an.ConstKey(k) != "0" || eq != truth {
					return false
				}
				call, isCall := x.(*ssa.Call)
				if !isCall {
					return false
				}
				if cc, isLen := builtinCall(call, "len"); isLen {
					return strings.HasSuffix(an.AP(cc.Args[0]), "."+field)
				}
				if sg := an.StaticCallee(&call.Call); sg != nil && field == a.FHandlers {
					return isSizeFunc(c, sg)
				}
				return false
			})
		}
	}
	deadMarks := 0
	for _, g := range fns {
		an.AllInstrs(g, func(in ssa.Instruction) {
			call, ok := builtinCall(in, "append")
			if !ok || len(call.Args) < 2 {
				return
			}
			if _, isField := fieldLoadOf(call.Args[0], a.NodeT, a.FChildren); isField {
				return
			}
			v, isVal := in.(ssa.Value)
			if !isVal {
				return
			}
			// a list of children or of their texts
			sl, isSlice := v.Type().Underlying().(*types.Slice)
			if !isSlice || !(isStringType(sl.Elem()) || isPtrToNamed(sl.Elem(), a.NodeT)) {
				return
			}
			dom := an.DominatedByEdge(in, testTrue)
			dead := an.DominatedByEdge(in, emptyEdge(a.FHandlers)) && an.DominatedByEdge(in, emptyEdge(a.FChildren))
			if !dead {
				// behind the true edge of a node predicate that looks at both (child.isEmpty())
				dead = an.DominatedByEdge(in, func(b *ssa.BasicBlock, succ int) bool {
					return edgeHas(b, succ, func(cond ssa.Value, truth bool) bool {
						call, isCall := cond.(*ssa.Call)
						if !isCall || !truth {
							return false
						}
						sg := an.StaticCallee(&call.Call)
						return sg != nil && isDeadPredicate(c, sg)
					})
				})
			}
			if dead {
				deadMarks++
			}
			c.R.Add(rule, c.fk(g), "mark-for-removal/only-behind-prefix-test", c.pos(in), dom || dead, ifelse(dom || dead, ifelse(dom, "a child is marked for removal only when its text starts with the prefix", "a child is marked for removal when it has neither handlers nor children left (the pruning Remove does)"), "a child can be marked for removal without its text starting with the prefix and without being known to be dead — no handlers and no children — (for instance because its subtree became empty): a live route whose pattern is shorter than the prefix is removed by Clean"))
		})
	}
	// a child the walk descended into may have lost its whole subtree: when it has no handlers of its own it is a dead
	// interior node, which Remove prunes; left in place it keeps its slot in the sibling order and a later
	// registration under it is tried before siblings registered earlier (dispatch differs from the same table built
	// with Router.Remove). After every recursive call the child's emptiness is examined before the next child.
	for _, g := range fns {
		an.AllInstrs(g, func(in ssa.Instruction) {
			call, ok := calleeIs(in, f)
			if !ok || len(call.Args) < 1 {
				return
			}
			child := an.AP(call.Args[0])
			examines := func(t ssa.Instruction) bool {
				cc := an.CallOf(t)
				if cc == nil {
					return false
				}
				if b, isB := cc.Value.(*ssa.Builtin); isB && b.Name() == "len" && len(cc.Args) == 1 {
					ap := an.AP(cc.Args[0])
					return ap == child+"."+a.FChildren || ap == child+"."+a.FHandlers
				}
				if sg := an.StaticCallee(cc); sg != nil && sg.Signature.Recv() != nil && isPtrToNamed(sg.Signature.Recv().Type(), a.NodeT) && len(cc.Args) == 1 && an.AP(cc.Args[0]) == child {
					return isSizeFunc(c, sg) || isDeadPredicate(c, sg)
				}
				return false
			}
			path := (&an.Query{
				Block: examines,
				Target: func(t ssa.Instruction) bool {
					if _, isRet := t.(*ssa.Return); isRet {
						return true
					}
					_, isNext := t.(*ssa.Next)
					if isNext {
						return true
					}
					// index-based range loops: the increment of the loop counter
					if ph, isPhi := t.(*ssa.Phi); isPhi && len(ph.Edges) == 2 && ph.Comment == "rangeindex" {
						return true
					}
					return false
				},
			}).Search(an.After(in))
			// or: the children are filtered afterwards by a predicate (slices.DeleteFunc) that says yes for a child
			// without handlers and without children, and every path from the descent reaches that filter
			if path != nil || deadMarks == 0 {
				var filter ssa.Instruction
				an.AllInstrs(g, func(t ssa.Instruction) {
					cc := an.CallOf(t)
					if cc == nil || an.CalleeName(cc) != "slices.DeleteFunc" || len(cc.Args) != 2 {
						return
					}
					if _, isCh := fieldLoadOf(cc.Args[0], a.NodeT, a.FChildren); !isCh {
						return
					}
					mc, isClosure := cc.Args[1].(*ssa.MakeClosure)
					if !isClosure {
						return
					}
					pred := mc.Fn.(*ssa.Function)
					for _, r := range an.Returns(pred) {
						if k, isK := an.ReturnValue(r, 0).(*ssa.Const); isK && k.Value != nil && k.Value.ExactString() == "true" {
							if an.DominatedByEdge(r, emptyEdge(a.FHandlers)) && an.DominatedByEdge(r, emptyEdge(a.FChildren)) {
								filter = t
							}
						}
					}
					// or the verdict is computed as an expression: the predicate looks at both the handlers and the
					// children of its element
					seesH, seesC := false, false
					an.AllInstrs(pred, func(x ssa.Instruction) {
						cc := an.CallOf(x)
						if cc == nil || len(pred.Params) != 1 {
							return
						}
						el := an.AP(pred.Params[0])
						if b, isB := cc.Value.(*ssa.Builtin); isB && b.Name() == "len" && len(cc.Args) == 1 {
							switch an.AP(cc.Args[0]) {
							case el + "." + a.FChildren:
								seesC = true
							case el + "." + a.FHandlers:
								seesH = true
							}
						}
						if sg := an.StaticCallee(cc); sg != nil && isSizeFunc(c, sg) && len(cc.Args) == 1 && an.AP(cc.Args[0]) == el {
							seesH = true
						}
					})
					if seesH && seesC {
						filter = t
					}
				})
				if filter != nil {
					p2 := (&an.Query{
						Block:  func(t ssa.Instruction) bool { return t == filter },
						Target: func(t ssa.Instruction) bool { _, isRet := t.(*ssa.Return); return isRet },
					}).Search(an.After(in))
					if p2 == nil {
						path = nil
						deadMarks++
					}
				}
			}
			o := c.R.Add(rule, c.fk(g), "descend:"+child+"/emptied-child-examined", c.pos(in), path == nil && deadMarks > 0, ifelse(path == nil && deadMarks > 0, "after the walk came back from a child, the child's handlers and children are examined and a dead child is marked for removal", "after the walk came back from a child whose subtree it may have emptied, the child is kept without a look at what is left of it: an interior node without handlers and children stays in the tree, keeps its place among its siblings, and a route registered under it later is tried before siblings that were registered earlier — Prefix.Clean differs from the Router.Remove calls it stands for"))
			if path != nil {
				o.Path = c.P.PathString(path)
			}
		})
	}
	// the walk runs on every path of Tree.Clean, from the root, with the prefix given
	walkCall := func(in ssa.Instruction) bool {
		call, ok := calleeIs(in, f)
		return ok && len(call.Args) == 2 && an.AP(call.Args[0]) == "recv."+a.FRootNode && an.AP(call.Args[1]) == "p:"+a.TreeClean.Params[1].Name()
	}
	wpath := (&an.Query{
		Target: func(in ssa.Instruction) bool { _, ok := in.(*ssa.Return); return ok },
		Block:  walkCall,
	}).Search(an.Entry(a.TreeClean))
	o := c.R.Add(rule, c.fk(a.TreeClean), "walk(root,prefix)/on-every-path", c.P.Pos(a.TreeClean.Pos()), wpath == nil, ifelse(wpath == nil, "every path of Tree.Clean walks the tree from the root with the given prefix", "Tree.Clean can return without walking the tree with the prefix (a shortcut that looks the prefix up as a pattern removes one node, not every route whose pattern starts with the prefix)"))
	if wpath != nil {
		o.Path = c.P.PathString(wpath)
	}
}

// ruleSearchTriesEverySibling: the recursive searches over the tree (find, checkAmbiguous, matchChildren, …) leave
// the loop over a node's children early only with a positive result. A `return` inside the loop whose every nil-able
// result may be nil (typically `return child.search(rest)` instead of `if r := child.search(rest); r != nil { return r }`)
// gives up the remaining siblings: a live route is reported as missing.
func ruleSearchTriesEverySibling(c *Ctx, rule string, roots []*ssa.Function, why string) {
	a := c.A
	c.R.Rule(c.R.Property+"."+rule, 1, why)
	g := an.NewGraph(c.P)
	reach := g.Reach(roots, func(_ *ssa.Function, e an.Edge) bool { return e.Kind != "invoke" })
	var fs []*ssa.Function
	for f := range reach {
		if an.IsLibrary(f) && f.Signature.Results().Len() > 0 && len(f.Blocks) > 0 {
			fs = append(fs, f)
		}
	}
	sort.Slice(fs, func(i, j int) bool { return an.FuncKey(fs[i]) < an.FuncKey(fs[j]) })
	nilable := func(t types.Type) bool {
		switch t.Underlying().(type) {
		case *types.Pointer, *types.Interface, *types.Map, *types.Slice, *types.Signature:
			return true
		}
		return false
	}
	n := 0
	for _, f := range fs {
		// recursive?
		rec := false
		for h := range g.Reach([]*ssa.Function{f}, func(_ *ssa.Function, e an.Edge) bool { return e.Kind != "invoke" }) {
			an.AllInstrs(h, func(in ssa.Instruction) {
				if call := an.CallOf(in); call != nil && an.StaticCallee(call) == f {
					rec = true
				}
			})
		}
		if !rec {
			continue
		}
		for _, l := range rangeLoops(f) {
			if _, isCh := fieldLoadOf(l.slice, a.NodeT, a.FChildren); !isCh {
				continue
			}
			hb := l.hdr.Block()
			body, exit := hb.Succs[0], hb.Succs[1]
			elemAPs := map[string]bool{}
			for _, e := range l.elems {
				if v, ok := e.(ssa.Value); ok {
					elemAPs[an.AP(v)] = true
				}
			}
			for _, r := range an.Returns(f) {
				if !body.Dominates(r.Block()) || exit.Dominates(r.Block()) {
					continue
				}
				positive := ""
				any := false
				for i := range r.Results {
					v := an.ReturnValue(r, i)
					if !nilable(v.Type()) {
						continue
					}
					any = true
					switch {
					case !mayBeNilValue(v):
						positive = "result " + fmt.Sprint(i) + " is never nil"
					case elemAPs[an.AP(v)]:
						positive = "the child itself"
					case an.DominatedByEdge(r, func(b *ssa.BasicBlock, succ int) bool {
						cond, onTrue := an.EdgeCond(b, succ)
						if cond == nil {
							return false
						}
						x, k, eq, ok := an.CondAtom(cond)
						return ok && k.Value == nil && an.AP(x) == an.AP(v) && eq != onTrue
					}):
						positive = "behind " + an.AP(v) + " != nil"
					}
				}
				if !any {
					continue
				}
				n++
				c.R.Add(rule, c.fk(f), "range("+an.AP(l.slice)+")/return-only-when-found", c.pos(r), positive != "", ifelse(positive != "", "the loop is left with a result ("+positive+")", "the search returns from inside the loop over the children with a result that may be empty: the remaining siblings are never tried, so a route that lives under a later sibling is not found"))
			}
		}
	}
	if n == 0 {
		c.R.Add(rule, "module", "no-recursive-search-below:"+c.fk(roots[0]), "-", true, "no recursive search with an early return below the entry point")
	}
}

func mayBeNilValue(v ssa.Value) bool {
	switch x := v.(type) {
	case *ssa.Const:
		return x.Value == nil
	case *ssa.MakeInterface, *ssa.Alloc, *ssa.MakeMap, *ssa.MakeSlice, *ssa.MakeClosure, *ssa.Function:
		return false
	case *ssa.Call:
		switch an.CalleeName(&x.Call) {
		case "fmt.Errorf", "errors.New":
			return false
		}
	}
	return true
}

// isSizeFunc: a node method without parameters that returns len(recv.handlers).
func isSizeFunc(c *Ctx, g *ssa.Function) bool {
	a := c.A
	if g == nil || len(g.Blocks) != 1 || g.Signature.Recv() == nil || !isPtrToNamed(g.Signature.Recv().Type(), a.NodeT) || len(g.Params) != 1 {
		return false
	}
	rets := an.Returns(g)
	if len(rets) != 1 || len(rets[0].Results) != 1 {
		return false
	}
	call, ok := rets[0].Results[0].(*ssa.Call)
	if !ok {
		return false
	}
	cc, isLen := builtinCall(call, "len")
	return isLen && an.AP(cc.Args[0]) == "recv."+a.FHandlers
}

// isDeadPredicate: a node method without parameters and with a boolean result that looks at both the handlers and the
// children of its receiver (node.isEmpty()).
func isDeadPredicate(c *Ctx, g *ssa.Function) bool {
	a := c.A
	if g == nil || len(g.Blocks) == 0 || g.Signature.Recv() == nil || !isPtrToNamed(g.Signature.Recv().Type(), a.NodeT) || len(g.Params) != 1 {
		return false
	}
	if g.Signature.Results().Len() != 1 || !isBoolType(g.Signature.Results().At(0).Type()) {
		return false
	}
	seesH, seesC := false, false
	an.AllInstrs(g, func(x ssa.Instruction) {
		cc := an.CallOf(x)
		if cc == nil {
			return
		}
		if b, isB := cc.Value.(*ssa.Builtin); isB && b.Name() == "len" && len(cc.Args) == 1 {
			switch an.AP(cc.Args[0]) {
			case "recv." + a.FChildren:
				seesC = true
			case "recv." + a.FHandlers:
				seesH = true
			}
		}
		if sg := an.StaticCallee(cc); sg != nil && isSizeFunc(c, sg) && len(cc.Args) == 1 && an.AP(cc.Args[0]) == "recv" {
			seesH = true
		}
	})
	return seesH && seesC
}
