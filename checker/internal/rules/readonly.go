package rules

import (
	"fmt"
	"go/token"
	"go/types"
	"sort"
	"strings"

	"golang.org/x/tools/go/ssa"

	"muxlint/internal/an"
)

// readonly.go — operations that answer a question do not change what later answers depend on.
//
// Serving a request, listing the routes, building a URL, matching a host or a version, reading a parameter: none of
// these may write a field of a long-lived object of the library (Tree, node, Segment, Interceptors, Router, Group,
// Prefix, Resource, Hosts, the matchers, cors, options) or a package-level variable. A write from such an operation is
// either a data race (the operation runs under the read lock, or under none) or a lazily filled cache — and a cache
// is only correct when *every* operation that changes what it was computed from empties it. The rule therefore
// reports a write by a reading operation unless the written location is emptied on every returning path of every
// mutating entry point of the same object family (Tree: Add / Remove / Clean; Hosts: Add / Delete; Router: Handle /
// Remove / Clean and the facades' Clean; Context: Set / Delete / Reset).
//
// Request-scoped objects are what a reading operation is *supposed* to write: the request context (its parameters,
// path, node, router name) and the HEAD response wrapper. For the context's own accessors (Get, Exists, Int, …) the
// context is the long-lived object: they write nothing at all.

type roFamily struct {
	name     string
	readers  []string
	mutators []string
	allowed  map[string]bool // request-scoped types a reader may write
}

func roFamilies() []roFamily {
	req := map[string]bool{"Context": true, "headResponse": true}
	return []roFamily{
		{"tree", []string{"tree.(*Tree).Handler", "tree.(*Tree).Routes", "tree.(*Tree).URL", "tree.(*Tree).Find", "tree.(*Tree).Name",
			"tree.(*node).Pattern", "tree.(*node).Methods", "tree.(*node).AllowHeader",
			"syntax.(*Segment).Match", "syntax.(*Segment).Valid", "syntax.(*Segment).IsAmbiguous", "syntax.(*Segment).Similarity",
			"syntax.(*Interceptors).URL"},
			[]string{"tree.(*Tree).Add", "tree.(*Tree).Remove", "tree.(*Tree).Clean"}, req},
		{"hosts", []string{"mux.(*Hosts).Match", "mux.(*pathVersion).Match", "mux.(*headerVersion).Match"},
			[]string{"mux.(*Hosts).Add", "mux.(*Hosts).Delete"}, req},
		{"router", []string{"mux.(*Router).ServeHTTP", "mux.(*Router).URL", "mux.(*Router).Routes", "mux.(*Router).Name",
			"mux.(*Prefix).URL", "mux.(*Resource).URL", "mux.URL", "mux.CheckSyntax",
			"mux.(*Group).ServeHTTP", "mux.(*Group).Routes", "mux.(*Group).Router", "mux.(*Group).Routers"},
			[]string{"mux.(*Router).Handle", "mux.(*Router).Remove", "mux.(*Router).Clean", "mux.(*Prefix).Clean", "mux.(*Prefix).Remove", "mux.(*Resource).Clean", "mux.(*Resource).Remove"}, req},
		{"context", []string{"types.(*Context).Get", "types.(*Context).Exists", "types.(*Context).Count", "types.(*Context).Range",
			"types.(*Context).String", "types.(*Context).Int", "types.(*Context).Uint", "types.(*Context).Bool", "types.(*Context).Float",
			"types.(*Context).MustString", "types.(*Context).MustInt", "types.(*Context).MustUint", "types.(*Context).MustBool", "types.(*Context).MustFloat",
			"types.(*Context).Node", "types.(*Context).RouterName", "types.(*Context).Params"},
			[]string{"types.(*Context).Set", "types.(*Context).Delete", "types.(*Context).Reset"}, map[string]bool{}},
	}
}

type roWrite struct {
	f     *ssa.Function
	in    ssa.Instruction
	loc   string // Type.field or global
	owner string // the long-lived object type the location is part of
	what  string
}

// locationOf: the long-lived location an address or container value belongs to ("Type.field", "global:pkg.name").
func locationOf(v ssa.Value, depth int) (loc string, owner string, ok bool) {
	if depth > 6 {
		return "", "", false
	}
	switch x := v.(type) {
	case *ssa.Global:
		if x.Pkg != nil && an.InModulePkg(x.Pkg.Pkg) {
			return "global:" + x.Pkg.Pkg.Name() + "." + x.Name(), "", true
		}
	case *ssa.FieldAddr:
		if _, isLocal := x.X.(*ssa.Alloc); isLocal {
			return "", "", false // an object built here
		}
		if constructionOnly(x.X, 0) {
			return "", "", false // a helper of a constructor: the object is fresh at every call site
		}
		if rootIsLocal(x.X, 0) {
			return "", "", false // an element of a container built in this function (an explicit stack, a scratch list)
		}
		if n := namedStructOf(x.X.Type()); n != nil && n.Obj().Pkg() != nil && an.InModulePkg(n.Obj().Pkg()) {
			owner := n.Obj().Name()
			// a struct value nested in another struct belongs to the object that contains it
			for outer, ok := x.X.(*ssa.FieldAddr); ok; outer, ok = outer.X.(*ssa.FieldAddr) {
				if on := namedStructOf(outer.X.Type()); on != nil {
					owner = on.Obj().Name()
				}
			}
			return n.Obj().Name() + "." + an.FieldName(x.X.Type(), x.Field), owner, true
		}
		return locationOf(x.X, depth+1)
	case *ssa.IndexAddr:
		return locationOf(x.X, depth+1)
	case *ssa.UnOp:
		if x.Op == token.MUL {
			return locationOf(x.X, depth+1)
		}
	case *ssa.Field:
		return locationOf(x.X, depth+1)
	case *ssa.Slice:
		return locationOf(x.X, depth+1)
	case *ssa.Phi:
		for _, e := range x.Edges {
			if l, o, ok := locationOf(e, depth+1); ok {
				return l, o, true
			}
		}
	}
	return "", "", false
}

func namedStructOf(t types.Type) *types.Named {
	if p, ok := t.Underlying().(*types.Pointer); ok {
		t = p.Elem()
	}
	n, ok := types.Unalias(t).(*types.Named)
	if !ok {
		return nil
	}
	if _, isStruct := n.Underlying().(*types.Struct); !isStruct {
		return nil
	}
	return n
}

// writesOf lists the writes of one function to long-lived locations.
func writesOf(f *ssa.Function) []roWrite {
	var out []roWrite
	add := func(in ssa.Instruction, target ssa.Value, what string) {
		if loc, owner, ok := locationOf(target, 0); ok {
			out = append(out, roWrite{f, in, loc, owner, what})
		}
	}
	an.AllInstrs(f, func(in ssa.Instruction) {
		switch x := in.(type) {
		case *ssa.Store:
			add(in, x.Addr, "store")
		case *ssa.MapUpdate:
			add(in, x.Map, "map insert")
		}
		call := an.CallOf(in)
		if call == nil {
			return
		}
		name := an.CalleeName(call)
		switch {
		case name == "builtin:delete" || name == "builtin:clear":
			add(in, call.Args[0], strings.TrimPrefix(name, "builtin:"))
		case strings.HasPrefix(name, "sync.(*Map)."):
			switch strings.TrimPrefix(name, "sync.(*Map).") {
			case "Store", "Delete", "LoadOrStore", "LoadAndDelete", "Swap", "CompareAndSwap", "CompareAndDelete", "Clear":
				add(in, call.Args[0], name)
			}
		case strings.HasPrefix(name, "sync/atomic."):
			m := name[strings.LastIndexByte(name, '.')+1:]
			if strings.HasPrefix(m, "Store") || strings.HasPrefix(m, "Swap") || strings.HasPrefix(m, "CompareAndSwap") || strings.HasPrefix(m, "Add") || strings.HasPrefix(m, "Or") || strings.HasPrefix(m, "And") {
				if len(call.Args) > 0 {
					add(in, call.Args[0], name)
				}
			}
		}
	})
	return out
}

// emptiesLocation: the instruction empties / replaces the whole location (nil, zero, a fresh container, clear, Map.Clear).
func emptiesLocation(in ssa.Instruction, loc string) bool {
	switch x := in.(type) {
	case *ssa.Store:
		if fa, ok := x.Addr.(*ssa.FieldAddr); ok {
			if l, _, ok := locationOf(fa, 0); ok && l == loc {
				switch v := x.Val.(type) {
				case *ssa.Const:
					return true
				case *ssa.MakeMap, *ssa.MakeSlice:
					return true
				case *ssa.Call:
					_ = v
				}
			}
		}
		if g, ok := x.Addr.(*ssa.Global); ok {
			if l, _, ok := locationOf(g, 0); ok && l == loc {
				_, isConst := x.Val.(*ssa.Const)
				_, isMake := x.Val.(*ssa.MakeMap)
				return isConst || isMake
			}
		}
	}
	call := an.CallOf(in)
	if call == nil || len(call.Args) == 0 {
		return false
	}
	if _, isDefer := in.(*ssa.Defer); isDefer {
		return false
	}
	name := an.CalleeName(call)
	if name == "builtin:clear" || name == "sync.(*Map).Clear" || strings.HasPrefix(name, "sync/atomic.") && strings.Contains(name, "Store") {
		if l, _, ok := locationOf(call.Args[0], 0); ok && l == loc {
			if strings.HasPrefix(name, "sync/atomic.") {
				// storing nil / a zero value
				if len(call.Args) > 1 {
					_, isConst := call.Args[1].(*ssa.Const)
					return isConst
				}
				return false
			}
			return true
		}
	}
	return false
}

func ruleReadersWriteNothing(c *Ctx, rule string, families ...string) {
	c.R.Rule(c.R.Property+"."+rule, 0, "operations that only answer (serve, list, build a URL, match, read a parameter) write no long-lived state — or only a cache that every mutating operation empties")
	g := an.NewGraph(c.P)
	want := map[string]bool{}
	for _, f := range families {
		want[f] = true
	}
	for _, fam := range roFamilies() {
		if len(want) > 0 && !want[fam.name] {
			continue
		}
		var entries []*ssa.Function
		for _, k := range fam.readers {
			if f := c.P.Func(k); f != nil {
				entries = append(entries, f)
			}
		}
		if len(entries) < len(fam.readers)/2 {
			c.R.Undecide("%s: fewer than half of the reading operations of the %s family exist under their names", rule, fam.name)
			continue
		}
		var muts []*ssa.Function
		for _, k := range fam.mutators {
			if f := c.P.Func(k); f != nil {
				muts = append(muts, f)
			}
		}
		reach := g.Reach(entries, func(from *ssa.Function, e an.Edge) bool {
			// a mutating entry point is never part of a reading operation (name-based interface resolution may say so)
			for _, m := range muts {
				if an.Origin(e.Callee) == an.Origin(m) {
					return false
				}
			}
			return true
		})
		type key struct{ fk, loc string }
		seen := map[key]bool{}
		var fns []*ssa.Function
		for f := range reach {
			fns = append(fns, f)
		}
		sort.Slice(fns, func(i, j int) bool { return an.FuncKey(fns[i]) < an.FuncKey(fns[j]) })
		checked := 0
		for _, f := range fns {
			if !an.IsLibrary(f) {
				continue
			}
			checked++
			for _, w := range writesOf(f) {
				if fam.allowed[w.owner] {
					continue
				}
				k := key{an.FuncKey(f), w.loc}
				if seen[k] {
					continue
				}
				seen[k] = true
				// a cache? every mutating entry point empties the location on every returning path
				var missing []string
				for _, m := range muts {
					path := (&an.Query{
						Deep:   deepDefault,
						Target: func(t ssa.Instruction) bool { _, ok := t.(*ssa.Return); return ok && t.Parent() == m },
						Block:  func(t ssa.Instruction) bool { return emptiesLocation(t, w.loc) },
					}).Search(an.Entry(m))
					if path != nil {
						missing = append(missing, an.FuncKey(m))
					}
				}
				good := len(missing) == 0 && len(muts) > 0
				chain := an.Chain(reach, f)
				o := c.R.Add(rule, an.FuncKey(f), "reading-operation/writes:"+w.loc, c.pos(w.in), good,
					ifelse(good, fmt.Sprintf("%s of %s from a reading operation (%s): a cache that every mutating entry point of the %s family empties on every path", w.what, w.loc, chain, fam.name),
						fmt.Sprintf("%s of %s from a reading operation (%s): the operation runs under the read lock or none (data race), and what it stores is not emptied by %s — after that operation later answers come from the stale value", w.what, w.loc, chain, strings.Join(missing, ", "))))
				o.Path = chain
			}
		}
		c.R.Add(rule, "family:"+fam.name, "reading-operations/analysed", "-", checked > 0, fmt.Sprintf("%d functions reachable from %d reading entry points of the %s family examined for writes to long-lived state", checked, len(entries), fam.name))
	}
}

// rootIsLocal: the address denotes (an element of) an object this function allocated itself: a local variable, a
// slice it made or appended onto from nil, never something loaded from a field, a global or a parameter.
func rootIsLocal(v ssa.Value, depth int) bool { return rootIsLocalSeen(v, map[ssa.Value]bool{}) }

func rootIsLocalSeen(v ssa.Value, seen map[ssa.Value]bool) bool {
	if seen[v] {
		return true // a cycle through a loop-carried value adds no new root
	}
	seen[v] = true
	switch x := v.(type) {
	case *ssa.Alloc, *ssa.MakeSlice, *ssa.MakeMap:
		return true
	case *ssa.Const:
		return x.Value == nil
	case *ssa.IndexAddr:
		return rootIsLocalSeen(x.X, seen)
	case *ssa.Slice:
		return rootIsLocalSeen(x.X, seen)
	case *ssa.FieldAddr:
		return rootIsLocalSeen(x.X, seen)
	case *ssa.Phi:
		for _, e := range x.Edges {
			if !rootIsLocalSeen(e, seen) {
				return false
			}
		}
		return len(x.Edges) > 0
	case *ssa.Call:
		if b, ok := x.Call.Value.(*ssa.Builtin); ok && b.Name() == "append" && len(x.Call.Args) > 0 {
			return rootIsLocalSeen(x.Call.Args[0], seen)
		}
	case *ssa.UnOp:
		if x.Op == token.MUL {
			if al, ok := x.X.(*ssa.Alloc); ok {
				for _, ref := range *al.Referrers() {
					if st, ok := ref.(*ssa.Store); ok && st.Addr == ssa.Value(al) && !rootIsLocalSeen(st.Val, seen) {
						return false
					}
				}
				return true
			}
		}
	}
	return false
}
