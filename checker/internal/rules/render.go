package rules

import (
	"fmt"
	"go/token"
	"go/types"
	"os"
	"strings"

	"golang.org/x/tools/go/ssa"

	"muxlint/internal/an"
)

// ruleSummaryRendering is C04.R5: the bit table, the node summary builder, the renderer and the three readers
// (Allow header, Methods(), Routes()) agree — they name the registered methods, HEAD with GET, OPTIONS.
func ruleSummaryRendering(c *Ctx, rule string) {
	a := c.A
	c.R.Rule(c.R.Property+"."+rule, 6, "the Allow header, Node().Methods() and Routes() all name the same set: one bit per method, the summary accumulates the bit of every key, the renderer keeps exactly the set bits, and the three readers read that one rendered entry")
	tableAP := "global:" + a.TreePkg.Name() + "." + a.MethodTable.Name()
	memoAP := "global:" + a.TreePkg.Name() + "." + a.MemoVar.Name()

	// (a) the table: table[Methods[i]] = 1 << i
	nTab := 0
	for _, f := range c.libFuncs() {
		if !isInitFunc(f) {
			continue
		}
		an.AllInstrs(f, func(in ssa.Instruction) {
			mu, ok := in.(*ssa.MapUpdate)
			if !ok || an.AP(mu.Map) != tableAP {
				return
			}
			nTab++
			_, sl, isElem := an.RangeLoopOf(mu.Key)
			good := isElem && strings.HasPrefix(an.AP(sl), "global:"+a.TreePkg.Name()+".")
			if sh, ok := mu.Value.(*ssa.BinOp); ok && sh.Op == token.SHL {
				k, isC := sh.X.(*ssa.Const)
				good = good && isC && k.Value != nil && k.Int64() == 1
				// shift amount is the loop index of the same loop
				if ia := elemIndexOf(mu.Key); ia != nil {
					good = good && sh.Y == ia
				} else {
					good = false
				}
			} else {
				good = false
			}
			c.R.Add(rule, c.fk(f), "table[method]=1<<index", c.pos(in), good, ifelse(good, "every method of the list gets its own bit", "the method table is not filled with one distinct bit per listed method: two methods can share a bit or a method has none"))
		})
	}
	if nTab == 0 {
		c.R.Add(rule, "pkg:tree", "table[method]=1<<index", "-", false, "the method table is not filled during initialisation")
	}

	// (b) node summary builder: the stored summary accumulates table[key] for every key of the handler map,
	// unconditionally in the loop, starting from a value that does not depend on the old summary
	b := a.NodeSummaryBuilder
	if b == nil {
		c.R.Add(rule, "pkg:tree", "summary=sum(table[key])-over-all-keys", "-", false, "no node method recomputes the method summary from the handler map (it is kept incrementally or by code of another shape): that the summary names exactly the keys of the handler map — after removing a method the node never had, after a failed registration — cannot be established")
		return
	}
	var add *ssa.BinOp
	an.AllInstrs(b, func(in ssa.Instruction) {
		bo, ok := in.(*ssa.BinOp)
		if !ok || (bo.Op != token.ADD && bo.Op != token.OR) { // the table's bits are distinct: + and | agree
			return
		}
		for _, opnd := range []ssa.Value{bo.X, bo.Y} {
			if lk, isLk := opnd.(*ssa.Lookup); isLk && an.AP(lk.X) == tableAP && rangeKeyOf(lk.Index, "recv."+a.FHandlers) {
				add = bo
			}
		}
	})
	goodB, whyB := false, "no accumulation of table[key] over the keys of the handler map"
	if add != nil {
		goodB, whyB = true, ""
		if !unconditionalInLoop(add) {
			// a key may be skipped only when it is the internal 405 key, which has no bit in the table
			skipped := true
			var keyV ssa.Value
			for _, opnd := range []ssa.Value{add.X, add.Y} {
				if lk, isLk := opnd.(*ssa.Lookup); isLk {
					keyV = lk.Index
				}
			}
			if ex, isEx := keyV.(*ssa.Extract); isEx {
				if nx, isNx := ex.Tuple.(*ssa.Next); isNx {
					hdr := nx.Block()
					path := (&an.Query{
						Target: func(t ssa.Instruction) bool { return t.Block() == hdr && t == hdr.Instrs[0] },
						Block:  func(t ssa.Instruction) bool { return t == ssa.Instruction(add) },
						BlockEdge: func(bb *ssa.BasicBlock, succ int) bool {
							return edgeHas(bb, succ, func(cond ssa.Value, truth bool) bool {
								x, k, eq, ok := an.CondAtom(cond)
								return ok && x == keyV && an.ConstKey(k) == a.NotAllowedKey && eq == truth
							})
						},
					}).Search(an.After(ex))
					skipped = path != nil
				}
			}
			if skipped {
				goodB, whyB = false, "a key is skipped (the accumulation is conditional)"
			}
		}
		// the accumulator: either the field itself (then a store of 0 must dominate the loop) or a loop phi whose
		// entry value does not read the old summary
		other := add.X
		if _, isLk := other.(*ssa.Lookup); isLk {
			other = add.Y
		}
		switch acc := other.(type) {
		case *ssa.UnOp:
			if base, isS := fieldLoadOf(acc, a.NodeT, a.FSummary); isS && base == "recv" {
				zeroDom := an.DominatedByInstr(add, func(x ssa.Instruction) bool {
					bb, ff, vv, ok := fieldStore(x, a.NodeT)
					return ok && bb == "recv" && ff == a.FSummary && !strings.Contains(c.O.Of(vv).String(), "recv."+a.FSummary)
				})
				if !zeroDom {
					goodB, whyB = false, "the sum does not start from a fresh value (the old summary leaks in)"
				}
			}
		case *ssa.Phi:
			for _, e := range acc.Edges {
				if e == ssa.Value(add) {
					continue
				}
				if strings.Contains(c.O.Of(e).String(), "recv."+a.FSummary) {
					goodB, whyB = false, "the accumulator starts from the old summary"
				}
			}
			// and the accumulated value is what gets stored (by the builder, or by the setter it hands the value to)
			stored := false
			an.AllInstrs(b, func(in ssa.Instruction) {
				if bb, ff, vv, ok := fieldStore(in, a.NodeT); ok && bb == "recv" && ff == a.FSummary {
					if strings.Contains(c.O.Of(vv).String(), "phi<"+acc.Name()+">") || vv == ssa.Value(acc) {
						stored = true
					}
				}
				if setter := summarySetterOf(a, b); setter != nil {
					if call, isCall := calleeIs(in, setter); isCall {
						nodeIdx, valIdx, _ := summarySetterArgs(a, setter)
						if len(call.Args) == len(setter.Params) && an.AP(call.Args[nodeIdx]) == "recv" {
							// the accumulator itself, not a value computed from it (index &^ 1 drops a method)
							if strings.HasPrefix(c.O.Of(call.Args[valIdx]).String(), "phi<"+acc.Name()+">") || call.Args[valIdx] == ssa.Value(acc) {
								stored = true
							}
						}
					}
				}
			})
			if !stored {
				goodB, whyB = false, "the accumulated value is not what is stored as the summary"
			}
		}
	}
	c.R.Add(rule, c.fk(b), "summary=sum(table[key])-over-all-keys", c.P.Pos(b.Pos()), goodB, ifelse(goodB, "accumulates the bit of every key of the handler map, unconditionally, from a fresh start", "the node summary is not the sum of the table bits of all handler-map keys: "+whyB+" — Allow/Methods() omit a served method or keep a removed one"))

	// (c) renderer: ranges over the whole table, keeps a method iff its bit is set, joins with ", "
	r := a.MemoBuilder
	var keep ssa.Instruction
	renderFuncs := []*ssa.Function{r}
	for fn := range an.NewGraph(c.P).Reach([]*ssa.Function{r}, func(_ *ssa.Function, e an.Edge) bool { return e.Kind == "static" }) {
		if fn != r {
			renderFuncs = append(renderFuncs, fn)
		}
	}
	intParam := func(fn *ssa.Function) string {
		for _, p := range fn.Params {
			if b, ok := p.Type().Underlying().(*types.Basic); ok && b.Kind() == types.Int {
				return "param:" + p.Name()
			}
		}
		return "param:?"
	}
	// the table as the render functions see it: the global itself, or a parameter that receives it at every call site
	tableNames := []string{tableAP}
	for _, fn := range renderFuncs {
		for _, p := range fn.Params {
			args := argsOfParam(p)
			all := len(args) > 0
			for _, av := range args {
				if an.AP(av) != tableAP {
					all = false
				}
			}
			if all {
				tableNames = append(tableNames, "param:"+p.Name())
			}
		}
	}
	rangesTable := func(t string, idx int) bool {
		for _, tn := range tableNames {
			if strings.Contains(t, fmt.Sprintf("extract<%d>(next(range(%s)))", idx, tn)) {
				return true
			}
		}
		return false
	}
	for _, fn := range renderFuncs {
		an.AllInstrs(fn, func(in ssa.Instruction) {
			if call, ok := builtinCall(in, "append"); ok {
				t := c.O.Of(call.Args[len(call.Args)-1]).String()
				if rangesTable(t, 1) {
					keep = in
				}
			}
		})
	}
	goodKeep := false
	if keep != nil {
		goodKeep = an.DominatedByEdge(keep, func(bb *ssa.BasicBlock, succ int) bool {
			return edgeHas(bb, succ, func(cond ssa.Value, truth bool) bool {
				bo, ok := cond.(*ssa.BinOp)
				if !ok {
					return false
				}
				and, ok := bo.X.(*ssa.BinOp)
				if !ok || and.Op != token.AND {
					return false
				}
				bit := c.O.Of(and.Y).String()
				idx := c.O.Of(and.X).String()
				ip := intParam(keep.Parent())
				if !(rangesTable(bit, 2) && idx == ip) &&
					!(rangesTable(idx, 2) && bit == ip) {
					return false
				}
				other := c.O.Of(bo.Y).String()
				switch bo.Op {
				case token.EQL: // index&bit == bit  (true)   |  index&bit == 0 (false)
					if other == "0" {
						return !truth
					}
					return truth && rangesTable(other, 2)
				case token.NEQ: // index&bit != 0 (true)  |  index&bit != bit (false)
					if rangesTable(other, 2) {
						return !truth
					}
					return other == "0" && truth
				case token.GTR:
					return other == "0" && truth
				}
				return false
			})
		})
	}
	if !goodKeep {
		// not the familiar shape: evaluate the renderer for a generic method whose bit is set / not set
		if decided, ok := renderKeepsByEvaluation(c, r, tableAP, memoAP); decided {
			goodKeep = ok
		}
	}
	c.R.Add(rule, c.fk(r), "render:keeps-method-iff-bit-set", c.P.Pos(r.Pos()), goodKeep, ifelse(goodKeep, "a method is rendered exactly when its bit is set in the summary", "the renderer does not keep a method exactly when its bit is set: the rendered set differs from the summary"))
	okJoin, okStore := false, false
	for _, fn := range renderFuncs {
		an.AllInstrs(fn, func(in ssa.Instruction) {
			if call, ok := calleeNamed(in, "strings.Join"); ok {
				s, isS := strConst(call.Args[1])
				okJoin = isS && s == ", "
			}
			if mu, ok := in.(*ssa.MapUpdate); ok && an.AP(mu.Map) == memoAP {
				okStore = "param:"+strings.TrimPrefix(an.AP(mu.Key), "p:") == intParam(fn)
			}
		})
	}
	c.R.Add(rule, c.fk(r), "render:join(\", \")-stored-under-index", c.P.Pos(r.Pos()), okJoin && okStore, ifelse(okJoin && okStore, "the entry is the list joined with \", \", stored under the summary value", "the rendered entry is not the method list joined with \", \" stored under its own summary value"))

	// (d) readers
	for _, rd := range []struct{ key, field string }{{"tree.(*node).AllowHeader", "options"}, {"tree.(*node).Methods", "methods"}} {
		f := c.P.MustFunc(rd.key)
		good := true
		for _, ret := range an.Returns(f) {
			node, field, ok := c.memoEntryField(ret.Results[0], 0)
			if !ok || node != "recv" || field != rd.field {
				good = false
			}
		}
		c.R.Add(rule, rd.key, "reads:memo[summary(recv)]."+rd.field, c.P.Pos(f.Pos()), good, ifelse(good, "returns the ."+rd.field+" of the memo entry of the receiver's own summary", rd.key+" does not return the rendered entry of the receiver's own summary"))
		if rd.field == "methods" {
			copied := true
			for _, ret := range an.Returns(f) {
				if !isCloneCall(ret.Results[0]) {
					copied = false
				}
			}
			c.R.Add(rule, rd.key, "hands-out:copy-of-memo-list", c.P.Pos(f.Pos()), copied, ifelse(copied, "the caller receives its own copy of the method list", "the caller receives the slice stored in the process-wide memo itself: writing into it (sorting, filtering in place) changes Methods(), Routes() and the CORS method test of every pattern with that method set in every router of the process"))
		}
	}
	goodRt, nRt := true, 0
	var rtAt ssa.Instruction
	for _, mu := range routesListers(c) {
		nRt++
		rtAt = mu
		key := c.O.Of(mu.Key).String()
		want := strings.TrimSuffix(key, "."+c.A.FPattern)
		want = strings.Replace(want, "param:", "p:", 1)
		node, field, ok := c.memoEntryField(mu.Value, 0)
		if !(ok && field == "methods" && (node == want || node == "recv" && want == "recv")) {
			goodRt = false
		}
		copied := isCloneCall(mu.Value)
		c.R.Add(rule, c.fk(mu.Parent()), "lists:copy-of-memo-list", c.pos(mu), copied, ifelse(copied, "Routes() hands out copies of the method lists", "Routes() hands out the slices stored in the process-wide memo: a caller that edits its result changes the method lists every router reports"))
	}
	if nRt == 0 {
		c.R.Add(rule, c.fk(c.A.TreeRoutes), "lists:memo[summary(recv)].methods", c.P.Pos(c.A.TreeRoutes.Pos()), false, "Routes() lists nothing")
	} else {
		c.R.Add(rule, c.fk(rtAt.Parent()), "lists:memo[summary(recv)].methods", c.P.Pos(rtAt.Parent().Pos()), goodRt, ifelse(goodRt, "Routes() lists the rendered method list of the node's own summary", "Routes() does not list the rendered method list of the node's own summary: it can disagree with the Allow header"))
	}
}

// elemIndexOf returns the index value of a range-loop element load.
func elemIndexOf(v ssa.Value) ssa.Value {
	u, ok := v.(*ssa.UnOp)
	if !ok {
		return nil
	}
	ia, ok := u.X.(*ssa.IndexAddr)
	if !ok {
		return nil
	}
	return ia.Index
}

// memoEntryField: v is field `field` of the memo entry looked up under the summary of node `node`,
// possibly through small helper functions (followed through their single returns, depth-bounded).
func (c *Ctx) memoEntryField(v ssa.Value, depth int) (node, field string, ok bool) {
	a := c.A
	if depth > 4 {
		return "", "", false
	}
	switch x := v.(type) {
	case *ssa.Call:
		// a copy of the entry's list: slices.Clone(entry.methods)
		if n := an.CalleeName(&x.Call); (n == "slices.Clone" || n == "bytes.Clone") && len(x.Call.Args) == 1 {
			return c.memoEntryField(x.Call.Args[0], depth+1)
		}
		// a module helper of one summary value: methodsOf(index) = a copy of memo[index].methods, called with the
		// summary of a node
		if g := an.StaticCallee(&x.Call); g != nil && an.InModule(g) && g.Signature.Recv() == nil && len(g.Params) == 1 && len(g.Blocks) > 0 && len(x.Call.Args) == 1 {
			fld := ""
			for _, r := range an.Returns(g) {
				f1, ok1 := c.entryFieldOfParam(an.ReturnValue(r, 0), g.Params[0], depth+1)
				if !ok1 || (fld != "" && fld != f1) {
					return "", "", false
				}
				fld = f1
			}
			if fld == "" {
				return "", "", false
			}
			node, okN := c.summaryOf(x.Call.Args[0], depth)
			return node, fld, okN
		}
	case *ssa.Field:
		n, isEntry := c.memoEntry(x.X, depth)
		if !isEntry {
			return "", "", false
		}
		return n, an.FieldName(x.X.Type(), x.Field), true
	case *ssa.UnOp:
		if fa, isFA := x.X.(*ssa.FieldAddr); isFA {
			// field of a local copy of the entry
			if al, isAl := fa.X.(*ssa.Alloc); isAl {
				for _, r := range *al.Referrers() {
					if st, isSt := r.(*ssa.Store); isSt && st.Addr == ssa.Value(al) {
						if n, isEntry := c.memoEntry(st.Val, depth); isEntry {
							return n, an.FieldName(fa.X.Type(), fa.Field), true
						}
					}
				}
			}
		}
	}
	_ = a
	return "", "", false
}

// memoEntry: v is memo[summary(node)].
func (c *Ctx) memoEntry(v ssa.Value, depth int) (node string, ok bool) {
	a := c.A
	memoAP := "global:" + a.TreePkg.Name() + "." + a.MemoVar.Name()
	if depth > 4 {
		return "", false
	}
	switch x := v.(type) {
	case *ssa.Lookup:
		if an.AP(x.X) != memoAP {
			return "", false
		}
		return c.summaryOf(x.Index, depth)
	case *ssa.Call:
		g := an.StaticCallee(&x.Call)
		if g == nil || !an.InModule(g) || len(g.Params) != 1 {
			return "", false
		}
		// a method returning the memo entry of its receiver's summary
		if g.Signature.Recv() != nil {
			for _, r := range an.Returns(g) {
				n2, ok2 := c.memoEntry(an.ReturnValue(r, 0), depth+1)
				if !ok2 || n2 != "recv" {
					return "", false
				}
			}
			return an.AP(x.Call.Args[0]), true
		}
		// helper(index) returning memo[index] on every return
		for _, r := range an.Returns(g) {
			rv := an.ReturnValue(r, 0)
			lk, isLk := rv.(*ssa.Lookup)
			if !isLk || an.AP(lk.X) != memoAP || lk.Index != ssa.Value(g.Params[0]) {
				return "", false
			}
		}
		return c.summaryOf(x.Call.Args[0], depth+1)
	}
	return "", false
}

// summaryOf: v is the method summary of node (a field load, or a helper returning it).
func (c *Ctx) summaryOf(v ssa.Value, depth int) (node string, ok bool) {
	a := c.A
	if base, isS := fieldLoadOf(v, a.NodeT, a.FSummary); isS {
		return base, true
	}
	if call, isCall := v.(*ssa.Call); isCall && depth < 4 {
		g := an.StaticCallee(&call.Call)
		if g == nil || !an.InModule(g) || g.Signature.Recv() == nil {
			return "", false
		}
		for _, r := range an.Returns(g) {
			base, isS := fieldLoadOf(an.ReturnValue(r, 0), a.NodeT, a.FSummary)
			if !isS || base != "recv" {
				return "", false
			}
		}
		return an.AP(call.Call.Args[0]), true
	}
	return "", false
}

// renderKeepsByEvaluation evaluates the memo renderer symbolically for one generic method M with bit BIT — the
// element of whatever collection the renderer walks (the bit table itself, the list of methods with the bit looked
// up in the table, or the list `Methods` with the bit computed as 1<<position, which is how the table is built) —
// once with "BIT is set in the summary value" and once with "it is not". On every path that stores the memo entry
// the method must have been appended in the first scenario and must not have been in the second.
func renderKeepsByEvaluation(c *Ctx, r *ssa.Function, tableAP, memoAP string) (decided, ok bool) {
	table := "GLOBAL:" + tableAP[strings.LastIndexByte(tableAP, '.')+1:]
	memo := "GLOBAL:" + memoAP[strings.LastIndexByte(memoAP, '.')+1:]
	results := map[bool][]bool{}
	for _, set := range []bool{true, false} {
		set := set
		se := &symEval{c: c}
		se.elem = func(coll string) string {
			switch {
			case coll == table:
				return "BIT"
			case strings.HasPrefix(coll, "GLOBAL:"):
				return "M"
			}
			return ""
		}
		se.nonEmpty = func(coll string) bool { return strings.HasPrefix(coll, "GLOBAL:") }
		se.norm = func(e string) string {
			switch e {
			case "KEY(" + table + ")":
				return "M"
			case "LOOKUP(" + table + ",M)", "SHL(CONST:1,CONST:0)":
				return "BIT"
			}
			return e
		}
		se.truth = func(e string) int {
			b := func(v bool) int { return pm(v == set) }
			for _, and := range []string{"AND(INDEX,BIT)", "AND(BIT,INDEX)"} {
				switch e {
				case "EQ(" + and + ",BIT)", "EQ(BIT," + and + ")", "NE(" + and + ",CONST:0)", "GT(" + and + ",CONST:0)", "NE(CONST:0," + and + ")":
					return b(true)
				case "NE(" + and + ",BIT)", "NE(BIT," + and + ")", "EQ(" + and + ",CONST:0)", "EQ(CONST:0," + and + ")", "LE(" + and + ",CONST:0)":
					return b(false)
				}
			}
			return 0
		}
		for _, o := range se.outcomes(r, []sval{sv("INDEX")}) {
			if os.Getenv("MUXLINT_DEBUG_RENDER") != "" {
				println("RENDER", set, o.String())
			}
			if strings.Contains(o.ret, "UNK:budget") || strings.Contains(o.ret, "UNK:depth") {
				return false, false
			}
			stores, kept := false, false
			for _, e := range o.effects {
				if strings.HasPrefix(e, "MAPSET "+memo+"[INDEX]") {
					stores = true
				}
				if strings.HasPrefix(e, "STORE ELEM(") && strings.HasSuffix(e, " = M") {
					kept = true
				}
			}
			if stores {
				results[set] = append(results[set], kept)
			}
		}
	}
	if len(results[true]) == 0 || len(results[false]) == 0 {
		return false, false
	}
	for _, k := range results[true] {
		if !k {
			return true, false
		}
	}
	for _, k := range results[false] {
		if k {
			return true, false
		}
	}
	return true, true
}

func isCloneCall(v ssa.Value) bool {
	call, ok := v.(*ssa.Call)
	if !ok {
		return false
	}
	switch an.CalleeName(&call.Call) {
	case "slices.Clone", "slices.Concat", "builtin:append":
		return true
	}
	// a module helper every return of which is such a copy
	if g := an.StaticCallee(&call.Call); g != nil && an.InModule(g) && len(g.Blocks) > 0 {
		rets := an.Returns(g)
		for _, r := range rets {
			if len(r.Results) != 1 {
				return false
			}
			rc, isCall := an.ReturnValue(r, 0).(*ssa.Call)
			if !isCall {
				return false
			}
			switch an.CalleeName(&rc.Call) {
			case "slices.Clone", "slices.Concat", "builtin:append":
			default:
				return false
			}
		}
		return len(rets) > 0
	}
	return false
}

// entryFieldOfParam: v is (a copy of) a field of the memo entry stored under the value of parameter p.
func (c *Ctx) entryFieldOfParam(v ssa.Value, p *ssa.Parameter, depth int) (string, bool) {
	a := c.A
	memoAP := "global:" + a.TreePkg.Name() + "." + a.MemoVar.Name()
	if depth > 5 {
		return "", false
	}
	entryOfParam := func(e ssa.Value) bool {
		switch y := e.(type) {
		case *ssa.Lookup:
			return an.AP(y.X) == memoAP && y.Index == ssa.Value(p)
		case *ssa.Call:
			h := an.StaticCallee(&y.Call)
			if h == nil || !an.InModule(h) || len(h.Params) != 1 || len(y.Call.Args) != 1 || y.Call.Args[0] != ssa.Value(p) {
				return false
			}
			for _, r := range an.Returns(h) {
				lk, isLk := an.ReturnValue(r, 0).(*ssa.Lookup)
				if !isLk || an.AP(lk.X) != memoAP || lk.Index != ssa.Value(h.Params[0]) {
					return false
				}
			}
			return true
		}
		return false
	}
	switch x := v.(type) {
	case *ssa.Call:
		if n := an.CalleeName(&x.Call); (n == "slices.Clone" || n == "bytes.Clone") && len(x.Call.Args) == 1 {
			return c.entryFieldOfParam(x.Call.Args[0], p, depth+1)
		}
	case *ssa.Field:
		if entryOfParam(x.X) {
			return an.FieldName(x.X.Type(), x.Field), true
		}
	case *ssa.UnOp:
		if fa, isFA := x.X.(*ssa.FieldAddr); isFA {
			if al, isAl := fa.X.(*ssa.Alloc); isAl {
				for _, r := range *al.Referrers() {
					if st, isSt := r.(*ssa.Store); isSt && st.Addr == ssa.Value(al) && entryOfParam(st.Val) {
						return an.FieldName(fa.X.Type(), fa.Field), true
					}
				}
			}
		}
	}
	return "", false
}
