package rules

import (
	"fmt"
	"sort"
	"strings"

	"golang.org/x/tools/go/ssa"

	"muxlint/internal/an"
)

// PairSpec is a PAIR(A ⇒ B) rule: every effect A on an object X must be
// followed, on every path to a successful return, by an effect B on X.
// Functions that perform A on a parameter object without B are "dirty in that
// parameter": the obligation moves to their call sites.  Functions that perform
// B on a parameter object on every successful path "clean" it.
type PairSpec struct {
	Rule string
	// IsA: instruction performs A on object with access path x.
	IsA func(f *ssa.Function, in ssa.Instruction) (x, what string, ok bool)
	// IsB: instruction performs B on object x.
	IsB func(f *ssa.Function, in ssa.Instruction) (x string, ok bool)
	// ErrorExits examines error returns instead of successful returns.
	ErrorExits bool
	// NoConstruct disables the construction exemption (objects allocated in the function).
	NoConstruct bool
}

type pairSite struct {
	f      *ssa.Function
	in     ssa.Instruction
	x      string
	what   string
	origin string // for lifted obligations: where the original A is
	status string // discharged | lifted | failed
	path   string
	by     string
}

type pairEngine struct {
	c      *Ctx
	spec   *PairSpec
	funcs  []*ssa.Function
	dirty  map[*ssa.Function]map[string]string // f -> param AP -> origin description
	cleans map[*ssa.Function]map[string]bool   // f -> param AP
}

func isEntryPoint(f *ssa.Function) bool {
	if f.Parent() != nil {
		return false
	}
	obj := f.Object()
	if obj == nil || !obj.Exported() {
		return false
	}
	if recv := f.Signature.Recv(); recv != nil {
		s := an.FuncKey(f)
		// receiver type exported?
		i := strings.Index(s, ".")
		rest := strings.TrimLeft(s[i+1:], "(*")
		return len(rest) > 0 && rest[0] >= 'A' && rest[0] <= 'Z'
	}
	return true
}

func paramAPs(f *ssa.Function) map[string]int {
	m := map[string]int{}
	for i, p := range f.Params {
		m[an.AP(p)] = i
	}
	return m
}

// RunPair evaluates a PAIR rule over the library functions and returns the sites.
func (c *Ctx) RunPair(spec *PairSpec) []*pairSite {
	e := &pairEngine{c: c, spec: spec, funcs: c.libFuncs(), dirty: map[*ssa.Function]map[string]string{}, cleans: map[*ssa.Function]map[string]bool{}}
	var sites []*pairSite
	for iter := 0; iter < 10; iter++ {
		changed := false
		// cleans
		for _, f := range e.funcs {
			for pa := range paramAPs(f) {
				if e.cleans[f][pa] {
					continue
				}
				if e.alwaysB(f, pa) {
					if e.cleans[f] == nil {
						e.cleans[f] = map[string]bool{}
					}
					e.cleans[f][pa] = true
					changed = true
				}
			}
		}
		sites = sites[:0]
		for _, f := range e.funcs {
			for _, s := range e.sitesOf(f) {
				e.evaluate(s)
				if s.status == "lifted" {
					if e.dirty[f] == nil {
						e.dirty[f] = map[string]string{}
					}
					if _, had := e.dirty[f][s.x]; !had {
						e.dirty[f][s.x] = s.origin
						changed = true
					}
				}
				sites = append(sites, s)
			}
		}
		if !changed {
			break
		}
	}
	return sites
}

func (e *pairEngine) sitesOf(f *ssa.Function) []*pairSite {
	var out []*pairSite
	an.AllInstrs(f, func(in ssa.Instruction) {
		if x, what, ok := e.spec.IsA(f, in); ok {
			if constructed(f, x) && !e.spec.NoConstruct {
				return
			}
			out = append(out, &pairSite{f: f, in: in, x: x, what: what, origin: fmt.Sprintf("%s at %s in %s", what, e.c.pos(in), an.FuncKey(f))})
			return
		}
		if call := an.CallOf(in); call != nil {
			if g := an.StaticCallee(call); g != nil && len(e.dirty[g]) > 0 {
				args := an.CallArgs(call)
				for pa, origin := range e.dirty[g] {
					idx, ok := paramAPs(g)[pa]
					if !ok || idx >= len(args) {
						continue
					}
					x := an.AP(args[idx])
					if constructed(f, x) && !e.spec.NoConstruct {
						continue
					}
					out = append(out, &pairSite{f: f, in: in, x: x, what: "call of " + an.FuncKey(g) + " (dirty in " + pa + ")", origin: origin})
				}
			}
		}
	})
	return out
}

// constructed: the object is a fresh allocation of this function (construction, not mutation).
func constructed(f *ssa.Function, x string) bool {
	return strings.HasPrefix(x, "alloc:")
}

func (e *pairEngine) isBOn(f *ssa.Function, in ssa.Instruction, x string) bool {
	if bx, ok := e.spec.IsB(f, in); ok && bx == x {
		return true
	}
	if call := an.CallOf(in); call != nil {
		if _, isDefer := in.(*ssa.Defer); isDefer {
			return false
		}
		if g := an.StaticCallee(call); g != nil && len(e.cleans[g]) > 0 {
			args := an.CallArgs(call)
			for pa := range e.cleans[g] {
				idx, ok := paramAPs(g)[pa]
				if ok && idx < len(args) && an.AP(args[idx]) == x {
					return true
				}
			}
		}
	}
	return false
}

func (e *pairEngine) exitTarget(in ssa.Instruction) bool {
	r, ok := in.(*ssa.Return)
	if !ok {
		return false
	}
	if e.spec.ErrorExits {
		return an.IsErrorReturn(r)
	}
	return an.IsSuccessReturn(r)
}

func (e *pairEngine) evaluate(s *pairSite) {
	q := &an.Query{
		Block:  func(in ssa.Instruction) bool { return in != s.in && e.isBOn(s.f, in, s.x) },
		Target: e.exitTarget,
		Facts:  true,
	}
	path := q.Search(an.After(s.in))
	if path == nil {
		s.status = "discharged"
		s.by = e.firstB(s)
		return
	}
	s.path = e.c.P.PathString(path)
	if _, isParam := paramAPs(s.f)[s.x]; isParam && !isEntryPoint(s.f) && hasModuleCaller(e.c, s.f) {
		s.status = "lifted"
		return
	}
	s.status = "failed"
}

func (e *pairEngine) firstB(s *pairSite) string {
	// describe a discharging instruction reachable from the site (for evidence)
	var found ssa.Instruction
	q := &an.Query{Target: func(in ssa.Instruction) bool {
		if in != s.in && e.isBOn(s.f, in, s.x) {
			found = in
			return true
		}
		return false
	}}
	q.Search(an.After(s.in))
	if found == nil {
		return "no successful exit reachable"
	}
	d := "effect"
	if call := an.CallOf(found); call != nil {
		d = "call " + an.CalleeName(call)
	} else if _, ok := found.(*ssa.Store); ok {
		d = "store"
	}
	return fmt.Sprintf("%s on %s at %s", d, s.x, e.c.pos(found))
}

// alwaysB: every path from entry to a successful return performs B on param pa.
func (e *pairEngine) alwaysB(f *ssa.Function, pa string) bool {
	if len(f.Blocks) == 0 {
		return false
	}
	hasB := false
	an.AllInstrs(f, func(in ssa.Instruction) {
		if e.isBOn(f, in, pa) {
			hasB = true
		}
	})
	if !hasB {
		return false
	}
	q := &an.Query{
		Block:  func(in ssa.Instruction) bool { return e.isBOn(f, in, pa) },
		Target: func(in ssa.Instruction) bool { r, ok := in.(*ssa.Return); return ok && an.IsSuccessReturn(r) },
	}
	return q.Search(an.Entry(f)) == nil
}

var callerCache map[*an.Prog]map[*ssa.Function]bool

func hasModuleCaller(c *Ctx, f *ssa.Function) bool {
	if callerCache == nil {
		callerCache = map[*an.Prog]map[*ssa.Function]bool{}
	}
	m := callerCache[c.P]
	if m == nil {
		m = map[*ssa.Function]bool{}
		for _, g := range c.P.Funcs {
			an.AllInstrs(g, func(in ssa.Instruction) {
				if call := an.CallOf(in); call != nil {
					if callee := an.StaticCallee(call); callee != nil {
						m[callee] = true
					}
				}
			})
		}
		callerCache[c.P] = m
	}
	return m[an.Origin(f)]
}

// reportPair turns sites into obligations.
func (c *Ctx) reportPair(rule string, sites []*pairSite, what func(s *pairSite) string) {
	sort.SliceStable(sites, func(i, j int) bool {
		a, b := sites[i], sites[j]
		if an.FuncKey(a.f) != an.FuncKey(b.f) {
			return an.FuncKey(a.f) < an.FuncKey(b.f)
		}
		return an.BestPos(a.in) < an.BestPos(b.in)
	})
	for _, s := range sites {
		construct := s.what + "/on:" + s.x
		construct = strings.ReplaceAll(construct, " ", "-")
		switch s.status {
		case "discharged":
			c.R.Add(rule, an.FuncKey(s.f), construct, c.pos(s.in), true, "discharged by "+s.by)
		case "lifted":
			c.R.Add(rule, an.FuncKey(s.f), construct, c.pos(s.in), true, "helper is dirty in "+s.x+": obligation moved to its call sites")
		default:
			o := c.R.Add(rule, an.FuncKey(s.f), construct, c.pos(s.in), false, what(s)+" (originating effect: "+s.origin+")")
			o.Path = s.path
		}
	}
}
