package rules

import (
	"fmt"
	"os"
	"strings"

	"golang.org/x/tools/go/ssa"
)

// combinators.go — C13.R10: the And / Or matcher combinators, evaluated symbolically (symeval.go).
//
// The constructor is evaluated to obtain the function value it returns (through conversions to MatcherFunc and
// Matcher); that function is then evaluated on (R, CTX) with the member list as its free variable, once under
// "the generic member accepts" and once under "it rejects". Every member is called as member.Match(R, CTX) — the
// request and the context in their positions — which is recorded as an effect so that outcomes that called a member
// can be told from the empty-list outcome.
//
//	And: member accepts → every outcome is true; member rejects → every outcome that called a member is false
//	Or : member rejects → every outcome is false; member accepts → every outcome that called a member is true
//
// and the *Func variants are evaluated in the same way (their members are the converted functions).
func ruleCombinators(c *Ctx, rule string) {
	c.R.Rule(c.R.Property+"."+rule, 4, "AndMatcher accepts iff every member accepts, OrMatcher iff some member accepts; members are asked in list order with the request and the context of the call")
	for _, comb := range []struct {
		key string
		and bool
	}{{"mux.AndMatcher", true}, {"mux.OrMatcher", false}, {"mux.AndMatcherFunc", true}, {"mux.OrMatcherFunc", false}} {
		ctor := c.P.MustFunc(comb.key)
		var bad []string
		n := 0
		snapRejects, snapSets := 0, 0
		for _, scen := range []struct {
			accepts bool
			empty   int  // the context holds no parameter when the combinator is asked
			mixed   bool // two members: the first one gives the other answer (And: accepts, then the second rejects)
		}{{true, 1, false}, {true, -1, false}, {false, 1, false}, {false, -1, false}, {!comb.and, -1, true}} {
			accepts, empty, mixed := scen.accepts, scen.empty, scen.mixed
			se := &symEval{c: c}
			if mixed {
				se.loopIters = 2
			}
			found := 0 // inside the callback of Context.Range: is the visited key in the looked-up map
			se.elem = func(slice string) string {
				if strings.Contains(slice, "MakeMap") || slice == "NIL" || strings.Contains(slice, "params") {
					return "" // a map of parameters
				}
				return "MEMBER" // whatever list the members were put into
			}
			se.truth = func(e string) int {
				if e == "ACCEPTS" || e == "ACCEPTS-FIRST" {
					if mixed && e == "ACCEPTS-FIRST" {
						return pm(!accepts)
					}
					return pm(accepts)
				}
				if strings.HasPrefix(e, "FOUND(") && strings.HasSuffix(e, ",PK)") {
					return found
				}
				switch e {
				case "EQ(COUNT(CTX),CONST:0)", "EQ(CONST:0,COUNT(CTX))", "LE(COUNT(CTX),CONST:0)", "LT(COUNT(CTX),CONST:1)":
					return empty
				case "NE(COUNT(CTX),CONST:0)", "NE(CONST:0,COUNT(CTX))", "GT(COUNT(CTX),CONST:0)", "GE(COUNT(CTX),CONST:1)":
					return -empty
				}
				return 0
			}
			se.model = func(se *symEval, name string, call *ssa.CallCommon, args []sval, st *sstate) ([]sval, bool) {
				if call.IsInvoke() && call.Method.Name() == "Match" {
					var parts []string
					for _, a := range args {
						parts = append(parts, a.e)
					}
					first := true
					for _, e := range st.effects {
						if strings.HasPrefix(e, "ASK(") {
							first = false
						}
					}
					st.effects = append(st.effects, "ASK("+strings.Join(parts, ",")+")")
					// a member that accepted may have rewritten the path and recorded parameters
					st.heap["R.URL.Path"] = sv("PATH-AFTER-MEMBER")
					return []sval{sv(ifelse(first, "ACCEPTS-FIRST", "ACCEPTS"))}, true
				}
				if strings.HasPrefix(name, "slices.Contains") && len(args) == 2 {
					// membership of the visited key in a list of the snapshot: the found flag of a lookup
					return []sval{sv("FOUND(" + args[0].e + "," + args[1].e + ")")}, true
				}
				switch name {
				case "types.(*Context).Count":
					return []sval{sv("COUNT(" + args[0].e + ")")}, true
				case "types.(*Context).Delete":
					st.effects = append(st.effects, "DELETE("+args[0].e+","+args[1].e+")")
					return []sval{sv("VOID")}, true
				case "types.(*Context).Set":
					st.effects = append(st.effects, "SET("+args[0].e+","+args[1].e+","+args[2].e+")")
					return []sval{sv("VOID")}, true
				case "types.(*Context).Range":
					if len(args) != 2 || args[1].e != "FUNC" {
						return nil, false
					}
					// the callback, evaluated for a key that is / is not in the map it looks the key up in
					var parts []string
					for _, sc := range []struct {
						name string
						v    int
					}{{"found", 1}, {"missing", -1}} {
						found = sc.v
						sub := &sstate{env: map[ssa.Value]sval{}, heap: map[string]sval{}}
						var effs []string
						for _, r := range se.run(args[1].fn, []sval{sv("PK"), sv("PV")}, args[1].free, sub, 1) {
							effs = append(effs, strings.Join(r.st.effects, ","))
						}
						parts = append(parts, sc.name+":"+strings.Join(effs, "|"))
					}
					found = 0
					st.effects = append(st.effects, "EACH("+args[0].e+"){"+strings.Join(parts, ";")+"}")
					return []sval{sv("VOID")}, true
				}
				return nil, false
			}
			st := &sstate{env: map[ssa.Value]sval{}, heap: map[string]sval{}}
			var fn sval
			for _, r := range se.run(ctor, []sval{sv("MS")}, nil, st, 0) {
				if len(r.ret) == 1 && r.ret[0].e == "FUNC" {
					fn = r.ret[0]
				}
			}
			if fn.fn == nil {
				bad = append(bad, "the constructor does not return a function value")
				break
			}
			se2 := *se
			se2.steps = 0
			st2 := &sstate{env: map[ssa.Value]sval{}, heap: map[string]sval{}}
			for _, r := range se2.run(fn.fn, []sval{sv("R"), sv("CTX")}, fn.free, st2, 0) {
				if r.pan || len(r.ret) != 1 {
					bad = append(bad, "a path panics or returns no verdict")
					continue
				}
				if mixed {
					asks := 0
					for _, e := range r.st.effects {
						if strings.HasPrefix(e, "ASK(") {
							asks++
						}
					}
					if asks < 2 {
						continue // the one-member outcomes are judged by the uniform scenarios
					}
				}
				n++
				ret := r.ret[0]
				switch se2.truthOf(ret) {
				case 1:
					ret = sv("CONST:true")
				case -1:
					ret = sv("CONST:false")
				}
				asked := false
				var before, after []string // the combinator's own effects before the first and after the last member
				for _, e := range r.st.effects {
					if strings.HasPrefix(e, "ASK(") {
						if asked && len(after) > 0 {
							bad = append(bad, "between two members the combinator has the effect "+strings.Join(after, ", "))
						}
						asked = true
						after = nil
						if e != "ASK(MEMBER,R,CTX)" {
							bad = append(bad, "a member is asked with "+e[4:len(e)-1]+" instead of (member, request, context)")
						}
					} else if !asked {
						before = append(before, e)
					} else {
						after = append(after, e)
					}
				}
				rejects := se2.truthOf(r.ret[0]) == -1 || r.ret[0].e == "CONST:false"
				bad = append(bad, combinatorEffects(comb.and, asked, rejects && !accepts, before, after)...)
				if comb.and && asked && rejects && !accepts && len(before) == 0 && empty == -1 {
					bad = append(bad, "And rejects after a member was asked and has no snapshot of the parameters the context held before: what a member overwrote or the context held cannot be put back")
				}
				if comb.and && asked && rejects && !accepts && len(before) > 0 {
					snapRejects++
					for _, e := range after {
						if strings.HasPrefix(e, "SET(CTX,") {
							snapSets++
						}
					}
				}
				if os.Getenv("MUXLINT_DEBUG_COMB") != "" {
					fmt.Fprintf(os.Stderr, "%s accepts=%v ret=%s before=%q after=%q\n", comb.key, accepts, r.ret[0].e, before, after)
				}
				want := ""
				switch {
				case comb.and && accepts:
					want = "CONST:true"
				case comb.and && !accepts && asked:
					want = "CONST:false"
				case !comb.and && !accepts:
					want = "CONST:false"
				case !comb.and && accepts && asked:
					want = "CONST:true"
				}
				if want != "" && ret.e != want {
					bad = append(bad, fmt.Sprintf("with a member that %s the verdict can be %s", ifelse(accepts, "accepts", "rejects"), strings.TrimPrefix(ret.e, "CONST:")))
				}
			}
		}
		if n == 0 {
			bad = append(bad, "no path evaluated")
		}
		if snapRejects > 0 && snapSets == 0 {
			bad = append(bad, "And rejects after a member was asked without setting the parameters of its snapshot again: a parameter a member overwrote keeps the value of a rejected alternative")
		}
		seen := map[string]bool{}
		var msgs []string
		for _, b := range bad {
			if !seen[b] {
				seen[b] = true
				msgs = append(msgs, b)
			}
		}
		what := ifelse(comb.and, "true iff every member accepts", "true iff some member accepts")
		c.R.Add(rule, comb.key, "verdict:"+ifelse(comb.and, "all", "any")+"-members", c.P.Pos(ctor.Pos()), len(msgs) == 0, ifelse(len(msgs) == 0, fmt.Sprintf("%s (%d paths evaluated)", what, n), "the combinator is not "+what+": "+strings.Join(msgs, "; ")))
	}
}

// combinatorEffects judges what a combinator does besides asking its members.
//
// Or, and And on an accepting path: nothing (saving the state before the first member is allowed: a snapshot of the
// parameters into a fresh map). And on a path that rejects after a member was asked — earlier members may have
// rewritten the path and recorded parameters, and a rejecting matcher leaves no trace (the Matcher contract) — puts
// back the path it read before the first member, deletes every parameter that is not in its snapshot and sets
// every parameter of the snapshot.
func combinatorEffects(and, asked, rejectsAfterAsk bool, before, after []string) []string {
	var bad []string
	// own: the effect touches neither the request nor the context — it fills or recycles memory of the combinator
	// (the snapshot map or slice, a pooled buffer)
	own := func(e string) bool {
		if strings.HasPrefix(e, "STORE ") && !strings.HasPrefix(e, "STORE ?") {
			// a store is judged by the place written: a local snapshot may hold the request's path
			if i := strings.Index(e, " = "); i > 0 {
				loc := e[len("STORE "):i]
				return !strings.Contains(loc, "CTX") && !strings.HasPrefix(loc, "R.") && !strings.Contains(loc, "(R.")
			}
		}
		return !strings.Contains(e, "CTX") && !strings.Contains(e, "R.") && !strings.HasPrefix(e, "STORE ?")
	}
	// a walk over the context's parameters whose callback writes nothing to the context or the request
	isSnapshot := func(e string) bool {
		if !strings.HasPrefix(e, "EACH(CTX){") {
			return false
		}
		body := e[len("EACH(CTX){"):]
		return !strings.Contains(body, "CTX") && !strings.Contains(body, "R.")
	}
	for _, e := range before {
		if !isSnapshot(e) && !own(e) {
			bad = append(bad, "before asking a member the combinator has the effect "+e)
		}
	}
	if !and || !asked || !rejectsAfterAsk {
		for _, e := range after {
			if !own(e) {
				bad = append(bad, "the combinator has the effect "+e)
			}
		}
		return bad
	}
	restoredPath, deletes := false, false
	for _, e := range after {
		switch {
		case e == "STORE R.URL.Path = R.URL.Path":
			restoredPath = true // the value read before the first member (afterwards the location holds PATH-AFTER-MEMBER)
		case strings.HasPrefix(e, "EACH(CTX){") && strings.Contains(e, "DELETE(CTX,PK)") && !strings.Contains(e, "SET(CTX"):
			// a walk that deletes the visited key — not for every key: the part for a key found in the snapshot has
			// an outcome without the deletion
			found := e[strings.Index(e, "found:")+len("found:") : strings.Index(e, ";missing:")]
			conditional := false
			for _, alt := range strings.Split(found, "|") {
				if !strings.Contains(alt, "DELETE(CTX,PK)") {
					conditional = true
				}
			}
			if conditional {
				deletes = true
			} else {
				bad = append(bad, "while rejecting the combinator deletes every parameter, also those the context held before")
			}
		case strings.HasPrefix(e, "SET(CTX,"):
		case own(e):
		default:
			bad = append(bad, "while rejecting the combinator has the effect "+e)
		}
	}
	if !restoredPath {
		bad = append(bad, "And rejects after a member was asked without putting back the request path it found: a member that accepted (a path-version matcher) has cut the path, and the matchers and routers asked next see the shortened path")
	}
	if !deletes {
		bad = append(bad, "And rejects after a member was asked without deleting the parameters recorded since: a parameter of a member that accepted stays in the context")
	}
	return bad
}
