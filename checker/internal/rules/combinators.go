package rules

import (
	"fmt"
	"strings"

	"golang.org/x/tools/go/ssa"

)

// combinators.go — C13.R10: the And / Or matcher combinators, evaluated symbolically (symeval.go).
//
// The constructor is evaluated to obtain the function value it returns (through conversions to MatcherFunc and
// Matcher); that function is then evaluated on (R, CTX) with the member list as its free variable, once under
// "the generic member accepts" and once under "it rejects". Every member is called as member.Match(R, CTX) — the
// request and the context in their positions — which is recorded as an effect so that outcomes that called a member
// can be told from the empty-list outcome.
//
//	And: member accepts → every outcome is true; member rejects → every outcome that called a member is false
//	Or : member rejects → every outcome is false; member accepts → every outcome that called a member is true
//
// and the *Func variants are evaluated in the same way (their members are the converted functions).
func ruleCombinators(c *Ctx, rule string) {
	c.R.Rule(c.R.Property+"."+rule, 4, "AndMatcher accepts iff every member accepts, OrMatcher iff some member accepts; members are asked in list order with the request and the context of the call")
	for _, comb := range []struct {
		key string
		and bool
	}{{"mux.AndMatcher", true}, {"mux.OrMatcher", false}, {"mux.AndMatcherFunc", true}, {"mux.OrMatcherFunc", false}} {
		ctor := c.P.MustFunc(comb.key)
		var bad []string
		n := 0
		for _, accepts := range []bool{true, false} {
			accepts := accepts
			se := &symEval{c: c}
			se.elem = func(slice string) string { return "MEMBER" } // whatever list the members were put into
			se.truth = func(e string) int {
				if e == "ACCEPTS" {
					return pm(accepts)
				}
				return 0
			}
			se.model = func(se *symEval, name string, call *ssa.CallCommon, args []sval, st *sstate) ([]sval, bool) {
				if call.IsInvoke() && call.Method.Name() == "Match" {
					var parts []string
					for _, a := range args {
						parts = append(parts, a.e)
					}
					st.effects = append(st.effects, "ASK("+strings.Join(parts, ",")+")")
					return []sval{sv("ACCEPTS")}, true
				}
				return nil, false
			}
			st := &sstate{env: map[ssa.Value]sval{}, heap: map[string]sval{}}
			var fn sval
			for _, r := range se.run(ctor, []sval{sv("MS")}, nil, st, 0) {
				if len(r.ret) == 1 && r.ret[0].e == "FUNC" {
					fn = r.ret[0]
				}
			}
			if fn.fn == nil {
				bad = append(bad, "the constructor does not return a function value")
				break
			}
			se2 := *se
			se2.steps = 0
			st2 := &sstate{env: map[ssa.Value]sval{}, heap: map[string]sval{}}
			for _, r := range se2.run(fn.fn, []sval{sv("R"), sv("CTX")}, fn.free, st2, 0) {
				if r.pan || len(r.ret) != 1 {
					bad = append(bad, "a path panics or returns no verdict")
					continue
				}
				n++
				ret := r.ret[0]
				switch se2.truthOf(ret) {
				case 1:
					ret = sv("CONST:true")
				case -1:
					ret = sv("CONST:false")
				}
				asked := false
				for _, e := range r.st.effects {
					if strings.HasPrefix(e, "ASK(") {
						asked = true
						if e != "ASK(MEMBER,R,CTX)" {
							bad = append(bad, "a member is asked with "+e[4:len(e)-1]+" instead of (member, request, context)")
						}
					} else {
						bad = append(bad, "the combinator has the effect "+e)
					}
				}
				want := ""
				switch {
				case comb.and && accepts:
					want = "CONST:true"
				case comb.and && !accepts && asked:
					want = "CONST:false"
				case !comb.and && !accepts:
					want = "CONST:false"
				case !comb.and && accepts && asked:
					want = "CONST:true"
				}
				if want != "" && ret.e != want {
					bad = append(bad, fmt.Sprintf("with a member that %s the verdict can be %s", ifelse(accepts, "accepts", "rejects"), strings.TrimPrefix(ret.e, "CONST:")))
				}
			}
		}
		if n == 0 {
			bad = append(bad, "no path evaluated")
		}
		seen := map[string]bool{}
		var msgs []string
		for _, b := range bad {
			if !seen[b] {
				seen[b] = true
				msgs = append(msgs, b)
			}
		}
		what := ifelse(comb.and, "true iff every member accepts", "true iff some member accepts")
		c.R.Add(rule, comb.key, "verdict:"+ifelse(comb.and, "all", "any")+"-members", c.P.Pos(ctor.Pos()), len(msgs) == 0, ifelse(len(msgs) == 0, fmt.Sprintf("%s (%d paths evaluated)", what, n), "the combinator is not "+what+": "+strings.Join(msgs, "; ")))
	}
}
