package rules

import (
	"fmt"
	"strings"

	"golang.org/x/tools/go/ssa"

	"muxlint/internal/an"
)

func init() {
	register(&Spec{
		ID: "C19",
		Explanation: "Decides forwarder conformance (ORIGIN terms with bounded inlining of trivial accessors): every method of Prefix and Resource makes exactly one effectful module call whose arguments are the documented desugaring — pattern = receiver's pattern ++ argument (Resource: receiver's pattern), handler / method list / strict / params forwarded unchanged, middleware list = argument ++ receiver's list, the verb helper X of Router, Prefix and Resource passes exactly the net/http constant upper(X) (Any passes none), the receiver is returned; Prefix.Clean cleans the tree with the receiver's pattern, Resource.Clean removes the receiver's pattern with no method list; Router.Prefix/Resource build the facade with a cloned middleware list. " +
			"Not decided: the prefix semantics of node.clean inside the tree.",
		Assumptions: commonAssumptions,
		Run: func(c *Ctx) {
			ruleForwarders(c, "R1")
			ruleIndexRebuilt(c, "R2a")
			ruleIndexRebuildComplete(c, "R2b")
			ruleRemoversUpdateTreeSummary(c, "R3")
			ruleCleanTestsEveryChild(c, "R4")
			ruleConcatRank(c, "R5")
			ruleStoredListsAreCopies(c, "R5b")
		},
	})
}

type fwdExpect struct {
	fn   string // function key
	call string // expected effectful call term
	ret  string // expected return term ("" = no result)
	// alt: what the method may return instead of making the call — the call's own documented result with the
	// arguments substituted (building the child facade directly instead of going through Router.Prefix/Resource)
	alt string
}

var verbs = []struct{ name, method string }{{"Get", "GET"}, {"Post", "POST"}, {"Delete", "DELETE"}, {"Put", "PUT"}, {"Patch", "PATCH"}, {"Any", ""}}

func fe(fn, call, ret string, alt ...string) fwdExpect {
	e := fwdExpect{fn: fn, call: call, ret: ret}
	if len(alt) > 0 {
		e.alt = alt[0]
	}
	return e
}

func forwarderTable() []fwdExpect {
	var t []fwdExpect
	for _, v := range verbs {
		list := "nil"
		if v.method != "" {
			list = fmt.Sprintf("list(%q)", v.method)
		}
		t = append(t,
			fe("mux.(*Router)."+v.name, "call<mux.(*Router).Handle>(recv, param:pattern, param:h, param:m, "+list+")", "=call"),
			fe("mux.(*Prefix)."+v.name, "call<mux.(*Prefix).Handle>(recv, param:pattern, param:h, param:m, "+list+")", "=call"),
			fe("mux.(*Resource)."+v.name, "call<mux.(*Resource).Handle>(recv, param:h, param:m, "+list+")", "=call"),
		)
	}
	ms := "@LIST(param:m, recv.ms)"
	t = append(t,
		fe("mux.(*Prefix).Handle", "call<mux.(*Router).Handle>(recv.router, concat(recv.pattern, param:pattern), param:h, "+ms+", param:methods)", "recv"),
		fe("mux.(*Resource).Handle", "call<mux.(*Router).Handle>(recv.router, recv.pattern, param:h, "+ms+", param:methods)", "recv"),
		fe("mux.(*Prefix).Remove", "call<mux.(*Router).Remove>(recv.router, concat(recv.pattern, param:pattern), param:methods)", ""),
		fe("mux.(*Resource).Remove", "call<mux.(*Router).Remove>(recv.router, recv.pattern, param:methods)", ""),
		fe("mux.(*Resource).Clean", "call<mux.(*Router).Remove>(recv.router, recv.pattern, nil)", ""),
		fe("mux.(*Prefix).Clean", "call<tree.(*Tree).Clean>(recv.router.tree, recv.pattern)", ""),
		fe("mux.(*Router).Clean", "call<tree.(*Tree).Clean>(recv.tree, \"\")", ""),
		fe("mux.(*Router).Remove", "call<tree.(*Tree).Remove>(recv.tree, param:pattern, param:methods)", ""),
		fe("mux.(*Router).Routes", "call<tree.(*Tree).Routes>(recv.tree)", "=call"),
		fe("mux.(*Prefix).URL", "call<mux.(*Router).URL>(recv.router, param:strict, concat(recv.pattern, param:pattern), param:params)", "=call"),
		fe("mux.(*Resource).URL", "call<mux.(*Router).URL>(recv.router, param:strict, recv.pattern, param:params)", "=call"),
		fe("mux.(*Prefix).Prefix", "call<mux.(*Router).Prefix>(recv.router, concat(recv.pattern, param:prefix), "+ms+")", "=call",
			"struct<Prefix>(router:recv.router, pattern:concat(recv.pattern, param:prefix), ms:"+ms+")"),
		fe("mux.(*Prefix).Resource", "call<mux.(*Router).Resource>(recv.router, concat(recv.pattern, param:pattern), "+ms+")", "=call",
			"struct<Resource>(router:recv.router, pattern:concat(recv.pattern, param:pattern), ms:"+ms+")"),
		fe("mux.(*Router).Prefix", "", "struct<Prefix>(router:recv, pattern:param:prefix, ms:call<slices.Clone>(param:m))"),
		fe("mux.(*Router).Resource", "", "struct<Resource>(router:recv, pattern:param:pattern, ms:call<slices.Clone>(param:m))"),
		fe("mux.(*Router).Handle", "call<tree.(*Tree).Add>(recv.tree, param:pattern, param:h, @LIST(param:m, recv.ms), param:methods)", "recv"),
	)
	return t
}

// callString renders a call term; arguments that are middleware lists are rendered by their flattened operands
// (so slices.Concat, a hand-written concatenation helper and nested appends onto a fresh slice read the same).
// A call of a forwarding helper that is not itself a documented target (handleScoped(router, pattern, …)) is
// replaced by the helper's own single effectful call with the helper's parameters bound to the arguments.
func callString(c *Ctx, call *ssa.Call) string {
	t := c.O.Of(call)
	if t.Op != "call" {
		return t.String()
	}
	args := an.CallArgs(&call.Call)
	if g := an.StaticCallee(&call.Call); g != nil && !forwardTargets()[an.FuncKey(g)] && an.InModule(g) && len(g.Blocks) > 0 {
		inner := c.effectfulCalls(g)
		if len(inner) == 1 {
			it := c.O.Of(inner[0])
			if it.Op == "call" {
				var argTerms []*an.Term
				for _, a := range args {
					argTerms = append(argTerms, c.O.Of(a))
				}
				st := an.Substitute(it, g, argTerms)
				return renderCall(st, an.CallArgs(&inner[0].Call))
			}
		}
	}
	return renderCall(t, args)
}

func renderCall(t *an.Term, args []ssa.Value) string {
	var parts []string
	for i, a := range t.Args {
		if i < len(args) && isMiddlewareSlice(args[i].Type()) && !(a.Op == "param" && len(a.Args) == 0) && !(a.Op == "const") {
			parts = append(parts, an.ListString(a))
		} else {
			parts = append(parts, a.String())
		}
	}
	return "call<" + t.S + ">(" + strings.Join(parts, ", ") + ")"
}

var forwardTargetSet map[string]bool

// forwardTargets: the callees named in the forwarder table (the documented desugaring targets).
func forwardTargets() map[string]bool {
	if forwardTargetSet == nil {
		forwardTargetSet = map[string]bool{}
		for _, e := range forwarderTable() {
			if i := strings.Index(e.call, "call<"); i >= 0 {
				rest := e.call[i+5:]
				if j := strings.Index(rest, ">"); j >= 0 {
					forwardTargetSet[rest[:j]] = true
				}
			}
		}
	}
	return forwardTargetSet
}

// effectfulCalls: module calls of f other than trivial accessors that the originator inlines.
func (c *Ctx) effectfulCalls(f *ssa.Function) []*ssa.Call {
	var out []*ssa.Call
	an.AllInstrs(f, func(in ssa.Instruction) {
		call, ok := in.(*ssa.Call)
		if !ok {
			return
		}
		g := an.StaticCallee(&call.Call)
		if g == nil || !an.InModule(g) {
			return
		}
		// inlinable pure accessor?
		t := c.O.Of(call)
		if t.Op != "call" || t.S != an.FuncKey(g) {
			return
		}
		// a call on a path that only ends in a panic builds the panic's value (validation): not the forwarded effect
		if (&an.Query{Target: func(t ssa.Instruction) bool { _, ok := t.(*ssa.Return); return ok }}).Search(an.After(in)) == nil {
			return
		}
		out = append(out, call)
	})
	return out
}

// ruleForwarders is C19.R1.
func ruleForwarders(c *Ctx, rule string) {
	c.R.Rule(c.R.Property+"."+rule, 30, "Prefix and Resource are pure shorthand for Router calls on the concatenated pattern and middleware list")
	for _, e := range forwarderTable() {
		f := c.P.Func(e.fn)
		if f == nil {
			c.R.Add(rule, e.fn, "exists", "-", false, "facade method "+e.fn+" no longer exists")
			continue
		}
		calls := c.effectfulCalls(f)
		var callTerm string
		if e.call != "" {
			if len(calls) == 0 && e.alt != "" {
				// the documented result built directly
				good := true
				got := ""
				for _, r := range an.Returns(f) {
					if len(r.Results) != 1 {
						good = false
						continue
					}
					got = structString(c.O.Of(r.Results[0]))
					if got != e.alt {
						good = false
					}
				}
				c.R.Add(rule, e.fn, "forwards", c.P.Pos(f.Pos()), good, ifelse(good, "builds the documented result directly: "+got, "returns "+got+", the documented desugaring is "+e.call+" = "+e.alt))
				continue
			}
			if len(calls) != 1 {
				c.R.Add(rule, e.fn, "one-forwarded-call", c.P.Pos(f.Pos()), false, fmt.Sprintf("the facade method makes %d effectful module calls, expected exactly one", len(calls)))
				continue
			}
			callTerm = callString(c, calls[0])
			good := callTerm == e.call
			why := ""
			if !good {
				good, why = c.forwardsThroughExpansion(f, calls[0], callTerm, e.call)
			}
			c.R.Add(rule, e.fn, "forwards", c.pos(calls[0]), good, ifelse(good, ifelse(why == "", callTerm, why), ifelse(why != "", why, "forwards "+callTerm+", the documented desugaring is "+e.call)))
		} else if len(calls) != 0 {
			c.R.Add(rule, e.fn, "no-effect", c.P.Pos(f.Pos()), false, "the constructor of the facade has side effects: "+c.O.Of(calls[0]).String())
		}
		rets := an.Returns(f)
		for _, r := range rets {
			if len(r.Results) == 0 {
				if e.ret != "" {
					c.R.Add(rule, e.fn, "returns", c.pos(r), false, "returns nothing")
				}
				continue
			}
			got := c.O.Of(r.Results[0]).String()
			if len(r.Results) > 1 {
				var parts []string
				for _, x := range r.Results {
					parts = append(parts, c.O.Of(x).String())
				}
				got = strings.Join(parts, " | ")
			}
			want := e.ret
			if want == "=call" {
				want = e.call
				if len(calls) == 1 && r.Results[0] == ssa.Value(calls[0]) {
					got = callTerm
				}
				if len(r.Results) > 1 {
					// tuple of the call: extract<i>(call)
					all := true
					for i, x := range r.Results {
						if c.O.Of(x).String() != fmt.Sprintf("extract<%d>(%s)", i, e.call) {
							all = false
						}
					}
					c.R.Add(rule, e.fn, "returns", c.pos(r), all, ifelse(all, "the results of the forwarded call", "returns "+got+" instead of the results of the forwarded call"))
					continue
				}
			}
			good := got == want
			c.R.Add(rule, e.fn, "returns", c.pos(r), good, ifelse(good, got, "returns "+got+", expected "+want))
		}
	}
}

// structString renders a struct term; a field holding a middleware list is rendered by its flattened operands.
func structString(t *an.Term) string {
	if t.Op != "struct" {
		return t.String()
	}
	var parts []string
	for i, a := range t.Args {
		name := ""
		if i < len(t.Names) {
			name = t.Names[i]
		}
		if name == "ms" && !(a.Op == "param" && len(a.Args) == 0) {
			parts = append(parts, name+":"+an.ListString(a))
		} else {
			parts = append(parts, name+":"+a.String())
		}
	}
	return "struct<" + t.S + ">(" + strings.Join(parts, ", ") + ")"
}
