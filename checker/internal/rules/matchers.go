package rules

import (
	"fmt"
	"go/token"
	"go/types"
	"strings"

	"golang.org/x/tools/go/ssa"

	"muxlint/internal/an"
)

func init() {
	register(&Spec{
		ID: "C13",
		Explanation: "Decides: R1 ordered scan — Group.ServeHTTP ranges ascending over the router list, the accepting router's serveContext runs and the function returns (no later router is tried), Add appends at the end; R2 after a rejection every path to the next matcher / to the not-found call resets the context and restores the request path from the value saved before that matcher ran; R3 the built-in version matchers write to the request or the context only on paths that return true; R4 the not-found call uses the group's (wrapped) not-found handler, Add refuses duplicate names before appending; R5 Add stores the given matcher into the router on every returning path, Use wraps the group's not-found handler on every path; R6 (= C07.R3d/e) the pooled context is released once and not used afterwards; R10 AndMatcher / OrMatcher are evaluated symbolically: all / any members, each asked with the request and the context of the call, and the *Func variants forward to the combinator of the same name. " +
			"R15 (= C01.R1) the route search deletes only what it wrote: a matcher's parameter survives. " +
			"R16 (= C07.R14) Group.Routers returns a copy of the dispatch order. " +
			"Not decided: semantics of user-supplied matchers.",
		Assumptions: commonAssumptions,
		Run: func(c *Ctx) {
			ruleGroupScan(c, "R1")
			ruleGroupRejectionUndo(c, "R2")
			ruleMatchersWriteOnAccept(c, "R3")
			ruleGroupMisc(c, "R4")
			ruleGroupStateOnEveryPath(c, "R5")
			rulePoolReleaseOnce(c, "R6")
			ruleRouterNameSetFirst(c, "R7")
			ruleGroupOptionOrder(c, "R9")
			rulePortCutAtLastColon(c, "R8")
			ruleCombinators(c, "R10")
			ruleReadersWriteNothing(c, "R11", "hosts", "router")
			ruleEntryConditionBelongsToTheGroup(c, "R12")
			ruleParamWriters(c, "R13")
			ruleCallersSlicesAreNotRetained(c, "R14", "Matcher")
			ruleBacktrackUndo(c, "R15")
			ruleAccessorsHandOutCopies(c, "R16")
		},
	})
	register(&Spec{
		ID: "C14",
		Explanation: "Decides: R1 normalisation agreement — every string the Hosts methods pass into their private tree (Add pattern, Delete pattern, the path looked up by Match) is the result of strings.ToLower; R2 index coherence of the shared tree code (= C03.R1/R2); R3 the port cut is behind `i != -1` and validOptionalPort of the cut text, bracket stripping behind both HasPrefix '[' and HasSuffix ']'. " +
			"R11 (= C02.R3) stable sort by priority after every insertion. " +
			"R12 (= C03.R17) the sort key reads only the segment; R13 (= C06.R5) the lock option reaches the tree. " +
			"R14 (= C02.R21) the split point of two domain patterns. " +
			"Not decided: correctness of the normalisation for every Host string; resolution semantics (C02).",
		Assumptions: commonAssumptions,
		Run: func(c *Ctx) {
			ruleHostsNormalised(c, "R1")
			ruleIndexRebuilt(c, "R2a")
			ruleIndexRebuildComplete(c, "R2b")
			ruleHostsGuards(c, "R3")
			ruleBacktrackUndo(c, "R4")
			ruleHandlerLookup(c, "R5")
			rulePortCutAtLastColon(c, "R6")
			ruleDigitPredicates(c, "R7", "mux.validOptionalPort")
			ruleCharClasses(c, "R7b", "mux.validOptionalPort")
			ruleRegexpQuoting(c, "R8")
			ruleIndexResetOnEveryPath(c, "R2c")
			ruleReadersWriteNothing(c, "R9", "hosts", "tree")
			ruleHostsVerdictIsLookup(c, "R10")
			ruleHostsPatternsOnlyLowered(c, "R1b")
			ruleSortAfterInsert(c, "R11")
			ruleSortKeyIsFixedAtInsertion(c, "R12")
			ruleLockOptionReachesTree(c, "R13")
			ruleSplitPointAutomaton(c, "R14")
		},
	})
	register(&Spec{
		ID: "C15",
		Explanation: "Decides: R1 one version value — in the path-version matcher the prefix tested is the listed version, the text removed and the value recorded are the same version without its trailing '/', the removal is TrimPrefix of the original path, the recording is guarded by the parameter name only, the first listed hit returns; the constructor stores only versions that went through both normalisation steps; R2 both matchers write only on accepting paths (= C13.R3); R3 the header-version matcher accepts and records only on equality with the configured parameter of the parsed media type, the parse-error edge returns false; R4 the version lists keep the order in which they were given (first listed wins). " +
			"R8 (= C07.R3e) the pooled context is released once and untouched afterwards, deferred calls included. " +
			"Not decided: mime.ParseMediaType semantics.",
		Assumptions: commonAssumptions,
		Run: func(c *Ctx) {
			ruleVersionMatcherSemantics(c, "R1", "R3")
			rulePathVersion(c, "R1")
			ruleMatchersWriteOnAccept(c, "R2")
			ruleVersionOrderKept(c, "R4")
			ruleReadersWriteNothing(c, "R5", "hosts")
			ruleConstructorsOwnTheirLists(c, "R6")
			ruleHeaderVersionLookup(c, "R7")
			rulePoolReleaseOnce(c, "R8")
		},
	})
}

func groupServe(c *Ctx) *ssa.Function { return c.P.MustFunc("mux.(*Group).ServeHTTP") }

// matcherInvokes: the Matcher.Match invocations of f and of the helpers it calls on the same receiver type
// (matchRouter-style extractions).
func matcherInvokes(f *ssa.Function) []*ssa.Call {
	var out []*ssa.Call
	seen := map[*ssa.Function]bool{}
	var walk func(g *ssa.Function, depth int)
	walk = func(g *ssa.Function, depth int) {
		if seen[g] || depth > 2 {
			return
		}
		seen[g] = true
		an.AllInstrs(g, func(in ssa.Instruction) {
			call, ok := in.(*ssa.Call)
			if !ok {
				return
			}
			if an.CalleeName(&call.Call) == "invoke:mux.Matcher.Match" {
				out = append(out, call)
				return
			}
			if h := an.StaticCallee(&call.Call); h != nil && an.InModule(h) && sameRecvType(h, f) {
				walk(h, depth+1)
			}
		})
	}
	walk(f, 0)
	return out
}

// ruleGroupScan is C13.R1.
func ruleGroupScan(c *Ctx, rule string) {
	f := groupServe(c)
	c.R.Rule(c.R.Property+"."+rule, 3, "the first router, in the order routers were added, whose matcher accepts serves the request")
	serve := c.P.MustFunc("mux.(*Router).serveContext")
	for _, m := range matcherInvokes(f) {
		m := m
		_, sl, isElem := an.RangeLoopOf(routerOfMatcher(m))
		okLoop := isElem && an.AP(sl) == "recv.routers"
		c.R.Add(rule, c.fk(f), "scan:range(recv.routers)", c.pos(m), okLoop, ifelse(okLoop, "matchers are consulted in a range loop over the router list (ascending)", "the matcher consulted is not the element of an ascending range over the router list"))
		// on the true edge: serveContext of the same router, then return
		assume := func(cond ssa.Value) (bool, bool) {
			v, neg := stripNot(cond)
			if v == ssa.Value(m) {
				return !neg, true
			}
			return false, false
		}
		var serveCall ssa.Instruction
		an.AllInstrs(f, func(in ssa.Instruction) {
			call, ok := calleeIs(in, serve)
			if !ok {
				return
			}
			if an.AP(call.Args[0]) == an.AP(routerOfMatcher(m)) {
				serveCall = in
			}
			// the accepting router handed back by a helper: served is what the helper returned
			if hc, isCall := call.Args[0].(*ssa.Call); isCall && m.Parent() != f {
				if an.StaticCallee(&hc.Call) == m.Parent() {
					serveCall = in
				}
			}
		})
		good := serveCall != nil
		why := "the accepting router is not served"
		if good {
			// every path from the accept edge to a return passes serveCall; after it no further matcher
			p1 := (&an.Query{Assume: assume, Ascend: 1, Facts: true, InitNeq: map[string][]string{an.ValueKey(routerOfMatcher(m)): {"nil"}}, Target: func(t ssa.Instruction) bool { _, ok := t.(*ssa.Return); return ok && t.Parent() == f }, Block: func(t ssa.Instruction) bool { return t == serveCall }}).Search(an.After(m))
			p2 := (&an.Query{Deep: deepDefault, Descend: func(g *ssa.Function) bool { return g != serve }, Target: func(t ssa.Instruction) bool {
				if call, ok := t.(*ssa.Call); ok {
					n := an.CalleeName(&call.Call)
					return n == "invoke:mux.Matcher.Match" || strings.HasPrefix(n, "dynamic:")
				}
				return false
			}}).Search(an.After(serveCall))
			if p1 != nil {
				good, why = false, "an accepting matcher does not always lead to its router serving the request"
			}
			if p2 != nil {
				good, why = false, "after the accepting router served, the scan goes on (another router or the not-found handler also runs)"
			}
		}
		c.R.Add(rule, c.fk(f), "accept:serves-that-router-and-returns", c.pos(m), good, ifelse(good, "on acceptance that router's serveContext runs and the function returns", why))
	}
	// Add appends at the end
	add := c.P.MustFunc("mux.(*Group).Add")
	okAppend := false
	an.AllInstrs(add, func(in ssa.Instruction) {
		if base, field, val, ok := fieldStoreAny(in); ok && base == "recv" && field == "routers" {
			t := c.O.Of(val)
			ops := an.FlattenConcat(t)
			okAppend = len(ops) == 2 && ops[0].String() == "recv.routers" && strings.Contains(ops[1].String(), "param:r")
		}
	})
	c.R.Add(rule, c.fk(add), "append-at-end", c.P.Pos(add.Pos()), okAppend, ifelse(okAppend, "routers = append(routers, r)", "Group.Add does not append the new router after the existing ones"))
	// Remove keeps the order of the remaining routers
	rem := c.P.MustFunc("mux.(*Group).Remove")
	okRem, got := false, ""
	an.AllInstrs(rem, func(in ssa.Instruction) {
		if base, field, val, ok := fieldStoreAny(in); ok && base == "recv" && field == "routers" {
			t := c.O.Of(val)
			got = t.String()
			okRem = t.Op == "call" && (t.S == "slices.DeleteFunc" || t.S == "slices.Delete") && len(t.Args) > 0 && t.Args[0].String() == "recv.routers"
		}
	})
	elemStores := 0
	an.AllInstrs(rem, func(in ssa.Instruction) {
		if st, ok := in.(*ssa.Store); ok {
			if ia, ok := st.Addr.(*ssa.IndexAddr); ok && an.AP(ia.X) == "recv.routers" {
				elemStores++
			}
		}
	})
	okRem = okRem && elemStores == 0
	c.R.Add(rule, c.fk(rem), "remove:order-preserving", c.P.Pos(rem.Pos()), okRem, ifelse(okRem, "routers = slices.DeleteFunc(routers, name == …): the remaining routers keep their order", "Group.Remove rebuilds the router list as "+got+" (element stores: "+fmt.Sprint(elemStores)+"): the remaining routers do not keep the order in which they were added"))
}

// routerOfMatcher: the router value whose matcher field the invocation uses.
func routerOfMatcher(m *ssa.Call) ssa.Value {
	u, ok := m.Call.Value.(*ssa.UnOp)
	if !ok {
		return m.Call.Value
	}
	fa, ok := u.X.(*ssa.FieldAddr)
	if !ok {
		return m.Call.Value
	}
	return fa.X
}

// ruleGroupRejectionUndo is C13.R2.
func ruleGroupRejectionUndo(c *Ctx, rule string) {
	f := groupServe(c)
	c.R.Rule(c.R.Property+"."+rule, 2, "a matcher that rejects leaves the request path and the parameters as they were for the routers after it")
	reset := c.P.MustFunc("types.(*Context).Reset")
	for _, m := range matcherInvokes(f) {
		m := m
		reqAP := an.AP(m.Call.Args[0])
		ctxAP := an.AP(m.Call.Args[1])
		assume := func(cond ssa.Value) (bool, bool) {
			v, neg := stripNot(cond)
			if v == ssa.Value(m) {
				return neg, true // rejected
			}
			return false, false
		}
		target := func(t ssa.Instruction) bool {
			if call, ok := t.(*ssa.Call); ok {
				n := an.CalleeName(&call.Call)
				return n == "invoke:mux.Matcher.Match" || strings.HasPrefix(n, "dynamic:")
			}
			_, isRet := t.(*ssa.Return)
			return isRet && t.Parent() == f
		}
		effects := []struct {
			name string
			is   func(t ssa.Instruction) bool
			bad  string
		}{
			{"context-reset", func(t ssa.Instruction) bool {
				call, ok := calleeIs(t, reset)
				return ok && an.AP(call.Args[0]) == ctxAP
			}, "after a rejection the next matcher sees the parameters the rejecting matcher captured"},
			{"path-restored", func(t ssa.Instruction) bool {
				st, ok := t.(*ssa.Store)
				if !ok || an.AP(st.Addr) != reqAP+".URL.Path" {
					return false
				}
				ld, ok := st.Val.(*ssa.UnOp)
				if !ok || ld.Op != token.MUL || an.AP(ld) != reqAP+".URL.Path" {
					return false
				}
				return ld.Block().Dominates(m.Block()) && (ld.Block() != m.Block() || instrIndex(ld) < instrIndex(m))
			}, "after a rejection (for example an And combination whose earlier member stripped the version) the request path stays rewritten for the routers after it: a router that would have accepted the original request answers 404"},
		}
		for _, e := range effects {
			e := e
			path := (&an.Query{Assume: assume, Target: target, Block: e.is, Ascend: 1, Deep: deepDefault, Descend: func(g *ssa.Function) bool {
				return sameRecvType(g, f)
			}}).Search(an.After(m))
			o := c.R.Add(rule, c.fk(f), "reject:"+e.name, c.pos(m), path == nil, ifelse(path == nil, "every path from the rejection to the next attempt performs it", e.bad))
			if path != nil {
				o.Path = c.P.PathString(path)
			}
		}
	}
}

// ruleMatchersWriteOnAccept is C13.R3 / C15.R2.
func ruleMatchersWriteOnAccept(c *Ctx, rule string) {
	c.R.Rule(c.R.Property+"."+rule, 1, "when a version matcher rejects, the request and the parameters are left untouched")
	ruleVersionMatcherSemantics(c, rule, rule)
	set := c.P.MustFunc("types.(*Context).Set")
	for _, k := range []string{"mux.(*pathVersion).Match", "mux.(*headerVersion).Match"} {
		f := c.P.MustFunc(k)
		an.AllInstrs(f, func(in ssa.Instruction) {
			what := ""
			if st, ok := in.(*ssa.Store); ok {
				if ap := an.AP(st.Addr); strings.HasPrefix(ap, "p:") && strings.Contains(ap, ".") {
					what = "store:" + ap
				}
			}
			if _, ok := calleeIs(in, set); ok {
				what = "ctx.Set"
			}
			if what == "" {
				return
			}
			path := (&an.Query{Target: func(t ssa.Instruction) bool {
				r, ok := t.(*ssa.Return)
				if !ok {
					return false
				}
				return !alwaysTrue(r.Results[0], 0)
			}}).Search(an.After(in))
			o := c.R.Add(rule, k, "write:"+what+"/only-when-accepting", c.pos(in), path == nil, ifelse(path == nil, "no rejecting return is reachable after this write", "the matcher can modify the request or the parameters and then reject"))
			if path != nil {
				o.Path = c.P.PathString(path)
			}
		})
	}
}

// ruleGroupMisc is C13.R4.
func ruleGroupMisc(c *Ctx, rule string) {
	f := groupServe(c)
	c.R.Rule(c.R.Property+"."+rule, 2, "if no router accepts, the group's not-found handler runs wrapped in the group's Use middlewares; router names stay unique")
	n := 0
	for fn := range an.NewGraph(c.P).Reach([]*ssa.Function{f}, func(_ *ssa.Function, e an.Edge) bool { return e.Kind == "static" }) {
		if !strings.HasPrefix(an.FuncKey(fn), "mux.(*Group).") {
			continue
		}
		fn := fn
		an.AllInstrs(fn, func(in ssa.Instruction) {
			call, ok := in.(*ssa.Call)
			if !ok {
				return
			}
			if n := an.CalleeName(&call.Call); !(strings.HasPrefix(n, "dynamic:recv.") && strings.HasSuffix(n, ".call") || strings.HasPrefix(n, "dynamic:recv.call")) {
				return
			}
			n++
			last := call.Call.Args[len(call.Call.Args)-1]
			good := an.AP(last) == "recv.notFound"
			c.R.Add(rule, c.fk(fn), "not-found-call/handler=recv.notFound", c.pos(in), good, ifelse(good, "the wrapped not-found handler of the group", "the group's fallback runs "+an.AP(last)+", not the not-found handler that Use wraps"))
		})
	}
	if n == 0 {
		c.R.Add(rule, c.fk(f), "not-found-call/handler=recv.notFound", c.P.Pos(f.Pos()), false, "Group.ServeHTTP no longer calls the group's not-found handler")
	}
	add := c.P.MustFunc("mux.(*Group).Add")
	an.AllInstrs(add, func(in ssa.Instruction) {
		if base, field, _, ok := fieldStoreAny(in); ok && base == "recv" && field == "routers" {
			dom := dupCheckedBefore(c, in)
			_ = dom
			c.R.Add(rule, c.fk(add), "append/behind:no-duplicate-name", c.pos(in), dom, ifelse(dom, "the append is reachable only when no router has that name (the other edge panics)", "a router can be added under a name that is already taken"))
		}
	})
}

// ruleHostsNormalised is C14.R1.
func ruleHostsNormalised(c *Ctx, rule string) {
	a := c.A
	c.R.Rule(c.R.Property+"."+rule, 3, "Add and Delete treat domain names case-insensitively, like Match")
	var isLoweredVal func(v ssa.Value, depth int) bool
	isLoweredVal = func(v ssa.Value, depth int) bool {
		if t := c.O.Of(v); t.Op == "call" && t.S == "strings.ToLower" {
			return true
		}
		if depth > 3 {
			return false
		}
		switch x := v.(type) {
		case *ssa.Phi:
			for _, e := range x.Edges {
				if !isLoweredVal(e, depth+1) {
					return false
				}
			}
			return len(x.Edges) > 0
		case *ssa.Call:
			// the text of a strings.Builder into which only lower-cased text and verbatim {...} parts (slices that
			// begin at the position of a '{') were written
			if an.CalleeName(&x.Call) == "strings.(*Builder).String" {
				lowered, verbatimOK := 0, true
				an.AllInstrs(x.Parent(), func(w ssa.Instruction) {
					wc := an.CallOf(w)
					if wc == nil {
						return
					}
					switch an.CalleeName(wc) {
					case "strings.(*Builder).WriteString":
						if lc, isCall := wc.Args[1].(*ssa.Call); isCall && an.CalleeName(&lc.Call) == "strings.ToLower" {
							lowered++
						} else if sl, isSl := wc.Args[1].(*ssa.Slice); !isSl || sl.Low == nil || !braceIndexCall(sl.Low, nil) {
							verbatimOK = false
						}
					case "strings.(*Builder).WriteByte", "strings.(*Builder).WriteRune", "strings.(*Builder).Write":
						verbatimOK = false
					}
				})
				return lowered > 0 && verbatimOK
			}
			// a helper of the module that lower-cases what it returns, on every path
			if g := an.StaticCallee(&x.Call); g != nil && an.InModule(g) && len(g.Blocks) > 0 {
				rets := an.Returns(g)
				for _, r := range rets {
					if len(r.Results) != 1 || !isLoweredVal(an.ReturnValue(r, 0), depth+1) {
						return false
					}
				}
				return len(rets) > 0
			}
		}
		return false
	}
	isLowered := func(v ssa.Value) bool { return isLoweredVal(v, 0) }
	for _, f := range c.libFuncs() {
		if f.Signature.Recv() == nil || !strings.HasPrefix(an.FuncKey(f), "mux.(*Hosts).") {
			continue
		}
		an.AllInstrs(f, func(in ssa.Instruction) {
			for _, target := range []*ssa.Function{a.TreeAdd, a.TreeRemove, a.TreeClean, a.TreeURL} {
				if call, ok := calleeIs(in, target); ok {
					idx := 1
					if target == a.TreeURL {
						idx = 2
					}
					good := isLowered(call.Args[idx])
					c.R.Add(rule, c.fk(f), "call:"+an.FuncKey(target)+"/pattern-lowercased", c.pos(in), good, ifelse(good, "pattern is strings.ToLower(…)", "a domain reaches the hosts tree without strings.ToLower ("+c.O.Of(call.Args[idx]).String()+"): the tree stores lower-case names, so a differently cased name is not found"))
				}
			}
			if call, ok := calleeIs(in, a.TreeHandler); ok {
				// the path looked up: the last store to ctx.Path before the call
				ctxAP := an.AP(call.Args[1])
				var last *ssa.Store
				an.AllInstrs(f, func(x ssa.Instruction) {
					if st, ok := x.(*ssa.Store); ok && an.AP(st.Addr) == ctxAP+".Path" {
						last = st
					}
				})
				good := last != nil && isLowered(last.Val) && an.DominatedByInstr(in, func(x ssa.Instruction) bool { return x == ssa.Instruction(last) })
				c.R.Add(rule, c.fk(f), "call:"+an.FuncKey(a.TreeHandler)+"/path-lowercased", c.pos(in), good, ifelse(good, "the looked-up host is strings.ToLower(…)", "the host is looked up without lower-casing"))
			}
		})
	}
}

// ruleHostsGuards is C14.R3.
func ruleHostsGuards(c *Ctx, rule string) {
	f := c.P.MustFunc("mux.(*Hosts).Match")
	vop := c.P.Func("mux.validOptionalPort")
	c.R.Rule(c.R.Property+"."+rule, 1, "the host is stripped of a valid ':port' and of IPv6 brackets only")
	hostFuncs := []*ssa.Function{f}
	for fn := range an.NewGraph(c.P).Reach([]*ssa.Function{f}, func(_ *ssa.Function, e an.Edge) bool { return e.Kind == "static" }) {
		if fn != f && strings.HasPrefix(an.FuncKey(fn), "mux.") && fn != vop {
			hostFuncs = append(hostFuncs, fn)
		}
	}
	calls := 0
	for _, fn := range hostFuncs {
		if vop != nil {
			calls += len(an.Calls(fn, func(n string, _ *ssa.CallCommon) bool { return n == an.FuncKey(vop) }))
		}
	}
	if calls == 0 {
		// no validator function: the validation may be written out next to the cut (checked per cut below)
		inline := false
		for _, fn := range hostFuncs {
			an.AllInstrs(fn, func(in ssa.Instruction) {
				if sl, ok := in.(*ssa.Slice); ok && sl.Low == nil && sl.High != nil && cutBehindDigitLoop(sl) {
					inline = true
				}
			})
		}
		if !inline {
			c.R.Add(rule, c.fk(f), "cut:port/behind:validOptionalPort(rest)", c.P.Pos(f.Pos()), false, "Hosts.Match no longer validates the text after the last ':' as a port before cutting it: hosts with a non-numeric 'port' are accepted")
		}
	}
	// the two cuts are cumulative: some alternative of the looked-up host went through both ("[::1]:8080")
	an.AllInstrs(f, func(in ssa.Instruction) {
		base, field, val, ok := fieldStoreAny(in)
		if !ok || field != "Path" || !strings.HasPrefix(base, "p:") {
			return
		}
		t := c.O.Of(val)
		composed := false
		for _, alt := range sliceAlts(val, nil, 0) {
			if alt&3 == 3 {
				composed = true
			}
		}
		c.R.Add(rule, c.fk(f), "lookup:host/port-cut-and-bracket-strip-compose", c.pos(in), composed, ifelse(composed, "a host can lose both its port and its brackets", "no alternative of the looked-up host is both cut at the port and stripped of its brackets (the looked-up value is "+t.String()+"): '[::1]:8080' keeps its brackets and no longer matches the registered '::1'"))
	})
	for _, hf := range hostFuncs {
		f := hf
		an.AllInstrs(f, func(in ssa.Instruction) {
			sl, ok := in.(*ssa.Slice)
			if !ok {
				return
			}
			switch {
			case sl.Low == nil && sl.High != nil:
				// h[:i] : behind validOptionalPort(h[i:]) and i != -1
				dom := an.DominatedByEdge(in, func(b *ssa.BasicBlock, succ int) bool {
					return edgeHas(b, succ, func(cond ssa.Value, truth bool) bool {
						call, ok := cond.(*ssa.Call)
						if !ok || !truth {
							return false
						}
						if g := an.StaticCallee(&call.Call); vop == nil || g != vop {
							return false
						}
						arg, ok := call.Call.Args[0].(*ssa.Slice)
						return ok && arg.X == sl.X && arg.Low == sl.High && arg.High == nil
					})
				})
				if !dom {
					dom = cutBehindDigitLoop(sl)
				}
				c.R.Add(rule, c.fk(f), "cut:port/behind:validOptionalPort(rest)", c.pos(in), dom, ifelse(dom, "the cut happens only when the text after the last ':' is a valid port", "the host is cut at ':' without validating that the rest is a port (an IPv6 literal loses its last group)"))
			case sl.Low != nil && sl.High != nil:
				if k, isC := sl.Low.(*ssa.Const); isC && k.Value != nil && k.Int64() == 1 {
					has := func(fn, lit string) bool {
						return an.DominatedByEdge(in, func(b *ssa.BasicBlock, succ int) bool {
							return edgeHas(b, succ, func(cond ssa.Value, truth bool) bool {
								call, ok := cond.(*ssa.Call)
								if !ok || !truth || an.CalleeName(&call.Call) != fn {
									return false
								}
								s, isS := strConst(call.Call.Args[1])
								return isS && s == lit && an.AP(call.Call.Args[0]) == an.AP(sl.X)
							})
						})
					}
					good := has("strings.HasPrefix", "[") && has("strings.HasSuffix", "]")
					c.R.Add(rule, c.fk(f), "strip:brackets/behind:HasPrefix[&&HasSuffix]", c.pos(in), good, ifelse(good, "brackets are stripped only when both are present", "brackets are stripped without testing both ends (slice bounds fault on \"[\" alone, or a host losing its first/last byte)"))
				}
			}
		})
	}
}

// rulePathVersion is C15.R1.
func rulePathVersion(c *Ctx, rule string) {
	f := c.P.MustFunc("mux.(*pathVersion).Match")
	c.R.Rule(c.R.Property+"."+rule, 3, "a path-version matcher accepts iff the path begins with '/<version>/' of a listed version, removes exactly that segment and records '/<version>'")
	// first hit wins: in a scan over the list, from the true edge of the prefix test no path goes back to the loop header
	an.AllInstrs(f, func(in ssa.Instruction) {
		x, ok := in.(*ssa.Call)
		if !ok || an.CalleeName(&x.Call) != "strings.HasPrefix" {
			return
		}
		assume := func(cond ssa.Value) (bool, bool) {
			v, neg := stripNot(cond)
			if v == ssa.Value(x) {
				return !neg, true
			}
			return false, false
		}
		var back func(*ssa.BasicBlock, int) bool
		for _, l := range rangeLoops(f) {
			back = loopBackEdge(l)
		}
		if back == nil {
			return
		}
		path := (&an.Query{Assume: assume, TargetEdge: back, Target: func(t ssa.Instruction) bool {
			r, ok := t.(*ssa.Return)
			if !ok {
				return false
			}
			return !alwaysTrue(r.Results[0], 0)
		}}).Search(an.After(in))
		c.R.Add(rule, c.fk(f), "first-hit-returns-true", c.pos(in), path == nil, ifelse(path == nil, "the first listed version whose prefix matches accepts", "after a matching version the scan continues or the matcher rejects: not the first listed version wins"))
	})
	// constructor: stored versions went through both normalisation steps
	ctor := c.P.MustFunc("mux.NewPathVersion")
	found := false
	// the list the matcher keeps: the parameter itself, or a slice of the constructor's own that is filled per element
	var kept ssa.Value
	an.AllInstrs(ctor, func(in ssa.Instruction) {
		if _, field, val, ok := fieldStoreAny(in); ok && field == "versions" {
			kept = val
		}
	})
	isElemStore := func(in ssa.Instruction) bool {
		st, ok := in.(*ssa.Store)
		if !ok {
			return false
		}
		ia, isIA := st.Addr.(*ssa.IndexAddr)
		if !isIA {
			return false
		}
		return an.AP(st.Addr) == "p:version[]" || (kept != nil && (ia.X == kept || an.AP(ia.X) == an.AP(kept)))
	}
	an.AllInstrs(ctor, func(in ssa.Instruction) {
		st, ok := in.(*ssa.Store)
		if !ok || !isElemStore(in) {
			return
		}
		found = true
		t := c.O.Of(st.Val).String()
		good := strings.Contains(t, `concat("/", `) && strings.Contains(t, `, "/")`)
		// and the unnormalised alternatives are guarded: leading byte test and trailing byte test exist
		c.R.Add(rule, c.fk(ctor), "store:version[i]=normalised", c.pos(in), good, ifelse(good, "the stored version is the φ of both normalisation steps (leading and trailing '/')", "the constructor stores "+t+": a version without both slashes reaches the matcher"))
	})
	if !found {
		// the element stores sit in a helper (ownVersions(version, norm)): the constructor is evaluated instead — in
		// each of the four cases (leading '/' present or not, trailing '/' present or not) every string stored for the
		// generic version is that version with exactly the missing slashes added
		okEval, detail := ctorNormalisesByEvaluation(c, ctor)
		c.R.Add(rule, c.fk(ctor), "store:version[i]=normalised", c.P.Pos(ctor.Pos()), okEval, ifelse(okEval, "by evaluation: "+detail, "the constructor no longer stores normalised versions ("+detail+")"))
	}
	for _, l := range rangeLoops(ctor) {
		for _, e := range l.elems {
			path := (&an.Query{
				TargetEdge: loopBackEdge(l),
				Block: func(in ssa.Instruction) bool {
					if _, ok := in.(*ssa.Store); !ok {
						return in == e
					}
					return isElemStore(in)
				},
			}).Search(an.After(e))
			c.R.Add(rule, c.fk(ctor), "store:version[i]/on-every-path", c.pos(e), path == nil, ifelse(path == nil, "every version is written back after normalisation", "a version can pass through the constructor loop without its normalised form being stored (for example one that already ends in '/' but lacks the leading '/')"))
			// and the loop is left only through its header: a `break` leaves the remaining versions unnormalised
			hb := l.hdr.Block()
			early := (&an.Query{
				Block:     func(in ssa.Instruction) bool { return in == e },
				BlockEdge: func(b *ssa.BasicBlock, succ int) bool { return b == hb && succ == 1 },
				Target: func(in ssa.Instruction) bool {
					if _, isPanic := in.(*ssa.Panic); isPanic {
						return false
					}
					return in.Block() == hb.Succs[1] || hb.Succs[1].Dominates(in.Block())
				},
			}).Search(an.After(e))
			c.R.Add(rule, c.fk(ctor), "normalisation-loop/no-early-exit", c.pos(e), early == nil, ifelse(early == nil, "every listed version is normalised", "the normalisation loop can stop early: the versions listed after that point keep their raw form and never match (or match without their slashes)"))
		}
	}
}

// ruleVersionOrderKept is C15.R4: "the first listed one wins" — the version lists keep the caller's order: nothing
// sorts or reverses them, and what the constructors store is the argument list (or an order-preserving copy).
func ruleVersionOrderKept(c *Ctx, rule string) {
	c.R.Rule(c.R.Property+"."+rule, 2, "the first listed version wins: the version lists keep the order in which they were given")
	isVersions := func(v ssa.Value) bool {
		ap := an.AP(v)
		return ap == "p:version" || strings.HasSuffix(ap, ".versions") || ap == "free:version"
	}
	for _, k := range []string{"mux.NewPathVersion", "mux.NewHeaderVersion", "mux.(*pathVersion).Match", "mux.(*headerVersion).Match"} {
		f := c.P.Func(k)
		if f == nil {
			continue
		}
		bad := ""
		fns := append([]*ssa.Function{f}, f.AnonFuncs...)
		for _, g := range fns {
			an.AllInstrs(g, func(in ssa.Instruction) {
				call := an.CallOf(in)
				if call == nil || len(call.Args) == 0 || !isVersions(call.Args[0]) {
					return
				}
				switch an.CalleeName(call) {
				case "slices.Sort", "slices.SortFunc", "slices.SortStableFunc", "slices.Reverse", "sort.Strings", "sort.Slice", "sort.SliceStable", "sort.Sort", "sort.Stable":
					bad = an.CalleeName(call) + " at " + c.pos(in)
				}
			})
		}
		c.R.Add(rule, k, "versions:not-reordered", c.P.Pos(f.Pos()), bad == "", ifelse(bad == "", "the list is never sorted or reversed", "the version list is reordered ("+bad+"): with one version nested in another (\"v2/beta\", \"v2\") not the first listed one wins"))
	}
	for _, k := range []string{"mux.NewPathVersion", "mux.NewHeaderVersion"} {
		f := c.P.Func(k)
		if f == nil {
			continue
		}
		an.AllInstrs(f, func(in ssa.Instruction) {
			st, ok := in.(*ssa.Store)
			if !ok {
				return
			}
			fa, ok := st.Addr.(*ssa.FieldAddr)
			if !ok || an.FieldName(fa.X.Type(), fa.Field) != "versions" {
				return
			}
			good := orderPreserving(st.Val, "p:version", 0)
			c.R.Add(rule, k, "stores:versions=argument-order", c.pos(in), good, ifelse(good, "the stored list is the argument list in its order", "the constructor stores a list that is not the argument list in its original order"))
		})
	}
}

// ruleHeaderVersion is C15.R3.
func ruleHeaderVersion(c *Ctx, rule string) {
	f := c.P.MustFunc("mux.(*headerVersion).Match")
	set := c.P.MustFunc("types.(*Context).Set")
	c.R.Rule(c.R.Property+"."+rule, 3, "a header-version matcher accepts iff the Accept header parses as a media type whose configured parameter equals one of its versions, and records it")
	// the equality test
	eqEdge := func(b *ssa.BasicBlock, succ int) bool {
		return edgeHas(b, succ, func(cond ssa.Value, truth bool) bool {
			isParam := func(s string) bool {
				return strings.HasPrefix(s, "lookup(") && strings.Contains(s, "mime.ParseMediaType") && strings.HasSuffix(s, ", recv.acceptKey)")
			}
			// membership written with the library search
			if call, isCall := cond.(*ssa.Call); isCall && an.CalleeName(&call.Call) == "slices.Contains" {
				return truth && c.O.Of(call.Call.Args[0]).String() == "recv.versions" && isParam(c.O.Of(call.Call.Args[1]).String())
			}
			bo, ok := cond.(*ssa.BinOp)
			if !ok || bo.Op != token.EQL || !truth {
				return false
			}
			x, y := c.O.Of(bo.X).String(), c.O.Of(bo.Y).String()
			isVer := func(s string) bool { return s == "recv.versions[]" }
			return (isVer(x) && isParam(y)) || (isVer(y) && isParam(x))
		})
	}
	for _, r := range an.Returns(f) {
		k, isC := r.Results[0].(*ssa.Const)
		if isC && k.Value != nil && k.Value.ExactString() == "false" {
			continue
		}
		dom := an.DominatedByEdge(r, eqEdge)
		c.R.Add(rule, c.fk(f), "accept/behind:version==parsed-parameter", c.pos(r), dom, ifelse(dom, "accepts only when a listed version equals the configured parameter of the parsed Accept header", "the matcher can accept without the version comparing equal to the parsed media-type parameter"))
	}
	an.AllInstrs(f, func(in ssa.Instruction) {
		if call, ok := calleeIs(in, set); ok {
			dom := an.DominatedByEdge(in, eqEdge)
			rec := c.O.Of(call.Args[2]).String()
			// the listed version, or the parsed parameter (equal to a listed version behind the membership edge)
			okRec := rec == "recv.versions[]" || (strings.HasPrefix(rec, "lookup(") && strings.Contains(rec, "mime.ParseMediaType") && strings.HasSuffix(rec, ", recv.acceptKey)"))
			good := dom && an.AP(call.Args[1]) == "recv.paramName" && okRec
			c.R.Add(rule, c.fk(f), "record:Set(paramName,version)", c.pos(in), good, ifelse(good, "records the matching version under the configured name", "the recorded value is not the matching version under the configured name"))
		}
		if call, ok := in.(*ssa.Call); ok && an.CalleeName(&call.Call) == "mime.ParseMediaType" {
			src := c.O.Of(call.Call.Args[0]).String()
			okSrc := src == `call<net/http.Header.Get>(p:r.Header, "Accept")`
			c.R.Add(rule, c.fk(f), "parse:Accept-header", c.pos(in), okSrc, ifelse(okSrc, "the Accept header is parsed", "the media type parsed is "+src+", not the Accept header"))
			// the error edge returns false
			var errV ssa.Value
			for _, rr := range *call.Referrers() {
				if ex, ok := rr.(*ssa.Extract); ok && ex.Index == 2 {
					errV = ex
				}
			}
			path := (&an.Query{
				Assume: func(cond ssa.Value) (bool, bool) {
					x, kk, eq, ok := an.CondAtom(cond)
					if ok && x == errV && kk.Value == nil {
						return !eq, true // err != nil
					}
					return false, false
				},
				Target: func(t ssa.Instruction) bool {
					r, ok := t.(*ssa.Return)
					if !ok {
						return false
					}
					kk, isC := r.Results[0].(*ssa.Const)
					return !(isC && kk.Value != nil && kk.Value.ExactString() == "false")
				},
			}).Search(an.After(in))
			c.R.Add(rule, c.fk(f), "parse-error/returns-false", c.pos(in), errV != nil && path == nil, ifelse(errV != nil && path == nil, "a header that does not parse is rejected", "an Accept header that does not parse can still be accepted"))
		}
	})
}

// dupCheckedBefore: `in` is reachable only after the duplicate-name check of Group.Add: either behind the
// not-found edge of a library search, or after a range over the routers whose body panics on an equal name.
func dupCheckedBefore(c *Ctx, in ssa.Instruction) bool {
	if an.DominatedByEdge(in, noDuplicateNameEdge) {
		return true
	}
	// every way to the instruction crosses "the search found nothing" or "the group has no router yet" (a short-cut
	// `len(g.routers) > 0 && …` in front of the search)
	emptyList := func(b *ssa.BasicBlock, succ int) bool {
		return edgeHas(b, succ, func(cond ssa.Value, truth bool) bool {
			bo, ok := cond.(*ssa.BinOp)
			if !ok {
				return false
			}
			call, isCall := bo.X.(*ssa.Call)
			kc, isK := bo.Y.(*ssa.Const)
			if !isCall || !isK || an.ConstKey(kc) != "0" {
				return false
			}
			cc, isLen := builtinCall(call, "len")
			if !isLen || an.AP(cc.Args[0]) != "recv.routers" {
				return false
			}
			switch bo.Op {
			case token.EQL, token.LEQ:
				return truth
			case token.GTR, token.NEQ:
				return !truth
			}
			return false
		})
	}
	if (&an.Query{
		Target:    func(t ssa.Instruction) bool { return t == in },
		BlockEdge: func(b *ssa.BasicBlock, succ int) bool { return noDuplicateNameEdge(b, succ) || emptyList(b, succ) },
	}).Search(an.Entry(in.Parent())) == nil {
		return true
	}
	f := in.Parent()
	for _, l := range rangeLoops(f) {
		if an.AP(l.slice) != "recv.routers" {
			continue
		}
		hb := l.hdr.Block()
		// the loop completes before `in`
		if (&an.Query{Target: func(t ssa.Instruction) bool { return t == in }, BlockEdge: func(b *ssa.BasicBlock, succ int) bool { return b == hb && succ == 1 }}).Search(an.Entry(f)) != nil {
			continue
		}
		okAll := len(l.elems) > 0
		for _, e := range l.elems {
			// with an equal name no path leads back to the header or out of the loop
			path := (&an.Query{
				Assume: func(cond ssa.Value) (bool, bool) {
					v, neg := stripNot(cond)
					bo, ok := v.(*ssa.BinOp)
					if !ok || (bo.Op != token.EQL && bo.Op != token.NEQ) {
						return false, false
					}
					x, y := c.O.Of(bo.X).String(), c.O.Of(bo.Y).String()
					if strings.HasSuffix(x, ".tree.name") && strings.HasSuffix(y, ".tree.name") && x != y {
						return (bo.Op == token.EQL) != neg, true
					}
					return false, false
				},
				Block:      func(t ssa.Instruction) bool { return t == e },
				TargetEdge: func(b *ssa.BasicBlock, succ int) bool { return b.Succs[succ] == hb },
				Target:     func(t ssa.Instruction) bool { return t == in },
			}).Search(an.After(e))
			if path != nil {
				okAll = false
			}
		}
		if okAll {
			return true
		}
	}
	return false
}

// noDuplicateNameEdge: the edge on which the duplicate-name search of Group.Add found nothing.
func noDuplicateNameEdge(b *ssa.BasicBlock, succ int) bool {
	return edgeHas(b, succ, func(cond ssa.Value, truth bool) bool {
		if call, ok := cond.(*ssa.Call); ok && an.CalleeName(&call.Call) == "slices.ContainsFunc" {
			return !truth
		}
		bo, ok := cond.(*ssa.BinOp)
		if !ok {
			return false
		}
		call, ok := bo.X.(*ssa.Call)
		if !ok {
			return false
		}
		// the group's own lookup by name found nothing: g.Router(name) == nil
		if g := an.StaticCallee(&call.Call); g != nil && an.InModule(g) && an.IsNilConst(bo.Y) && len(call.Call.Args) == 2 && an.AP(call.Call.Args[0]) == "recv" {
			if _, isPtr := call.Type().Underlying().(*types.Pointer); isPtr && returnsRouterByName(g) {
				switch bo.Op {
				case token.EQL:
					return truth
				case token.NEQ:
					return !truth
				}
			}
			return false
		}
		if n := an.CalleeName(&call.Call); n != "slices.IndexFunc" {
			// the group's own index-by-name helper: every return is slices.IndexFunc over the router list
			g := an.StaticCallee(&call.Call)
			if g == nil || !an.InModule(g) || len(g.Blocks) == 0 {
				return false
			}
			rets := an.Returns(g)
			found := 0
			for _, r := range rets {
				if len(r.Results) != 1 {
					return false
				}
				switch rv := an.ReturnValue(r, 0).(type) {
				case *ssa.Call:
					if an.CalleeName(&rv.Call) != "slices.IndexFunc" || an.AP(rv.Call.Args[0]) != "recv.routers" {
						return false
					}
					found++
				case *ssa.Const:
					// "not found" of a hand-written search loop
					if rv.Value == nil || rv.Int64() != -1 {
						return false
					}
				default:
					// the index of a range loop over the router list, returned behind a comparison of names
					isIdx := false
					if bo, isBin := rv.(*ssa.BinOp); isBin && bo.Op == token.ADD {
						if ph, isPhi := bo.X.(*ssa.Phi); isPhi && ph.Comment == "rangeindex" {
							an.AllInstrs(g, func(x ssa.Instruction) {
								if ia, isIA := x.(*ssa.IndexAddr); isIA && ia.Index == ssa.Value(bo) && an.AP(ia.X) == "recv.routers" {
									isIdx = true
								}
							})
						}
					}
					if !isIdx {
						return false
					}
					found++
				}
			}
			if found == 0 {
				return false
			}
		}
		k, isC := bo.Y.(*ssa.Const)
		if !isC || k.Value == nil {
			return false
		}
		switch bo.Op {
		case token.GEQ:
			return !truth && k.Int64() == 0
		case token.LSS:
			return truth && k.Int64() == 0
		case token.EQL:
			return truth && k.Int64() == -1
		case token.NEQ:
			return !truth && k.Int64() == -1
		}
		return false
	})
}

// ruleGroupStateOnEveryPath: Group.Add stores the matcher it was given (or the accept-all default) into the router on
// every path that returns, and Group.Use re-wraps the group's own not-found handler on every path on which it was
// given middlewares. A conditional store leaves the router with the matcher of an earlier Add (or the constructor's
// default), a conditional wrap leaves the group's 404 outside the Use middlewares.
func ruleGroupStateOnEveryPath(c *Ctx, rule string) {
	c.R.Rule(c.R.Property+"."+rule, 2, "Group.Add always installs the given matcher; Group.Use always wraps the group's not-found handler")
	add := c.P.MustFunc("mux.(*Group).Add")
	isRet := func(in ssa.Instruction) bool { _, ok := in.(*ssa.Return); return ok && in.Parent() == add }
	storesMatcher := func(in ssa.Instruction) bool {
		base, field, _, ok := fieldStoreAny(in)
		return ok && field == "matcher" && (base == "p:r" || strings.HasPrefix(base, "p:"))
	}
	path := (&an.Query{Deep: deepDefault, Target: isRet, Block: storesMatcher}).Search(an.Entry(add))
	o := c.R.Add(rule, c.fk(add), "stores:r.matcher/on-every-path", c.P.Pos(add.Pos()), path == nil, ifelse(path == nil, "every returning path stores the router's matcher", "Group.Add can return without storing the matcher into the router: a router that is added again (after Remove, or to a second group) keeps the matcher of its earlier registration"))
	if path != nil {
		o.Path = c.P.PathString(path)
	}
	// what is stored derives from the parameter
	an.AllInstrs(add, func(in ssa.Instruction) {
		if !storesMatcher(in) {
			return
		}
		_, _, val, _ := fieldStoreAny(in)
		t := c.O.Of(val).String()
		good := strings.Contains(t, "param:matcher") || strings.Contains(t, "param:m")
		if !good {
			// the default, stored on the branch on which the argument is nil
			good = an.DominatedByEdge(in, func(b *ssa.BasicBlock, succ int) bool {
				cond, onTrue := an.EdgeCond(b, succ)
				if cond == nil {
					return false
				}
				x, k, eq, ok := an.CondAtom(cond)
				if !ok || k.Value != nil || eq != onTrue {
					return false
				}
				par, isPar := x.(*ssa.Parameter)
				return isPar && par.Parent() == add && types.IsInterface(par.Type())
			})
		}
		c.R.Add(rule, c.fk(add), "stores:r.matcher/value-from-argument", c.pos(in), good, ifelse(good, "the stored matcher is the argument (or the default chosen for a nil argument)", "the stored matcher is "+t+", not the argument of Add"))
	})
	// the default chosen for a nil argument accepts every request: a function value that does nothing but return true
	nDefault := 0
	an.AllInstrs(add, func(in ssa.Instruction) {
		if !storesMatcher(in) {
			return
		}
		_, _, val, _ := fieldStoreAny(in)
		var leaves func(v ssa.Value, depth int) []ssa.Value
		leaves = func(v ssa.Value, depth int) []ssa.Value {
			if phi, ok := v.(*ssa.Phi); ok && depth < 4 {
				var out []ssa.Value
				for _, e := range phi.Edges {
					out = append(out, leaves(e, depth+1)...)
				}
				return out
			}
			return []ssa.Value{v}
		}
		for _, lf := range leaves(val, 0) {
			if _, isPar := lf.(*ssa.Parameter); isPar {
				continue
			}
			nDefault++
			v := lf
			for {
				switch x := v.(type) {
				case *ssa.MakeInterface:
					v = x.X
					continue
				case *ssa.ChangeType:
					v = x.X
					continue
				}
				break
			}
			fn, isFn := v.(*ssa.Function)
			good := isFn && len(fn.Blocks) > 0
			if good {
				for _, r := range an.Returns(fn) {
					k, isC := r.Results[0].(*ssa.Const)
					if len(r.Results) != 1 || !isC || k.Value == nil || k.Value.ExactString() != "true" {
						good = false
					}
				}
				an.AllInstrs(fn, func(x ssa.Instruction) {
					switch x.(type) {
					case *ssa.Return, *ssa.DebugRef:
					default:
						good = false
					}
				})
			}
			c.R.Add(rule, c.fk(add), "stores:r.matcher/default-accepts-everything", c.pos(in), good, ifelse(good, "a nil matcher is replaced by a function that only returns true", "the matcher installed for a nil argument is "+c.O.Of(lf).String()+", not a function that accepts every request unconditionally"))
		}
	})
	if nDefault == 0 {
		// no default installed: then every use of a router's matcher tests it for nil first
		for _, f := range c.libFuncs() {
			an.AllInstrs(f, func(in ssa.Instruction) {
				call := an.CallOf(in)
				if call == nil || !call.IsInvoke() || call.Method.Name() != "Match" || !strings.HasSuffix(an.AP(call.Value), ".matcher") {
					return
				}
				recvAP := an.AP(call.Value)
				guarded := an.DominatedByEdge(in, func(b *ssa.BasicBlock, succ int) bool {
					cond, onTrue := an.EdgeCond(b, succ)
					if cond == nil {
						return false
					}
					x, k, eq, ok := an.CondAtom(cond)
					return ok && k.Value == nil && an.AP(x) == recvAP && eq != onTrue
				})
				c.R.Add(rule, c.fk(f), "invoke:"+recvAP+".Match/nil-means-accept", c.pos(in), guarded, ifelse(guarded, "Group.Add installs no default, the matcher is tested for nil before it is called", "Group.Add installs no default for a nil matcher and this call does not test for nil: dispatch panics for a router added without a matcher"))
			})
		}
	}
	use := c.P.MustFunc("mux.(*Group).Use")
	var mParam *ssa.Parameter
	for _, p := range use.Params {
		if _, ok := p.Type().Underlying().(*types.Slice); ok {
			mParam = p
		}
	}
	assume := func(cond ssa.Value) (bool, bool) {
		// the list of new middlewares is not empty
		v, neg := stripNot(cond)
		bo, ok := v.(*ssa.BinOp)
		if !ok || mParam == nil {
			return false, false
		}
		lc, ok := bo.X.(*ssa.Call)
		if !ok {
			return false, false
		}
		if call, isLen := builtinCall(lc, "len"); !isLen || call.Args[0] != ssa.Value(mParam) {
			return false, false
		}
		k, ok := bo.Y.(*ssa.Const)
		if !ok || k.Value == nil {
			return false, false
		}
		n := k.Int64()
		var val bool
		switch {
		case bo.Op == token.EQL && n == 0, bo.Op == token.LEQ && n == 0, bo.Op == token.LSS && n == 1:
			val = false
		case bo.Op == token.NEQ && n == 0, bo.Op == token.GTR && n == 0, bo.Op == token.GEQ && n == 1:
			val = true
		default:
			return false, false
		}
		return val != neg, true
	}
	wraps := func(in ssa.Instruction) bool {
		base, field, _, ok := fieldStoreAny(in)
		return ok && base == "recv" && field == "notFound"
	}
	path = (&an.Query{Deep: deepDefault, Assume: assume, Target: func(in ssa.Instruction) bool { _, ok := in.(*ssa.Return); return ok && in.Parent() == use }, Block: wraps}).Search(an.Entry(use))
	o = c.R.Add(rule, c.fk(use), "wraps:notFound/on-every-path", c.P.Pos(use.Pos()), path == nil, ifelse(path == nil, "every path with new middlewares re-wraps the group's not-found handler", "Group.Use can return without wrapping the group's not-found handler (for instance while the group has no routers): the group's 404 then runs outside those middlewares"))
	if path != nil {
		o.Path = c.P.PathString(path)
	}
}

// sliceAlts enumerates, for a string value, the combinations of cuts its alternatives went through on the way from
// the original text: bit 0 = a prefix kept (`x[:i]`, the port cut), bit 1 = first and last byte dropped (`x[1:…]`,
// the bracket strip), bit 2 = any other re-slicing. Phis contribute one alternative per edge, calls of module
// functions are evaluated on their returned values with the parameters bound to the arguments' alternatives.
var sliceAltsBusy map[ssa.Value]bool

func sliceAlts(v ssa.Value, env map[*ssa.Parameter][]int, depth int) []int {
	uniq := func(xs []int) []int {
		seen := map[int]bool{}
		var out []int
		for _, x := range xs {
			if !seen[x] {
				seen[x] = true
				out = append(out, x)
			}
		}
		return out
	}
	if depth == 0 {
		sliceAltsBusy = map[ssa.Value]bool{}
	}
	if depth > 12 {
		return []int{0}
	}
	if _, isPhi := v.(*ssa.Phi); isPhi {
		if sliceAltsBusy[v] {
			return nil
		}
		sliceAltsBusy[v] = true
		defer delete(sliceAltsBusy, v)
	}
	switch x := v.(type) {
	case *ssa.Parameter:
		if alts, ok := env[x]; ok {
			return alts
		}
		return []int{0}
	case *ssa.Slice:
		tag := 4
		if x.Low == nil && x.High != nil {
			tag = 1
		} else if k, ok := x.Low.(*ssa.Const); ok && k.Value != nil && k.Int64() == 1 {
			tag = 2
		}
		var out []int
		for _, a := range sliceAlts(x.X, env, depth+1) {
			out = append(out, a|tag)
		}
		return uniq(out)
	case *ssa.Phi:
		var out []int
		for _, e := range x.Edges {
			if e == ssa.Value(x) {
				continue
			}
			out = append(out, sliceAlts(e, env, depth+1)...)
		}
		return uniq(out)
	case *ssa.Extract:
		if call, ok := x.Tuple.(*ssa.Call); ok {
			switch an.CalleeName(&call.Call) {
			case "strings.Cut", "strings.CutSuffix", "strings.CutPrefix":
				var out []int
				for _, a := range sliceAlts(call.Call.Args[0], env, depth+1) {
					out = append(out, a|4)
				}
				return uniq(out)
			}
		}
		return []int{0}
	case *ssa.Call:
		switch an.CalleeName(&x.Call) {
		case "strings.ToLower", "strings.TrimSpace", "strings.Clone", "strings.ToUpper":
			return sliceAlts(x.Call.Args[0], env, depth+1)
		case "strings.TrimPrefix", "strings.TrimSuffix", "strings.Trim", "strings.TrimLeft", "strings.TrimRight":
			var out []int
			for _, a := range sliceAlts(x.Call.Args[0], env, depth+1) {
				out = append(out, a, a|4)
			}
			return uniq(out)
		}
		g := an.StaticCallee(&x.Call)
		if g == nil || !an.InModule(g) || len(g.Blocks) == 0 {
			return []int{0}
		}
		sub := map[*ssa.Parameter][]int{}
		args := an.CallArgs(&x.Call)
		for i, p := range g.Params {
			if i < len(args) {
				sub[p] = sliceAlts(args[i], env, depth+1)
			}
		}
		var out []int
		for _, r := range an.Returns(g) {
			if len(r.Results) > 0 {
				out = append(out, sliceAlts(an.ReturnValue(r, 0), sub, depth+1)...)
			}
		}
		if len(out) == 0 {
			return []int{0}
		}
		return uniq(out)
	}
	return []int{0}
}

// sameRecvType: both are methods of the same (possibly generic) named type.
func sameRecvType(f, g *ssa.Function) bool {
	named := func(h *ssa.Function) *types.Named {
		if h.Signature.Recv() == nil {
			return nil
		}
		t := h.Signature.Recv().Type()
		if p, ok := t.(*types.Pointer); ok {
			t = p.Elem()
		}
		n, _ := types.Unalias(t).(*types.Named)
		if n == nil {
			return nil
		}
		return n.Origin()
	}
	a, b := named(f), named(g)
	return a != nil && a == b
}

// returnsRouterByName: a lookup of the group's routers by name — every non-nil result is an element of the
// receiver's router list.
func returnsRouterByName(g *ssa.Function) bool {
	if g.Signature.Params().Len() != 1 {
		return false
	}
	if b, ok := g.Signature.Params().At(0).Type().Underlying().(*types.Basic); !ok || b.Kind() != types.String {
		return false
	}
	n := 0
	for _, r := range an.Returns(g) {
		if len(r.Results) != 1 {
			return false
		}
		v := an.ReturnValue(r, 0)
		if an.IsNilConst(v) {
			continue
		}
		if !strings.HasPrefix(an.AP(v), "recv.routers[]") {
			return false
		}
		n++
	}
	return n > 0
}

// cutBehindDigitLoop: the cut `x[:i]` is reachable only after a loop over the text behind position i completed, and
// that loop leaves (without reaching the cut) on any byte outside '0'..'9' — the port validation written in line.
func cutBehindDigitLoop(sl *ssa.Slice) bool {
	f := sl.Parent()
	type loop struct {
		slice ssa.Value
		hb    *ssa.BasicBlock
		elems []ssa.Instruction
	}
	var loops []loop
	for _, l := range rangeLoops(f) {
		loops = append(loops, loop{l.slice, l.hdr.Block(), l.elems})
	}
	// range over a string: Range / Next, the rune is extract #2 of the Next tuple
	an.AllInstrs(f, func(in ssa.Instruction) {
		nx, ok := in.(*ssa.Next)
		if !ok || !nx.IsString {
			return
		}
		rg, ok := nx.Iter.(*ssa.Range)
		if !ok {
			return
		}
		l := loop{slice: rg.X, hb: nx.Block()}
		for _, r := range *nx.Referrers() {
			if ex, ok := r.(*ssa.Extract); ok && ex.Index == 2 {
				l.elems = append(l.elems, ex)
			}
		}
		loops = append(loops, l)
	})
	for _, l := range loops {
		src, ok := l.slice.(*ssa.Slice)
		if !ok || an.AP(src.X) != an.AP(sl.X) || src.Low == nil {
			continue
		}
		// the scanned text starts at i or i+1
		low := src.Low
		if bo, isBo := low.(*ssa.BinOp); isBo && bo.Op == token.ADD {
			low = bo.X
		}
		if low != sl.High {
			continue
		}
		hb := l.hb
		// the cut is not reachable without leaving the loop through its header
		if (&an.Query{Target: func(t ssa.Instruction) bool { return t == ssa.Instruction(sl) }, BlockEdge: func(b *ssa.BasicBlock, succ int) bool { return b == hb && succ == 1 }}).Search(an.Entry(f)) != nil {
			continue
		}
		// a byte below '0' or above '9' never reaches the cut
		okAll := len(l.elems) > 0
		for _, bad := range []struct {
			op token.Token
			k  int64
		}{{token.LSS, 48}, {token.GTR, 57}} {
			bad := bad
			found := false
			for _, e := range l.elems {
				path := (&an.Query{
					Assume: func(cond ssa.Value) (bool, bool) {
						v, neg := stripNot(cond)
						bo, ok := v.(*ssa.BinOp)
						if !ok {
							return false, false
						}
						k, isC := bo.Y.(*ssa.Const)
						if !isC || k.Value == nil {
							return false, false
						}
						if bo.Op == bad.op && k.Int64() == bad.k {
							found = true
							return !neg, true
						}
						return false, false
					},
					Target: func(t ssa.Instruction) bool { return t == ssa.Instruction(sl) },
				}).Search(an.After(e))
				if path != nil {
					okAll = false
				}
			}
			if !found {
				okAll = false
			}
		}
		if okAll {
			return true
		}
	}
	return false
}

// alwaysTrue: the constant true, or the result of a module helper every return of which is (saveVersion(...) that
// records the parameter and answers true).
func alwaysTrue(v ssa.Value, depth int) bool {
	if k, isC := v.(*ssa.Const); isC {
		return k.Value != nil && k.Value.ExactString() == "true"
	}
	call, ok := v.(*ssa.Call)
	if !ok || depth > 2 {
		return false
	}
	g := an.StaticCallee(&call.Call)
	if g == nil || !an.InModule(g) || len(g.Blocks) == 0 {
		return false
	}
	rets := an.Returns(g)
	for _, r := range rets {
		if len(r.Results) != 1 || !alwaysTrue(an.ReturnValue(r, 0), depth+1) {
			return false
		}
	}
	return len(rets) > 0
}

// ctorNormalisesByEvaluation runs the path-version constructor symbolically (symeval.go) for a generic version V0.
func ctorNormalisesByEvaluation(c *Ctx, ctor *ssa.Function) (bool, string) {
	flatten := func(e string) string {
		// ADD(ADD(CONST:"/",V0),CONST:"/") → /V0/
		for i := 0; i < 6; i++ {
			e = strings.ReplaceAll(e, `CONST:"/"`, "/")
		}
		e = strings.NewReplacer("ADD(", "", ")", "", ",", "").Replace(e)
		return e
	}
	stores := 0
	for _, lead := range []bool{true, false} {
		for _, trail := range []bool{true, false} {
			lead, trail := lead, trail
			se := &symEval{c: c}
			se.elem = func(coll string) string {
				if coll == "VLIST" {
					return "V0"
				}
				return ""
			}
			se.nonEmpty = func(coll string) bool { return coll == "VLIST" }
			se.elemAt = func(coll string, idx int64) string {
				if idx == 0 && (coll == "V0" || strings.Contains(coll, "V0")) {
					if strings.HasPrefix(coll, `ADD(CONST:"/"`) {
						return "CONST:47" // a '/' was put in front
					}
					return "FIRST"
				}
				return ""
			}
			se.truth = func(e string) int {
				b := func(v bool) int {
					if v {
						return 1
					}
					return -1
				}
				switch {
				case e == `EQ(V0,CONST:"")`:
					return -1
				case e == `NE(V0,CONST:"")`:
					return 1
				case e == "NE(FIRST,CONST:47)":
					return b(lead) // the leading '/' is missing
				case e == "EQ(FIRST,CONST:47)":
					return b(!lead)
				case strings.HasPrefix(e, "NE(ELEM(") && strings.HasSuffix(e, ",CONST:47)"):
					return b(trail) // the last byte is not '/'
				case strings.HasPrefix(e, "EQ(ELEM(") && strings.HasSuffix(e, ",CONST:47)"):
					return b(!trail)
				case e == "EQ(FUNC,NIL)":
					return -1
				case e == "NE(FUNC,NIL)":
					return 1
				}
				return 0
			}
			want := "V0"
			if lead {
				want = "/" + want
			}
			if trail {
				want += "/"
			}
			st := &sstate{env: map[ssa.Value]sval{}, heap: map[string]sval{}}
			for _, r := range se.run(ctor, []sval{sv("PARAM"), sv("VLIST")}, nil, st, 0) {
				if r.pan {
					continue
				}
				for _, eff := range r.st.effects {
					if !strings.HasPrefix(eff, "STORE ") || !strings.Contains(eff, "V0") {
						continue
					}
					val := eff[strings.Index(eff, " = ")+3:]
					stores++
					if got := flatten(val); got != want {
						return false, fmt.Sprintf("with the leading '/' %s and the trailing '/' %s the version is stored as %s, expected %s", ifelse(lead, "missing", "present"), ifelse(trail, "missing", "present"), got, want)
					}
				}
			}
		}
	}
	if stores == 0 {
		return false, "no store of a version was seen on any evaluated path"
	}
	return true, fmt.Sprintf("%d stores in four cases, each the version with exactly the missing slashes added", stores)
}
