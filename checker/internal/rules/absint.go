package rules

import (
	"fmt"
	"go/token"
	"go/types"
	"sort"
	"strings"

	"golang.org/x/tools/go/ssa"

	"muxlint/internal/an"
)

// A small abstract interpreter for the Params accessors (C20.R1). The accessors are loop-free compositions of one
// map lookup, one strconv call and a default; whatever helpers, generic functions or function values they are
// written with, their result in each scenario (map nil? key found? parse error nil?) is one of a handful of atoms:
//
//	V        the captured text              FOUND    the comma-ok flag of the lookup
//	DEF      the caller's default           PVAL:f   the value  strconv.f(V, …) returned
//	NIL                                      PERR:f   the error  strconv.f(V, …) returned
//	ENOTEXIST  ErrParamNotExists()          CONST:c  a constant
//
// The interpreter walks every path of the accessor (callees of the module are entered, function values are
// followed), decides branches on atoms from the scenario and reports the set of result tuples.
type aval struct {
	k     string // atom name, or "TUPLE", "FUNC", "CELL", "UNK"
	tuple []aval
	fn    *ssa.Function
	free  []aval
	cell  *acell
}

type acell struct{ v aval }

func (a aval) String() string {
	switch a.k {
	case "TUPLE":
		var p []string
		for _, x := range a.tuple {
			p = append(p, x.String())
		}
		return "(" + strings.Join(p, ", ") + ")"
	case "FUNC":
		return "FUNC:" + an.FuncKey(a.fn)
	}
	return a.k
}

type scenario struct{ mapNil, found, errNil bool }

func (s scenario) String() string {
	return fmt.Sprintf("map nil=%v, found=%v, parse error nil=%v", s.mapNil, s.found, s.errNil)
}

type absInterp struct {
	c     *Ctx
	sc    scenario
	ctxT  *types.Named
	steps int
}

func unk(why string) aval { return aval{k: "UNK:" + why} }

func (ai *absInterp) constVal(k *ssa.Const) aval {
	if k.Value == nil {
		// the zero value of a type parameter (var zero T) is a zero, not a nil
		switch types.Unalias(k.Type()).(type) {
		case *types.TypeParam:
			return aval{k: "ZERO"}
		}
		if _, isBasic := k.Type().Underlying().(*types.Basic); isBasic {
			return aval{k: "ZERO"}
		}
		return aval{k: "NIL"}
	}
	return aval{k: "CONST:" + k.Value.ExactString()}
}

type aframe struct {
	env map[ssa.Value]aval
}

// run evaluates f on the arguments and returns the distinct result tuples (rendered) of all feasible paths.
func (ai *absInterp) run(f *ssa.Function, args []aval, free []aval, depth int) []aval {
	if depth > 6 || len(f.Blocks) == 0 {
		return []aval{unk("depth")}
	}
	var results []aval
	seen := map[string]bool{}
	type state struct {
		b     *ssa.BasicBlock
		pred  *ssa.BasicBlock
		env   map[ssa.Value]aval
		visit map[*ssa.BasicBlock]int
	}
	start := state{b: f.Blocks[0], env: map[ssa.Value]aval{}, visit: map[*ssa.BasicBlock]int{}}
	for i, p := range f.Params {
		if i < len(args) {
			start.env[p] = args[i]
		} else {
			start.env[p] = unk("param")
		}
	}
	for i, fv := range f.FreeVars {
		if i < len(free) {
			start.env[fv] = free[i]
		} else {
			start.env[fv] = unk("free")
		}
	}
	stack := []state{start}
	add := func(v aval) {
		if !seen[v.String()] {
			seen[v.String()] = true
			results = append(results, v)
		}
	}
	for len(stack) > 0 {
		st := stack[len(stack)-1]
		stack = stack[:len(stack)-1]
		ai.steps++
		if ai.steps > 20000 {
			return []aval{unk("budget")}
		}
		if st.visit[st.b] >= 2 {
			add(unk("loop"))
			continue
		}
		visit := map[*ssa.BasicBlock]int{}
		for k, v := range st.visit {
			visit[k] = v
		}
		visit[st.b]++
		// a block may fork (a callee with several outcomes): process instructions over a work list of environments
		envs := []map[ssa.Value]aval{st.env}
		var term ssa.Instruction
		for _, in := range st.b.Instrs {
			var next []map[ssa.Value]aval
			for _, env := range envs {
				switch x := in.(type) {
				case *ssa.If, *ssa.Jump, *ssa.Return, *ssa.Panic:
					term = in
					next = append(next, env)
				case *ssa.Phi:
					v := unk("phi")
					for i, p := range st.b.Preds {
						if p == st.pred {
							v = ai.val(x.Edges[i], env)
						}
					}
					env[x] = v
					next = append(next, env)
				case *ssa.Call:
					outs := ai.call(&x.Call, env, depth)
					for i, o := range outs {
						e := env
						if i > 0 || len(outs) > 1 {
							e = cloneEnv(env)
						}
						e[x] = o
						next = append(next, e)
					}
				case *ssa.Store:
					if c := ai.val(x.Addr, env); c.k == "CELL" {
						c.cell.v = ai.val(x.Val, env)
					}
					next = append(next, env)
				case ssa.Value:
					env[x] = ai.instr(x, env)
					next = append(next, env)
				default:
					next = append(next, env)
				}
			}
			envs = next
		}
		for _, env := range envs {
			switch t := term.(type) {
			case *ssa.Return:
				var tup []aval
				for _, r := range t.Results {
					tup = append(tup, ai.final(ai.val(r, env)))
				}
				if len(tup) == 1 {
					add(tup[0])
				} else {
					add(aval{k: "TUPLE", tuple: tup})
				}
			case *ssa.Panic:
				add(aval{k: "PANIC"})
			case *ssa.Jump:
				stack = append(stack, state{b: st.b.Succs[0], pred: st.b, env: cloneEnv(env), visit: visit})
			case *ssa.If:
				cv := ai.truth(ai.val(t.Cond, env))
				if cv != 0 { // known
					idx := 0
					if cv < 0 {
						idx = 1
					}
					stack = append(stack, state{b: st.b.Succs[idx], pred: st.b, env: cloneEnv(env), visit: visit})
				} else {
					stack = append(stack, state{b: st.b.Succs[0], pred: st.b, env: cloneEnv(env), visit: visit})
					stack = append(stack, state{b: st.b.Succs[1], pred: st.b, env: cloneEnv(env), visit: visit})
				}
			}
		}
	}
	sort.Slice(results, func(i, j int) bool { return results[i].String() < results[j].String() })
	return results
}

func cloneEnv(env map[ssa.Value]aval) map[ssa.Value]aval {
	n := make(map[ssa.Value]aval, len(env))
	for k, v := range env {
		if v.k == "CELL" {
			v = aval{k: "CELL", cell: &acell{v: v.cell.v}}
		}
		n[k] = v
	}
	return n
}

// truth: +1 true, -1 false, 0 unknown
func (ai *absInterp) truth(v aval) int {
	switch v.k {
	case "CONST:true":
		return 1
	case "CONST:false":
		return -1
	case "FOUND":
		if ai.sc.found {
			return 1
		}
		return -1
	}
	return 0
}

// final replaces scenario-decided atoms in a result.
func (ai *absInterp) final(v aval) aval {
	if strings.HasPrefix(v.k, "PERR:") && ai.sc.errNil {
		return aval{k: "NIL"} // in this scenario the parse error is nil
	}
	if v.k == "FOUND" {
		if ai.sc.found {
			return aval{k: "CONST:true"}
		}
		return aval{k: "CONST:false"}
	}
	if v.k == "TUPLE" {
		var t []aval
		for _, x := range v.tuple {
			t = append(t, ai.final(x))
		}
		return aval{k: "TUPLE", tuple: t}
	}
	return v
}

func (ai *absInterp) val(v ssa.Value, env map[ssa.Value]aval) aval {
	if a, ok := env[v]; ok {
		return a
	}
	switch x := v.(type) {
	case *ssa.Const:
		return ai.constVal(x)
	case *ssa.Function:
		return aval{k: "FUNC", fn: an.Origin(x)}
	case *ssa.Global:
		return unk("global:" + x.Name())
	}
	return unk("value")
}

func (ai *absInterp) instr(x ssa.Value, env map[ssa.Value]aval) aval {
	switch i := x.(type) {
	case *ssa.Alloc:
		return aval{k: "CELL", cell: &acell{v: unk("uninit")}}
	case *ssa.FieldAddr:
		base := ai.val(i.X, env)
		if base.k == "RECV" {
			return aval{k: "ADDR:" + an.FieldName(i.X.Type(), i.Field)}
		}
		return unk("fieldaddr")
	case *ssa.UnOp:
		switch i.Op {
		case token.MUL:
			a := ai.val(i.X, env)
			switch {
			case a.k == "CELL":
				return a.cell.v
			case a.k == "ADDR:params":
				return aval{k: "MAP"}
			case strings.HasPrefix(a.k, "ADDR:"):
				return unk("field:" + a.k[5:])
			}
			return unk("load")
		case token.NOT:
			switch ai.truth(ai.val(i.X, env)) {
			case 1:
				return aval{k: "CONST:false"}
			case -1:
				return aval{k: "CONST:true"}
			}
			return unk("not")
		}
		return unk("unop")
	case *ssa.Lookup:
		m, k := ai.val(i.X, env), ai.val(i.Index, env)
		if m.k != "MAP" || k.k != "KEY" {
			return unk("lookup")
		}
		val := aval{k: "V"}
		if !ai.sc.found || ai.sc.mapNil {
			val = aval{k: `CONST:""`}
		}
		if i.CommaOk {
			return aval{k: "TUPLE", tuple: []aval{val, {k: "FOUND"}}}
		}
		return val
	case *ssa.Extract:
		t := ai.val(i.Tuple, env)
		if t.k == "TUPLE" && i.Index < len(t.tuple) {
			return t.tuple[i.Index]
		}
		return unk("extract")
	case *ssa.MakeClosure:
		fn, _ := i.Fn.(*ssa.Function)
		var free []aval
		for _, b := range i.Bindings {
			free = append(free, ai.val(b, env))
		}
		return aval{k: "FUNC", fn: an.Origin(fn), free: free}
	case *ssa.Convert:
		return ai.val(i.X, env)
	case *ssa.ChangeType:
		return ai.val(i.X, env)
	case *ssa.MakeInterface:
		return ai.val(i.X, env)
	case *ssa.ChangeInterface:
		return ai.val(i.X, env)
	case *ssa.TypeAssert:
		return ai.val(i.X, env)
	case *ssa.BinOp:
		a, b := ai.val(i.X, env), ai.val(i.Y, env)
		if i.Op != token.EQL && i.Op != token.NEQ {
			return unk("binop")
		}
		eq := 0 // +1 equal, -1 different
		isNil := func(v aval) bool { return v.k == "NIL" }
		pair := func(x, y aval) int {
			switch {
			case isNil(y) && strings.HasPrefix(x.k, "PERR:"):
				if ai.sc.errNil {
					return 1
				}
				return -1
			case isNil(y) && x.k == "MAP":
				if ai.sc.mapNil {
					return 1
				}
				return -1
			case isNil(y) && x.k == "ENOTEXIST":
				return -1
			case isNil(y) && isNil(x):
				return 1
			case isNil(y) && x.k == "FUNC":
				return -1
			case strings.HasPrefix(x.k, "CONST:") && strings.HasPrefix(y.k, "CONST:"):
				if x.k == y.k {
					return 1
				}
				return -1
			}
			return 0
		}
		if eq = pair(a, b); eq == 0 {
			eq = pair(b, a)
		}
		if eq == 0 {
			return unk("cmp")
		}
		if (eq > 0) == (i.Op == token.EQL) {
			return aval{k: "CONST:true"}
		}
		return aval{k: "CONST:false"}
	}
	return unk(fmt.Sprintf("%T", x))
}

var strconvParsers = map[string]bool{"strconv.ParseInt": true, "strconv.ParseUint": true, "strconv.ParseBool": true, "strconv.ParseFloat": true, "strconv.Atoi": true}

func (ai *absInterp) call(call *ssa.CallCommon, env map[ssa.Value]aval, depth int) []aval {
	name := an.CalleeName(call)
	if b, ok := call.Value.(*ssa.Builtin); ok {
		if b.Name() == "len" {
			return []aval{{k: "LEN"}}
		}
		return []aval{unk("builtin:" + b.Name())}
	}
	var args []aval
	for _, a := range an.CallArgs(call) {
		args = append(args, ai.val(a, env))
	}
	if strconvParsers[name] {
		if len(args) == 0 || args[0].k != "V" {
			return []aval{unk("parse-of-something-else")}
		}
		var extra []string
		for _, a := range args[1:] {
			extra = append(extra, strings.TrimPrefix(a.k, "CONST:"))
		}
		id := name + "(" + strings.Join(extra, ",") + ")"
		return []aval{{k: "TUPLE", tuple: []aval{{k: "PVAL:" + id}, {k: "PERR:" + id}}}}
	}
	if name == "types.ErrParamNotExists" {
		return []aval{{k: "ENOTEXIST"}}
	}
	var callee *ssa.Function
	var free []aval
	if g := an.StaticCallee(call); g != nil {
		callee = g
	} else if !call.IsInvoke() {
		fv := ai.val(call.Value, env)
		if fv.k == "FUNC" {
			callee, free = fv.fn, fv.free
		}
	}
	if callee == nil {
		return []aval{unk("call:" + name)}
	}
	if !an.InModule(callee) {
		// a standard-library function handed in as a value (strconv.ParseBool passed as the parser)
		n := an.FuncKey(callee)
		if strconvParsers[n] && len(args) > 0 && args[0].k == "V" {
			var extra []string
			for _, a := range args[1:] {
				extra = append(extra, strings.TrimPrefix(a.k, "CONST:"))
			}
			id := n + "(" + strings.Join(extra, ",") + ")"
			return []aval{{k: "TUPLE", tuple: []aval{{k: "PVAL:" + id}, {k: "PERR:" + id}}}}
		}
		return []aval{unk("call:" + n)}
	}
	return ai.run(callee, args, free, depth+1)
}

// accessorOutcomes: the result tuples of the accessor in the scenario.
func accessorOutcomes(c *Ctx, f *ssa.Function, sc scenario) []string {
	ai := &absInterp{c: c, sc: sc, ctxT: c.A.ContextT}
	var args []aval
	for i, p := range f.Params {
		switch {
		case i == 0 && f.Signature.Recv() != nil:
			args = append(args, aval{k: "RECV"})
		case p.Name() == "key" || (i == 1 && isStringType(p.Type())):
			args = append(args, aval{k: "KEY"})
		default:
			args = append(args, aval{k: "DEF"})
		}
	}
	var out []string
	for _, r := range ai.run(f, args, nil, 0) {
		out = append(out, r.String())
	}
	return out
}

func isStringType(t types.Type) bool {
	b, ok := t.Underlying().(*types.Basic)
	return ok && b.Kind() == types.String
}
