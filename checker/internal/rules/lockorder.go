package rules

import (
	"fmt"
	"sort"
	"strings"

	"golang.org/x/tools/go/ssa"

	"muxlint/internal/an"
)

// lockIdentity is one mutex of the module: a package-level mutex ("global:pkg.name") or a mutex-typed field
// ("field:name", all instances of the field are one identity — the order rule is about classes of locks).
type lockIdentity struct {
	id string
	la *LockAnalysis
}

func lockIdentityOf(ap string) string {
	if strings.HasPrefix(ap, "global:") {
		return ap
	}
	if i := strings.LastIndexByte(ap, '.'); i >= 0 && i+1 < len(ap) {
		return "field:" + ap[i+1:]
	}
	return ""
}

func isAcquireName(name string) bool {
	switch name {
	case "sync.(*RWMutex).Lock", "sync.(*Mutex).Lock", "sync.(*RWMutex).RLock":
		return true
	}
	return false
}

// moduleLocks discovers every lock identity acquired anywhere in the library and builds the per-lock state.
func moduleLocks(c *Ctx, rule string) []lockIdentity {
	ids := map[string]bool{}
	for _, f := range c.libFuncs() {
		an.AllInstrs(f, func(in ssa.Instruction) {
			call := an.CallOf(in)
			if call == nil || !isAcquireName(an.CalleeName(call)) || len(call.Args) == 0 {
				return
			}
			if id := lockIdentityOf(an.AP(call.Args[0])); id != "" {
				ids[id] = true
			} else {
				c.R.Add(rule, c.fk(f), "lock-identity", c.pos(in), false, "acquires a mutex the analysis cannot name ("+an.AP(call.Args[0])+"): its place in the lock order is unknown")
			}
		})
	}
	var names []string
	for id := range ids {
		names = append(names, id)
	}
	sort.Strings(names)
	var out []lockIdentity
	for _, id := range names {
		id := id
		isLock := func(ap string) bool { return lockIdentityOf(ap) == id }
		out = append(out, lockIdentity{id, NewLockAnalysis(c, id, isLock, func(*ssa.Function) []lockAccess { return nil })})
	}
	return out
}

// acquiresLocally: f itself contains a (non-deferred) acquisition of the lock.
func (la *LockAnalysis) acquiresLocally(f *ssa.Function) (string, bool) {
	where := ""
	an.AllInstrs(f, func(in ssa.Instruction) {
		if op, deferred, ok := la.lockCall(in); ok && !deferred && (op == "Lock" || op == "RLock") && where == "" {
			where = la.c.pos(in)
		}
	})
	return where, where != ""
}

// ruleLockOrder is C06.R3: the "acquired while held" relation between the module's locks has no cycle, so
// no two goroutines can wait for each other's lock.
func ruleLockOrder(c *Ctx, rule string) {
	c.R.Rule(c.R.Property+"."+rule, 1, "no deadlock between the module's locks: the acquired-while-held relation is acyclic")
	locks := moduleLocks(c, rule)
	var names []string
	for _, l := range locks {
		names = append(names, l.id)
	}
	c.R.Anchor("moduleLocks", strings.Join(names, ", "))
	g := an.NewGraph(c.P)
	type edge struct {
		from, to string
		at, how  string
	}
	var edges []edge
	for _, a := range locks {
		for _, f := range c.libFuncs() {
			an.AllInstrs(f, func(in ssa.Instruction) {
				if a.la.state[f][in] == lockNone {
					return
				}
				for _, b := range locks {
					if b.id == a.id {
						continue
					}
					if op, deferred, ok := b.la.lockCall(in); ok && !deferred && (op == "Lock" || op == "RLock") {
						edges = append(edges, edge{a.id, b.id, c.pos(in), c.fk(f)})
						continue
					}
					for _, callee := range callTargets(in) {
						var reach []*ssa.Function
						for h := range g.Reach([]*ssa.Function{callee}, nil) {
							reach = append(reach, h)
						}
						sort.Slice(reach, func(i, j int) bool { return an.FuncKey(reach[i]) < an.FuncKey(reach[j]) })
						for _, h := range reach {
							if where, ok := b.la.acquiresLocally(h); ok {
								edges = append(edges, edge{a.id, b.id, c.pos(in), c.fk(f) + " → " + an.FuncKey(h) + " (" + where + ")"})
								break
							}
						}
					}
				}
			})
		}
	}
	// adjacency and reachability over the (tiny) lock graph
	adj := map[string]map[string]bool{}
	for _, e := range edges {
		if adj[e.from] == nil {
			adj[e.from] = map[string]bool{}
		}
		adj[e.from][e.to] = true
	}
	reaches := func(from, to string) bool {
		seen := map[string]bool{}
		var dfs func(x string) bool
		dfs = func(x string) bool {
			if x == to {
				return true
			}
			if seen[x] {
				return false
			}
			seen[x] = true
			for y := range adj[x] {
				if dfs(y) {
					return true
				}
			}
			return false
		}
		for y := range adj[from] {
			if dfs(y) {
				return true
			}
		}
		return false
	}
	seenPair := map[string]bool{}
	for _, e := range edges {
		k := e.from + "→" + e.to
		cyc := reaches(e.to, e.from)
		if seenPair[k] && !cyc {
			continue
		}
		seenPair[k] = true
		fn := e.how
		if i := strings.Index(fn, " → "); i >= 0 {
			fn = fn[:i]
		}
		o := c.R.Add(rule, fn, fmt.Sprintf("order:%s→%s", e.from, e.to), e.at, !cyc, ifelse(!cyc, e.to+" is acquired while "+e.from+" is held; never the other way round", e.to+" is acquired while "+e.from+" is held here, and elsewhere "+e.from+" is acquired while "+e.to+" is held: two goroutines can block each other for ever"))
		if cyc {
			o.Path = e.how
		}
	}
	if len(edges) == 0 {
		c.R.Add(rule, "module", "order:none", "-", true, fmt.Sprintf("%d locks, none acquired while another is held", len(locks)))
	}
}

// rulePackageMutexPairing is C07.R2c: every acquisition of a package-level mutex is released on every path and
// never re-acquired while held (one leaked acquisition blocks every router of the process).
func rulePackageMutexPairing(c *Ctx, rule string) {
	c.R.Rule(c.R.Property+"."+rule, 2, "package-level mutexes are released on every path and never re-acquired while held")
	var entries []*ssa.Function
	for _, f := range c.libFuncs() {
		if f.Parent() == nil && (isEntryPoint(f) || !hasModuleCaller(c, f)) {
			entries = append(entries, f)
		}
	}
	n := 0
	for _, l := range moduleLocks(c, rule) {
		if !strings.HasPrefix(l.id, "global:") {
			continue
		}
		n++
		l.la.CheckPairing(rule, entries)
	}
	if n == 0 {
		c.R.Add(rule, "module", "no-package-mutex", "-", true, "the module has no package-level mutex")
	}
}
